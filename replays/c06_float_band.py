"""native demonstration of known finding F31 (C06): normal() of slanted polygons returns NaN at boundary points
produced by the library's own boundary samplers (float32 rounding leaves the isclose(atol=1e-8) band of the edge tests).
exit 1 = reproduced on the real code; exit 0 = not reproduced."""
import sys, warnings
warnings.filterwarnings("ignore")
import torch
import torchphysics as tp

torch.manual_seed(0)
X = tp.spaces.R2("x")
o, c1, c2 = [0.3, 0.1], [1.7, 0.9], [0.2, 1.3]
bad_total = 0
for name, dom in (("triangle", tp.domains.Triangle(X, o, c1, c2)), ("parallelogram", tp.domains.Parallelogram(X, o, c1, c2))):
    b = dom.boundary
    # the point of the verifier's instance: origin + 0.3 (corner_1 - origin), stored in float32
    p = tp.spaces.Points(torch.tensor([[0.72, 0.34]]), X)
    n = b.normal(p)
    print(name, "normal at float32(0.72, 0.34):", n.tolist())
    for meth in ("sample_random_uniform", "sample_grid"):
        pts = getattr(b, meth)(n=2000)
        nn = b.normal(pts)
        bad = int(torch.isnan(nn).any(dim=1).sum())
        print(name, meth, "NaN normals:", bad, "of", len(pts))
        bad_total += bad
sys.exit(1 if bad_total else 0)
