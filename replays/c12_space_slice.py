"""native replay for C12 space_subspace_slicing_equality: every name slice of the REAL Space against list slicing."""
import sys, warnings
warnings.filterwarnings("ignore")
from torchphysics.problem.spaces import Rn

sp = Rn("x", 2) * Rn("y", 3) * Rn("z", 1)
names = ["x", "y", "z"]
bad = 0
for a in [None] + names:
    for b in [None] + names:
        for st in (None, 1, 2, -1, -2):
            want = names[slice(None if a is None else names.index(a), None if b is None else names.index(b), st)]
            try:
                got = list(sp[slice(a, b, st)].keys())
            except Exception as e:
                got = f"{type(e).__name__}"
            if got != want:
                print("slice", a, b, st, "->", got, "expected", want)
                bad += 1
sys.exit(1 if bad else 0)
