"""replay for C16 / DeepONetDataset_Unique: does one pass over the data set (sizes taken from the verifier's
counter-model) present EVERY (function, location) pair with intact pairing?  exit 1 = property violated on the real code."""
import json, sys, warnings
warnings.filterwarnings("ignore")
import torch
from torchphysics.problem.spaces import R1, R2
from torchphysics.utils.data.deeponet_dataloader import DeepONetDataset_Unique

inp = json.loads(sys.argv[1])
Nb, Nt, bb, bt, i, j = (int(inp[k]) for k in ("Nb", "Nt", "bb", "bt", "i", "j"))
if Nb * Nt > 4_000_000:
    print("sizes too large to replay"); sys.exit(0)
B = torch.arange(Nb, dtype=torch.float32).reshape(Nb, 1, 1).repeat(1, 3, 1)
T = torch.stack([torch.arange(Nb, dtype=torch.float32)[:, None].repeat(1, Nt), torch.arange(Nt, dtype=torch.float32)[None, :].repeat(Nb, 1)], dim=-1)
O = (torch.arange(Nb, dtype=torch.float32)[:, None] * Nt + torch.arange(Nt, dtype=torch.float32)[None, :]).unsqueeze(-1)
ds = DeepONetDataset_Unique(B, T, O, R1("f"), R2("x"), R1("u"), bb, bt, shuffle_branch=False, shuffle_trunk=False)
seen_pairs, bad_pair, too_big = set(), None, None
for idx in range(len(ds)):
    pb, pt, po = ds[idx]
    b, t, o = pb.as_tensor, pt.as_tensor, po.as_tensor
    if b.shape[0] > bb or t.shape[1] > bt:
        too_big = (idx, tuple(b.shape), tuple(t.shape))
    fi = b[:, 0, 0].long()
    for r in range(b.shape[0]):
        for s in range(t.shape[1]):
            ii, jj = int(fi[r]), int(t[r, s, 1])
            if int(t[r, s, 0]) != ii or int(o[r, s, 0]) != ii * Nt + jj:
                bad_pair = (idx, r, s)
            seen_pairs.add((ii, jj))
missing = [(a, b) for a in range(Nb) for b in range(Nt) if (a, b) not in seen_pairs]
print(f"Nb={Nb} Nt={Nt} bb={bb} bt={bt}: len={len(ds)} pairs never presented in one pass: {len(missing)} (first {missing[:3]}) bad_pairing={bad_pair} too_big={too_big}")
sys.exit(1 if (missing or bad_pair or too_big) else 0)
