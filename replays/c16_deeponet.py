"""replay for C16 / DeepONetDataset: does one pass present EVERY (function, location) pair, with intact
pairing and batches not larger than requested?  exit 1 = violated on the real code."""
import json, sys, warnings
warnings.filterwarnings("ignore")
import torch
from torchphysics.problem.spaces import R1
from torchphysics.utils.data.deeponet_dataloader import DeepONetDataset

inp = json.loads(sys.argv[1])
Nb, Nt, bb, bt = (int(inp[k]) for k in ("Nb", "Nt", "bb", "bt"))
if Nb * Nt > 2_000_000:
    print("sizes too large to replay"); sys.exit(0)
B = torch.arange(Nb, dtype=torch.float32).reshape(Nb, 1, 1).repeat(1, 3, 1)
T = torch.arange(Nt, dtype=torch.float32).reshape(Nt, 1)
O = (torch.arange(Nb, dtype=torch.float32)[:, None] * Nt + torch.arange(Nt, dtype=torch.float32)[None, :]).unsqueeze(-1)
ds = DeepONetDataset(B, T, O, R1("f"), R1("x"), R1("u"), bb, bt, shuffle_branch=False, shuffle_trunk=False)
seen, bad = set(), None
for idx in range(len(ds)):
    pb, pt, po = ds[idx]
    b, t, o = pb.as_tensor, pt.as_tensor, po.as_tensor
    for r in range(b.shape[0]):
        for s in range(t.shape[0]):
            ii, jj = int(b[r, 0, 0]), int(t[s, 0])
            if int(o[r, s, 0]) != ii * Nt + jj:
                bad = (idx, r, s)
            seen.add((ii, jj))
missing = [(a, c) for a in range(Nb) for c in range(Nt) if (a, c) not in seen]
print(f"DeepONetDataset Nb={Nb} Nt={Nt} bb={bb} bt={bt}: len={len(ds)}; pairs never presented in one pass: {len(missing)} of {Nb*Nt} (first {missing[:3]}); bad_pairing={bad}")
sys.exit(1 if (missing or bad) else 0)
