"""native replay for primitive-domain obligations: builds the REAL domain with the shape values of the verifier's
counter-model (as constant shapes) and re-checks the violated clause numerically against an independent oracle.
exit 1 = the real code violates the clause for this input; exit 0 = not reproduced."""
import json, math, sys, warnings
warnings.filterwarnings("ignore")
import torch
import torchphysics as tp
from torchphysics.problem.spaces import Points, R1, R2, R3

inp = json.loads(sys.argv[1])
prim, kind, sh = inp["prim"], inp["kind"], inp["shapes"]
TOL = 1e-4


def build():
    if prim == "interval":
        return tp.domains.Interval(R1("x"), sh["lower_bound"][0], sh["upper_bound"][0]), 1
    if prim == "circle":
        return tp.domains.Circle(R2("x"), sh["center"], sh["radius"][0]), 2
    if prim == "sphere":
        return tp.domains.Sphere(R3("x"), sh["center"], sh["radius"][0]), 3
    if prim == "parallelogram":
        return tp.domains.Parallelogram(R2("x"), sh["origin"], sh["corner_1"], sh["corner_2"]), 2
    if prim == "triangle":
        return tp.domains.Triangle(R2("x"), sh["origin"], sh["corner_1"], sh["corner_2"]), 2
    if prim == "point":
        return tp.domains.Point(R2("x"), sh["point"]), 2
    raise SystemExit(0)


def cross(a, b):
    return a[0] * b[1] - a[1] * b[0]


def inset(x, margin=0.0):
    """+1 inside by more than margin, -1 outside by more than margin, 0 within the margin band"""
    if prim == "interval":
        lo, hi = sh["lower_bound"][0], sh["upper_bound"][0]
        d = min(x[0] - lo, hi - x[0])
    elif prim in ("circle", "sphere"):
        d = sh["radius"][0] - math.sqrt(sum((a - c) ** 2 for a, c in zip(x, sh["center"])))
    elif prim in ("parallelogram", "triangle"):
        o = sh["origin"]; d1 = [a - b for a, b in zip(sh["corner_1"], o)]; d2 = [a - b for a, b in zip(sh["corner_2"], o)]
        p = [a - b for a, b in zip(x, o)]
        D = cross(d1, d2)
        u, v = cross(p, d2) / D, cross(d1, p) / D
        d = min(u, v, 1 - u, 1 - v) if prim == "parallelogram" else min(u, v, 1 - u - v)
    else:
        d = -max(abs(a - b) for a, b in zip(x, sh["point"]))
    return 1 if d > margin else (-1 if d < -margin else 0)


def meas():
    if prim == "interval":
        return sh["upper_bound"][0] - sh["lower_bound"][0]
    if prim == "circle":
        return math.pi * sh["radius"][0] ** 2
    if prim == "sphere":
        return 4 / 3 * math.pi * sh["radius"][0] ** 3
    o = sh["origin"]; d1 = [a - b for a, b in zip(sh["corner_1"], o)]; d2 = [a - b for a, b in zip(sh["corner_2"], o)]
    return abs(cross(d1, d2)) * (1.0 if prim == "parallelogram" else 0.5)


dom, dim = build()
bad = None
if kind == "contains":
    x = inp["x"]
    got = bool(dom._contains(Points(torch.tensor([x], dtype=torch.float32), dom.space))[0])
    want = inset(x, 1e-3)
    if want != 0 and got != (want > 0):
        bad = f"_contains({x}) = {got} but the point is {'inside' if want > 0 else 'outside'} the {prim} {sh}"
elif kind == "volume":
    got = float(dom.volume().flatten()[0])
    if abs(got - meas()) > TOL * max(1.0, abs(meas())):
        bad = f"volume() = {got}, analytic measure = {meas()} for {prim} {sh}"
elif kind == "bbox":
    box = dom.bounding_box().flatten().tolist()
    pts = dom.sample_random_uniform(n=2000).as_tensor
    for i in range(dim):
        if float(pts[:, i].min()) < box[2 * i] - TOL or float(pts[:, i].max()) > box[2 * i + 1] + TOL:
            bad = f"bounding_box() = {box} does not enclose sampled points of {prim} {sh} on axis {i}"
elif kind in ("sample_random_uniform", "sample_grid"):
    n = int(inp.get("n", 50))
    for _ in range(20 if kind == "sample_random_uniform" else 1):
        pts = getattr(dom, kind)(n=max(n, 1)).as_tensor.tolist()
        out = [p for p in pts if inset(p, 1e-3) < 0]
        if out:
            bad = f"{kind}(n={n}) returned {out[0]} which lies outside the {prim} {sh}"
            break
        if len(pts) != max(n, 1):
            bad = f"{kind}(n={n}) returned {len(pts)} rows"
            break
elif kind == "density":
    d = float(inp["density"])
    rows = len(dom.sample_random_uniform(d=d).as_tensor)
    want = math.ceil(d * meas() - 1e-9)
    ok = rows <= 2 * want if prim == "triangle" else rows == want
    if not ok:
        bad = f"sample_random_uniform(d={d}) returned {rows} rows, ceil(d * measure) = {want} for {prim} {sh}"
if bad:
    print("REPRODUCED:", bad)
    sys.exit(1)
print("not reproduced with", json.dumps(inp)[:300])
sys.exit(0)
