"""native run-time contract check of the looping samplers / full-data-set conditions on ENUMERATED instances.

Used by ./check as the BOUNDED stand-in for a loop whose inductive contract no longer fits the source ('loop
restructured', UNDECIDED): it can only turn that UNDECIDED into a VIOLATION with a concrete failing input, never into
'held'.  (Also run in the thorough tier on every tree, where it has to pass.)  Oracles are closed-form set definitions
and the defining formula of the loss, written here independently of the library.

usage: loop_fallback.py '{"prop": "C01"|"C02"|"C04"|"C16", "only": [optional case-name prefixes]}'
exit 0: every instance satisfies the property's clauses; exit 1: a failing instance was found (printed as JSON lines)"""
import json, math, sys
import torch
import torchphysics as tp
from torchphysics.problem.spaces import Points

TOL = 1e-4
arg = json.loads(sys.argv[1]) if len(sys.argv) > 1 else {}
PROP = arg.get("prop", "C02")
ONLY = arg.get("only")
fails = []


def fail(case, clause, props, detail):
    if PROP in props:
        fails.append({"case": case, "clause": clause, "detail": detail})


X, R, T, D = tp.spaces.R2("x"), tp.spaces.R1("r"), tp.spaces.R1("t"), tp.spaces.R1("D")


def in_sq(p, tol):
    return (p[:, 0] >= -tol) & (p[:, 0] <= 1 + tol) & (p[:, 1] >= -tol) & (p[:, 1] <= 1 + tol)


def on_sq(p, tol):
    d = torch.minimum(torch.minimum(p[:, 0].abs(), (p[:, 0] - 1).abs()), torch.minimum(p[:, 1].abs(), (p[:, 1] - 1).abs()))
    return in_sq(p, tol) & (d <= tol)


def dist(p):
    return torch.sqrt(p[:, 0] ** 2 + p[:, 1] ** 2)


ORACLE = {
    ("cut", "inside"): lambda p, r: in_sq(p, TOL) & (dist(p) >= r - TOL),
    ("intersection", "inside"): lambda p, r: in_sq(p, TOL) & (dist(p) <= r + TOL),
    ("union", "inside"): lambda p, r: in_sq(p, TOL) | (dist(p) <= r + TOL),
    ("cut", "boundary"): lambda p, r: (on_sq(p, TOL) & (dist(p) >= r - TOL)) | (((dist(p) - r).abs() <= TOL) & in_sq(p, TOL)),
    ("intersection", "boundary"): lambda p, r: (on_sq(p, TOL) & (dist(p) <= r + TOL)) | (((dist(p) - r).abs() <= TOL) & in_sq(p, TOL)),
    ("union", "boundary"): lambda p, r: (on_sq(p, TOL) & (dist(p) >= r - TOL)) | (((dist(p) - r).abs() <= TOL) & ~in_sq(p, -TOL)),
}


def build(op, radius):
    A = tp.domains.Parallelogram(X, [0, 0], [1, 0], [0, 1])
    B = tp.domains.Circle(X, [0, 0], radius)
    return {"cut": A - B, "intersection": A & B, "union": A + B}[op]


RS = [0.3, 0.55, 0.8]


def check_block(case, pts, n, rows, oracle):
    """pts: tensor (N, 2); rows: list of parameter values (or [const] when there are no parameter rows)"""
    k = len(rows)
    if pts.shape[0] != n * k:
        fail(case, "exactly n rows per parameter row", ("C02",), f"{pts.shape[0]} rows returned, expected {n}*{k}")
        return
    r = torch.tensor(rows, dtype=pts.dtype).repeat_interleave(n)
    ok = oracle(pts, r)
    if not bool(ok.all()):
        i = int((~ok).nonzero()[0])
        fail(case, "every row lies in the set denoted at its own parameter row", ("C01", "C02"),
             f"{int((~ok).sum())} of {len(ok)} rows; row {i} = {pts[i].tolist()} paired with r = {float(r[i])}")


def wanted(case):
    return not ONLY or any(case.startswith(o) for o in ONLY)


def domain_cases():
    for op in ("cut", "intersection", "union"):
        for where in ("inside", "boundary"):
            for K in (0, 1, 3):
                for n in (1, 2, 7, 25):
                    for method in ("random", "grid"):
                        case = f"domain/{op}/{where}/{method}/n={n}/K={K}"
                        if not wanted(case):
                            continue
                        torch.manual_seed(7 * n + K)
                        dom = build(op, 0.5 if K == 0 else (lambda r: r))
                        target = dom if where == "inside" else dom.boundary
                        params = Points.empty() if K == 0 else Points(torch.tensor(RS[:K]).reshape(-1, 1), R)
                        f = target.sample_random_uniform if method == "random" else target.sample_grid
                        try:
                            out = f(n=n, params=params)
                        except Exception as e:  # a crash is not a verdict about C01 / C02
                            print(json.dumps({"case": case, "skipped": f"{type(e).__name__}: {e}"[:200]}))
                            continue
                        check_block(case, out[:, ["x"]].as_tensor.detach(), n, [0.5] if K == 0 else RS[:K], ORACLE[(op, where)])


def sampler_cases():
    flt = lambda x: x[:, :1] >= 0.15
    for cls_name, cls in (("random", tp.samplers.RandomUniformSampler), ("grid", tp.samplers.GridSampler)):
        for op in ("cut", "intersection"):
            for K in (0, 1, 3):
                for n in (1, 4, 20):
                    for with_filter in (False, True):
                        case = f"sampler/{cls_name}/{op}/filter={with_filter}/n={n}/K={K}"
                        if not wanted(case):
                            continue
                        torch.manual_seed(11 * n + K)
                        dom = build(op, 0.5 if K == 0 else (lambda r: r))
                        s = cls(dom, n_points=n, filter_fn=flt) if with_filter else cls(dom, n_points=n)
                        params = Points.empty() if K == 0 else Points(torch.tensor(RS[:K]).reshape(-1, 1), R)
                        try:
                            out = s.sample_points(params=params)
                        except Exception as e:
                            print(json.dumps({"case": case, "skipped": f"{type(e).__name__}: {e}"[:200]}))
                            continue
                        pts = out[:, ["x"]].as_tensor.detach()
                        rows = [0.5] if K == 0 else RS[:K]
                        orc = ORACLE[(op, "inside")]
                        if with_filter:
                            base = orc
                            orc = lambda p, r, base=base: base(p, r) & (p[:, 0] >= 0.15 - TOL)
                        check_block(case, pts, n, rows, orc)
                        if K > 0 and pts.shape[0] == n * K and "r" in out.space:
                            rr = out[:, ["r"]].as_tensor.detach().reshape(-1)
                            want = torch.tensor(rows).repeat_interleave(n)
                            if not torch.allclose(rr, want):
                                fail(case, "row i carries parameter row i // n", ("C02",), f"r column {rr.tolist()[:8]}.. expected {want.tolist()[:8]}..")


def product_cases():
    for K in (1, 3):
        for n in (1, 5, 25):
            case = f"product/dependent/n={n}/K={K}"
            if not wanted(case):
                continue
            torch.manual_seed(3 * n + K)
            Xi = tp.spaces.R1("u")
            dom = tp.domains.Interval(Xi, lambda D: D, lambda D, t: D + 1 + t) * tp.domains.Interval(T, 0, 1)
            Ds = [0.0, 10.0, 20.0][:K]
            params = Points(torch.tensor(Ds).reshape(-1, 1), D)
            try:
                out = dom.sample_random_uniform(n=n, params=params)
            except Exception as e:
                print(json.dumps({"case": case, "skipped": f"{type(e).__name__}: {e}"[:200]}))
                continue
            u = out[:, ["u"]].as_tensor.detach().reshape(-1)
            t = out[:, ["t"]].as_tensor.detach().reshape(-1)
            if len(u) != n * K:
                fail(case, "exactly n rows per parameter row", ("C02",), f"{len(u)} rows, expected {n * K}")
                continue
            d = torch.tensor(Ds).repeat_interleave(n)
            ok = (t >= -TOL) & (t <= 1 + TOL) & (u >= d - TOL) & (u <= d + 1 + t + TOL)
            if not bool(ok.all()):
                i = int((~ok).nonzero()[0])
                fail(case, "every row lies in the set denoted at its own parameter row", ("C01", "C02"), f"row {i}: u={float(u[i])}, t={float(t[i])} paired with D={float(d[i])}")


def condition_cases():
    class M(torch.nn.Module):
        def forward(self, pts):
            x = pts.as_tensor
            return Points(x[:, :1] ** 2 + 0.5 * x[:, :1], tp.spaces.R1("u"))

    for norm in (1, 2, 3, "inf"):
        for root in (1.0, 2.0):
            for bs, N in ((2, 6), (4, 12), (5, 12), (12, 12)):
                case = f"datacondition/full/norm={norm}/root={root}/batch={bs}/N={N}"
                if not wanted(case):
                    continue
                torch.manual_seed(5)
                xs = torch.linspace(-1.5, 3.0, N).reshape(-1, 1)
                us = torch.sin(3 * xs) + xs
                loader = tp.utils.PointsDataLoader((Points(xs, tp.spaces.R1("x")), Points(us, tp.spaces.R1("u"))), batch_size=bs, shuffle=False)
                try:
                    cond = tp.conditions.DataCondition(M(), loader, norm=norm, root=root, use_full_dataset=True)
                    got = float(cond.forward().reshape(-1)[0])
                except Exception as e:
                    print(json.dumps({"case": case, "skipped": f"{type(e).__name__}: {e}"[:200]}))
                    continue
                err = (xs ** 2 + 0.5 * xs - us).abs()
                chunks = [err[i : i + bs] for i in range(0, N, bs)]
                if norm == "inf":
                    want = max(float(c.max()) for c in chunks)
                else:
                    want = sum(float((c ** norm).mean()) for c in chunks) / len(chunks)
                want = want ** (1 / root)
                if not math.isclose(got, want, rel_tol=1e-4, abs_tol=1e-6):
                    fail(case, "loss over the full data set = reduction over every batch, each counted once", ("C04", "C16"), f"library {got} vs definition {want}")


if PROP in ("C01", "C02"):
    domain_cases()
    sampler_cases()
    product_cases()
if PROP in ("C04", "C16"):
    condition_cases()
for f in fails[:20]:
    print(json.dumps(f))
print(f"loop_fallback[{PROP}]: {len(fails)} failing instance(s)")
sys.exit(1 if fails else 0)
