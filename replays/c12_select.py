"""native replay for C12 points_selection: builds the REAL Points with random data of the counter-model's sizes and
re-checks p[rows, names] against an independent numpy-style oracle.  exit 1 = the real code violates the clause."""
import json, sys, warnings
warnings.filterwarnings("ignore")
import torch
import torchphysics as tp
from torchphysics.problem.spaces import Points, Rn

inp = json.loads(sys.argv[1])
LAYOUTS = {"x2t1": [("x", 2), ("t", 1)], "t1x2": [("t", 1), ("x", 2)], "x1y3u2": [("x", 1), ("y", 3), ("u", 2)]}
nd = LAYOUTS[inp["layout"]]
N = max(int(inp.get("N", 3)), 2)
lo = min(max(int(inp.get("lo", 0)), 0), N - 1)
M = max(int(inp.get("M", 2)), 1)
torch.manual_seed(0)
sp = None
for nm, d in nd:
    sp = Rn(nm, d) if sp is None else sp * Rn(nm, d)
total = sum(d for _, d in nd)
data = torch.rand(N, total)
p = Points(data, sp)
off, o = {}, 0
for nm, d in nd:
    off[nm] = (o, d); o += d
ck = inp["colkind"]
names = {"str": "x", "list": ["t", "x"], "tuple": ("x",), "name-slice": slice("x", None)}[ck]
order = [n for n, _ in nd]
want = order[order.index("x"):] if ck == "name-slice" else ([names] if isinstance(names, str) else list(names))
cols = [c for nm in want for c in range(off[nm][0], off[nm][0] + off[nm][1])]
rk = inp["rowkind"]
if rk == "slice":
    rows, ridx = slice(lo, None), list(range(lo, N))
elif rk == "int":
    rows, ridx = 1, [1]
elif rk == "symint":
    rows, ridx = lo, [lo]
elif rk == "ellipsis":
    rows, ridx = Ellipsis, list(range(N))
elif rk == "mask":
    mask = torch.rand(N) > 0.5
    mask[0] = True
    rows, ridx = mask, [i for i in range(N) if mask[i]]
else:
    ix = torch.randint(0, N, (M,))
    rows, ridx = ix, [int(i) for i in ix]
try:
    r = p[rows, names]
except Exception as e:
    print("raised", type(e).__name__, e)
    sys.exit(1)
got = r.as_tensor.reshape(-1, len(cols)) if r.as_tensor.numel() else r.as_tensor
exp = data[ridx][:, cols]
bad = list(r.space.keys()) != want or tuple(got.shape) != tuple(exp.shape) or not torch.equal(got, exp)
print("space", list(r.space.keys()), "want", want, "shape", tuple(got.shape), "expected", tuple(exp.shape), "mismatch" if bad else "ok")
sys.exit(1 if bad else 0)
