"""tpv tshape: shape-changing operations, indexing, selectors (torch.where), concatenation.

Axis sizes are ordered products of atomic factors; an index is a tuple of digits.  Reshapes regroup
digits; only concrete factors are ever split/merged (division by constants).  Where two equal-size
axes have different symbolic factorisations a *flat view* with uninterpreted div/mod functions and
their defining (Euclidean) axioms is used as a fallback.
"""
import z3

from . import core
from .core import Sym, STensor, Dim, Unsupported, zint, zreal, zbool, dim_of, concretize, ctx
from . import tlib
from .tlib import Tensor, lift, zero_index


def _IN():
    from . import interp

    return interp


# ----------------------------------------------------------------------------- flat views (fallback)
def flat_index(dim, comps):
    """row-major flat index of digits"""
    t = None
    for f, c in zip(dim.factors, comps):
        c = zint(c)
        t = c if t is None else t * zint(f) + c
    return z3.IntVal(0) if t is None else t


_UNFLAT = {}
core.RESET_HOOKS.append(_UNFLAT.clear)


def flat_comps(dim, r):
    """digits of flat index r along dim (uninterpreted div/mod + Euclidean axioms)"""
    fs = dim.factors
    if len(fs) == 0:
        return ()
    if len(fs) == 1:
        return (r,)
    if isinstance(r, int) and all(isinstance(f, int) for f in fs):
        out = []
        for f in reversed(fs):
            out.append(r % f)
            r //= f
        return tuple(reversed(out))
    r = zint(r)
    comps = []
    rest = r
    # peel from the right: rest = q * f + m
    for pos in range(len(fs) - 1, 0, -1):
        f = zint(fs[pos])
        if isinstance(fs[pos], int):
            q, m = rest / f, rest % f
        else:
            key = ("uf", f.hash())
            if key not in _UNFLAT:
                _UNFLAT[key] = (
                    z3.Function(core.fresh_name("udiv"), z3.IntSort(), z3.IntSort()),
                    z3.Function(core.fresh_name("umod"), z3.IntSort(), z3.IntSort()),
                )
            qf, mf = _UNFLAT[key]
            q, m = qf(rest), mf(rest)
            ctx().axiom(z3.Implies(z3.And(rest >= 0, f > 0), z3.And(rest == q * f + m, m >= 0, m < f, q >= 0)))
        comps.append(m)
        rest = q
    comps.append(rest)
    return tuple(reversed(comps))


def convert_comps(src_dim, dst_dim, comps):
    """digits along src_dim -> digits along dst_dim (same size)"""
    if src_dim.same(dst_dim):
        return tuple(comps)
    return flat_comps(dst_dim, flat_index(src_dim, comps))


# ----------------------------------------------------------------------------- reshape
def _feq(I, a, b):
    if isinstance(a, int) and isinstance(b, int):
        return a == b
    if isinstance(a, int) or isinstance(b, int):
        return I.ctx.entails(zint(a) == zint(b))
    return z3.eq(a, b) or I.ctx.entails(a == b)


def _align(I, S, T):
    """S, T: lists of factors with equal products.  Returns atoms [(size, si, ti)] or None"""
    S = list(S)
    T = list(T)
    atoms = []
    i = j = 0
    s_rem = S[0] if S else None
    t_rem = T[0] if T else None
    while i < len(S) and j < len(T):
        a, b = s_rem, t_rem
        if isinstance(a, int) and isinstance(b, int):
            if a == b:
                atoms.append((a, i, j)); i += 1; j += 1
                s_rem = S[i] if i < len(S) else None
                t_rem = T[j] if j < len(T) else None
            elif a < b and a != 0 and b % a == 0:
                atoms.append((a, i, j)); i += 1
                t_rem = b // a
                s_rem = S[i] if i < len(S) else None
            elif b < a and b != 0 and a % b == 0:
                atoms.append((b, i, j)); j += 1
                s_rem = a // b
                t_rem = T[j] if j < len(T) else None
            else:
                return None
        elif _feq(I, a, b):
            atoms.append((a, i, j)); i += 1; j += 1
            s_rem = S[i] if i < len(S) else None
            t_rem = T[j] if j < len(T) else None
        else:
            return None
    if i < len(S) or j < len(T):
        return None
    return atoms


def _strip_prefix(I, S, L):
    """remove from the factor list S a prefix matching L; returns the remainder or None"""
    S = list(S)
    for l in L:
        need = l
        while True:
            if not S:
                return None
            s = S[0]
            if isinstance(s, int) and isinstance(need, int):
                if s == need:
                    S.pop(0); break
                if need != 0 and s % need == 0 and s > need:
                    S[0] = s // need; break
                if s != 0 and need % s == 0 and need > s:
                    S.pop(0); need //= s; continue
                return None
            if _feq(I, s, need):
                S.pop(0); break
            return None
    return S


def _digits_split(value, sizes):
    """mixed-radix digits of value for concrete sizes (row-major)"""
    if len(sizes) == 1:
        return [value]
    out = []
    rest = value
    for s in reversed(sizes[1:]):
        if isinstance(rest, int):
            out.append(rest % s); rest //= s
        else:
            out.append(rest % s); rest = rest / s
    out.append(rest)
    return list(reversed(out))


def _digits_join(digs, sizes):
    t = None
    for d, s in zip(digs, sizes):
        if t is None:
            t = d
        else:
            t = t * s + d
    return t


def reshape(I, a, spec):
    IN = _IN()
    a = lift(a)
    spec = list(spec)
    S = [f for d in a.shape for f in d.factors]
    dims = []
    neg = [k for k, s in enumerate(spec) if isinstance(s, int) and not isinstance(s, bool) and s == -1]
    if len(neg) > 1:
        raise IN.RaisedEx("RuntimeError", "only one dimension can be inferred")
    for s in spec:
        if isinstance(s, int) and s == -1:
            dims.append(None)
        else:
            if isinstance(s, Tensor):
                s = tlib.item_value(I, s)
            dims.append(dim_of(s))
    if neg:
        k = neg[0]
        L = [f for d in dims[:k] for f in d.factors]
        R = [f for d in dims[k + 1 :] for f in d.factors]
        rem = _strip_prefix(I, S, L)
        if rem is not None:
            rem2 = _strip_prefix(I, list(reversed(rem)), list(reversed(R)))
            rem = list(reversed(rem2)) if rem2 is not None else None
        if rem is None:
            return _reshape_flat(I, a, dims, neg[0])
        dims[k] = Dim(rem)
    T = [f for d in dims for f in d.factors]
    atoms = _align(I, S, T)
    if atoms is None:
        return _reshape_flat(I, a, dims, None)
    # group atoms per S factor / T factor
    s_atoms, t_atoms = {}, {}
    for n, (sz, si, ti) in enumerate(atoms):
        s_atoms.setdefault(si, []).append(n)
        t_atoms.setdefault(ti, []).append(n)
    identity = all(len(v) == 1 for v in s_atoms.values()) and all(len(v) == 1 for v in t_atoms.values())
    src_shape = a.shape

    def fn(idx):
        tdig = [c for comp in idx for c in comp]
        if identity:
            sdig = tdig
        else:
            adig = [None] * len(atoms)
            for ti, ns in t_atoms.items():
                vals = _digits_split(tdig[ti], [atoms[n][0] for n in ns])
                for n, v in zip(ns, vals):
                    adig[n] = v
            sdig = []
            for si in range(len(S)):
                ns = s_atoms[si]
                sdig.append(_digits_join([adig[n] for n in ns], [atoms[n][0] for n in ns]))
        out, p = [], 0
        for d in src_shape:
            out.append(tuple(sdig[p : p + len(d.factors)])); p += len(d.factors)
        return a.at(out)

    return STensor(dims, fn, a.dtype)


def _reshape_flat(I, a, dims, neg):
    """fallback through flat indices (requires the element counts to agree)"""
    IN = _IN()
    total = None
    for d in a.shape:
        total = d.size_term() if total is None else total * d.size_term()
    total = z3.IntVal(1) if total is None else total
    if neg is not None:
        known = None
        for k, d in enumerate(dims):
            if k == neg:
                continue
            known = d.size_term() if known is None else known * d.size_term()
        known = z3.IntVal(1) if known is None else known
        kc = z3.simplify(known)
        if not z3.is_int_value(kc):
            # symbolic known part: the -1 axis is what remains of the source factors after cancelling the known ones
            # structurally (x.reshape(len(x), -1, 3) on shape [B, 3, N, 1] -> N)
            a_f = [f for d in a.shape for f in d.factors]
            k_f = [f for k, d in enumerate(dims) if k != neg for f in d.factors]
            ca = 1
            for f in a_f:
                if isinstance(f, int):
                    ca *= f
            ck = 1
            for f in k_f:
                if isinstance(f, int):
                    ck *= f
            rem = [f for f in a_f if not isinstance(f, int)]
            for f in k_f:
                if isinstance(f, int):
                    continue
                hit = [i for i, g in enumerate(rem) if zint(g).eq(zint(f))]
                if not hit:
                    raise Unsupported("reshape: cannot infer -1 against a symbolic size")
                rem.pop(hit[0])
            if ck == 0 or ca % ck != 0:
                raise IN.RaisedEx("RuntimeError", "shape is invalid for input size", I.ctx.loc)
            dims = list(dims)
            dims[neg] = Dim(rem + [ca // ck])
            neg = None
            kc = None
    if neg is not None:
        k_ = kc.as_long()
        if k_ == 0:
            raise IN.RaisedEx("RuntimeError", "cannot reshape: unspecified dimension with zero size")
        divisible = total % k_ == 0
        if not I.ctx.entails(divisible):
            if not I.decide(divisible):
                raise IN.RaisedEx("RuntimeError", f"shape is invalid for input size (not divisible by {k_})", I.ctx.loc)
        q = z3.simplify(total / k_)
        dims = list(dims)
        dims[neg] = dim_of(q)
    newtotal = None
    for d in dims:
        newtotal = d.size_term() if newtotal is None else newtotal * d.size_term()
    newtotal = z3.IntVal(1) if newtotal is None else newtotal
    same = newtotal == total
    if not I.ctx.entails(same):
        if not I.decide(same):
            raise IN.RaisedEx("RuntimeError", "shape is invalid for input of this size", I.ctx.loc)
    src_all = Dim([f for d in a.shape for f in d.factors])
    dst_all = Dim([f for d in dims for f in d.factors])
    src_shape = a.shape

    src_un = [f for d in a.shape for f in d.factors]
    dst_un = [f for d in dims for f in d.factors]

    def fn(idx):
        # Dim merges adjacent concrete factors (also across the axis boundaries joined here): the digits of the
        # joined axes are merged / split accordingly
        tdig = merge_digits(dst_un, [c for comp in idx for c in comp])
        sdig = split_digits(src_un, list(convert_comps(dst_all, src_all, tdig)))
        out, p = [], 0
        for d in src_shape:
            out.append(tuple(sdig[p : p + len(d.factors)])); p += len(d.factors)
        return a.at(out)

    return STensor(dims, fn, a.dtype)


def merge_digits(unmerged, digs):
    """one digit per (un-merged) factor -> digits of Dim(unmerged) (adjacent concrete factors form one digit)"""
    norm = [core._norm_factor(f) for f in unmerged]
    out, i = [], 0
    while i < len(norm):
        if isinstance(norm[i], int):
            run, rd = [], []
            while i < len(norm) and isinstance(norm[i], int):
                run.append(norm[i]); rd.append(digs[i]); i += 1
            prod = 1
            for r in run:
                prod *= r
            if prod != 1:
                keep = [(d, r) for d, r in zip(rd, run) if r != 1]
                out.append(_digits_join([d for d, _ in keep], [r for _, r in keep]))
        else:
            out.append(digs[i]); i += 1
    return out


# ----------------------------------------------------------------------------- simple shape ops
def norm_axis(I, k, rank, extra=0):
    IN = _IN()
    if isinstance(k, Sym):
        k = concretize(k)
        if isinstance(k, Sym):
            raise Unsupported("symbolic axis number")
    if k < -(rank + extra) or k >= rank + extra:
        raise IN.RaisedEx("IndexError", f"Dimension out of range (got {k} for rank {rank})", I.ctx.loc)
    return k % (rank + extra) if (rank + extra) else 0


def unsqueeze(I, a, dim):
    a = lift(a)
    k = norm_axis(I, dim, a.rank, 1)
    shape = a.shape[:k] + [Dim([])] + a.shape[k:]
    return STensor(shape, lambda idx: a.at(idx[:k] + idx[k + 1 :]), a.dtype)


def squeeze(I, a, dim=None):
    a = lift(a)
    if dim is None:
        keep = []
        for k, d in enumerate(a.shape):
            if d.is_one:
                continue
            if d.concrete() is None and I.decide(d.size_term() == 1):
                continue
            keep.append(k)
    else:
        k0 = norm_axis(I, dim, a.rank) if a.rank else 0
        if a.rank == 0:
            return a
        d = a.shape[k0]
        drop = d.is_one or (d.concrete() is None and I.decide(d.size_term() == 1))
        keep = [k for k in range(a.rank) if not (k == k0 and drop)]
    shape = [a.shape[k] for k in keep]
    src = a.shape

    def fn(idx):
        full = [zero_index(d) for d in src]
        for p, k in enumerate(keep):
            full[k] = idx[p]
        return a.at(full)

    return STensor(shape, fn, a.dtype)


def permute(I, a, order):
    a = lift(a)
    IN = _IN()
    order = [norm_axis(I, k, a.rank) for k in order]
    if sorted(order) != list(range(a.rank)):
        raise IN.RaisedEx("RuntimeError", "permute: invalid axes", I.ctx.loc)
    shape = [a.shape[k] for k in order]

    def fn(idx):
        full = [None] * a.rank
        for p, k in enumerate(order):
            full[k] = idx[p]
        return a.at(full)

    return STensor(shape, fn, a.dtype)


def transpose(I, a, d0, d1):
    a = lift(a)
    order = list(range(a.rank))
    d0, d1 = norm_axis(I, d0, a.rank), norm_axis(I, d1, a.rank)
    order[d0], order[d1] = order[d1], order[d0]
    return permute(I, a, order)


def split_digits(unmerged, comps):
    """digits of Dim(unmerged) -> one digit per (un-merged) factor"""
    norm = [core._norm_factor(f) for f in unmerged]
    out, p, i = [], 0, 0
    while i < len(norm):
        if isinstance(norm[i], int):
            run = []
            while i < len(norm) and isinstance(norm[i], int):
                run.append(norm[i]); i += 1
            prod = 1
            for r in run:
                prod *= r
            if prod == 1:
                out += [0] * len(run)
            else:
                out += _digits_split(comps[p], run); p += 1
        else:
            out.append(comps[p]); p += 1; i += 1
    return out


def repeat_interleave(I, a, n, dim=None):
    """row (k.., j) <- a[k..]"""
    a = lift(a)
    if isinstance(n, Tensor):
        n = tlib.item_value(I, n)
    if dim is None:
        raise Unsupported("repeat_interleave without dim")
    k = norm_axis(I, dim, a.rank)
    d0 = a.shape[k]
    nf = len(d0.factors)
    nd = dim_of(n)
    unmerged = list(d0.factors) + list(nd.factors)
    newd = Dim(unmerged)

    def fn(idx):
        digs = split_digits(unmerged, idx[k])
        return a.at(idx[:k] + [tuple(digs[:nf])] + idx[k + 1 :])

    return STensor(a.shape[:k] + [newd] + a.shape[k + 1 :], fn, a.dtype)


def repeat(I, a, reps):
    """tensor.repeat(*reps): tile; the new (outer) digit is the tile number"""
    IN = _IN()
    a = lift(a)
    reps = list(reps)
    if len(reps) < a.rank:
        raise IN.RaisedEx("RuntimeError", "Number of dimensions of repeat dims can not be smaller than number of dimensions of tensor", I.ctx.loc)
    lead = len(reps) - a.rank
    src_shape = [Dim([])] * lead + a.shape
    shape, info = [], []
    for r, d in zip(reps, src_shape):
        if isinstance(r, Tensor):
            r = tlib.item_value(I, r)
        rd = dim_of(r)
        unmerged = list(rd.factors) + list(d.factors)
        shape.append(Dim(unmerged))
        info.append((unmerged, len(rd.factors)))

    def fn(idx):
        full = []
        for comp, (unmerged, nr) in zip(idx, info):
            full.append(tuple(split_digits(unmerged, comp)[nr:]))
        return a.at(full[lead:])

    return STensor(shape, fn, a.dtype)


def expand(I, a, sizes):
    a = lift(a)
    IN = _IN()
    sizes = list(sizes)
    lead = len(sizes) - a.rank
    if lead < 0:
        raise IN.RaisedEx("RuntimeError", "expand: fewer sizes than dims", I.ctx.loc)
    shape, use = [], []
    for k, s in enumerate(sizes):
        d = a.shape[k - lead] if k >= lead else Dim([])
        if isinstance(s, int) and s == -1:
            shape.append(d); use.append(True)
            continue
        sd = dim_of(s)
        if d.same(sd):
            shape.append(d); use.append(True)
        elif d.is_one or (d.concrete() is None and I.ctx.entails(d.size_term() == 1)):
            shape.append(sd); use.append(False)
        else:
            if not I.decide(d.size_term() == sd.size_term()):
                raise IN.RaisedEx("RuntimeError", "expanded size must match the existing size", I.ctx.loc)
            shape.append(d); use.append(True)
    src = a.shape

    def fn(idx):
        full = []
        for k in range(lead, len(sizes)):
            full.append(idx[k] if use[k] else zero_index(src[k - lead]))
        return a.at(full)

    return STensor(shape, fn, a.dtype)


def flip(I, a, dims):
    a = lift(a)
    if isinstance(dims, int):
        dims = [dims]
    dims = [norm_axis(I, k, a.rank) for k in dims]

    def fn(idx):
        idx = list(idx)
        for k in dims:
            d = a.shape[k]
            if len(d.factors) == 0:
                continue
            if len(d.factors) != 1:
                raise Unsupported("flip of multi-factor axis")
            (c,) = idx[k]
            f = d.factors[0]
            idx[k] = ((f - 1 - c),) if isinstance(c, int) and isinstance(f, int) else (zint(f) - 1 - zint(c),)
        return a.at(idx)

    return STensor(a.shape, fn, a.dtype)


# ----------------------------------------------------------------------------- cat / stack
def cat(I, ts, dim=0):
    IN = _IN()
    ts = [lift(t) for t in ts]
    if not ts:
        raise IN.RaisedEx("RuntimeError", "torch.cat(): expected a non-empty list of Tensors", I.ctx.loc)
    # legacy: 1-D empty tensors are skipped
    ts2 = [t for t in ts if not (t.rank == 1 and t.shape[0].concrete() == 0)]
    if ts2:
        ts = ts2
    r = ts[0].rank
    if r == 0:
        raise IN.RaisedEx("RuntimeError", "zero-dimensional tensor cannot be concatenated", I.ctx.loc)
    dim = norm_axis(I, dim, r)
    for t in ts[1:]:
        if t.rank != r:
            raise IN.RaisedEx("RuntimeError", "Tensors must have same number of dimensions", I.ctx.loc)
    ref = list(ts[0].shape)
    conv_needed = [[None] * r for _ in ts]
    for n, t in enumerate(ts[1:], 1):
        for k in range(r):
            if k == dim:
                continue
            if t.shape[k].same(ref[k]):
                continue
            eq = t.shape[k].size_term() == ref[k].size_term()
            if not I.ctx.entails(eq):
                if not I.decide(eq):
                    raise IN.RaisedEx("RuntimeError", f"Sizes of tensors must match except in dimension {dim}", I.ctx.loc)
            conv_needed[n][k] = True
    sizes = [t.shape[dim] for t in ts]
    csz = [d.concrete() for d in sizes]
    if len(ts) == 1:
        return ts[0]
    if all(c is not None for c in csz):
        total = sum(csz)
        nd = Dim([total])
        offs = []
        o = 0
        for c in csz:
            offs.append(o); o += c

        def fn(idx):
            c = idx[dim][0] if total != 1 else 0

            def piece(n, j):
                t = ts[n]
                sub = list(idx)
                sub[dim] = (j,) if csz[n] != 1 else ()
                for k in range(r):
                    if conv_needed[n][k]:
                        sub[k] = convert_comps(ref[k], t.shape[k], idx[k])
                return t.at(sub)

            table = [(n, j) for n in range(len(ts)) for j in range(csz[n])]
            return core.select_comp(c, total, [(lambda nj=nj: piece(*nj)) for nj in table])

        shape = list(ref)
        shape[dim] = nd
        return STensor(shape, fn, _cat_dtype(ts))
    # symbolic sizes with a common trailing block structure: [a, rest..] ++ [b, rest..] = [a+b, rest..]
    blk = _block_cat(I, ts, sizes, dim, ref, conv_needed, r)
    if blk is not None:
        return blk
    # symbolic sizes: one new factor (flat along the cat axis)
    total = None
    for d in sizes:
        total = d.size_term() if total is None else total + d.size_term()
    nd = Dim([z3.simplify(total)])
    bounds = []
    acc = z3.IntVal(0)
    for d in sizes:
        bounds.append(acc)
        acc = acc + d.size_term()

    def fn2(idx):
        c = zint(idx[dim][0])
        e = None
        for n in range(len(ts) - 1, -1, -1):
            t = ts[n]
            sub = list(idx)
            local = z3.simplify(c - bounds[n])
            sub[dim] = flat_comps(t.shape[dim], local)
            for k in range(r):
                if conv_needed[n][k]:
                    sub[k] = convert_comps(ref[k], t.shape[k], idx[k])
            v = t.at(sub)
            if e is None:
                e = v
            else:
                e = z3.If(c < bounds[n + 1], v, e)
        return e

    shape = list(ref)
    shape[dim] = nd
    out = STensor(shape, fn2, _cat_dtype(ts))
    return out


def _block_cat(I, ts, sizes, dim, ref, conv_needed, r):
    """cat of tensors whose cat-axis digits are (block number, rest...) with the same `rest`"""
    rests = None
    leads = []
    for d in sizes:
        fs = list(d.factors)
        if rests is None:
            # candidate rest: try the longest common suffix later; start with this tensor's tail options
            pass
        leads.append(fs)
    # common suffix of all factor lists, leaving at most one leading factor in each
    minlen = min(len(f) for f in leads)
    if minlen == 0:
        return None
    best = None
    for L in range(minlen, 0, -1):
        suf = leads[0][len(leads[0]) - L :]
        ok = True
        for f in leads:
            tail = f[len(f) - L :]
            if len(f) - L > 1:
                ok = False
                break
            for x, y in zip(tail, suf):
                if not _feq(I, x, y):
                    ok = False
                    break
            if not ok:
                break
        if ok:
            best = L
            break
    if best is None:
        return None
    L = best
    rest = leads[0][len(leads[0]) - L :]
    counts = [(f[0] if len(f) - L == 1 else 1) for f in leads]
    if all(isinstance(c, int) for c in counts) and all(isinstance(x, int) for x in rest):
        return None
    offs, acc = [], z3.IntVal(0)
    for c in counts:
        offs.append(acc)
        acc = acc + zint(c)
    total_blocks = z3.simplify(acc)
    nd_factors = [total_blocks] + list(rest)
    nd = Dim(nd_factors)
    if len(nd.factors) != len(nd_factors):
        return None  # merged/normalised away: fall back to the flat path

    def fn(idx):
        comp = idx[dim]
        b = zint(comp[0])
        tail = tuple(comp[1:])
        e = None
        for n in range(len(ts) - 1, -1, -1):
            t = ts[n]
            sub = list(idx)
            local = z3.simplify(b - offs[n])
            has_lead = len(leads[n]) - L == 1
            sub[dim] = ((local,) if has_lead else ()) + tail
            for k in range(r):
                if conv_needed[n][k]:
                    sub[k] = convert_comps(ref[k], t.shape[k], idx[k])
            v = t.at(sub)
            e = v if e is None else z3.If(b < offs[n + 1] if n + 1 < len(offs) else z3.BoolVal(True), v, e)
        return e

    shape = list(ref)
    shape[dim] = nd
    return STensor(shape, fn, _cat_dtype(ts))


def _cat_dtype(ts):
    dt = ts[0].dtype
    for t in ts[1:]:
        dt = tlib.promote(dt, t.dtype)
    if dt != ts[0].dtype or any(t.dtype != dt for t in ts):
        pass
    return dt


def stack(I, ts, dim=0):
    ts = [lift(t) for t in ts]
    r = ts[0].rank
    k = norm_axis(I, dim, r, 1)
    return cat(I, [unsqueeze(I, t, k) for t in ts], k)


def column_stack(I, ts):
    out = []
    for t in ts:
        t = lift(t)
        if t.rank == 0:
            t = reshape(I, t, [1, 1])
        elif t.rank == 1:
            t = unsqueeze(I, t, 1)
        out.append(t)
    return cat(I, out, 1)


# ----------------------------------------------------------------------------- selectors (torch.where)
class Selector:
    """strictly increasing enumeration sel: [0,M) -> rows of src_dim where mask holds"""

    def __init__(self, src_dim, count, comps_fn, mask_fn, limit=None):
        self.src_dim, self.count, self.comps_fn, self.mask_fn = src_dim, count, comps_fn, mask_fn

    def comps(self, j):
        return self.comps_fn(j)


def where_rows(I, mask):
    """torch.where(mask): one index tensor per mask axis; a strictly increasing (row-major) enumeration
    sel: [0,M) -> selected positions, with the completeness inverse pos"""
    m = lift(mask)
    # torch.where is a function of its argument: the same (immutable) mask value yields the same enumeration
    for (m0, outs0) in I.ctx.ghost.setdefault("where_cache", []):
        if m0 is m:
            fresh = []
            for o in outs0:  # fresh cells (the caller may update an index tensor in place)
                c = Tensor(o.val)
                c.meta.update(o.meta)
                fresh.append(c)
            return tuple(fresh)
    m_key = m
    if m.dtype != "bool":
        m = tlib.ew1(m, lambda x: zbool(x), "bool")
    if m.rank == 0:
        raise Unsupported("where on 0-d tensor")
    dims = list(m.shape)
    allf = [f for d in dims for f in d.factors]
    nf = len(allf)
    total = None
    for d in dims:
        total = d.size_term() if total is None else total * d.size_term()

    def split(comps):
        out, p = [], 0
        for d in dims:
            out.append(tuple(comps[p : p + len(d.factors)])); p += len(d.factors)
        return out

    def mask_at(comps):
        return m.at(split(comps))

    M = z3.Int(core.fresh_name("nsel"))
    I.ctx.assume(z3.And(M >= 0, M <= total))
    fs = [z3.Function(core.fresh_name(f"sel{p}"), z3.IntSort(), z3.IntSort()) for p in range(nf)]
    posf = z3.Function(core.fresh_name("selpos"), *([z3.IntSort()] * max(nf, 1) + [z3.IntSort()]))

    def comps_fn(j):
        j = zint(j)
        comps = tuple(f(j) for f in fs)
        inr = z3.And(j >= 0, j < M)
        facts = [z3.And(c >= 0, c < zint(f)) for c, f in zip(comps, allf)]
        facts.append(mask_at(comps))
        if nf:
            facts.append(posf(*comps) == j)
        I.ctx.axiom(z3.Implies(inr, z3.And(facts)))
        return comps

    sel = Selector(dims[0], M, comps_fn, mask_at)
    sel.src_dims = dims
    sel.split = split
    sel.mask_src = None

    def complete(comps):
        """mask(r) => r is enumerated: 0 <= pos(r) < M and sel(pos(r)) = r"""
        if not nf:
            return z3.BoolVal(True)
        p = posf(*[zint(c) for c in comps])
        back = [f(p) == zint(c) for f, c in zip(fs, comps)]
        return z3.Implies(mask_at(comps), z3.And(p >= 0, p < M, *back))

    def pos(comps):
        if not nf:
            return z3.IntVal(0)
        I.ctx.axiom(complete(comps))
        return posf(*[zint(c) for c in comps])

    sel.complete = complete
    sel.pos = pos
    sel.fs = fs

    def mono(j1, j2):
        if nf == 1:
            return z3.Implies(z3.And(0 <= j1, j1 < j2, j2 < M), fs[0](j1) < fs[0](j2))
        if nf == 0:
            return z3.BoolVal(True)
        # row-major enumeration: the digit tuples are strictly increasing in the lexicographic order
        c1, c2 = [f(j1) for f in fs], [f(j2) for f in fs]
        lex = z3.Or([z3.And([c1[k] == c2[k] for k in range(p)] + [c1[p] < c2[p]]) for p in range(nf)])
        return z3.Implies(z3.And(0 <= j1, j1 < j2, j2 < M), lex)

    sel.mono = mono
    # lemma L-pigeonhole (finite sets; stated once in DESIGN.md 6, Lean proof in lemmas/Pigeonhole.lean): the enumeration
    # is injective into the index set, so if it has as many entries as the mask has positions, every
    # position is enumerated and therefore satisfies the mask
    if nf:
        I.ctx.schema(("all", dims), lambda idx: z3.Implies(M == total, mask_at([zint(c) for comp in idx for c in comp])))
    if nf == 0:
        I.ctx.assume(z3.If(mask_at(()), M == 1, M == 0))
    for (widx, wdims) in I.ctx.ghost.get("minmax_witness", []):
        # instance of the completeness axiom at the index attaining an earlier min/max over the same axes
        if len(wdims) == len(dims) and all(a.same(b) for a, b in zip(wdims, dims)):
            pos([c for comp in widx for c in comp])
    I.ctx.ghost.setdefault("selectors", []).append(sel)
    outs = []
    for ax, d in enumerate(dims):
        outs.append(_selector_tensor(I, sel, axis=ax))
    snap = []
    for o in outs:
        c = Tensor(o.val)
        c.meta.update(o.meta)
        snap.append(c)
    I.ctx.ghost["where_cache"].append((m_key, tuple(snap)))
    return tuple(outs)


def _selector_tensor(I, sel, count=None, offset=None, axis=0):
    M = sel.count if count is None else count

    def fn(idx):
        j = idx[0][0] if idx[0] else 0
        if offset is not None:
            j = zint(j) + offset
        per_axis = sel.split(sel.comps(j))
        return flat_index(sel.src_dims[axis], per_axis[axis])

    t = Tensor(STensor([Dim([M])], fn, "int", "where"))
    t.meta["sel"] = (sel, M, offset)
    t.meta["sel_axis"] = axis
    return t


# ----------------------------------------------------------------------------- indexing
def index_axis_int(a, k, j):
    """a with axis k fixed to concrete/symbolic single digit(s)"""
    d = a.shape[k]
    comps = flat_comps(d, j) if len(d.factors) != 1 else (j,)
    if d.is_one:
        comps = ()
    return STensor(a.shape[:k] + a.shape[k + 1 :], lambda idx: a.at(idx[:k] + [comps] + idx[k:]), a.dtype)


def _slice_axis(I, d, sl):
    """returns (new Dim, mapper(new digit tuple)->old digit tuple)"""
    IN = _IN()
    lo, hi, st = sl.start, sl.stop, sl.step
    if lo is None and hi is None and st is None:
        return d, (lambda c: c)
    for v in (lo, hi, st):
        if isinstance(v, Tensor):
            raise Unsupported("tensor-valued slice bound")
    n = d.concrete()
    symbolic = n is None or any(isinstance(v, Sym) for v in (lo, hi, st))
    if not symbolic:
        rng = range(*slice(lo, hi, st).indices(n))
        m = len(rng)
        nd = Dim([m])
        if m == 0:
            return nd, (lambda c: (0,))
        start, step = rng.start, rng.step

        def mp(c):
            j = c[0] if c else 0
            v = start + step * j if isinstance(j, int) else start + step * zint(j)
            return (v,) if n != 1 else ()

        return nd, mp
    if st is not None and not (isinstance(st, int) and st == 1):
        raise Unsupported("symbolic slice with step")
    N = d.size_term()

    def clampb(v, default):
        if v is None:
            return default
        v = zint(v)
        v = z3.If(v < 0, z3.If(v + N < 0, z3.IntVal(0), v + N), z3.If(v > N, N, v))
        return v

    lo_t = clampb(lo, z3.IntVal(0))
    hi_t = clampb(hi, N)
    size = z3.simplify(z3.If(hi_t > lo_t, hi_t - lo_t, z3.IntVal(0)))
    lo_s = z3.simplify(lo_t)
    # candidate closed forms, accepted when entailed by the path condition
    cands = []
    lo_c = 0 if lo is None else (lo if isinstance(lo, int) else None)
    if lo_c is not None and lo_c >= 0:
        if hi is None:
            cands.append((N - lo_c, z3.IntVal(lo_c)))
        elif isinstance(hi, int) and hi < 0:
            cands.append((N + hi - lo_c, z3.IntVal(lo_c)))
        elif isinstance(hi, int):
            cands.append((z3.IntVal(hi - lo_c), z3.IntVal(lo_c)))
        else:
            cands.append((zint(hi) - lo_c, z3.IntVal(lo_c)))
    if lo is not None and not isinstance(lo, int) and hi is None:
        cands.append((N - zint(lo), zint(lo)))
    if lo is not None and hi is not None and not (isinstance(lo, int) and isinstance(hi, int)):
        cands.append((zint(hi) - zint(lo), zint(lo)))
    cands.append((N, z3.IntVal(0)))
    for cs, cl in cands:
        if I.ctx.entails(z3.And(size == cs, lo_s == cl)):
            size, lo_s = z3.simplify(cs), z3.simplify(cl)
            break
    nd = dim_of(size)
    if len(nd.factors) > 1:
        nd = Dim([size]) if not isinstance(size, int) else nd

    def mp(c):
        j = zint(c[0]) if c else z3.IntVal(0)
        if len(nd.factors) > 1:
            j = flat_index(nd, c)
        return flat_comps(d, z3.simplify(lo_s + j))

    return nd, mp


def getitem(I, t, key):
    out = _getitem(I, t, key)
    if isinstance(out, Tensor) and "fw" in t.meta and "fw" not in out.meta:
        out.meta["fw"] = t.meta["fw"]  # float width (ghost): indexing keeps the dtype
    return out


def _np_keys(key):
    """numpy index arrays / masks index a torch tensor exactly like the tensors of the same contents"""
    from .torchlib import NumpyArray

    conv = lambda k: Tensor(k.val) if isinstance(k, NumpyArray) else k
    if isinstance(key, tuple):
        return tuple(conv(k) for k in key)
    if isinstance(key, list):
        return [conv(k) for k in key]
    return conv(key)


def _getitem(I, t, key):
    IN = _IN()
    key = _np_keys(key)
    a = t.val
    if isinstance(key, list) and any(isinstance(k, (slice, list, tuple, Tensor)) or k is None or k is Ellipsis for k in key):
        key = tuple(key)  # torch treats such sequences as tuples
    if not isinstance(key, tuple):
        key = (key,)
    key = list(key)
    # expand Ellipsis
    n_real = sum(1 for k in key if k is not None and k is not Ellipsis)
    if any(k is Ellipsis for k in key):
        p = [i for i, k in enumerate(key) if k is Ellipsis]
        if len(p) > 1:
            raise IN.RaisedEx("IndexError", "an index can only have a single ellipsis", I.ctx.loc)
        fill = a.rank - n_real
        key = key[: p[0]] + [slice(None)] * fill + key[p[0] + 1 :]
    if n_real > a.rank:
        # a boolean mask may cover several axes
        if not (len(key) == 1 and isinstance(key[0], Tensor)):
            raise IN.RaisedEx("IndexError", "too many indices for tensor", I.ctx.loc)
    # a boolean mask covering several leading axes: a[mask] = the selected elements in row-major order
    if len(key) >= 1 and isinstance(key[0], Tensor) and key[0].val.dtype == "bool" and key[0].val.rank > 1 and all(isinstance(k, slice) and k == slice(None) for k in key[1:]):
        kt = key[0]
        m_ax = kt.val.rank
        if m_ax > a.rank or not all(sd.same(ad) for sd, ad in zip(kt.val.shape, a.shape[:m_ax])):
            raise IN.RaisedEx("IndexError", "The shape of the mask does not match the shape of the indexed tensor", I.ctx.loc)
        sel = where_rows(I, kt)[0].meta["sel"][0]
        sel.mask_src = kt
        rest = a.shape[m_ax:]
        out = Tensor(STensor([Dim([sel.count])] + rest, lambda idx: a.at(sel.split(sel.comps(idx[0][0] if idx[0] else 0)) + list(idx[1:])), a.dtype))
        out.meta["gather"] = (t, (sel, sel.count, None))
        return out
    # tuple of index tensors produced by ONE torch.where call covering the leading axes
    if len(key) >= 2 and all(isinstance(k, Tensor) and "sel" in k.meta for k in key) and all(k.meta["sel"][0] is key[0].meta["sel"][0] for k in key) and [k.meta.get("sel_axis") for k in key] == list(range(len(key))):
        sel, M, off = key[0].meta["sel"]
        m_ax = len(key)
        if len(sel.src_dims) == m_ax and all(sd.same(ad) for sd, ad in zip(sel.src_dims, a.shape[:m_ax])):
            rest = a.shape[m_ax:]

            def fn_ms(idx):
                j = idx[0][0] if idx[0] else 0
                jj = zint(j) + off if off is not None else j
                return a.at(sel.split(sel.comps(jj)) + list(idx[1:]))

            out = Tensor(STensor([Dim([M])] + rest, fn_ms, a.dtype))
            out.meta["gather"] = (t, (sel, M, off))
            return out
    # plan per source axis
    plan = []  # entries: ('new',) | ('keep', ax, dim, mapper) | ('fix', ax, comps) | ('adv', ax, kind, payload)
    ax = 0
    adv = []
    for k in key:
        if k is None:
            plan.append(("new",))
            continue
        if ax >= a.rank:
            raise IN.RaisedEx("IndexError", "too many indices for tensor", I.ctx.loc)
        d = a.shape[ax]
        if isinstance(k, slice):
            nd, mp = _slice_axis(I, d, k)
            plan.append(("keep", ax, nd, mp))
        elif isinstance(k, (int, Sym)) and not isinstance(k, bool):
            plan.append(("fix", ax, _int_index(I, d, k)))
        elif isinstance(k, bool):
            raise Unsupported("bool scalar index")
        elif isinstance(k, Tensor):
            kv = k.val
            if kv.dtype == "bool":
                if kv.rank > 1 and all(dd.is_one for dd in kv.shape[1:]) and False:
                    pass
                if kv.rank != 1:
                    raise Unsupported("boolean mask index of rank != 1")
                mask_src = k
                (sel_t,) = where_rows(I, k)[:1]
                sel_t.meta["sel"][0].mask_src = mask_src
                k = sel_t
                kv = k.val
            if kv.rank == 0:
                plan.append(("fix", ax, _int_index(I, d, tlib.item_value(I, k))))
            elif kv.rank == 1:
                plan.append(("adv", ax, k))
                adv.append(ax)
            else:
                raise Unsupported("index tensor of rank > 1")
        elif isinstance(k, (list, tuple)):
            if all(isinstance(x, bool) for x in k) and k:
                raise Unsupported("list-of-bool index")
            if not all(isinstance(x, (int, Sym)) and not isinstance(x, bool) for x in k):
                raise Unsupported("list index with non-integer entries")
            n = d.concrete()
            if n is None or any(isinstance(x, Sym) for x in k):
                plan.append(("gatherS", ax, [_int_index(I, d, x) for x in k]))
                adv.append(ax)
            else:
                lst = []
                for x in k:
                    if x < -n or x >= n:
                        raise IN.RaisedEx("IndexError", "index out of range", I.ctx.loc)
                    lst.append(x % n)
                plan.append(("gather", ax, lst))
                adv.append(ax)
        else:
            raise IN.RaisedEx("TypeError", f"invalid tensor index {type(k).__name__}", I.ctx.loc)
        ax += 1
    while ax < a.rank:
        plan.append(("keep", ax, a.shape[ax], (lambda c: c)))
        ax += 1
    zipped = None
    if len(adv) == 2:
        # two advanced indices are broadcast against each other and paired element-wise (numpy/torch semantics)
        pa = [i for i, st in enumerate(plan) if st[0] in ("adv", "gather", "gatherS")]
        if pa[1] != pa[0] + 1:
            raise Unsupported("non-adjacent advanced indices")

        def adv_len(st):
            return st[2].val.shape[0] if st[0] == "adv" else Dim([len(st[2])])

        la, lb = adv_len(plan[pa[0]]), adv_len(plan[pa[1]])
        ca, cb = la.concrete(), lb.concrete()
        if ca == 1:
            zdim, ua, ub = lb, False, True
        elif cb == 1:
            zdim, ua, ub = la, True, False
        else:
            eq = la.size_term() == lb.size_term()
            if not I.ctx.entails(eq):
                if not I.decide(eq):
                    # a symbolic length may still be 1 and broadcast
                    if ca is None and I.decide(la.size_term() == 1):
                        zdim, ua, ub = lb, False, True
                    elif cb is None and I.decide(lb.size_term() == 1):
                        zdim, ua, ub = la, True, False
                    else:
                        raise IN.RaisedEx("IndexError", "shape mismatch: indexing tensors could not be broadcast together", I.ctx.loc)
                else:
                    zdim, ua, ub = (la if len(la.factors) == 1 else lb), True, True
            else:
                zdim, ua, ub = la, True, True
        zipped = (pa[0], pa[1], zdim, ua, ub)
    elif len(adv) > 2:
        raise Unsupported("more than two advanced indices")
    shape = []
    for pi_, st in enumerate(plan):
        if zipped is not None and pi_ == zipped[1]:
            continue
        if zipped is not None and pi_ == zipped[0]:
            shape.append(zipped[2])
            continue
        if st[0] == "new":
            shape.append(Dim([]))
        elif st[0] == "keep":
            shape.append(st[2])
        elif st[0] == "adv":
            shape.append(st[2].val.shape[0])
        elif st[0] in ("gather", "gatherS"):
            shape.append(Dim([len(st[2])]))

    def fn(idx):
        full = [None] * a.rank
        p = 0
        if zipped is not None:
            # re-expand the zipped axis into one (possibly constant) index per advanced position
            za, zb, zdim, ua, ub = zipped
            idx = list(idx)
            shared = idx[za]
            first = shared if ua else ((0,) if shared else ())
            second = shared if ub else ((0,) if shared else ())
            idx = idx[:za] + [first, second] + idx[za + 1 :]
        for st in plan:
            if st[0] == "new":
                p += 1
            elif st[0] == "keep":
                full[st[1]] = st[3](idx[p]); p += 1
            elif st[0] == "fix":
                full[st[1]] = st[2]
            elif st[0] == "adv":
                kt = st[2]
                d = a.shape[st[1]]
                j = idx[p][0] if idx[p] else 0
                if "sel" in kt.meta and kt.meta["sel"][0].src_dim.same(d):
                    sel, M, off = kt.meta["sel"]
                    jj = zint(j) + off if off is not None else j
                    full[st[1]] = sel.comps(jj)
                else:
                    v = kt.val.at([idx[p]])
                    full[st[1]] = flat_comps(d, v)
                p += 1
            elif st[0] == "gatherS":
                lst = st[2]
                c = idx[p][0] if idx[p] else 0
                if len(lst) == 1:
                    full[st[1]] = lst[0]
                else:
                    nfac = len(lst[0])
                    full[st[1]] = tuple(core.select_comp(c, len(lst), [(lambda e=e, f=f: zint(e[f])) for e in lst]) for f in range(nfac))
                p += 1
            elif st[0] == "gather":
                lst = st[2]
                c = idx[p][0] if idx[p] else 0
                n = a.shape[st[1]].concrete()
                if isinstance(c, int):
                    full[st[1]] = (lst[c],) if n != 1 else ()
                else:
                    e = z3.IntVal(lst[-1])
                    for q in range(len(lst) - 2, -1, -1):
                        e = z3.If(c == q, z3.IntVal(lst[q]), e)
                    full[st[1]] = (e,) if n != 1 else ()
                p += 1
        return a.at(full)

    val = STensor(shape, fn, a.dtype)
    if not adv and not _NO_VIEW[0]:
        # basic indexing: the result shares the storage of t (torch view)
        out = tlib.make_view(t, val, lambda bv, key0=tuple(key): _getitem_value(I, bv, key0), lambda bv, nv, key0=tuple(key): _setitem_value(I, bv, key0, nv), t.contig and _basic_key_contiguous(key))
    else:
        out = Tensor(val)
    if t.requires_grad or "deps" in t.meta:
        out.meta["view_of"] = t
    if "fw" in t.meta:
        out.meta["fw"] = t.meta["fw"]  # float width (ghost): indexing keeps the dtype
    # remember gathers / selector slices for setitem and len()
    for st in plan:
        if st[0] == "adv" and "sel" in st[2].meta and st[1] == 0:
            out.meta["gather"] = (t, st[2].meta["sel"])
    if "sel" in t.meta and len(key) == 1 and isinstance(key[0], slice):
        sel, M, off = t.meta["sel"]
        sl = key[0]
        if sl.step in (None, 1) and sl.start is None:
            newM = out.val.shape[0].size_term()
            out.meta["sel"] = (sel, newM, off)
    out.meta["base"] = (t, key)
    return out


_NO_VIEW = [False]


def _getitem_value(I, bv, key):
    """value of bv[key] (no new aliasing)"""
    _NO_VIEW[0], old = True, _NO_VIEW[0]
    try:
        return getitem(I, Tensor(bv), key).val
    finally:
        _NO_VIEW[0] = old


def _setitem_value(I, bv, key, nv):
    """value of the base after base[key] = nv, for a basic key (ints, slices, None)"""
    tmp = Tensor(bv)
    if any(k is None for k in key):
        # the inserted axes carry no data: drop them from the key and from the value
        res_axis, new_axes = 0, []
        for k in key:
            if k is None:
                new_axes.append(res_axis); res_axis += 1
            elif isinstance(k, slice):
                res_axis += 1
        keep = [q for q in range(nv.rank) if q not in new_axes]

        def fn(idx, nv=nv):
            full, it = [], iter(idx)
            for q in range(nv.rank):
                full.append(() if q in new_axes else next(it))
            return nv.at(full)

        nv = STensor([nv.shape[q] for q in keep], fn, nv.dtype)
        key = tuple(k for k in key if k is not None)
    setitem(I, tmp, key if len(key) != 1 else key[0], Tensor(nv))
    return tmp.val


def _basic_key_contiguous(key):
    """ints on the leading axes, then at most one step-1 slice, then only full slices: a contiguous block"""
    state = 0  # 0: leading ints, 1: after the partial slice (only full slices may follow)
    for k in key:
        if k is None:
            continue
        if isinstance(k, slice):
            full = k.start is None and k.stop is None and k.step is None
            if state == 0:
                if not full and not (k.step is None or (isinstance(k.step, int) and k.step == 1)):
                    return False
                state = 1
            elif not full:
                return False
        else:
            if state != 0:
                return False
    return True


def _int_index(I, d, k):
    """digit tuple for integer index k along axis d (with IndexError fork)"""
    IN = _IN()
    n = d.concrete()
    if isinstance(k, int) and n is not None:
        if k < -n or k >= n:
            raise IN.RaisedEx("IndexError", f"index {k} is out of bounds for dimension with size {n}", I.ctx.loc)
        return flat_comps(d, k % n) if n != 1 else ()
    N = d.size_term()
    kk = zint(k)
    inb = z3.And(kk >= -N, kk < N)
    if not I.ctx.entails(inb):
        if not I.decide(inb):
            raise IN.RaisedEx("IndexError", "index out of bounds for dimension", I.ctx.loc)
    if isinstance(k, int) and k >= 0:
        eff = z3.IntVal(k)
    elif I.ctx.entails(kk >= 0):
        eff = kk
    else:
        eff = z3.If(kk < 0, kk + N, kk)
    return flat_comps(d, eff) if not d.is_one else ()


def setitem(I, t, key, v):
    """t[key] = v  (in place on the heap cell)"""
    IN = _IN()
    key = _np_keys(key)
    a = t.val
    if isinstance(key, list) and any(isinstance(k, (slice, list, tuple, Tensor)) or k is None or k is Ellipsis for k in key):
        key = tuple(key)
    if not isinstance(key, tuple):
        key = (key,)
    key = list(key)
    if any(k is Ellipsis for k in key):
        p = [i for i, k in enumerate(key) if k is Ellipsis][0]
        n_real = sum(1 for k in key if k is not None and k is not Ellipsis)
        key = key[:p] + [slice(None)] * (a.rank - n_real) + key[p + 1 :]
    # masked assignment: a[mask] = v, a[sel] = v, a[where-tuple] = v
    sel = None
    naxes = None
    if len(key) >= 1 and isinstance(key[0], Tensor) and all(isinstance(k, slice) and k == slice(None) for k in key[1:]):
        kt = key[0]
        if kt.val.dtype == "bool":
            if isinstance(v, Tensor) and "gather" in v.meta and getattr(v.meta["gather"][1][0], "mask_src", None) is kt:
                sel = v.meta["gather"][1][0]
            else:
                sel = where_rows(I, kt)[0].meta["sel"][0]
                sel.mask_src = kt
            naxes = kt.val.rank
        elif "sel" in kt.meta and kt.meta["sel"][2] is None and z3.eq(zint(kt.meta["sel"][1]), zint(kt.meta["sel"][0].count)) and len(kt.meta["sel"][0].src_dims) >= 1:
            sel = kt.meta["sel"][0]
            # a single index tensor of a (N,1)-style mask: trailing mask axes must be trivial
            if not all(d.is_one for d in sel.src_dims[1:]):
                raise Unsupported("assignment through one index tensor of a multi-axis where()")
            naxes = 1
        else:
            raise Unsupported("tensor-index assignment with a general index tensor")
    elif len(key) >= 2 and all(isinstance(k, Tensor) and "sel" in k.meta for k in key) and all(k.meta["sel"][0] is key[0].meta["sel"][0] for k in key) and [k.meta.get("sel_axis") for k in key] == list(range(len(key))):
        sel = key[0].meta["sel"][0]
        naxes = len(key)
        if not z3.eq(zint(key[0].meta["sel"][1]), zint(sel.count)) or key[0].meta["sel"][2] is not None:
            raise Unsupported("assignment through a sliced where() tuple")
    if sel is not None:
        mdims = sel.src_dims[:naxes] if naxes <= len(sel.src_dims) else sel.src_dims
        for sd, ad in zip(mdims, a.shape[:naxes]):
            if not sd.same(ad):
                raise IN.RaisedEx("IndexError", "The shape of the mask does not match the shape of the indexed tensor", I.ctx.loc)
        rest = a.shape[naxes:]
        pad = [() for _ in range(len(sel.src_dims) - naxes)]

        def mask_at(idx):
            return sel.mask_fn([c for comp in list(idx[:naxes]) + pad for c in comp])

        if isinstance(v, Tensor) and "gather" in v.meta and v.meta["gather"][1][0] is sel and v.meta["gather"][0].val.rank == a.rank:
            src = v.meta["gather"][0].val
            val_at = lambda idx: src.at(idx)
        else:
            vv = lift(v)
            if vv.numel_concrete() == 1:
                z = [zero_index(d) for d in vv.shape]
                val_at = lambda idx: vv.at(z)
            else:
                vb = tlib.broadcast_to(I, vv, [Dim([sel.count])] + rest)
                if len(vb.shape) != 1 + len(rest):
                    raise IN.RaisedEx("RuntimeError", "shape mismatch: value tensor cannot be broadcast to indexing result", I.ctx.loc)

                def val_at(idx):
                    comps = [c for comp in list(idx[:naxes]) + pad for c in comp]
                    return vb.at([(sel.pos(comps),)] + list(idx[naxes:]))

        old = a
        dt = a.dtype
        t.val = STensor(a.shape, lambda idx: z3.If(mask_at(idx), core.conv(val_at(idx), dt), old.at(idx)), dt)
        return
    # basic indexing on (mostly) concrete axes
    preds = []  # per source axis: function(comp) -> (hit condition, value digit tuple or None)
    ax = 0
    vshape = []
    for k in key:
        if k is None:
            raise Unsupported("None in assignment index")
        d = a.shape[ax]
        if isinstance(k, slice):
            if k == slice(None):
                preds.append(("all", d)); vshape.append(d)
            else:
                n = d.concrete()
                if n is None:
                    lo_, hi_, st_ = k.start or 0, k.stop, k.step
                    if not (isinstance(lo_, int) and isinstance(hi_, int) and st_ in (None, 1) and 0 <= lo_ <= hi_ and len(d.factors) == 1):
                        raise Unsupported("slice assignment on symbolic axis")
                    if not I.ctx.entails(d.size_term() >= hi_):
                        raise Unsupported("slice assignment possibly beyond a symbolic axis")
                    rng = range(lo_, hi_)
                else:
                    rng = range(*k.indices(n))
                preds.append(("rng", d, rng)); vshape.append(Dim([len(rng)]))
        elif isinstance(k, (int, Sym)) and not isinstance(k, bool):
            preds.append(("fix", d, _int_index(I, d, k)))
        elif isinstance(k, (list,)) and all(isinstance(x, int) for x in k):
            n = d.concrete()
            if n is None:
                raise Unsupported("list assignment on symbolic axis")
            preds.append(("lst", d, [x % n for x in k])); vshape.append(Dim([len(k)]))
        else:
            raise Unsupported(f"assignment index {type(k).__name__}")
        ax += 1
    while ax < a.rank:
        preds.append(("all", a.shape[ax])); vshape.append(a.shape[ax]); ax += 1
    vv = tlib.broadcast_to(I, lift(v), vshape)
    # broadcast_to may produce a larger shape if v is bigger: torch raises
    if len(vv.shape) != len(vshape):
        raise IN.RaisedEx("RuntimeError", "shape mismatch in assignment", I.ctx.loc)
    for dv, dt_ in zip(vv.shape, vshape):
        if not dv.same(dt_) and not I.ctx.entails(dv.size_term() == dt_.size_term()):
            raise IN.RaisedEx("RuntimeError", "shape mismatch: value cannot be broadcast to indexing result", I.ctx.loc)
    old = a
    dt = a.dtype
    if dt != "real" and vv.dtype == "real":
        pass

    def fn(idx):
        conds, vidx = [], []
        for comp, pr in zip(idx, preds):
            if pr[0] == "all":
                vidx.append(comp)
            elif pr[0] == "fix":
                for c, f in zip(comp, pr[2]):
                    if isinstance(c, int) and isinstance(f, int):
                        if c != f:
                            return old.at(idx)
                    else:
                        conds.append(zint(c) == zint(f))
            elif pr[0] in ("rng", "lst"):
                seq = list(pr[2])
                c = comp[0] if comp else 0
                if isinstance(c, int):
                    if c not in seq:
                        return old.at(idx)
                    j = seq.index(c)
                    vidx.append((j,) if len(seq) != 1 else ())
                else:
                    if not seq:
                        return old.at(idx)
                    conds.append(z3.Or([c == s for s in seq]))
                    e = z3.IntVal(len(seq) - 1)
                    for q in range(len(seq) - 2, -1, -1):
                        e = z3.If(c == seq[q], z3.IntVal(q), e)
                    vidx.append((e,) if len(seq) != 1 else ())
        newv = core.conv(vv.at(vidx), dt)
        if not conds:
            return newv
        return z3.If(z3.And(conds), newv, old.at(idx))

    t.val = STensor(a.shape, fn, dt)


# ----------------------------------------------------------------------------- reductions / matmul
def _reduce_axes(I, a, dim):
    if dim is None:
        return list(range(a.rank))
    if isinstance(dim, (list, tuple)):
        return [norm_axis(I, k, a.rank) for k in dim]
    return [norm_axis(I, dim, a.rank)]


def reduce_concrete(I, a, dim, keepdim, combine, init=None, dtype=None):
    """fold over concrete axes"""
    a = lift(a)
    axes = _reduce_axes(I, a, dim)
    for k in axes:
        if a.shape[k].concrete() is None:
            return None
    import itertools

    ranges = [[tuple(c) for c in itertools.product(*[range(f) for f in a.shape[k].factors])] for k in axes]
    combos = list(itertools.product(*ranges))
    rest = [k for k in range(a.rank) if k not in axes]
    shape = [a.shape[k] if k not in axes else Dim([]) for k in range(a.rank)] if keepdim else [a.shape[k] for k in rest]

    def fn(idx):
        acc = init
        for cb in combos:
            full = [None] * a.rank
            if keepdim:
                for k in range(a.rank):
                    full[k] = idx[k]
            else:
                for p, k in enumerate(rest):
                    full[k] = idx[p]
            for k, c in zip(axes, cb):
                full[k] = c
            v = a.at(full)
            acc = v if acc is None else combine(acc, v)
        return acc

    return STensor(shape, fn, dtype or a.dtype), len(combos)


def matmul(I, a, b):
    IN = _IN()
    if a.rank == 0 or b.rank == 0:
        raise IN.RaisedEx("RuntimeError", "both arguments to matmul need to be at least 1D", I.ctx.loc)
    a1 = a.rank == 1
    b1 = b.rank == 1
    if a1:
        a = unsqueeze(I, a, 0)
    if b1:
        b = unsqueeze(I, b, 1)
    ka, kb = a.shape[-1], b.shape[-2]
    n = ka.concrete()
    if n is None or kb.concrete() is None:
        from . import tsum

        r = tsum.matmul_symbolic(I, a, b)
    else:
        if n != kb.concrete():
            raise IN.RaisedEx("RuntimeError", f"mat1 and mat2 shapes cannot be multiplied ({n} vs {kb.concrete()})", I.ctx.loc)
        bshape_, ma, mb = tlib.bshape(I, a.shape[:-2], b.shape[:-2])
        shape = bshape_ + [a.shape[-2], b.shape[-1]]
        dt = tlib.promote(a.dtype, b.dtype)
        cv = zreal if dt == "real" else zint

        def fn(idx):
            bi = idx[:-2]
            ia = tlib._opidx(bi, ma, a.shape[:-2])
            ib = tlib._opidx(bi, mb, b.shape[:-2])
            acc = None
            for k in range(n):
                kk = (k,) if n != 1 else ()
                term = cv(a.at(ia + [idx[-2], kk])) * cv(b.at(ib + [kk, idx[-1]]))
                acc = term if acc is None else acc + term
            return acc if acc is not None else cv(0)

        r = STensor(shape, fn, dt)
    if a1:
        r = squeeze_axis(r, r.rank - 2)
    if b1:
        r = squeeze_axis(r, r.rank - 1)
    return r


def squeeze_axis(a, k):
    src = a.shape
    return STensor(a.shape[:k] + a.shape[k + 1 :], lambda idx: a.at(idx[:k] + [zero_index(src[k])] + idx[k:]), a.dtype)
