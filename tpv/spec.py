"""tpv spec: the contract / scenario vocabulary.

A *contract scenario* is a python function `f(S)` registered with @scenario.  It states the
precondition by constructing symbolic arguments and assumptions (S.assume), names the repo function
under contract, runs it through the interpreter (callees with their own contract are replaced by
their summaries, everything else is executed from source) and states postconditions with S.ensure.
Every S.ensure / safety check / unexpected exception becomes a named proof obligation.
"""
import z3

from . import core
from .core import Sym, STensor, Dim, Unsupported, zint, zreal, zbool, is_sym
from .tlib import Tensor, lift
from . import tlib

REGISTRY = []  # list of ScenarioDef


class ScenarioDef:
    def __init__(self, prop, name, fn, targets, configs, bounded=None, doc=""):
        self.prop, self.name, self.fn, self.targets = prop, name, fn, targets
        self.configs = configs or [None]
        self.bounded = bounded  # None or text describing the bound (then never counted as proved)
        self.doc = doc


def scenario(prop, targets, configs=None, bounded=None, name=None, history=None):
    """register a contract scenario for property `prop` on repo functions `targets`.
    history: None | True | "light" | list of configs | ("light", configs): also register the history variant
    (second_use) of the scenario -- the objects the body makes through Session.once are used a second time"""
    if isinstance(targets, str):
        targets = [targets]

    def deco(fn):
        REGISTRY.append(ScenarioDef(prop, name or fn.__name__, fn, targets, configs, bounded, fn.__doc__ or ""))
        if history:
            light, hc = False, configs
            h = history
            if isinstance(h, tuple):
                light, hc = h[0] == "light", h[1]
            elif h == "light":
                light = True
            elif isinstance(h, list):
                hc = h
            g = second_use(fn, light=light)
            if name:
                g.__name__ = name + "_and_again_on_the_same_object"
            REGISTRY.append(ScenarioDef(prop, g.__name__, g, targets, hc, bounded, g.__doc__ or ""))
        return fn

    return deco


class Expected(Exception):
    pass


# ----------------------------------------------------------------------------- abstract user callables
class App:
    """value returned by an abstract (uninterpreted) user function: f(**kwargs) as a term"""

    def __init__(self, fname, kwargs):
        self.fname = fname
        self.kwargs = dict(kwargs)

    def key(self):
        return (self.fname, tuple(sorted((k, _vkey(v)) for k, v in self.kwargs.items())))

    def __repr__(self):
        return f"<{self.fname}({', '.join(self.kwargs)})>"


def _vkey(v):
    if isinstance(v, App):
        return ("app",) + v.key()
    if isinstance(v, (int, float, str, bool, type(None))):
        return ("c", type(v).__name__, v)
    if isinstance(v, Sym):
        return ("s", v.t.sexpr())
    return ("id", id(v))


class CodeToken:
    """stands for a function's __code__ object (hashable, compared by identity)"""

    def __init__(self, name):
        self.name = name

    def __repr__(self):
        return f"<code {self.name}>"


class UserFn:
    """an arbitrary user function with a declared signature.  Calls are logged (ghost) and return
    an App term, i.e. nothing is assumed about the function except that it is a function."""

    def __init__(self, name, args, defaults=None, varargs=None, varkw=None, kwonly=(), kwonly_defaults=None, returns=None):
        self.name, self.args, self.defaults = name, list(args), dict(defaults or {})
        self.varargs, self.varkw, self.kwonly = varargs, varkw, list(kwonly)
        self.kwonly_defaults = dict(kwonly_defaults or {})
        self.calls = []
        self.returns = returns
        # functions created by evaluating the SAME def / lambda expression share their code object while having
        # their own defaults: `code` is that shared token (pass the same CodeToken to model such closures)
        self.code = CodeToken(name)

    def tpv_argspec(self, I):
        from .pylib import ArgSpec

        dl = tuple(self.defaults[a] for a in self.args if a in self.defaults) or None
        return ArgSpec(list(self.args), self.varargs, self.varkw, dl, list(self.kwonly), self.kwonly_defaults or None)

    def tpv_call(self, I, args, kwargs):
        from .interp import RaisedEx

        bound = {}
        if len(args) > len(self.args) and not self.varargs:
            raise RaisedEx("TypeError", f"{self.name}() takes {len(self.args)} positional arguments", I.ctx.loc)
        for a, v in zip(self.args, args):
            bound[a] = v
        positional = set(bound)
        for k, v in kwargs.items():
            if k in positional:
                raise RaisedEx("TypeError", f"{self.name}() got multiple values for argument '{k}'", I.ctx.loc)
            if k not in self.args and k not in self.kwonly and not self.varkw:
                raise RaisedEx("TypeError", f"{self.name}() got an unexpected keyword argument '{k}'", I.ctx.loc)
            bound[k] = v
        for a in self.args:
            if a not in bound:
                if a in self.defaults:
                    bound[a] = self.defaults[a]
                else:
                    raise RaisedEx("TypeError", f"{self.name}() missing required argument '{a}'", I.ctx.loc)
        rec = {"positional": len(args), "kwargs": dict(kwargs), "bound": dict(bound)}
        self.calls.append(rec)
        I.ctx.ghost.setdefault("user_calls", []).append((self.name, rec))
        if self.returns is not None:
            return self.returns(I, bound)
        return App(self.name, bound)

    def tpv_getattr(self, I, name):
        if name == "__name__":
            return self.name
        if name == "__code__":
            return self.code
        if name == "__defaults__":
            return tuple(self.defaults[a] for a in self.args if a in self.defaults) or None
        from .interp import RaisedEx

        raise RaisedEx("AttributeError", name)

    def tpv_deepcopy(self, I, memo):
        return self  # functions are atomic for copy.deepcopy

    def __repr__(self):
        return f"<user fn {self.name}>"


class TensorFn:
    """an abstract callable on tensors (error_fn, reduce_fn, optimizer class ...): records its arguments and
    returns impl(I, args, kwargs)"""

    def __init__(self, name, impl):
        self.name, self.impl, self.calls = name, impl, []

    def tpv_call(self, I, args, kwargs):
        r = self.impl(I, args, kwargs)
        self.calls.append({"args": list(args), "kwargs": dict(kwargs), "result": r})
        return r

    def tpv_getattr(self, I, name):
        if name == "__name__":
            return self.name
        from .interp import RaisedEx

        raise RaisedEx("AttributeError", name)

    def tpv_deepcopy(self, I, memo):
        return self


def rowwise_tensor_fn(name, out_rank1=True):
    """E: [N, m] -> [N], row-wise uninterpreted (deterministic) function"""
    fs = {}

    def impl(I, args, kwargs):
        x = lift(args[0])
        m = x.shape[-1].concrete()
        if m not in fs:
            fs[m] = z3.Function(f"{name}_{m}", *([z3.RealSort()] * m + [z3.RealSort()]))
        f = fs[m]
        return Tensor(STensor(x.shape[:-1], lambda idx: f(*[zreal(x.at(list(idx) + [(c,) if m != 1 else ()])) for c in range(m)]), "real", name))

    return TensorFn(name, impl)


def scalar_tensor_fn(name):
    """Rd: tensor -> fresh scalar tensor (0-d)"""

    def impl(I, args, kwargs):
        v = z3.Real(core.fresh_name(name))
        return Tensor(STensor([], lambda idx: v, "real", name))

    return TensorFn(name, impl)


class RowFn(UserFn):
    """a user function that is ROW-WISE (assumption A8): out[r, c] = F_c(inputs[r, :]).
    Used for shape functions of domains, data functions, residuals, filters."""

    def __init__(self, name, args, out_cols, argdims, dtype="real", out_rank=2, defaults=None):
        super().__init__(name, args, defaults)
        self.out_cols, self.argdims, self.dtype, self.out_rank = out_cols, dict(argdims), dtype, out_rank
        n_in = sum(self.argdims[a] for a in self.args)
        rng = core.SORTS[dtype]()
        self.F = [z3.Function(f"{name}_{c}", *([z3.RealSort()] * n_in + [rng])) if n_in else z3.Const(f"{name}_{c}", rng) for c in range(out_cols)]
        self.n_in = n_in
        self.on_value = None  # optional hook(I, ins, outs) to assume facts about the value (requires)

    def value_terms(self, ins):
        return [f(*ins) if self.n_in else f for f in self.F]

    def tpv_call(self, I, args, kwargs):
        from .interp import RaisedEx

        if args:
            raise Unsupported("row-wise user function called positionally")
        for a in self.args:
            if a not in kwargs:
                if a in self.defaults:
                    kwargs[a] = self.defaults[a]
                else:
                    raise RaisedEx("TypeError", f"{self.name}() missing required argument '{a}'", I.ctx.loc)
        for k in kwargs:
            if k not in self.args:
                raise RaisedEx("TypeError", f"{self.name}() got an unexpected keyword argument '{k}'", I.ctx.loc)
        ts = [lift(kwargs[a]) for a in self.args]
        rec = {"kwargs": dict(kwargs)}
        self.calls.append(rec)
        I.ctx.ghost.setdefault("user_calls", []).append((self.name, rec))
        if not ts:
            outs = self.value_terms([])
            if self.out_rank == 0:
                return Tensor(STensor([], lambda idx: outs[0], self.dtype))
            raise Unsupported("constant row function of rank > 0")
        # batch shape = broadcast of the arguments' batch shapes (size-1 axes broadcast, e.g. parameters (1, d))
        for t, a in zip(ts, self.args):
            if t.rank < 1 or t.shape[-1].concrete() != self.argdims[a]:
                raise Unsupported(f"row function {self.name}: argument {a} has unexpected trailing dim {t.shape}")
        rank = max(len(t.shape) - 1 for t in ts)
        batch = [None] * rank
        for t in ts:
            bs = t.shape[:-1]
            for k, d in enumerate(bs):
                pos = rank - len(bs) + k
                if d.is_one:
                    continue
                if batch[pos] is None:
                    batch[pos] = d
                elif not batch[pos].same(d):
                    eqb = batch[pos].size_term() == d.size_term()
                    if not I.ctx.entails(eqb):
                        if not I.decide(eqb):
                            # a row-wise user function on arguments with different numbers of rows fails (A8)
                            raise RaisedEx("RuntimeError", f"{self.name}: arguments with different batch shapes", I.ctx.loc)
        batch = [d if d is not None else Dim([]) for d in batch]
        full_batch = batch

        def arg_index(t, bi):
            bs = t.shape[:-1]
            out = []
            for k, d in enumerate(bs):
                pos = rank - len(bs) + k
                out.append(() if d.is_one else bi[pos])
            return out

        fnself = self

        def fn(idx):
            bi = idx[: len(batch)]
            ins = []
            for t, a in zip(ts, fnself.args):
                dm = fnself.argdims[a]
                for k in range(dm):
                    ins.append(zreal(t.at(arg_index(t, bi) + [(k,) if dm != 1 else ()])))
            outs = fnself.value_terms(ins)
            if fnself.on_value is not None:
                fnself.on_value(I, ins, outs)
            if fnself.out_rank == len(batch):
                return outs[0]
            c = idx[len(batch)][0] if fnself.out_cols != 1 else 0
            return core.select_comp(c, fnself.out_cols, [(lambda o=o: o) for o in outs])

        if self.out_rank == 1 and len(batch) == 1:
            shape = list(batch)
        else:
            shape = list(batch) + [Dim([self.out_cols])]
        out = Tensor(STensor(shape, fn, self.dtype, self.name))
        out.meta["rowfn"] = (self, ts)
        rec["result"] = out
        return out


# ----------------------------------------------------------------------------- the session
class Session:
    def __init__(self, interp, sdef, cfg):
        self.I, self.sdef, self.cfg = interp, sdef, cfg
        self.prefix = f"{sdef.prop}/{sdef.name}" + (f"[{cfg}]" if cfg is not None else "")
        interp.ctx.ghost["prefix"] = self.prefix
        # history rounds: a scenario body can be run again on the SAME objects (see second_use); inputs created in a
        # later round get their own names (= are independent of the first round's inputs), obligations their own labels
        self.round = ""
        self.shared_objs = {}
        self.shared_count = {}

    # ---- symbolic inputs (preconditions)
    @property
    def ctx(self):
        return self.I.ctx

    def begin_round(self, tag):
        self.round = tag
        self.shared_count = {}

    def shared(self, key, make):
        """the n-th request for `key` in a later round returns what the n-th request of the first round made
        (within one round every request makes a new object)"""
        n = self.shared_count.get(key, 0)
        self.shared_count[key] = n + 1
        if (key, n) not in self.shared_objs:
            self.shared_objs[(key, n)] = make()
        return self.shared_objs[(key, n)]

    def quiet(self, single_path=False):
        """context: a stretch of execution whose obligations are NOT demanded here (a history prefix, or the run of a
        fresh reference object whose obligations are those of the plain scenario)"""
        S = self

        class _Q:
            def __enter__(self):
                self.old = (S.ctx.mute, S.I.no_fork)
                S.ctx.mute = True
                S.I.no_fork = S.I.no_fork or single_path

            def __exit__(self, *a):
                S.ctx.mute, S.I.no_fork = self.old
                return False

        return _Q()

    def same_tensor(self, label, a, b):
        """obligations: the two tensors have the same shape and the same entries"""
        a, b = lift(a), lift(b)
        ok = a.rank == b.rank and all(x.same(y) or self.ctx.entails(x.size_term() == y.size_term()) for x, y in zip(a.shape, b.shape)) and a.dtype == b.dtype
        self.ensure(f"{label}:same-shape", ok)
        if ok:
            def same(q):
                x, y = a.at(q), b.at(q)
                # deterministic code run twice on the same inputs builds the same term: then nothing is left to prove
                return z3.BoolVal(True) if z3.eq(z3.simplify(x), z3.simplify(y)) else x == y

            self.forall(f"{label}:same-entries", a, same)

    def candidate_instance(self, label, funcs, consts=None):
        """a candidate counter-instance for the solver's last resort (see solve.hint_refute): concrete interpretations
        funcs[name] = lambda *args: z3 term of input symbols, consts = {z3 constant: value}.  Never used to prove."""
        self.ctx.ghost.setdefault("instance_hints", []).append({"label": label, "funcs": dict(funcs), "consts": dict(consts or {})})

    def rng_mark(self):
        """the position in the stream of random draws ('generator state')"""
        return self.ctx.ghost.get("rng_position", 0)

    def rng_reset(self, mark):
        """continue drawing from an earlier stream position: the following draws are the same as those made after
        rng_mark() returned `mark` (the model of torch.manual_seed / set_rng_state to the same state)"""
        self.ctx.ghost["rng_position"] = mark

    def returned_local(self, qualname, default):
        """the local variable the repo function `qualname` returns (its accumulator), else `default`: loop contracts
        name their state by this role, not by an incidental identifier"""
        try:
            return returned_local(self.find(qualname)) or default
        except Exception:
            return default

    def once(self, make):
        """the object under contract: made in the first round, the same object in the later rounds of a history
        scenario (requests are matched by their order)"""
        return self.shared("once", make)

    def _nm(self, name):
        return f"{name}@{self.round}" if self.round else name

    def int(self, name, lo=None, hi=None):
        name = self._nm(name)
        s = Sym(z3.Int(name), "int")
        if lo is not None:
            self.ctx.assume(s.t >= lo)
        if hi is not None:
            self.ctx.assume(s.t <= hi)
        self.ctx.ghost.setdefault("inputs", {})[name] = s.t
        return s

    def real(self, name, lo=None, hi=None):
        name = self._nm(name)
        s = Sym(z3.Real(name), "float")
        if lo is not None:
            self.ctx.assume(s.t >= lo)
        if hi is not None:
            self.ctx.assume(s.t <= hi)
        self.ctx.ghost.setdefault("inputs", {})[name] = s.t
        return s

    def bool(self, name):
        name = self._nm(name)
        s = Sym(z3.Bool(name), "bool")
        self.ctx.ghost.setdefault("inputs", {})[name] = s.t
        return s

    def opaque(self, name):
        from .interp import Opaque

        return Opaque(name)

    def assume(self, f):
        if isinstance(f, Sym):
            f = zbool(f)
        self.ctx.assume(f)

    def tensor(self, name, shape, dtype="real", on_access=None, mutable=False):
        """an arbitrary input tensor (uninterpreted contents).  Contracts read inputs lazily through the cell,
        so a cell that the code under contract updates in place would silently change the meaning of every
        pre-state term: unless `mutable`, the runner emits a frame obligation that the cell still holds its
        original value at the end of every path."""
        name = self._nm(name)
        dims = [core.dim_of(s) for s in shape]
        rng = core.SORTS[dtype]()
        arity = sum(len(d.factors) for d in dims)
        f = z3.Function(name, *([z3.IntSort()] * arity + [rng])) if arity else z3.Const(name, rng)

        def fn(idx):
            flat = [zint(c) for comp in idx for c in comp]
            v = f(*flat) if arity else f
            if on_access is not None:
                on_access(idx, v)
            return v

        t = Tensor(STensor(dims, fn, dtype, name))
        self.ctx.ghost.setdefault("input_tensors", {})[name] = (f, dims, dtype)
        if not mutable:
            self.ctx.ghost.setdefault("input_cells", []).append((name, t, t.val))
        return t

    # ---- repo access
    def find(self, qualname):
        return self.I.resolve_lazy(self.I.repo.find(qualname), None)

    def new(self, qualname, *args, **kwargs):
        cls = self.find(qualname)
        return self.I.instantiate(cls, list(args), kwargs)

    def call(self, f, *args, **kwargs):
        if isinstance(f, str):
            name = f.rsplit(".", 1)[-1]
            f = self.find(f)
            if name.startswith("_") and not name.startswith("__"):
                return self._private_call(name, lambda: self.I.call(f, list(args), kwargs))
        return self.I.call(f, list(args), kwargs)

    def _private_call(self, name, thunk):
        """see method(): a private helper whose signature no longer binds the contract's call = UNDECIDED"""
        from .interp import RaisedEx as _RaisedEx

        try:
            return thunk()
        except _RaisedEx as e:
            m = str(getattr(e, "msg", ""))
            if e.kind == "TypeError" and m.startswith(f"{name}() ") and any(w in m for w in ("positional argument", "unexpected keyword", "missing required", "missing keyword-only")):
                self.ctx.oblige(f"{self.prefix}/inv-form:signature-of-private-helper-{name}-changed", z3.BoolVal(False), (), "inv-form", None)
                raise PathEnd("private helper signature changed")
            raise

    def method(self, obj, name, *args, **kwargs):
        if name.startswith("_") and not name.startswith("__"):
            # a contract attached to a PRIVATE helper calls it with the signature of the source it was written against;
            # if the call cannot even bind its arguments the helper's signature was changed (a refactoring is free to do
            # that): the helper contract has to be re-attached -- UNDECIDED (inv-form), not a violation
            from .interp import RaisedEx as _RaisedEx

            try:
                return self.I.call_method(obj, name, list(args), kwargs)
            except _RaisedEx as e:
                m = str(getattr(e, "msg", ""))
                if e.kind == "TypeError" and m.startswith(f"{name}() ") and any(w in m for w in ("positional argument", "unexpected keyword", "missing required", "missing keyword-only")):
                    self.ctx.oblige(f"{self.prefix}/inv-form:signature-of-private-helper-{name}-changed", z3.BoolVal(False), (), "inv-form", None)
                    raise PathEnd("private helper signature changed")
                raise
        return self.I.call_method(obj, name, list(args), kwargs)

    def getattr(self, obj, name):
        return self.I.getattr(obj, name)

    def use_contract(self, qualname, summary):
        """modularity: calls of `qualname` are replaced by its contract summary
        summary(I, sfunc, args, kwargs): check requires (obligations), havoc modifies, assume ensures"""
        self.find(qualname)
        self.I.summaries[qualname] = summary
        self.ctx.ghost.setdefault("contracts_used", []).append(qualname)

    def on_call(self, qualname, fn):
        """run fn(record of arguments) at every call of `qualname` (used to state ASSUMED lemmas at a call
        boundary; every use is reported as an assumption)"""
        self.find(qualname)

        def hook(I, f, args, kwargs):
            if f.qualname != qualname:
                return
            names = [a.arg for a in f.node.args.args]
            rec = dict(zip(names, args))
            rec.update(kwargs)
            fn(rec)

        self.I.call_hooks.append(hook)
        self.ctx.ghost.setdefault("assumed_lemmas", []).append(qualname)

    def probe_returns(self, qualname):
        """ghost observation of the values returned by every call of the repo function `qualname`"""
        self.find(qualname)
        log = []
        I = self.I
        orig = I.call_func

        def wrapped(fn, args, kwargs):
            r = orig(fn, args, kwargs)
            if fn.qualname == qualname and fn.closure is None:
                log.append(r.val if isinstance(r, Tensor) else r)
            return r

        I.call_func = wrapped
        return log

    def lemma_schema(self, label, make_vars, statement):
        """prove the closed statement  forall vars: statement(vars)  once (fresh variables), and return an
        instantiation function for use as a hypothesis elsewhere"""
        vs = make_vars()
        self.ctx.oblige(f"{self.prefix}/lemma:{label}", statement(*vs), (), "lemma", pure=True)
        return lambda *terms: statement(*terms)

    def probe(self, qualname):
        """ghost observation: record the arguments (tensor values snapshotted at call time) of every call of
        the repo function `qualname` executed from now on"""
        import ast as _ast

        self.find(qualname)
        log = []

        def hook(I, fn, args, kwargs):
            if fn.qualname != qualname:
                return
            names = [a.arg for a in fn.node.args.args]
            rec = {}
            for nm, v in list(zip(names, args)) + list(kwargs.items()):
                rec[nm] = v.val if isinstance(v, Tensor) else v
            log.append(rec)

        self.I.call_hooks.append(hook)
        return log

    def outcome(self, thunk):
        """run thunk; returns ('ok', value) or ('raise', kind)"""
        from .interp import RaisedEx

        try:
            return ("ok", thunk())
        except RaisedEx as e:
            return ("raise", e.kind, e)

    # ---- obligations (postconditions)
    def ensure(self, label, goal, hyps=(), kind="post", replay=None):
        if replay is not None:
            self._next_replay = replay
        if isinstance(goal, Sym):
            goal = zbool(goal)
        if isinstance(goal, (list, tuple)):
            goal = z3.And([zbool(g) if isinstance(g, Sym) else (z3.BoolVal(g) if isinstance(g, bool) else g) for g in goal]) if goal else True
        if kind == "inv" and (goal is False or (isinstance(goal, z3.BoolRef) and z3.is_false(goal))):
            # a loop-invariant clause that fails WITHOUT the solver -- the contract's code found the loop state not to
            # have the form it describes (a variable missing / of another type / of another rank): that is what a
            # renamed or restructured loop looks like, not a counterexample.  Reported as UNDECIDED (kind inv-form).
            kind = "inv-form"
        meta = None
        rp = getattr(self, "_next_replay", None)
        if rp is not None:
            meta = {"replay": rp}
            self._next_replay = None
        self.ctx.oblige(f"{self.prefix}/{kind}:{self.round + ':' if self.round else ''}{label}", goal, hyps, kind, meta)

    def lemma(self, label, goal, hyps=()):
        """prove `hyps => goal` as its own obligation, then use it (hint for nonlinear arithmetic)"""
        self.ensure(label, goal, hyps, kind="lemma")
        if hyps:
            goal = z3.Implies(z3.And(list(hyps)), goal)
        self.ctx.assume(goal)

    def row_lemma(self, label, dim, stmt, hyps_of=None, pure_hyps=None):
        """prove stmt(row) for a generic row of an axis of size `dim` (own obligation), then make it available to the
        safety obligations of this path whose generic index runs over the same axis (instantiated at their index by
        the runner).  pure_hyps(row): discharge from exactly these hypotheses (no context)."""
        d = core.dim_of(dim) if not isinstance(dim, core.Dim) else dim
        row = tuple(z3.Int(core.fresh_name("rl")) for _ in d.factors)
        rng = [z3.And(r >= 0, r < zint(f)) for r, f in zip(row, d.factors)]
        if pure_hyps is not None:
            self.ctx.oblige(f"{self.prefix}/lemma:{label}", stmt(row), list(pure_hyps(row)) + rng, "lemma", pure=True)
        else:
            self.ensure(label, stmt(row), rng + list(hyps_of(row) if hyps_of else []), kind="lemma")
        self.ctx.ghost.setdefault("row_lemmas", []).append((d, stmt))

    def abstract_field(self, obj, field, name, facts):
        """modular step: replace a computed field by a fresh constant about which only the (already
        proved) characterisation `facts(fresh)` is known"""
        old = self.I.getattr(obj, field)
        fresh = Sym(z3.Int(name), "int")
        f = facts(fresh.t)
        self.ensure(f"characterisation-of-{field}", facts(zint(old)), kind="lemma")
        self.ctx.assume(f)
        obj.f[field] = fresh
        return fresh

    def ensure_raises(self, label, thunk, kinds):
        """the call must raise one of `kinds` on this path"""
        from .interp import RaisedEx

        kinds = [kinds] if isinstance(kinds, str) else list(kinds)
        try:
            thunk()
        except RaisedEx as e:
            self.ensure(label, e.kind in kinds, kind="raises")
            return e
        self.ensure(label, False, kind="raises")
        return None

    def instances(self, dims, idx):
        """instantiate the registered quantified facts (min/max bounds, all/any, equal) at idx"""
        out = []
        for (label, fn) in self.ctx.schemas:
            sd = label[1]
            if len(sd) == len(dims) and all(a.same(b) for a, b in zip(sd, dims)):
                out.append(fn(idx))
        return out

    def minmax_cross_instances(self):
        """every min/max bound instantiated at the attaining index of every other min/max over the same axes
        (two evaluations of max over the same tensor are equal)"""
        out = []
        for (label, fn) in self.ctx.schemas:
            if label[0] != "minmax":
                continue
            for (widx, wdims) in self.ctx.ghost.get("minmax_witness", []):
                if len(wdims) == len(label[1]) and all(a.same(b) for a, b in zip(wdims, label[1])):
                    out.append(fn(widx))
        return out

    def schema_instances(self, cands, kinds=("minmax", "all", "any", "equal")):
        """instantiate every registered quantified fact at all combinations of the candidate digit tuples"""
        import itertools

        out = []
        for (label, fn) in self.ctx.schemas:
            if label[0] not in kinds:
                continue
            per_axis = []
            for d in label[1]:
                if d.is_one:
                    per_axis.append([()])
                else:
                    per_axis.append([tuple(c) for c in cands if len(c) == len(d.factors)])
            for combo in itertools.product(*per_axis):
                out.append(fn(list(combo)))
        return out

    def forall(self, label, tensor, pred, kind="post", extra_hyps=(), cases=None, replay=None):
        """obligation: for every index of `tensor`, pred(idx) holds (generic index = Skolem constants).
        cases(idx) -> list of conditions: the obligation is split into one VC per case (proof hint) plus
        an exhaustiveness VC."""
        v = lift(tensor)
        idx, hyps = v.generic_index("q")
        goal = pred(idx)
        inst = self.instances(v.shape, idx)
        base = list(hyps) + inst + list(extra_hyps(idx) if callable(extra_hyps) else extra_hyps)
        if cases is None:
            self.ensure(label, goal, base, kind, replay=replay(idx) if replay else None)
            return
        cs = cases(idx)
        for n, c in enumerate(cs):
            self.ensure(f"{label}#case{n}", goal, base + [c], kind, replay=replay(idx) if replay else None)
        self.ensure(f"{label}#cases-exhaustive", z3.Or(cs), base, kind)

    def cover(self, label, cond=True):
        """reachability check: pc /\\ cond must be satisfiable (guards against vacuous preconditions)"""
        if isinstance(cond, Sym):
            cond = zbool(cond)
        if isinstance(cond, bool):
            cond = z3.BoolVal(cond)
        self.ctx.oblige(f"{self.prefix}/cover:{self.round + ':' if self.round else ''}{label}", cond, (), "cover")

    def canary(self, label, goal, hyps=()):
        """an obligation that MUST NOT be provable (engine soundness canary)"""
        if isinstance(goal, Sym):
            goal = zbool(goal)
        self.ctx.oblige(f"{self.prefix}/canary:{label}", goal, hyps, "canary")


def second_use(fn, light=False, suffix="_and_again_on_the_same_object"):
    """history variant of a scenario body: the body runs, then runs again in the same session.  Whatever the body
    obtains through Session.shared (the object under contract) is the SAME object in the second round; every input
    the body draws is a NEW independent symbol.  All postconditions are demanded again, so an object that remembers
    anything from its first use (memoised boxes, normals, counts, in-place updated stored tensors) fails them.
    light: the first round is only a history prefix -- its obligations (those of the plain scenario, proved there)
    are not repeated and it is followed along one of its paths only (its inputs restricted to that path)."""

    def g(S):
        if light:
            S.ctx.mute, S.I.no_fork = True, True
        try:
            fn(S)
        finally:
            S.ctx.mute, S.I.no_fork = False, False
        S.begin_round("again")
        fn(S)

    g.__name__ = fn.__name__ + suffix
    g.__doc__ = (fn.__doc__ or "") + " -- history: asked a second time on the same object with independent inputs, every postcondition again" + ("; the first use along one of its paths" if light else "")
    return g


def returned_local(fn):
    """name of the local variable a repo function returns (`return <name>` as its last statement), else None.  Lets a
    loop contract speak about 'the value the function accumulates and returns' instead of an incidental local name."""
    import ast as _ast

    node = getattr(fn, "node", None)
    if node is None or not node.body:
        return None
    last = node.body[-1]
    if isinstance(last, _ast.Return) and isinstance(last.value, _ast.Name):
        return last.value.id
    return None


# ----------------------------------------------------------------------------- loop contracts
def _stored_names(body):
    import ast as _ast

    names = set()
    for st in body:
        for n in _ast.walk(st):
            if isinstance(n, _ast.Name) and isinstance(n.ctx, (_ast.Store, _ast.Del)):
                names.add(n.id)
    return names


class _RenamedVars:
    """view of an environment's variable table under the contract's (baseline) names"""

    def __init__(self, real, m):
        self.real, self.m = real, m

    def _k(self, k):
        return self.m.get(k, k)

    def __getitem__(self, k):
        return self.real[self._k(k)]

    def __setitem__(self, k, v):
        self.real[self._k(k)] = v

    def __contains__(self, k):
        return self._k(k) in self.real

    def get(self, k, d=None):
        return self.real.get(self._k(k), d)

    def pop(self, k, *d):
        return self.real.pop(self._k(k), *d)

    def setdefault(self, k, d=None):
        return self.real.setdefault(self._k(k), d)


class _RenamedEnv:
    def __init__(self, env, m):
        self._env, self._m = env, m
        self.vars = _RenamedVars(env.vars, m)

    def lookup(self, name):
        return self._env.lookup(self._m.get(name, name))

    def __getattr__(self, a):
        return getattr(self._env, a)


class LoopSpec:
    """inductive contract of one loop of a repo function.

    make(I, env, i): put the loop-modified variables into an ARBITRARY state satisfying the invariant at the
                     start of iteration i (for-loops: i is the symbolic counter; while-loops: i is None)
    check(I, env, i, tag): emit the obligations 'state satisfies the invariant at i'
    The same predicate is used both ways (assumed by make through axioms-on-access, checked by check).
    Obligations: <..>/inv-init, <..>/inv-step.  Termination of while loops is NOT proved."""

    def __init__(self, make, check, modifies=None, label="loop"):
        self.make, self.check, self.modifies, self.label = make, check, modifies, label

    def _view(self, env):
        nm = getattr(self, "name_map", {}) or {}
        return _RenamedEnv(env, nm) if nm and not isinstance(env, _RenamedEnv) else env

    def _havoc_guard(self, I, st, env, done_before):
        mods = _stored_names(st.body)
        if hasattr(st, "target"):
            import ast as _ast

            for n in _ast.walk(st.target):
                if isinstance(n, _ast.Name):
                    mods.discard(n.id)
        nm = getattr(self, "name_map", {}) or {}
        declared = {nm.get(x, x) for x in (self.modifies or [])}
        missing = [m for m in mods if m not in declared]
        temporaries = [m for m in missing]
        # variables assigned in the body but not part of the invariant are loop-local temporaries:
        # they are made undefined so that a use after/before assignment cannot silently see a stale value
        for m in temporaries:
            env.vars.pop(m, None)
            env.vars.setdefault("__havoced__", {})[m] = self.label

    def _check(self, I, env, i, tag):
        """run the contract's check; a state that does not even have the FORM the invariant talks about (the
        contract code cannot read it) gives a failed obligation of kind 'inv-form'.  Such a failure says that the LOOP
        was restructured (renamed / moved state), not that the property is violated: the cli reports it as UNDECIDED
        (exit 2, 'the loop contract has to be re-attached'), never as a VIOLATION -- a behaviour-preserving
        refactoring must not raise an alarm (seeded_harmless/HC07)"""
        n0 = sum(1 for o in I.ctx.obligations if o.kind == "inv-form")
        env = self._view(env)
        try:
            self.check(I, env, i, tag)
        except (Unsupported, TypeError, AttributeError, KeyError, IndexError) as e:
            I.ctx.oblige(f"{I.ctx.ghost.get('prefix', '?')}/inv:{self.label}/{tag}:loop-state-has-the-form-the-invariant-describes", False, (), "inv-form", {"msg": f"{type(e).__name__}: {e}"})
        if sum(1 for o in I.ctx.obligations if o.kind == "inv-form") > n0:
            # the loop does not have the form the contract describes: nothing that follows on this path (the havoced
            # state made from the contract's names, the body run on it, the postconditions) means anything
            raise PathEnd("loop not of the form its contract describes")

    def run_for(self, I, st, env, it):
        from .interp import SymRange, BreakEx, ContinueEx

        item_fn = None
        if hasattr(it, "tpv_sym_iter"):
            cnt, item_fn = it.tpv_sym_iter()
            it = SymRange(0, cnt, 1)
        if not isinstance(it, SymRange):
            it_list = I.iterate(it)
            if len(it_list) > 64:
                raise Unsupported("loop contract on a long concrete loop")
            # concrete loop: just execute (the contract is only needed for symbolic trip counts)
            for v in it_list:
                I.assign(st.target, v, env)
                try:
                    I.exec_block(st.body, env)
                except BreakEx:
                    return
                except ContinueEx:
                    continue
            return
        if not (isinstance(it.start, int) and it.start == 0 and isinstance(it.step, int) and it.step == 1):
            raise Unsupported("loop contract: range must start at 0 with step 1")
        N = zint(it.stop)
        self._check(I, env, 0, "inv-init")
        which = I.choose(2, "loop")
        if which == 0:
            i = z3.Int(core.fresh_name("it"))
            I.ctx.assume(z3.And(i >= 0, i < N))
            self._havoc_guard(I, st, env, None)
            self.make(I, self._view(env), Sym(i, "int"))
            I.assign(st.target, item_fn(I, Sym(i, "int")) if item_fn else Sym(i, "int"), env)
            try:
                I.exec_block(st.body, env)
            except ContinueEx:
                pass
            except BreakEx:
                raise Unsupported("break inside a loop under contract")
            self._check(I, env, concretize(Sym(z3.simplify(i + 1), "int")), "inv-step")
            raise PathEnd("loop step verified")
        I.ctx.assume(N >= 0)
        self._havoc_guard(I, st, env, None)
        self.make(I, self._view(env), concretize(Sym(N, "int")))
        if st.orelse:
            I.exec_block(st.orelse, env)

    def run_while(self, I, st, env):
        from .interp import BreakEx, ContinueEx

        self._check(I, env, None, "inv-init")
        which = I.choose(2, "loop")
        self._havoc_guard(I, st, env, None)
        self.make(I, self._view(env), None)
        c = I.truth(I.eval(st.test, env))
        if which == 0:
            if not c:
                raise PathEnd("loop body: condition false")
            try:
                I.exec_block(st.body, env)
            except ContinueEx:
                pass
            except BreakEx:
                raise Unsupported("break inside a loop under contract")
            self._check(I, env, None, "inv-step")
            raise PathEnd("loop step verified")
        if c:
            raise PathEnd("loop exit: condition still true")
        if st.orelse:
            I.exec_block(st.orelse, env)


def _session_loop(self, qualname, ordinal, spec):
    """attach a loop contract to the `ordinal`-th loop (pre-order) of repo function `qualname`.  The contract speaks
    about the loop state by the local names of the source it was written against; they are re-aligned with the
    current source by use signatures (tpv.localnames), so a commit that only renames locals keeps the contract usable"""
    from . import localnames

    fn = self.find(qualname)
    try:
        spec.name_map = localnames.loop_mapping(qualname, fn.node, ordinal)
        if spec.name_map:
            # reported in the evidence: which contract names were re-aligned with which current locals
            reg = getattr(self.I.repo, "renamed_locals", None)
            if reg is None:
                reg = self.I.repo.renamed_locals = {}
            reg[f"{qualname}#loop{ordinal}"] = dict(spec.name_map)
    except Exception:
        spec.name_map = {}
    self.I.loop_specs[(qualname, ordinal)] = spec


Session.loop = _session_loop


def _session_loop_kinds(self, qualname):
    """the kinds ("for" / "while") of the loops of repo function `qualname` in pre-order (loop ordinals)"""
    import ast as _ast
    from .interp import _preorder

    fn = self.find(qualname)
    return ["for" if isinstance(n, _ast.For) else "while" for n in _preorder(fn.node) if isinstance(n, (_ast.For, _ast.While))]


Session.loop_kinds = _session_loop_kinds
from .core import concretize, PathEnd  # noqa: E402
