"""Loop contracts name the state of a loop by the LOCAL NAMES the pinned source uses.  A clean-up commit that only
renames locals (and reorders independent statements) must not make the contract unusable: the names are re-aligned with
the current source through name-independent USE SIGNATURES.

signature(v) = multiset of the local expression contexts in which v occurs in the function:
    store in Assign / AugAssign / For target / With ..., load as argument k (or keyword kw) of a call to <callee>,
    as operand (side, operator) of a BinOp / Compare / BoolOp, as value or index of a Subscript, as receiver of
    .<attr>, in a Return, in a test of If / While, ...        -- other variable names do not appear in a context.

baseline signatures (from the source the contracts were written against) are stored in contracts/baseline_locals.json
(tools/gen_baseline_locals.py).  A baseline name b is mapped to the current name c only if c's signature EQUALS b's and
no other current name has that signature; unmapped names keep their spelling (and a contract that then does not find its
state reports 'loop restructured' = undecided).  A wrong mapping would need two locals with identical use signatures."""
import ast
import json
import os
from collections import Counter

_BASE = None


def _callee(f):
    if isinstance(f, ast.Attribute):
        return "." + f.attr
    if isinstance(f, ast.Name):
        return f.id
    return type(f).__name__


def signatures(fn_node):
    """{local name: Counter of contexts} for the Names of a FunctionDef (arguments included)"""
    parents = {}
    for p in ast.walk(fn_node):
        for field, val in ast.iter_fields(p):
            kids = val if isinstance(val, list) else [val]
            for k, c in enumerate(kids):
                if isinstance(c, ast.AST):
                    parents[id(c)] = (p, field, k)
    local = {a.arg for a in fn_node.args.args + fn_node.args.kwonlyargs}
    for n in ast.walk(fn_node):
        if isinstance(n, ast.Name) and isinstance(n.ctx, (ast.Store, ast.Del)):
            local.add(n.id)
    sig = {}
    for n in ast.walk(fn_node):
        if not (isinstance(n, ast.Name) and n.id in local):
            continue
        p, field, k = parents.get(id(n), (None, None, None))
        c = type(n.ctx).__name__
        if isinstance(p, ast.Call):
            if field == "func":
                ctx = ("called",)
            else:
                ctx = ("arg", _callee(p.func), k if field == "args" else -1)
        elif isinstance(p, ast.keyword):
            gp = parents.get(id(p), (None,))[0]
            ctx = ("kwarg", _callee(gp.func) if isinstance(gp, ast.Call) else "?", p.arg)
        elif isinstance(p, ast.Attribute):
            ctx = ("attr", p.attr, c)
        elif isinstance(p, ast.BinOp):
            ctx = ("binop", type(p.op).__name__, field)
        elif isinstance(p, ast.Compare):
            ctx = ("compare", tuple(type(o).__name__ for o in p.ops), field)
        elif isinstance(p, ast.Subscript):
            ctx = ("subscript", field, type(p.ctx).__name__)
        elif isinstance(p, ast.UnaryOp):
            ctx = ("unary", type(p.op).__name__)
        elif isinstance(p, (ast.Tuple, ast.List)):
            gp = parents.get(id(p), (None, None, None))
            ctx = ("in-" + type(p).__name__, k, type(gp[0]).__name__, gp[1], c)
        else:
            ctx = (type(p).__name__, field, c)
        sig.setdefault(n.id, Counter())[ctx] += 1
    return sig


def _key(counter):
    return tuple(sorted((repr(k), v) for k, v in counter.items()))


def baseline():
    global _BASE
    if _BASE is None:
        p = os.path.join(os.path.dirname(os.path.dirname(os.path.abspath(__file__))), "contracts", "baseline_locals.json")
        try:
            _BASE = json.load(open(p))
        except Exception:
            _BASE = {}
    return _BASE


def mapping(qualname, fn_node):
    """baseline local name -> current local name for repo function `qualname` (identity where nothing is known)"""
    base = baseline().get(qualname)
    if not base:
        return {}
    cur = signatures(fn_node)
    cur_by_key = {}
    for nm, c in cur.items():
        cur_by_key.setdefault(_key(c), []).append(nm)
    out = {}
    base = {k: v for k, v in base.items() if not k.startswith("__")}
    for bname, bkey in base.items():
        if bname in cur:
            continue  # the name still exists: it keeps denoting what it denoted
        cands = cur_by_key.get(tuple(tuple(x) for x in bkey), [])
        if len(cands) == 1 and cands[0] not in base:
            out[bname] = cands[0]
    # second pass, for locals whose uses were also touched slightly (an inverted comparison, one more assignment):
    # the UNIQUE clearly most similar unmatched new name -- similarity = weighted Jaccard of the context multisets
    def sim(bkey, c):
        b = Counter({k: v for k, v in (tuple(x) for x in bkey)})
        cc = Counter({repr(k): v for k, v in c.items()})
        inter = sum((b & cc).values())
        union = sum((b | cc).values())
        return inter / union if union else 0.0

    taken = set(out.values())
    free_new = [n for n in cur if n not in base and n not in taken]
    for bname, bkey in base.items():
        if bname in cur or bname in out:
            continue
        scored = sorted(((sim(bkey, cur[n]), n) for n in free_new if n not in taken), reverse=True)
        if scored and scored[0][0] >= 0.6 and (len(scored) == 1 or scored[0][0] - scored[1][0] >= 0.25):
            out[bname] = scored[0][1]
            taken.add(scored[0][1])
    return out


# ---- loop-carried state (role of a local in ONE loop) --------------------------------------------------------------
def _loads(node):
    return {n.id for n in ast.walk(node) if isinstance(n, ast.Name) and isinstance(n.ctx, ast.Load)}


def _name_targets(t):
    """(names bound by target t, names only mutated through t (x[i] = .., x.a = ..), names read by t)"""
    bound, mutated, read = set(), set(), set()
    if isinstance(t, ast.Name):
        bound.add(t.id)
    elif isinstance(t, (ast.Tuple, ast.List)):
        for e in t.elts:
            b, m, r = _name_targets(e)
            bound |= b; mutated |= m; read |= r
    elif isinstance(t, ast.Starred):
        return _name_targets(t.value)
    elif isinstance(t, (ast.Subscript, ast.Attribute)):
        base = t
        while isinstance(base, (ast.Subscript, ast.Attribute)):
            base = base.value
        if isinstance(base, ast.Name):
            mutated.add(base.id)
        read |= _loads(t)
    return bound, mutated, read


def _flow(stmts):
    """(upward-exposed uses, must-definitions, may-definitions-or-mutations) of a statement list"""
    ue, must, may = set(), set(), set()
    for s in stmts:
        u, d, m = _flow_stmt(s)
        ue |= u - must
        must |= d
        may |= m
    return ue, must, may


def _flow_stmt(s):
    if isinstance(s, ast.Assign):
        u, d, m = _loads(s.value), set(), set()
        for t in s.targets:
            b, mu, r = _name_targets(t)
            d |= b; m |= b | mu; u |= r
        return u, d, m
    if isinstance(s, ast.AnnAssign):
        b, mu, r = _name_targets(s.target)
        u = (_loads(s.value) if s.value is not None else set()) | r
        return u, (b if s.value is not None else set()), b | mu
    if isinstance(s, ast.AugAssign):
        b, mu, r = _name_targets(s.target)
        return _loads(s.value) | b | r, b, b | mu
    if isinstance(s, ast.If):
        u1, d1, m1 = _flow(s.body)
        u2, d2, m2 = _flow(s.orelse)
        return _loads(s.test) | u1 | u2, d1 & d2, m1 | m2
    if isinstance(s, (ast.For, ast.AsyncFor)):
        b, mu, r = _name_targets(s.target)
        u1, d1, m1 = _flow(s.body)
        u2, d2, m2 = _flow(s.orelse)
        return _loads(s.iter) | r | (u1 - b) | u2, set(), b | mu | m1 | m2
    if isinstance(s, ast.While):
        u1, d1, m1 = _flow(s.body)
        u2, d2, m2 = _flow(s.orelse)
        return _loads(s.test) | u1 | u2, set(), m1 | m2
    if isinstance(s, (ast.With, ast.AsyncWith)):
        u, d, m = set(), set(), set()
        for it in s.items:
            u |= _loads(it.context_expr)
            if it.optional_vars is not None:
                b, mu, r = _name_targets(it.optional_vars)
                d |= b; m |= b | mu; u |= r
        u1, d1, m1 = _flow(s.body)
        return u | (u1 - d), d | d1, m | m1
    if isinstance(s, ast.Try):
        u, m = set(), set()
        for blk in [s.body, s.orelse, s.finalbody] + [h.body for h in s.handlers]:
            u1, d1, m1 = _flow(blk)
            u |= u1; m |= m1
        return u, set(), m
    if isinstance(s, (ast.FunctionDef, ast.ClassDef, ast.AsyncFunctionDef)):
        return set(), {s.name}, {s.name}
    m = set()
    if isinstance(s, ast.Expr) and isinstance(s.value, ast.Call) and isinstance(s.value.func, ast.Attribute) \
            and isinstance(s.value.func.value, ast.Name):
        m.add(s.value.func.value.id)  # x.append(..), x.update(..): the result is dropped, so x is what changes
    for n in ast.walk(s):
        if isinstance(n, ast.NamedExpr) and isinstance(n.target, ast.Name):
            m.add(n.target.id)
    return _loads(s), set(), m


def _preorder(node):
    for ch in ast.iter_child_nodes(node):
        yield ch
        if isinstance(ch, (ast.FunctionDef, ast.Lambda, ast.ClassDef)):
            continue
        yield from _preorder(ch)


def carried(fn_node):
    """for every loop of the function (pre-order = loop ordinal): the locals whose value at the start of an iteration
    was produced by an earlier iteration -- read before (re)assignment in the body (or in a while-test) AND assigned or
    mutated in the body.  In source order of first occurrence inside the loop."""
    out = []
    for n in _preorder(fn_node):
        if not isinstance(n, (ast.For, ast.While)):
            continue
        ue, must, may = _flow(n.body)
        if isinstance(n, ast.While):
            ue |= _loads(n.test)
        else:
            b, mu, r = _name_targets(n.target)
            ue -= b
            may -= b
        names = ue & may
        first = {}
        for x in ast.walk(n):
            if isinstance(x, ast.Name) and x.id in names:
                k = (x.lineno, x.col_offset)
                if x.id not in first or k < first[x.id]:
                    first[x.id] = k
        out.append(sorted(names, key=lambda v: first.get(v, (1 << 30, 0))))
    return out


def loop_mapping(qualname, fn_node, ordinal):
    """function-level mapping refined for loop `ordinal`: a baseline loop-carried local that has no counterpart yet is
    mapped to the one loop-carried local of the current loop that is not accounted for -- this also covers a local
    whose name still exists elsewhere in the function (e.g. `loss = total` AFTER the loop, with `total` accumulating)"""
    nm = dict(mapping(qualname, fn_node))
    base = baseline().get(qualname) or {}
    bl = base.get("__loops__")
    if not bl or ordinal is None or ordinal >= len(bl):
        return nm
    cur = carried(fn_node)
    if ordinal >= len(cur):
        return nm
    B, C = list(bl[ordinal]), list(cur[ordinal])
    accounted = set()
    open_b = []
    for b in B:
        c = nm.get(b, b)
        if c in C:
            accounted.add(c)
        else:
            open_b.append(b)
    images = set(nm.values())
    open_c = [c for c in C if c not in accounted and c not in images]
    if len(open_b) == 1 and len(open_c) == 1:
        nm[open_b[0]] = open_c[0]
    return nm
