"""tpv nnlib: torch.nn / pytorch_lightning base classes as native models (assumed contracts).

nn.Module: attribute assignment registers sub-modules / parameters (ghost registry in obj.f['_tpv_reg']),
parameters() enumerates registered parameters recursively, __call__ dispatches to forward.
"""
import z3

from . import core
from .core import Sym, STensor, Dim, Unsupported
from .tlib import Tensor, lift
from .loader import NativeClass, SClass


def _IN():
    from . import interp

    return interp


class DataLoaderIter:
    """symbolic-length iteration over a data set (needs a loop contract at the for statement)"""

    def __init__(self, ds, n):
        self.ds, self.n = ds, n


def install(I, torch):
    IN = _IN()
    B = IN.Builtin
    S = IN.StubModule
    Module = NativeClass("nn.Module")

    def m_init(I2, self, *a, **k):
        self.f.setdefault("_tpv_params", {})
        self.f.setdefault("_tpv_modules", {})
        self.f.setdefault("training", True)

    def m_setattr(I2, self, name, v):
        self.f[name] = v
        if name.startswith("_tpv_"):
            return
        if isinstance(v, Tensor) and v.meta.get("is_parameter"):
            self.f.setdefault("_tpv_params", {})[name] = v
        elif isinstance(v, IN.SObj) and v.cls.issubclass(Module):
            self.f.setdefault("_tpv_modules", {})[name] = v
        else:
            self.f.get("_tpv_params", {}).pop(name, None)
            self.f.get("_tpv_modules", {}).pop(name, None)

    def m_register_parameter(I2, self, name, param):
        self.f.setdefault("_tpv_params", {})[name] = param
        self.f[name] = param

    def m_add_module(I2, self, name, mod):
        self.f.setdefault("_tpv_modules", {})[name] = mod
        self.f[name] = mod

    def all_params(I2, self, seen=None):
        seen = seen if seen is not None else set()
        out = []
        if id(self) in seen:
            return out
        seen.add(id(self))
        for p in self.f.get("_tpv_params", {}).values():
            if p is not None and id(p) not in seen:
                seen.add(id(p))
                out.append(p)
        for m in self.f.get("_tpv_modules", {}).values():
            if m is None:
                continue
            if hasattr(m, "tpv_parameters"):
                for p in m.tpv_parameters(I2):
                    if id(p) not in seen:
                        seen.add(id(p)); out.append(p)
            elif isinstance(m, IN.SObj):
                out += all_params(I2, m, seen)
        return out

    def m_parameters(I2, self, recurse=True):
        return all_params(I2, self)

    def m_call(I2, self, *a, **k):
        return I2.call_method(self, "forward", list(a), k)

    def m_to(I2, self, *a, **k):
        return self

    def m_train(I2, self, mode=True):
        self.f["training"] = mode
        return self

    def m_eval(I2, self):
        self.f["training"] = False
        return self

    def m_children(I2, self):
        return list(self.f.get("_tpv_modules", {}).values())

    Module.native_methods.update(
        {
            "__init__": m_init,
            "__setattr__": m_setattr,
            "register_parameter": m_register_parameter,
            "add_module": m_add_module,
            "parameters": m_parameters,
            "__call__": m_call,
            "to": m_to,
            "train": m_train,
            "eval": m_eval,
            "children": m_children,
            "cuda": m_to,
            "cpu": m_to,
        }
    )

    def parameter(I2, data=None, requires_grad=True):
        if data is None:
            data = Tensor(STensor([Dim([0])], lambda idx: z3.RealVal(0), "real"))
        if not isinstance(data, Tensor):
            data = Tensor(lift(data))
        p = Tensor(data.val)
        p.meta["is_parameter"] = True
        p.meta["param_of"] = data
        if requires_grad:
            p.set_attr(I2, "requires_grad", True)
        return p

    ModuleList = NativeClass("nn.ModuleList", [Module])

    def ml_init(I2, self, modules=None):
        m_init(I2, self)
        self.f["_tpv_list"] = []
        if modules is not None:
            for m in I2.iterate(modules):
                ml_append(I2, self, m)

    def ml_append(I2, self, m):
        n = len(self.f["_tpv_list"])
        self.f["_tpv_list"].append(m)
        self.f.setdefault("_tpv_modules", {})[str(n)] = m
        return self

    ModuleList.native_methods.update(
        {
            "__init__": ml_init,
            "append": ml_append,
            "__iter__": lambda I2, self: list(self.f["_tpv_list"]),
            "__len__": lambda I2, self: len(self.f["_tpv_list"]),
            "__getitem__": lambda I2, self, k: self.f["_tpv_list"][k],
        }
    )

    nn = S(
        "torch.nn",
        {
            "Module": Module,
            "Parameter": B("nn.Parameter", parameter),
            "ModuleList": ModuleList,
        },
    )
    Dataset = NativeClass("torch.utils.data.Dataset")
    DataLoader = NativeClass("torch.utils.data.DataLoader")

    def dl_init(I2, self, dataset=None, batch_size=1, shuffle=False, **kw):
        self.f["dataset"] = dataset
        self.f["batch_size"] = batch_size
        self.f["_tpv_shuffle"] = shuffle

    def dl_iter(I2, self):
        """assumed contract (A5): batch_size=None, shuffle=False yields ds[0], ..., ds[len(ds)-1] once each"""
        ds = self.f["dataset"]
        n = I2.pylib.b_len(I2, ds)
        if self.f["batch_size"] is not None or self.f["_tpv_shuffle"]:
            raise Unsupported("DataLoader with automatic batching / shuffling")
        if isinstance(n, Sym):
            return DataLoaderIter(ds, n)
        return [I2.call_method(ds, "__getitem__", [i]) for i in range(n)]

    DataLoader.native_methods.update({"__init__": dl_init, "__iter__": dl_iter, "__len__": lambda I2, self: I2.pylib.b_len(I2, self.f["dataset"])})
    torch.table["utils"] = S("torch.utils", {"data": S("torch.utils.data", {"Dataset": Dataset, "DataLoader": DataLoader}), "DataLoader": DataLoader})
    torch.table["nn"] = nn
    I.nn_module_class = Module
    I.repo.externals["pytorch_lightning"] = S(
        "pytorch_lightning",
        {"LightningModule": NativeClass("pl.LightningModule", [Module]), "callbacks": S("pl.callbacks", {"Callback": NativeClass("pl.Callback")})},
    )
