"""tpv nnlib: torch.nn / pytorch_lightning base classes as native models (assumed contracts).

nn.Module: attribute assignment registers sub-modules / parameters (ghost registry in obj.f['_tpv_reg']),
parameters() enumerates registered parameters recursively, __call__ dispatches to forward.
"""
import z3

from . import core
from .core import Sym, STensor, Dim, Unsupported
from .tlib import Tensor, lift
from .loader import NativeClass, SClass


def _IN():
    from . import interp

    return interp


class DataLoaderIter:
    """symbolic-length iteration over a data set (needs a loop contract at the for statement)"""

    def __init__(self, ds, n):
        self.ds, self.n = ds, n


def install(I, torch):
    IN = _IN()
    B = IN.Builtin
    S = IN.StubModule
    Module = NativeClass("nn.Module")

    def m_init(I2, self, *a, **k):
        self.f.setdefault("_tpv_params", {})
        self.f.setdefault("_tpv_modules", {})
        self.f.setdefault("training", True)

    def m_setattr(I2, self, name, v):
        self.f[name] = v
        if name.startswith("_tpv_"):
            return
        if isinstance(v, Tensor) and v.meta.get("is_parameter"):
            self.f.setdefault("_tpv_params", {})[name] = v
        elif isinstance(v, IN.SObj) and v.cls.issubclass(Module):
            self.f.setdefault("_tpv_modules", {})[name] = v
        else:
            self.f.get("_tpv_params", {}).pop(name, None)
            self.f.get("_tpv_modules", {}).pop(name, None)

    def m_register_parameter(I2, self, name, param):
        self.f.setdefault("_tpv_params", {})[name] = param
        self.f[name] = param

    def m_add_module(I2, self, name, mod):
        self.f.setdefault("_tpv_modules", {})[name] = mod
        self.f[name] = mod

    def all_params(I2, self, seen=None):
        seen = seen if seen is not None else set()
        out = []
        if id(self) in seen:
            return out
        seen.add(id(self))
        for p in self.f.get("_tpv_params", {}).values():
            if p is not None and id(p) not in seen:
                seen.add(id(p))
                out.append(p)
        for m in self.f.get("_tpv_modules", {}).values():
            if m is None:
                continue
            if hasattr(m, "tpv_parameters"):
                for p in m.tpv_parameters(I2):
                    if id(p) not in seen:
                        seen.add(id(p)); out.append(p)
            elif isinstance(m, IN.SObj):
                out += all_params(I2, m, seen)
        return out

    def m_parameters(I2, self, recurse=True):
        return all_params(I2, self)

    def m_call(I2, self, *a, **k):
        return I2.call_method(self, "forward", list(a), k)

    def m_to(I2, self, *a, **k):
        return self

    def m_train(I2, self, mode=True):
        self.f["training"] = mode
        return self

    def m_eval(I2, self):
        self.f["training"] = False
        return self

    def m_children(I2, self):
        return list(self.f.get("_tpv_modules", {}).values())

    Module.native_methods.update(
        {
            "__init__": m_init,
            "__setattr__": m_setattr,
            "register_parameter": m_register_parameter,
            "add_module": m_add_module,
            "parameters": m_parameters,
            "__call__": m_call,
            "to": m_to,
            "train": m_train,
            "eval": m_eval,
            "children": m_children,
            "cuda": m_to,
            "cpu": m_to,
        }
    )

    def parameter(I2, data=None, requires_grad=True):
        if data is None:
            data = Tensor(STensor([Dim([0])], lambda idx: z3.RealVal(0), "real"))
        if not isinstance(data, Tensor):
            data = Tensor(lift(data))
        p = Tensor(data.val)
        p.meta["is_parameter"] = True
        p.meta["param_of"] = data
        if requires_grad:
            p.set_attr(I2, "requires_grad", True)
        return p

    ModuleList = NativeClass("nn.ModuleList", [Module])

    def ml_init(I2, self, modules=None):
        m_init(I2, self)
        self.f["_tpv_list"] = []
        if modules is not None and hasattr(modules, "tpv_sym_iter"):
            # a symbolic family of modules (contract-level abstraction of "any number of modules")
            self.f["_tpv_family"] = modules
            return
        if modules is not None:
            for m in I2.iterate(modules):
                ml_append(I2, self, m)

    def ml_iter(I2, self):
        if "_tpv_family" in self.f:
            return self.f["_tpv_family"]
        return list(self.f["_tpv_list"])

    def ml_append(I2, self, m):
        n = len(self.f["_tpv_list"])
        self.f["_tpv_list"].append(m)
        self.f.setdefault("_tpv_modules", {})[str(n)] = m
        return self

    ModuleList.native_methods.update(
        {
            "__init__": ml_init,
            "append": ml_append,
            "__iter__": ml_iter,
            "__len__": lambda I2, self: len(self.f["_tpv_list"]),
            "__getitem__": lambda I2, self, k: self.f["_tpv_list"][k],
        }
    )

    # ---- layers (assumed contracts, A3): Linear acts on the LAST axis with its own weight / bias parameters
    Linear = NativeClass("nn.Linear", [Module])

    def lin_init(I2, self, in_features, out_features, bias=True, **kw):
        m_init(I2, self)
        if not (isinstance(in_features, int) and isinstance(out_features, int)):
            raise Unsupported("nn.Linear with symbolic feature counts")
        W = parameter(I2, Tensor(core.uninterp_tensor("W", [Dim([out_features]), Dim([in_features])], "real")))
        m_setattr(I2, self, "weight", W)
        if bias:
            Bv = parameter(I2, Tensor(core.uninterp_tensor("b", [Dim([out_features])], "real")))
            m_setattr(I2, self, "bias", Bv)
        else:
            self.f["bias"] = None
        self.f["in_features"], self.f["out_features"] = in_features, out_features

    def lin_forward(I2, self, x):
        from . import tshape

        xv = lift(x)
        W = self.f["weight"].val
        nin, nout = self.f["in_features"], self.f["out_features"]
        if xv.rank < 1 or xv.shape[-1].concrete() != nin:
            raise IN.RaisedEx("RuntimeError", f"mat1 and mat2 shapes cannot be multiplied (last axis {xv.shape[-1] if xv.rank else None} vs {nin})", I2.ctx.loc)
        bias = self.f["bias"].val if self.f.get("bias") is not None else None

        def fn(idx):
            j = idx[-1]
            acc = None
            for k in range(nin):
                term = core.zreal(W.at([j, (k,) if nin != 1 else ()])) * core.zreal(xv.at(list(idx[:-1]) + [(k,) if nin != 1 else ()]))
                acc = term if acc is None else acc + term
            if bias is not None:
                acc = acc + core.zreal(bias.at([j]))
            return acc

        return Tensor(STensor(list(xv.shape[:-1]) + [Dim([nout])], fn, "real"))

    Linear.native_methods.update({"__init__": lin_init, "forward": lin_forward})

    def elementwise_module(name, fterm):
        C = NativeClass(f"nn.{name}", [Module])

        def fwd(I2, self, x):
            from . import tlib as _tl

            return Tensor(_tl.ew1(lift(x), lambda v: fterm(core.zreal(v)), "real"))

        C.native_methods.update({"__init__": lambda I2, self, *a, **k: m_init(I2, self), "forward": fwd})
        return C

    from . import tlib as _tlib

    def _uf(nm):
        f = z3.Function(f"act_{nm}", z3.RealSort(), z3.RealSort())
        return lambda v: f(v)

    acts = {
        "Tanh": elementwise_module("Tanh", _tlib.tanh_term),
        "Sigmoid": elementwise_module("Sigmoid", _uf("sigmoid")),
        "ReLU": elementwise_module("ReLU", lambda v: z3.If(v > 0, v, z3.RealVal(0))),
        "GELU": elementwise_module("GELU", _uf("gelu")),
        "Softplus": elementwise_module("Softplus", _uf("softplus")),
        "Identity": elementwise_module("Identity", lambda v: v),
    }
    Identity = acts["Identity"]
    Identity.native_methods["forward"] = lambda I2, self, x: x

    Sequential = NativeClass("nn.Sequential", [Module])

    def seq_init(I2, self, *mods):
        m_init(I2, self)
        self.f["_tpv_list"] = list(mods)
        for i, m in enumerate(mods):
            self.f.setdefault("_tpv_modules", {})[str(i)] = m

    def seq_forward(I2, self, x):
        for m in self.f["_tpv_list"]:
            x = I2.call(m, [x])
        return x

    Sequential.native_methods.update({"__init__": seq_init, "forward": seq_forward, "__iter__": lambda I2, self: list(self.f["_tpv_list"]), "__len__": lambda I2, self: len(self.f["_tpv_list"]), "__getitem__": lambda I2, self, k: self.f["_tpv_list"][k]})

    ParameterList = NativeClass("nn.ParameterList", [Module])

    def pl_init(I2, self, params=None):
        m_init(I2, self)
        self.f["_tpv_list"] = []
        for p in I2.iterate(params) if params is not None else []:
            pl_append(I2, self, p)

    def pl_append(I2, self, p):
        n_ = len(self.f["_tpv_list"])
        self.f["_tpv_list"].append(p)
        self.f.setdefault("_tpv_params", {})[str(n_)] = p
        return self

    ParameterList.native_methods.update({"__init__": pl_init, "append": pl_append, "__iter__": lambda I2, self: list(self.f["_tpv_list"]), "__len__": lambda I2, self: len(self.f["_tpv_list"]), "__getitem__": lambda I2, self, k: self.f["_tpv_list"][k]})

    def init_noop(I2, t, *a, **k):
        return t

    nn_init = S("torch.nn.init", {k: B(k, init_noop) for k in ("xavier_normal_", "xavier_uniform_", "kaiming_uniform_", "uniform_", "normal_", "zeros_", "ones_")})

    def fans(I2, t):
        v = t.val
        return (v.shape[1].size() if v.rank > 1 else 1, v.shape[0].size())

    nn_init.table["_calculate_fan_in_and_fan_out"] = B("_calculate_fan_in_and_fan_out", fans)
    functional = S("torch.nn.functional", {"relu": torch.table["relu"], "tanh": torch.table["tanh"]})
    nn_tbl = {"Module": Module, "Parameter": B("nn.Parameter", parameter), "ModuleList": ModuleList, "Linear": Linear, "Sequential": Sequential, "ParameterList": ParameterList, "init": nn_init, "functional": functional}
    nn_tbl.update(acts)
    nn = S("torch.nn", nn_tbl)
    Dataset = NativeClass("torch.utils.data.Dataset")
    DataLoader = NativeClass("torch.utils.data.DataLoader")

    def dl_init(I2, self, dataset=None, batch_size=1, shuffle=False, **kw):
        self.f["dataset"] = dataset
        self.f["batch_size"] = batch_size
        self.f["_tpv_shuffle"] = shuffle

    def dl_iter(I2, self):
        """assumed contract (A5): batch_size=None, shuffle=False yields ds[0], ..., ds[len(ds)-1] once each"""
        ds = self.f["dataset"]
        n = I2.pylib.b_len(I2, ds)
        if self.f["batch_size"] is not None or self.f["_tpv_shuffle"]:
            raise Unsupported("DataLoader with automatic batching / shuffling")
        if isinstance(n, Sym):
            return DataLoaderIter(ds, n)
        return [I2.call_method(ds, "__getitem__", [i]) for i in range(n)]

    DataLoader.native_methods.update({"__init__": dl_init, "__iter__": dl_iter, "__len__": lambda I2, self: I2.pylib.b_len(I2, self.f["dataset"])})
    torch.table["utils"] = S("torch.utils", {"data": S("torch.utils.data", {"Dataset": Dataset, "DataLoader": DataLoader}), "DataLoader": DataLoader})
    torch.table["nn"] = nn
    I.nn_module_class = Module
    LM = NativeClass("pl.LightningModule", [Module])
    LM.native_methods.update({"log": lambda I2, self, *a, **k: None, "__init__": m_init})
    LM.props["device"] = lambda I2, self: "cpu"
    I.repo.externals["pytorch_lightning"] = S(
        "pytorch_lightning",
        {"LightningModule": LM, "callbacks": S("pl.callbacks", {"Callback": NativeClass("pl.Callback")})},
    )
    # torch.autograd.Function: apply(*args) = forward(ctx, *args); the custom backward is recorded as ghost
    Function = NativeClass("torch.autograd.Function")

    def fn_apply(I2, cls, *args, **kwargs):
        ctx = IN.SObj(NativeClass("autograd.ctx"))
        ctx.f["saved_tensors"] = ()
        ctx.f["__overrides__"] = {"save_for_backward": lambda I3, c, *ts: c.f.__setitem__("saved_tensors", tuple(ts))}
        out = I2.call(I2.getattr(cls, "forward"), [ctx] + list(args), kwargs)
        if isinstance(out, Tensor):
            out.meta["custom_backward"] = (cls, ctx, args)
        return out

    Function.native_methods["apply"] = fn_apply
    Function.classmethods.add("apply")
    torch.table["autograd"] = S("torch.autograd", {"Function": Function})
    torch.table["optim"] = S("torch.optim", {"Adam": IN.Opaque("torch.optim.Adam"), "LBFGS": IN.Opaque("torch.optim.LBFGS"), "SGD": IN.Opaque("torch.optim.SGD")})
