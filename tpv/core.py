"""tpv core: symbolic scalars, structured axis sizes, lazy tensors, path context.

Everything here is solver-facing.  No torch import, runs under python3-vt.
"""
import itertools
import z3

_ctr = itertools.count()
_FACTOR_MEMO = {}  # z3 size-term hash -> (term, factor tuple): recover structure from shape values


RESET_HOOKS = []


def reset_names():
    global _ctr
    _ctr = itertools.count()
    _FACTOR_MEMO.clear()
    for h in RESET_HOOKS:
        h()


def fresh_name(prefix):
    return f"{prefix}!{next(_ctr)}"


def random_name(prefix):
    """name of a RANDOM draw (torch.rand, randperm, the points an abstract domain hands out ...): numbered by the
    position in the stream of draws of the current path, so that two executions started from the same stream position
    (Session.rng_mark / rng_reset: 'the same generator state') see the same draws"""
    g = ctx().ghost
    k = g.get("rng_position", 0)
    g["rng_position"] = k + 1
    return f"{prefix}!r{k}"


class Unsupported(Exception):
    """The engine cannot interpret a construct -> checker error (exit 3), never a verdict."""


class PathEnd(Exception):
    """Current path is finished without a result (e.g. after a loop-step obligation)."""


# ----------------------------------------------------------------------------- scalars
class Sym:
    """A symbolic Python scalar.  ty: 'int' | 'float' | 'bool'."""

    __slots__ = ("t", "ty")

    def __init__(self, t, ty):
        self.t, self.ty = t, ty

    def __repr__(self):
        return f"Sym<{self.ty}>({self.t})"

    def __bool__(self):  # guard against accidental host use
        raise Unsupported(f"host truth value of symbolic scalar {self!r}")

    def __hash__(self):
        return hash((self.t.hash(), self.ty))

    def __eq__(self, o):
        raise Unsupported(f"host == on symbolic scalar {self!r}")

    __index__ = None


def sym_int(prefix):
    return Sym(z3.Int(fresh_name(prefix)), "int")


def sym_real(prefix):
    return Sym(z3.Real(fresh_name(prefix)), "float")


def sym_bool(prefix):
    return Sym(z3.Bool(fresh_name(prefix)), "bool")


def is_sym(v):
    return isinstance(v, Sym)


def zt(v):
    """python/Sym scalar -> z3 term of its natural sort"""
    if isinstance(v, Sym):
        return v.t
    if isinstance(v, bool):
        return z3.BoolVal(v)
    if isinstance(v, int):
        return z3.IntVal(v)
    if isinstance(v, float):
        return realval(v)
    if isinstance(v, z3.ExprRef):
        return v
    raise Unsupported(f"zt of {type(v).__name__}")


def realval(v):
    if isinstance(v, bool):
        return z3.RealVal(int(v))
    if isinstance(v, int):
        return z3.RealVal(v)
    if v != v or v in (float("inf"), float("-inf")):
        raise Unsupported("non-finite float constant in real arithmetic")
    # A1: a float constant stands for the simple rational it was computed from (4.0/3.0 -> 4/3) when one
    # with a small denominator rounds to exactly this float; otherwise its exact decimal expansion
    from fractions import Fraction

    fr = Fraction(float(v)).limit_denominator(10**6)
    if float(fr) == float(v):
        return z3.RealVal(fr.numerator) / z3.RealVal(fr.denominator) if fr.denominator != 1 else z3.RealVal(fr.numerator)
    return z3.RealVal(repr(float(v)))


def zint(v):
    if isinstance(v, Sym):
        if v.ty == "int":
            return v.t
        if v.ty == "bool":
            return z3.If(v.t, z3.IntVal(1), z3.IntVal(0))
        raise Unsupported("float used as int")
    if isinstance(v, bool):
        return z3.IntVal(int(v))
    if isinstance(v, int):
        return z3.IntVal(v)
    if isinstance(v, z3.ExprRef):
        if v.sort() == z3.IntSort():
            return v
        if v.sort() == z3.BoolSort():
            return z3.If(v, z3.IntVal(1), z3.IntVal(0))
    raise Unsupported(f"zint of {v!r}")


def zreal(v):
    if isinstance(v, Sym):
        v = v.t if v.ty != "bool" else z3.If(v.t, z3.RealVal(1), z3.RealVal(0))
    if isinstance(v, (bool, int, float)):
        return realval(v)
    if isinstance(v, z3.ExprRef):
        if v.sort() == z3.RealSort():
            return v
        if v.sort() == z3.IntSort():
            if z3.is_int_value(v):
                return z3.RealVal(v.as_long())
            return z3.ToReal(v)
        if v.sort() == z3.BoolSort():
            return z3.If(v, z3.RealVal(1), z3.RealVal(0))
    raise Unsupported(f"zreal of {v!r}")


def zbool(v):
    if isinstance(v, Sym):
        if v.ty == "bool":
            return v.t
        return v.t != 0
    if isinstance(v, bool):
        return z3.BoolVal(v)
    if isinstance(v, (int, float)):
        return z3.BoolVal(bool(v))
    if isinstance(v, z3.ExprRef):
        if v.sort() == z3.BoolSort():
            return v
        return v != 0
    raise Unsupported(f"zbool of {v!r}")


def concretize(v):
    """Sym with a literal value -> python value; otherwise unchanged"""
    if isinstance(v, Sym):
        t = z3.simplify(v.t)
        if z3.is_int_value(t):
            return t.as_long()
        if z3.is_true(t):
            return True
        if z3.is_false(t):
            return False
        if z3.is_rational_value(t) and v.ty == "float":
            return float(t.numerator_as_long()) / float(t.denominator_as_long())
        return Sym(t, v.ty)
    return v


# ----------------------------------------------------------------------------- dims
# z3 size-term hash -> factor tuple (to recover structure from shape values)


def _norm_factor(f):
    if isinstance(f, Sym):
        f = f.t
    if isinstance(f, bool):
        f = int(f)
    if isinstance(f, z3.ExprRef):
        f = z3.simplify(f)
        if z3.is_int_value(f):
            return f.as_long()
        return f
    if isinstance(f, int):
        return f
    raise Unsupported(f"axis factor {f!r}")


class Dim:
    """Axis size as an ordered product of atomic factors (row-major mixed radix).
    An index along the axis is a tuple with one component per factor.
    Concrete 1-factors are dropped (an axis of size one has the empty index)."""

    __slots__ = ("factors",)

    def __init__(self, factors):
        fs = []
        for f in factors:
            f = _norm_factor(f)
            if isinstance(f, int) and f == 1:
                continue
            fs.append(f)
        # merge adjacent concrete factors
        out = []
        for f in fs:
            if out and isinstance(f, int) and isinstance(out[-1], int):
                out[-1] = out[-1] * f
            else:
                out.append(f)
        self.factors = tuple(out)

    @property
    def is_one(self):
        return len(self.factors) == 0

    def concrete(self):
        if all(isinstance(f, int) for f in self.factors):
            p = 1
            for f in self.factors:
                p *= f
            return p
        return None

    def size_term(self):
        c = self.concrete()
        if c is not None:
            return z3.IntVal(c)
        t = None
        for f in self.factors:
            ft = zint(f)
            t = ft if t is None else t * ft
        _FACTOR_MEMO[t.hash()] = (t, self.factors)
        return t

    def size(self):
        """python int or Sym"""
        c = self.concrete()
        if c is not None:
            return c
        return Sym(self.size_term(), "int")

    def same(self, other):
        if len(self.factors) != len(other.factors):
            return False
        for a, b in zip(self.factors, other.factors):
            if isinstance(a, int) and isinstance(b, int):
                if a != b:
                    return False
            elif isinstance(a, int) or isinstance(b, int):
                return False
            elif not z3.eq(a, b):
                return False
        return True

    def __repr__(self):
        return "Dim(" + ("*".join(str(f) for f in self.factors) if self.factors else "1") + ")"


def dim_of(size):
    """Dim from a python int / Sym / z3 term; recovers factor structure for known products."""
    if isinstance(size, Dim):
        return size
    if isinstance(size, Sym):
        size = size.t
    if isinstance(size, bool):
        size = int(size)
    if isinstance(size, int):
        if size < 0:
            raise Unsupported("negative axis size")
        return Dim([size])
    if isinstance(size, z3.ExprRef):
        if size.sort() != z3.IntSort():
            raise Unsupported("non-integer axis size")
        h = size.hash()
        if h in _FACTOR_MEMO and z3.eq(_FACTOR_MEMO[h][0], size):
            return Dim(_FACTOR_MEMO[h][1])
        s = z3.simplify(size)
        if z3.is_int_value(s):
            return Dim([s.as_long()])
        h = s.hash()
        if h in _FACTOR_MEMO and z3.eq(_FACTOR_MEMO[h][0], s):
            return Dim(_FACTOR_MEMO[h][1])
        return Dim([size])
    raise Unsupported(f"axis size {size!r}")


def index_hyps(dim, comps):
    hy = []
    for f, c in zip(dim.factors, comps):
        if isinstance(c, int):
            continue
        hy += [c >= 0, c < zint(f)]
    return hy


# ----------------------------------------------------------------------------- tensors
SORTS = {"real": z3.RealSort, "int": z3.IntSort, "bool": z3.BoolSort}


class STensor:
    """Lazy tensor: shape = list[Dim]; fn maps a list of multi-indices (one tuple per axis, one
    component per Dim factor; component = python int or z3 Int term) to a z3 term of sort dtype."""

    __slots__ = ("shape", "fn", "dtype", "label")

    def __init__(self, shape, fn, dtype="real", label=None):
        self.shape = list(shape)
        self.fn = fn
        self.dtype = dtype
        self.label = label

    @property
    def rank(self):
        return len(self.shape)

    def at(self, idx):
        if len(idx) != self.rank:
            raise Unsupported(f"index arity {len(idx)} for rank {self.rank}")
        for d, c in zip(self.shape, idx):
            if len(c) != len(d.factors):
                raise Unsupported(f"index component arity {c} for {d}")
        return self.fn(list(idx))

    def generic_index(self, prefix="i"):
        """fresh index variables + range hypotheses"""
        idx, hyps = [], []
        for ax, d in enumerate(self.shape):
            comp = []
            for f in d.factors:
                v = z3.Int(fresh_name(f"{prefix}{ax}"))
                comp.append(v)
                hyps += [v >= 0, v < zint(f)]
            idx.append(tuple(comp))
        return idx, hyps

    def all_indices(self):
        """enumerate indices of a fully concrete tensor"""
        ranges = []
        for d in self.shape:
            if d.concrete() is None:
                raise Unsupported("enumeration of symbolic axis")
            ranges.append([tuple(c) for c in itertools.product(*[range(f) for f in d.factors])])
        return [list(c) for c in itertools.product(*ranges)]

    def numel_concrete(self):
        p = 1
        for d in self.shape:
            c = d.concrete()
            if c is None:
                return None
            p *= c
        return p

    def __repr__(self):
        return f"STensor({self.shape},{self.dtype},{self.label})"


def conv(term, dtype):
    if dtype == "real":
        return zreal(term)
    if dtype == "int":
        return zint(term)
    return zbool(term)


def const_tensor(val, dtype=None):
    if dtype is None:
        if isinstance(val, bool) or (isinstance(val, Sym) and val.ty == "bool"):
            dtype = "bool"
        elif isinstance(val, int) or (isinstance(val, Sym) and val.ty == "int"):
            dtype = "int"
        else:
            dtype = "real"
    t = conv(val, dtype)
    return STensor([], lambda idx: t, dtype)


def uninterp_tensor(name, shape, dtype="real", on_access=None, random=False):
    """Tensor of unknown contents: elements are applications of a fresh uninterpreted function
    to the multi-index components.  on_access(idx, value) may register axioms."""
    arity = sum(len(d.factors) for d in shape)
    rng = SORTS[dtype]()
    nm = random_name(name) if random else fresh_name(name)
    f = z3.Function(nm, *([z3.IntSort()] * arity + [rng])) if arity else None
    c = z3.Const(nm, rng) if not arity else None

    def fn(idx):
        flat = [zint(c_) for comp in idx for c_ in comp]
        v = f(*flat) if arity else c
        if on_access is not None:
            on_access(idx, v)
        return v

    t = STensor(shape, fn, dtype, label=name)
    return t


def select_comp(c, n, pieces):
    """value at (possibly symbolic) component c among n concrete pieces (thunks)"""
    if isinstance(c, int):
        return pieces[c]()
    if z3.is_int_value(c):
        return pieces[c.as_long()]()
    e = pieces[n - 1]()
    for k in range(n - 2, -1, -1):
        e = z3.If(c == k, pieces[k](), e)
    return e


# ----------------------------------------------------------------------------- context
class Obligation:
    __slots__ = ("name", "kind", "hyps", "goal", "loc", "meta")

    def __init__(self, name, kind, hyps, goal, loc=None, meta=None):
        self.name, self.kind, self.hyps, self.goal, self.loc, self.meta = name, kind, hyps, goal, loc, meta or {}


_SYMS = {}
_NO_CONE = [bool(__import__('os').environ.get('TPV_NO_CONE'))]
RESET_HOOKS.append(_SYMS.clear)


def _symbols_of(f):
    """names of the uninterpreted constants and functions of a formula (memoised per term)"""
    k = f.get_id()
    r = _SYMS.get(k)
    if r is not None and r[0].eq(f):
        return r[1]
    out, stack, seen = set(), [f], set()
    while stack:
        e = stack.pop()
        i = e.get_id()
        if i in seen:
            continue
        seen.add(i)
        if z3.is_app(e):
            d = e.decl()
            if d.kind() == z3.Z3_OP_UNINTERPRETED:
                out.add(d.name())
            stack.extend(e.children())
        elif z3.is_quantifier(e):
            stack.append(e.body())
    out = frozenset(out)
    _SYMS[k] = (f, out)
    return out


class Ctx:
    """One per explored path: path condition, definitional axioms, obligations, ghost state."""

    def __init__(self):
        self.pc = []
        self.axioms = []
        self._axiom_keys = set()
        self.obligations = []
        self.schemas = []  # (label, arity/dim, fn(index)->fact) quantified facts to instantiate
        self.ghost = {}
        self.loc = None
        self.branch_timeout = 3000
        self.trace = []
        self.mute = False  # a history prefix: obligations of this stretch are the ones of another scenario, not demanded here

    def assume(self, f):
        if isinstance(f, bool):
            if not f:
                self.pc.append(z3.BoolVal(False))
            return
        self.pc.append(f)

    def axiom(self, f):
        k = f.hash()
        if k in self._axiom_keys:
            return
        self._axiom_keys.add(k)
        self.axioms.append(f)

    def _solver(self, timeout, about=None):
        """solver holding the path condition and the axioms -- or, when `about` (a formula) is given, only their cone
        of influence: the formulas connected to `about` through shared uninterpreted symbols.  The rest shares no
        symbol with the cone, so (the path being consistent) it cannot change the answer; dropping it only ever
        makes 'unsat' harder to obtain, which both callers treat conservatively."""
        s = z3.Solver()
        s.set("timeout", timeout)
        if about is None or _NO_CONE[0]:
            s.add(self.pc)
            s.add(self.axioms)
            return s
        syms = set(_symbols_of(about))
        pool = [(f, _symbols_of(f)) for f in list(self.pc) + list(self.axioms)]
        changed = True
        taken = [False] * len(pool)
        while changed:
            changed = False
            for k, (f, fs) in enumerate(pool):
                if not taken[k] and (not fs or not syms.isdisjoint(fs)):
                    taken[k] = True
                    if not fs <= syms:
                        syms |= fs
                        changed = True
        s.add([f for k, (f, _) in enumerate(pool) if taken[k]])
        return s

    def entails(self, f, timeout=None):
        if isinstance(f, bool):
            return f
        f = z3.simplify(f)
        if z3.is_true(f):
            return True
        s = self._solver(timeout or self.branch_timeout, about=f)
        s.add(z3.Not(f))
        return s.check() == z3.unsat

    def feasible(self, f, timeout=None):
        if isinstance(f, bool):
            return f
        s = self._solver(timeout or self.branch_timeout, about=f)
        s.add(f)
        return s.check() != z3.unsat

    def oblige(self, name, goal, hyps=(), kind="post", meta=None, pure=False):
        """record obligation: pc (now) + all axioms (at discharge time) + hyps => goal
        pure: a closed lemma -- only `hyps` are used (no path condition, no context axioms)"""
        if self.mute:
            return
        if isinstance(goal, bool):
            goal = z3.BoolVal(goal)
        meta = dict(meta or {})
        if pure:
            meta["pure"] = True
        self.obligations.append(Obligation(name, kind, (list(hyps) if pure else list(self.pc) + list(hyps)), goal, self.loc, meta))

    def safety(self, kind, goal, hyps=(), what="", index=None, shape=None):
        """safety obligation at the current source location; returns True if entailed right away.
        index/shape: the generic element index the obligation is about (row lemmas proved later on the same
        path are instantiated at it, see Session.row_lemma)"""
        if isinstance(goal, bool):
            if goal:
                return True
            goal = z3.BoolVal(False)
        if self.mute:
            return False
        name = f"{kind}@{self.loc or '?'}{(':' + what) if what else ''}"
        meta = {"index": index, "shape": shape} if index is not None else None
        self.obligations.append(Obligation(name, kind, list(self.pc) + list(hyps), goal, self.loc, meta))
        return False

    def schema(self, label, fn):
        self.schemas.append((label, fn))


_CTX = [None]


def ctx():
    c = _CTX[0]
    if c is None:
        raise RuntimeError("no active context")
    return c


def set_ctx(c):
    _CTX[0] = c
