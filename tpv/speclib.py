"""tpv speclib: specification-level helper functions (lcm, ...)"""
import z3

from . import core
from .core import Sym, zint


def lcm_sym(I, a, b):
    """np.lcm on symbolic positive ints: L with a | L, b | L, L > 0 and minimality as an instantiation schema"""
    a_, b_ = zint(a), zint(b)
    # lcm is a FUNCTION of its arguments: two calls with equal arguments give the same value
    F = z3.Function("tp_lcm", z3.IntSort(), z3.IntSort(), z3.IntSort())
    Ka = z3.Function("tp_lcm_ka", z3.IntSort(), z3.IntSort(), z3.IntSort())
    Kb = z3.Function("tp_lcm_kb", z3.IntSort(), z3.IntSort(), z3.IntSort())
    L, ka, kb = F(a_, b_), Ka(a_, b_), Kb(a_, b_)
    I.ctx.assume(z3.Implies(z3.And(a_ > 0, b_ > 0), z3.And(L > 0, L == a_ * ka, L == b_ * kb, ka > 0, kb > 0, L <= a_ * b_)))
    I.ctx.ghost.setdefault("lcm", []).append((L, a_, b_, ka, kb))
    return Sym(L, "int")
