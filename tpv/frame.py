"""tpv frame: structural snapshots of heap objects for frame conditions ("nothing else changed")."""
from .core import Sym
from .tlib import Tensor


def snap(v, depth=0, seen=None):
    from .interp import SObj, Opaque

    seen = seen if seen is not None else {}
    if id(v) in seen:
        return ("ref", id(v))
    if isinstance(v, dict):
        seen[id(v)] = True
        return ("dict", id(v), tuple((k, snap(x, depth + 1, seen)) for k, x in v.items()))
    if isinstance(v, list):
        seen[id(v)] = True
        return ("list", id(v), tuple(snap(x, depth + 1, seen) for x in v))
    if isinstance(v, (tuple, set, frozenset)):
        return (type(v).__name__, tuple(snap(x, depth + 1, seen) for x in (v if isinstance(v, tuple) else sorted(v, key=repr))))
    if isinstance(v, SObj):
        seen[id(v)] = True
        nat = snap(v.native, depth + 1, seen) if v.native is not None else None
        return ("obj", id(v), v.cls.name, nat, tuple((k, snap(x, depth + 1, seen)) for k, x in v.f.items()))
    if isinstance(v, Tensor):
        return ("tensor", id(v), id(v.val), v.requires_grad)
    if isinstance(v, Sym):
        return ("sym", v.t.sexpr(), v.ty)
    if isinstance(v, (int, float, str, bool, type(None))):
        return ("c", type(v).__name__, v)
    return ("id", id(v))


def diff(a, b, path=""):
    """first difference between two snapshots (None if equal)"""
    if a == b:
        return None
    if not (isinstance(a, tuple) and isinstance(b, tuple)) or a[0] != b[0]:
        return f"{path}: {a!r} -> {b!r}"[:300]
    if a[0] in ("dict",):
        ka, kb = [k for k, _ in a[2]], [k for k, _ in b[2]]
        if ka != kb:
            return f"{path}: keys {ka} -> {kb}"
        for (k, x), (_, y) in zip(a[2], b[2]):
            d = diff(x, y, f"{path}[{k!r}]")
            if d:
                return d
    if a[0] == "list":
        if len(a[2]) != len(b[2]):
            return f"{path}: list length {len(a[2])} -> {len(b[2])}"
        for i, (x, y) in enumerate(zip(a[2], b[2])):
            d = diff(x, y, f"{path}[{i}]")
            if d:
                return d
    if a[0] == "obj":
        if a[1] != b[1]:
            return f"{path}: object identity changed"
        d = diff(a[3], b[3], path + ".<native>") if a[3] != b[3] else None
        if d:
            return d
        fa, fb = dict(a[4]), dict(b[4])
        if list(fa) != list(fb):
            return f"{path}: fields {list(fa)} -> {list(fb)}"
        for k in fa:
            d = diff(fa[k], fb[k], f"{path}.{k}")
            if d:
                return d
    return f"{path}: {a!r} -> {b!r}"[:300]
