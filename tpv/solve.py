"""tpv solve: discharge obligations with z3 (python API); cvc5 (binary) takes z3's unknowns and,
in the thorough tier, re-checks everything."""
import os
import subprocess
import tempfile
import time

import z3

from . import tlib

CVC5 = "/usr/bin/cvc5"


def _mk_solver(ctx, ob, timeout_ms):
    s = z3.Solver()
    s.set("timeout", timeout_ms)
    s.add(ob.hyps)
    if not ob.meta.get("pure"):
        s.add(ctx.axioms)
    s.add(tlib.pi_axioms())
    return s


def model_summary(m, inputs=None, limit=40):
    out = {}
    try:
        for d in m.decls():
            if len(out) >= limit:
                break
            nm = d.name()
            if "!" in nm and not (inputs and nm in inputs):
                # internal fresh symbols: keep a few interesting ones (rand, sel) only
                if not nm.startswith(("rand", "q0", "q1", "nsel")):
                    continue
            out[nm] = str(m[d])[:200]
    except Exception as e:  # pragma: no cover
        out["<model-error>"] = str(e)
    return out


def discharge(ctx, ob, timeout_ms=10000, use_cvc5=False):
    """returns dict(status= proved|refuted|unknown, time, backend, model?)"""
    t0 = time.time()
    if ob.kind == "canary":
        # a canary only has to be "not provable": one short attempt
        s = _mk_solver(ctx, ob, 3000)
        s.add(z3.Not(ob.goal))
        r = s.check()
        return {"status": "refuted" if r == z3.unsat else "proved", "time": time.time() - t0, "backend": "z3", "canary_result": str(r)}
    full_timeout = timeout_ms
    first = min(2500, max(1000, timeout_ms // 3))
    s = _mk_solver(ctx, ob, first)
    goal = ob.goal
    ctx_axioms = [] if ob.meta.get("pure") else list(ctx.axioms)
    if ob.kind == "cover":
        s.add(goal)
        r = s.check()
        st = {"sat": "proved", "unsat": "refuted", "unknown": "unknown"}[str(r)]
        res = {"status": st, "time": time.time() - t0, "backend": "z3"}
        if st == "unknown":
            res["reason"] = s.reason_unknown()
        return res
    s.add(z3.Not(goal))
    r = s.check()
    res = {"time": time.time() - t0, "backend": "z3"}
    if r == z3.unsat:
        res["status"] = "proved"
    elif r == z3.sat:
        res["status"] = "refuted"
        m = s.model()
        res["model"] = model_summary(m, ctx.ghost.get("inputs"))
        res["_model"] = m
    else:
        res["status"] = "unknown"
        res["reason"] = s.reason_unknown()
        # second attempt: sound weakening to pure QF_NRA + nlsat (only "unsat" is conclusive)
        r2 = nlsat_check(list(ob.hyps) + ctx_axioms + tlib.pi_axioms() + [z3.Not(goal)], full_timeout)
        if r2 == "unsat":
            res.update(status="proved", backend="z3-nlsat(purified)")
        else:
            s3 = _mk_solver(ctx, ob, full_timeout)
            s3.add(z3.Not(goal))
            r3 = s3.check()
            if r3 == z3.unsat:
                res.update(status="proved", backend="z3")
            elif r3 == z3.sat:
                res.update(status="refuted", backend="z3", model=model_summary(s3.model(), ctx.ghost.get("inputs")), _model=s3.model())
            s = s3
        if res["status"] == "unknown" or use_cvc5:
            c = cvc5_check(s, timeout_ms)
            if c == "unsat":
                res.update(status="proved", backend="cvc5")
            elif c == "sat" and res["status"] == "unknown":
                res.update(status="refuted", backend="cvc5", model={"<cvc5>": "sat (model not extracted)"})
        res["time"] = time.time() - t0
    if use_cvc5 and res["status"] == "proved" and res["backend"].startswith("z3"):
        # cross-check of an already discharged obligation by the second solver: informational, short budget
        c = cvc5_check(s, min(timeout_ms, 10000))
        res["cvc5"] = c
    if ob.kind == "canary":
        # a canary must NOT be provable
        # "not provable within the budget" is what a canary has to show; only an actual proof is an alarm
        res["status"] = {"proved": "refuted", "refuted": "proved", "unknown": "proved"}[res["status"]]
        res.pop("_model", None)
        res.pop("model", None)
    return res


def cvc5_check(solver, timeout_ms):
    if not os.path.exists(CVC5):
        return "unavailable"
    try:
        txt = solver.to_smt2()
    except Exception:
        return "unavailable"
    txt = "(set-logic ALL)\n" + txt.replace("(set-info :status unknown)", "")
    with tempfile.NamedTemporaryFile("w", suffix=".smt2", delete=False) as f:
        f.write(txt)
        p = f.name
    try:
        r = subprocess.run([CVC5, "--lang", "smt2", f"--tlimit={timeout_ms}", "--nl-ext-tplanes", p], capture_output=True, text=True, timeout=timeout_ms / 1000 + 5)
        out = r.stdout.strip().splitlines()
        return out[0] if out else "error"
    except Exception:
        return "error"
    finally:
        os.unlink(p)


def smt2_of(ctx, ob):
    s = _mk_solver(ctx, ob, 1000)
    s.add(z3.Not(ob.goal) if ob.kind != "cover" else ob.goal)
    try:
        return s.to_smt2()
    except Exception as e:
        return f"; to_smt2 failed: {e}"


# ----------------------------------------------------------------------------- QF_NRA purification
def purify(formulas):
    """Sound weakening of a refutation problem to pure nonlinear REAL arithmetic:
    - applications of uninterpreted functions/predicates -> fresh constants (one per syntactic term)
    - integer variables relaxed to reals; to_real dropped; to_int / div / mod / other int-only terms -> fresh constants
    unsat of the result implies unsat of the original (every model of the original induces one of the result)."""
    cache = {}
    fresh = {}
    cnt = [0]

    def fresh_const(t, sort):
        k = t.get_id()
        if k not in fresh:
            cnt[0] += 1
            fresh[k] = z3.Const(f"pf!{cnt[0]}", sort)
        return fresh[k]

    def rs(sort):
        return z3.RealSort() if sort.kind() in (z3.Z3_INT_SORT, z3.Z3_REAL_SORT) else sort

    def go(t):
        k = t.get_id()
        if k in cache:
            return cache[k]
        r = go1(t)
        cache[k] = r
        return r

    def go1(t):
        if z3.is_quantifier(t) or z3.is_var(t):
            return fresh_const(t, rs(t.sort()))
        if z3.is_int_value(t):
            return z3.RealVal(t.as_long())
        if z3.is_rational_value(t) or z3.is_true(t) or z3.is_false(t) or z3.is_algebraic_value(t):
            return t
        d = t.decl()
        kind = d.kind()
        n = t.num_args()
        if kind == z3.Z3_OP_UNINTERPRETED:
            if n == 0:
                return z3.Const(d.name(), rs(t.sort())) if t.sort().kind() == z3.Z3_INT_SORT else t
            return fresh_const(t, rs(t.sort()))
        args = [go(t.arg(i)) for i in range(n)]
        if kind == z3.Z3_OP_TO_REAL:
            return args[0]
        if kind in (z3.Z3_OP_TO_INT, z3.Z3_OP_IDIV, z3.Z3_OP_MOD, z3.Z3_OP_REM, z3.Z3_OP_IS_INT, z3.Z3_OP_POWER):
            if kind == z3.Z3_OP_POWER and z3.is_rational_value(args[1]) and args[1].denominator_as_long() == 1 and 0 <= args[1].numerator_as_long() <= 6:
                r = z3.RealVal(1)
                for _ in range(args[1].numerator_as_long()):
                    r = r * args[0]
                return r
            return fresh_const(t, rs(t.sort()))
        if kind == z3.Z3_OP_ADD:
            return z3.Sum(args) if len(args) > 1 else args[0]
        if kind == z3.Z3_OP_MUL:
            return z3.Product(args) if len(args) > 1 else args[0]
        if kind == z3.Z3_OP_SUB:
            r = args[0]
            for a in args[1:]:
                r = r - a
            return r
        if kind == z3.Z3_OP_UMINUS:
            return -args[0]
        if kind == z3.Z3_OP_DIV:
            return args[0] / args[1]
        if kind == z3.Z3_OP_LE:
            return args[0] <= args[1]
        if kind == z3.Z3_OP_LT:
            return args[0] < args[1]
        if kind == z3.Z3_OP_GE:
            return args[0] >= args[1]
        if kind == z3.Z3_OP_GT:
            return args[0] > args[1]
        if kind == z3.Z3_OP_EQ:
            return args[0] == args[1]
        if kind == z3.Z3_OP_DISTINCT:
            return z3.Distinct(args)
        if kind == z3.Z3_OP_ITE:
            return z3.If(args[0], args[1], args[2])
        if kind == z3.Z3_OP_AND:
            return z3.And(args)
        if kind == z3.Z3_OP_OR:
            return z3.Or(args)
        if kind == z3.Z3_OP_NOT:
            return z3.Not(args[0])
        if kind == z3.Z3_OP_IMPLIES:
            return z3.Implies(args[0], args[1])
        if kind == z3.Z3_OP_XOR:
            return z3.Xor(args[0], args[1])
        if kind == z3.Z3_OP_IFF:
            return args[0] == args[1]
        return fresh_const(t, rs(t.sort()))

    return [go(f) for f in formulas]


def nlsat_check(formulas, timeout_ms):
    try:
        pf = purify(formulas)
        t = z3.Then("simplify", "purify-arith", "elim-term-ite", "solve-eqs", "qfnra-nlsat")
        s = t.solver()
        s.set("timeout", timeout_ms)
        s.add(pf)
        return str(s.check())
    except z3.Z3Exception as e:
        return f"error:{e}"
