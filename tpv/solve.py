"""tpv solve: discharge obligations with z3 (python API); cvc5 (binary) takes z3's unknowns and,
in the thorough tier, re-checks everything."""
import os
import subprocess
import tempfile
import time

import z3

from . import tlib

CVC5 = "/usr/bin/cvc5"


def _mk_solver(ctx, ob, timeout_ms):
    s = z3.Solver()
    s.set("timeout", timeout_ms)
    s.add(ob.hyps)
    if not ob.meta.get("pure"):
        s.add(ctx.axioms)
    s.add(tlib.pi_axioms())
    return s


def model_summary(m, inputs=None, limit=40):
    out = {}
    try:
        for d in m.decls():
            if len(out) >= limit:
                break
            nm = d.name()
            if "!" in nm and not (inputs and nm in inputs):
                # internal fresh symbols: keep a few interesting ones (rand, sel) only
                if not nm.startswith(("rand", "q0", "q1", "nsel")):
                    continue
            out[nm] = str(m[d])[:200]
    except Exception as e:  # pragma: no cover
        out["<model-error>"] = str(e)
    return out


def discharge(ctx, ob, timeout_ms=10000, use_cvc5=False):
    """returns dict(status= proved|refuted|unknown, time, backend, model?)"""
    t0 = time.time()
    if ob.kind == "canary":
        # a canary only has to be "not provable": one short attempt
        s = _mk_solver(ctx, ob, 3000)
        s.add(z3.Not(ob.goal))
        r = s.check()
        return {"status": "refuted" if r == z3.unsat else "proved", "time": time.time() - t0, "backend": "z3", "canary_result": str(r)}
    full_timeout = timeout_ms
    first = min(2500, max(1000, timeout_ms // 3))
    s = _mk_solver(ctx, ob, first)
    goal = ob.goal
    ctx_axioms = [] if ob.meta.get("pure") else list(ctx.axioms)
    if ob.kind == "cover":
        s.add(goal)
        r = s.check()
        st = {"sat": "proved", "unsat": "refuted", "unknown": "unknown"}[str(r)]
        res = {"status": st, "time": time.time() - t0, "backend": "z3"}
        if st == "unknown":
            res["reason"] = s.reason_unknown()
        return res
    s.add(z3.Not(goal))
    r = s.check()
    res = {"time": time.time() - t0, "backend": "z3"}
    if r == z3.unsat:
        res["status"] = "proved"
    elif r == z3.sat:
        res["status"] = "refuted"
        m = s.model()
        res["model"] = model_summary(m, ctx.ghost.get("inputs"))
        res["_model"] = m
    else:
        res["status"] = "unknown"
        res["reason"] = s.reason_unknown()
        hinted = False
        for hint in ctx.ghost.get("instance_hints", []):
            # candidate counter-instances named by the contract: cheap, and a hit is a definite refutation
            m = hint_refute(list(ob.hyps) + ctx_axioms + tlib.pi_axioms() + [z3.Not(goal)], hint, 10000)
            if m is not None:
                res.update(status="refuted", backend="z3(candidate instance supplied by the contract)", model=model_summary(m, ctx.ghost.get("inputs")), _model=m)
                res["model"]["<instance>"] = hint.get("label", "")
                hinted = True
                break
        # second attempt: sound weakening to pure QF_NRA + nlsat (only "unsat" is conclusive), short budget first
        nl_formulas = list(ob.hyps) + ctx_axioms + tlib.pi_axioms() + [z3.Not(goal)]
        r2 = "skipped" if hinted else nlsat_check(nl_formulas, min(full_timeout, 6000))
        if not hinted and r2 != "unsat":
            # z3's search on nonlinear queries is sensitive to incidental state (the same formulas answered in 0.1 s or
            # not within the budget, depending on what the process did before): a few re-runs with other seeds are
            # cheap compared to the long fallbacks below
            for seed in (1, 2, 3):
                sr = _mk_solver(ctx, ob, first)
                sr.set("random_seed", seed)
                sr.add(z3.Not(goal))
                rr = sr.check()
                if rr == z3.unsat:
                    res.update(status="proved", backend=f"z3(seed {seed})", time=time.time() - t0)
                    res.pop("reason", None)
                    return _finish(res, ob)
                if rr == z3.sat:
                    res.update(status="refuted", backend=f"z3(seed {seed})", model=model_summary(sr.model(), ctx.ghost.get("inputs")), _model=sr.model(), time=time.time() - t0)
                    return _finish(res, ob)
            if full_timeout > 6000:
                r2 = nlsat_check(nl_formulas, full_timeout)
        if hinted:
            pass
        elif r2 == "unsat":
            res.update(status="proved", backend="z3-nlsat(purified)")
        else:
            s3 = _mk_solver(ctx, ob, full_timeout)
            s3.add(z3.Not(goal))
            r3 = s3.check()
            if r3 == z3.unsat:
                res.update(status="proved", backend="z3")
            elif r3 == z3.sat:
                res.update(status="refuted", backend="z3", model=model_summary(s3.model(), ctx.ghost.get("inputs")), _model=s3.model())
            s = s3
        if res["status"] == "unknown" or use_cvc5:
            c = cvc5_check(s, timeout_ms)
            if c == "unsat":
                res.update(status="proved", backend="cvc5")
            elif c == "sat" and res["status"] == "unknown":
                res.update(status="refuted", backend="cvc5", model={"<cvc5>": "sat (model not extracted)"})
        if res["status"] == "unknown":
            # counter-model search: the inputs (tensors, user functions, random draws) restricted to affine functions
            m = template_refute(list(ob.hyps) + ctx_axioms + tlib.pi_axioms() + [z3.Not(goal)], min(full_timeout, 30000))
            if m is not None:
                res.update(status="refuted", backend="z3(affine input templates)", model=model_summary(m, ctx.ghost.get("inputs")), _model=m)
                res["model"]["<note>"] = "inputs restricted to affine functions of their arguments; coefficients in the model (tpl!...)"
        res["time"] = time.time() - t0
    if use_cvc5 and res["status"] == "proved" and res["backend"].startswith("z3"):
        # cross-check of an already discharged obligation by the second solver: informational, short budget
        # (an obligation z3 itself needed seconds for is not something cvc5 settles in a short budget: skipped)
        c = cvc5_check(s, min(timeout_ms, 5000)) if res["time"] < 2.0 else "skipped(slow for z3)"
        res["cvc5"] = c
    return _finish(res, ob)


def _finish(res, ob):
    if ob.kind == "canary":
        # a canary must NOT be provable
        # "not provable within the budget" is what a canary has to show; only an actual proof is an alarm
        res["status"] = {"proved": "refuted", "refuted": "proved", "unknown": "proved"}[res["status"]]
        res.pop("_model", None)
        res.pop("model", None)
    return res


def cvc5_check(solver, timeout_ms):
    if not os.path.exists(CVC5):
        return "unavailable"
    try:
        txt = solver.to_smt2()
    except Exception:
        return "unavailable"
    txt = "(set-logic ALL)\n" + txt.replace("(set-info :status unknown)", "")
    with tempfile.NamedTemporaryFile("w", suffix=".smt2", delete=False) as f:
        f.write(txt)
        p = f.name
    try:
        r = subprocess.run([CVC5, "--lang", "smt2", f"--tlimit={timeout_ms}", "--nl-ext-tplanes", p], capture_output=True, text=True, timeout=timeout_ms / 1000 + 5)
        out = r.stdout.strip().splitlines()
        return out[0] if out else "error"
    except Exception:
        return "error"
    finally:
        os.unlink(p)


def smt2_of(ctx, ob):
    s = _mk_solver(ctx, ob, 1000)
    s.add(z3.Not(ob.goal) if ob.kind != "cover" else ob.goal)
    try:
        return s.to_smt2()
    except Exception as e:
        return f"; to_smt2 failed: {e}"


# ----------------------------------------------------------------------------- QF_NRA purification
def purify(formulas):
    """Sound weakening of a refutation problem to pure nonlinear REAL arithmetic:
    - applications of uninterpreted functions/predicates -> fresh constants (one per syntactic term)
    - integer variables relaxed to reals; to_real dropped; to_int / div / mod / other int-only terms -> fresh constants
    unsat of the result implies unsat of the original (every model of the original induces one of the result)."""
    cache = {}
    fresh = {}
    cnt = [0]

    def fresh_const(t, sort):
        k = t.get_id()
        if k not in fresh:
            cnt[0] += 1
            fresh[k] = z3.Const(f"pf!{cnt[0]}", sort)
        return fresh[k]

    def rs(sort):
        return z3.RealSort() if sort.kind() in (z3.Z3_INT_SORT, z3.Z3_REAL_SORT) else sort

    def go(t):
        k = t.get_id()
        if k in cache:
            return cache[k]
        r = go1(t)
        cache[k] = r
        return r

    def go1(t):
        if z3.is_quantifier(t) or z3.is_var(t):
            return fresh_const(t, rs(t.sort()))
        if z3.is_int_value(t):
            return z3.RealVal(t.as_long())
        if z3.is_rational_value(t) or z3.is_true(t) or z3.is_false(t) or z3.is_algebraic_value(t):
            return t
        d = t.decl()
        kind = d.kind()
        n = t.num_args()
        if kind == z3.Z3_OP_UNINTERPRETED:
            if n == 0:
                return z3.Const(d.name(), rs(t.sort())) if t.sort().kind() == z3.Z3_INT_SORT else t
            return fresh_const(t, rs(t.sort()))
        args = [go(t.arg(i)) for i in range(n)]
        if kind == z3.Z3_OP_TO_REAL:
            return args[0]
        if kind in (z3.Z3_OP_TO_INT, z3.Z3_OP_IDIV, z3.Z3_OP_MOD, z3.Z3_OP_REM, z3.Z3_OP_IS_INT, z3.Z3_OP_POWER):
            if kind == z3.Z3_OP_POWER and z3.is_rational_value(args[1]) and args[1].denominator_as_long() == 1 and 0 <= args[1].numerator_as_long() <= 6:
                r = z3.RealVal(1)
                for _ in range(args[1].numerator_as_long()):
                    r = r * args[0]
                return r
            return fresh_const(t, rs(t.sort()))
        if kind == z3.Z3_OP_ADD:
            return z3.Sum(args) if len(args) > 1 else args[0]
        if kind == z3.Z3_OP_MUL:
            return z3.Product(args) if len(args) > 1 else args[0]
        if kind == z3.Z3_OP_SUB:
            r = args[0]
            for a in args[1:]:
                r = r - a
            return r
        if kind == z3.Z3_OP_UMINUS:
            return -args[0]
        if kind == z3.Z3_OP_DIV:
            return args[0] / args[1]
        if kind == z3.Z3_OP_LE:
            return args[0] <= args[1]
        if kind == z3.Z3_OP_LT:
            return args[0] < args[1]
        if kind == z3.Z3_OP_GE:
            return args[0] >= args[1]
        if kind == z3.Z3_OP_GT:
            return args[0] > args[1]
        if kind == z3.Z3_OP_EQ:
            return args[0] == args[1]
        if kind == z3.Z3_OP_DISTINCT:
            return z3.Distinct(args)
        if kind == z3.Z3_OP_ITE:
            return z3.If(args[0], args[1], args[2])
        if kind == z3.Z3_OP_AND:
            return z3.And(args)
        if kind == z3.Z3_OP_OR:
            return z3.Or(args)
        if kind == z3.Z3_OP_NOT:
            return z3.Not(args[0])
        if kind == z3.Z3_OP_IMPLIES:
            return z3.Implies(args[0], args[1])
        if kind == z3.Z3_OP_XOR:
            return z3.Xor(args[0], args[1])
        if kind == z3.Z3_OP_IFF:
            return args[0] == args[1]
        return fresh_const(t, rs(t.sort()))

    return [go(f) for f in formulas]


def nlsat_check(formulas, timeout_ms):
    try:
        pf = purify(formulas)
        t = z3.Then("simplify", "purify-arith", "elim-term-ite", "solve-eqs", "qfnra-nlsat")
        s = t.solver()
        s.set("timeout", timeout_ms)
        s.add(pf)
        return str(s.check())
    except z3.Z3Exception as e:
        return f"error:{e}"


# ----------------------------------------------------------------------------- counter-model search with input templates
_DEFINED_PREFIXES = ("tp_", "udiv", "umod", "sel", "perm", "sortperm", "sortinv", "solve_", "act_")


def _uninterpreted_functions(formulas):
    seen, out, stack = set(), {}, list(formulas)
    while stack:
        e = stack.pop()
        if e.get_id() in seen:
            continue
        seen.add(e.get_id())
        if z3.is_app(e):
            d = e.decl()
            if d.kind() == z3.Z3_OP_UNINTERPRETED and d.arity() > 0:
                out[d.name()] = d
            stack.extend(e.children())
        elif z3.is_quantifier(e):
            stack.append(e.body())
    return out


def template_refute(formulas, timeout_ms):
    """A failed proof is not a violation; a MODEL is.  When the solvers return unknown on hyps /\ not goal, the
    uninterpreted INPUT symbols (input tensors, user / shape functions, abstract predicates, random draws) are replaced
    by affine functions of their arguments with unknown coefficients -- a restriction of the inputs -- and the
    remaining formula over a few scalars is solved.  sat = a genuine counter-model (returned), anything else = nothing
    learned.  Symbols defined by axioms (sqrt, cos, selectors, div/mod, linear solves) stay uninterpreted."""
    try:
        fns = _uninterpreted_functions(formulas)
        subs = []
        for nm, d in fns.items():
            base = nm.split("!")[0]
            if "!" in nm and base not in ("rand", "randn", "normal"):
                continue
            if nm.startswith(_DEFINED_PREFIXES):
                continue
            rng = d.range()
            if rng not in (z3.RealSort(), z3.IntSort(), z3.BoolSort()):
                continue
            if any(d.domain(k) not in (z3.RealSort(), z3.IntSort()) for k in range(d.arity())):
                continue
            as_int = rng == z3.IntSort() and all(d.domain(k) == z3.IntSort() for k in range(d.arity()))
            mk = (lambda n: z3.Int(n)) if as_int else (lambda n: z3.Real(n))
            body = mk(f"tpl!{nm}!0")
            for k in range(d.arity()):
                v = z3.Var(k, d.domain(k))
                if not as_int and d.domain(k) == z3.IntSort():
                    v = z3.ToReal(v)
                body = body + mk(f"tpl!{nm}!{k + 1}") * v
            if rng == z3.BoolSort():
                body = body >= 0
            elif rng == z3.IntSort() and not as_int:
                body = z3.ToInt(body)
            subs.append((d, body))
        if not subs:
            return None
        inst = [z3.substitute_funs(f, *subs) for f in formulas]
        s = z3.Solver()
        s.set("timeout", int(min(timeout_ms, 5000)))
        s.add(inst)
        if s.check() == z3.sat:
            return s.model()
        # second stage: the coefficients themselves sampled (small integers, fixed seed): what is left is (nearly) ground
        import random

        rnd = random.Random(20260927)
        coeffs = set()
        for f in inst:
            stack, seen = [f], set()
            while stack:
                e = stack.pop()
                if e.get_id() in seen:
                    continue
                seen.add(e.get_id())
                if z3.is_const(e) and e.decl().kind() == z3.Z3_OP_UNINTERPRETED and e.decl().name().startswith("tpl!"):
                    coeffs.add(e)
                elif z3.is_app(e):
                    stack.extend(e.children())
        coeffs = sorted(coeffs, key=lambda c: c.decl().name())
        t_end = time.time() + timeout_ms / 1000.0
        real_arg = {nm for nm, d in fns.items() if any(d.domain(k) == z3.RealSort() for k in range(d.arity()))}
        ints = set()
        for f in inst:
            stack, seen = [f], set()
            while stack:
                e = stack.pop()
                if e.get_id() in seen:
                    continue
                seen.add(e.get_id())
                if z3.is_const(e) and e.decl().kind() == z3.Z3_OP_UNINTERPRETED and e.sort() == z3.IntSort() and not e.decl().name().startswith("tpl!"):
                    ints.add(e)
                elif z3.is_app(e):
                    stack.extend(e.children())
        ints = sorted(ints, key=lambda c: c.decl().name())
        for attempt in range(40):
            if time.time() > t_end:
                break
            s2 = z3.Solver()
            s2.set("timeout", 3000)
            s2.add(inst)
            # the user / shape functions (real arguments) get numeric coefficients, the integer unknowns (sizes, row
            # indices) small values; the contents of the input tensors are left to the solver
            for c in coeffs:
                fname = c.decl().name().split("!", 1)[1].rsplit("!", 1)[0]
                if fname in real_arg:
                    s2.add(c == rnd.choice([-2, -1, 0, 1, 2]))
            for c in ints:
                s2.add(c == rnd.choice([0, 0, 1, 1, 2]))
            if s2.check() == z3.sat:
                return s2.model()
    except z3.Z3Exception:
        return None
    return None


def hint_refute(formulas, hint, timeout_ms):
    """a contract may name candidate counter-instances (concrete interpretations of its input symbols).  They are
    only ever used to REFUTE: the instance is substituted and hyps /\ not goal checked; sat = genuine counter-model."""
    try:
        fns = _uninterpreted_functions(formulas)
        subs = []
        for nm, body in hint.get("funcs", {}).items():
            d = fns.get(nm)
            if d is None:
                continue
            subs.append((d, body(*[z3.Var(k, d.domain(k)) for k in range(d.arity())])))
        inst = [z3.substitute_funs(f, *subs) for f in formulas] if subs else list(formulas)
        s = z3.Solver()
        s.set("timeout", int(timeout_ms))
        s.add(inst)
        for c, v in hint.get("consts", {}).items():
            s.add(c == v)
        if s.check() == z3.sat:
            return s.model()
    except z3.Z3Exception:
        return None
    return None

