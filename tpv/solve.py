"""tpv solve: discharge obligations with z3 (python API); cvc5 (binary) takes z3's unknowns and,
in the thorough tier, re-checks everything."""
import os
import subprocess
import tempfile
import time

import z3

from . import tlib

CVC5 = "/usr/bin/cvc5"


def _mk_solver(ctx, ob, timeout_ms):
    s = z3.Solver()
    s.set("timeout", timeout_ms)
    s.add(ob.hyps)
    s.add(ctx.axioms)
    s.add(tlib.pi_axioms())
    return s


def model_summary(m, inputs=None, limit=40):
    out = {}
    try:
        for d in m.decls():
            if len(out) >= limit:
                break
            nm = d.name()
            if "!" in nm and not (inputs and nm in inputs):
                # internal fresh symbols: keep a few interesting ones (rand, sel) only
                if not nm.startswith(("rand", "q0", "q1", "nsel")):
                    continue
            out[nm] = str(m[d])[:200]
    except Exception as e:  # pragma: no cover
        out["<model-error>"] = str(e)
    return out


def discharge(ctx, ob, timeout_ms=10000, use_cvc5=False):
    """returns dict(status= proved|refuted|unknown, time, backend, model?)"""
    t0 = time.time()
    s = _mk_solver(ctx, ob, timeout_ms)
    goal = ob.goal
    if ob.kind == "cover":
        s.add(goal)
        r = s.check()
        st = {"sat": "proved", "unsat": "refuted", "unknown": "unknown"}[str(r)]
        res = {"status": st, "time": time.time() - t0, "backend": "z3"}
        if st == "unknown":
            res["reason"] = s.reason_unknown()
        return res
    s.add(z3.Not(goal))
    r = s.check()
    res = {"time": time.time() - t0, "backend": "z3"}
    if r == z3.unsat:
        res["status"] = "proved"
    elif r == z3.sat:
        res["status"] = "refuted"
        m = s.model()
        res["model"] = model_summary(m, ctx.ghost.get("inputs"))
        res["_model"] = m
    else:
        res["status"] = "unknown"
        res["reason"] = s.reason_unknown()
        # second attempt: nlsat tactic for nonlinear real arithmetic
        try:
            t = z3.Then("simplify", "solve-eqs", "qfnra-nlsat")
            s2 = t.solver()
            s2.set("timeout", timeout_ms)
            s2.add(ob.hyps); s2.add(ctx.axioms); s2.add(tlib.pi_axioms()); s2.add(z3.Not(goal))
            r2 = s2.check()
            if r2 == z3.unsat:
                res.update(status="proved", backend="z3-nlsat")
            elif r2 == z3.sat:
                res.update(status="refuted", backend="z3-nlsat", model=model_summary(s2.model(), ctx.ghost.get("inputs")), _model=s2.model())
        except z3.Z3Exception:
            pass
        if res["status"] == "unknown" or use_cvc5:
            c = cvc5_check(s, timeout_ms)
            if c == "unsat":
                res.update(status="proved", backend="cvc5")
            elif c == "sat" and res["status"] == "unknown":
                res.update(status="refuted", backend="cvc5", model={"<cvc5>": "sat (model not extracted)"})
        res["time"] = time.time() - t0
    if use_cvc5 and res["status"] == "proved" and res["backend"].startswith("z3"):
        c = cvc5_check(s, timeout_ms)
        res["cvc5"] = c
    if ob.kind == "canary":
        # a canary must NOT be provable
        res["status"] = {"proved": "refuted", "refuted": "proved", "unknown": "unknown"}[res["status"]]
        res.pop("_model", None)
        res.pop("model", None)
    return res


def cvc5_check(solver, timeout_ms):
    if not os.path.exists(CVC5):
        return "unavailable"
    try:
        txt = solver.to_smt2()
    except Exception:
        return "unavailable"
    txt = "(set-logic ALL)\n" + txt.replace("(set-info :status unknown)", "")
    with tempfile.NamedTemporaryFile("w", suffix=".smt2", delete=False) as f:
        f.write(txt)
        p = f.name
    try:
        r = subprocess.run([CVC5, "--lang", "smt2", f"--tlimit={timeout_ms}", "--nl-ext-tplanes", p], capture_output=True, text=True, timeout=timeout_ms / 1000 + 5)
        out = r.stdout.strip().splitlines()
        return out[0] if out else "error"
    except Exception:
        return "error"
    finally:
        os.unlink(p)


def smt2_of(ctx, ob):
    s = _mk_solver(ctx, ob, 1000)
    s.add(z3.Not(ob.goal) if ob.kind != "cover" else ob.goal)
    try:
        return s.to_smt2()
    except Exception as e:
        return f"; to_smt2 failed: {e}"
