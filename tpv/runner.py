"""tpv runner: run the contract scenarios of one property, discharge obligations, write evidence."""
import importlib
import json
import multiprocessing as mp
import os
import pkgutil
import sys
import time
import traceback

VERIF = os.path.dirname(os.path.dirname(os.path.abspath(__file__)))


def load_contracts():
    sys.path.insert(0, VERIF) if VERIF not in sys.path else None
    import contracts

    for m in pkgutil.iter_modules(contracts.__path__):
        importlib.import_module(f"contracts.{m.name}")
    from tpv import spec

    return spec.REGISTRY


def run_task(task):
    prop, sname, cfg, tier = task
    t0 = time.time()
    out = {"scenario": sname, "cfg": cfg, "prop": prop, "obligations": [], "error": None, "paths": 0, "vacuous_paths": 0}
    try:
        import z3
        from tpv import spec, solve, core
        from tpv.interp import Interp, RaisedEx
        from tpv.core import Unsupported

        reg = load_contracts()
        sdef = [s for s in reg if s.prop == prop and s.name == sname][0]
        out["targets"] = sdef.targets
        out["bounded"] = sdef.bounded
        I = Interp()
        # targets must exist (a contract whose target vanished is an error, not a pass)
        for tq in sdef.targets:
            I.repo.find(tq)
        timeout = 20000 if tier == "quick" else 90000  # "thorough" and "retry" use the long budget
        results = I.run_paths(lambda: sdef.fn(spec.Session(I, sdef, cfg)))
        out["paths"] = len(results)
        prefix = f"{prop}/{sname}" + (f"[{cfg}]" if cfg is not None else "")
        for pi, (ctx, decisions, (status, payload)) in enumerate(results):
            core.set_ctx(ctx)
            if status == "raise":
                e = payload
                ctx.oblige(f"{prefix}/noexc:{e.kind}@{e.loc or '?'}", False, (), "noexc", {"msg": e.msg})
            if status == "unsupported":
                # checker error of the scenario; the obligations emitted before it are still discharged and reported
                out["error"] = out["error"] or f"Unsupported: {payload}"
            # frame of the scenario inputs: cells created by Session.tensor must not have been updated in place
            for (nm, cell, orig) in ctx.ghost.get("input_cells", []):
                if cell.val is not orig:
                    ctx.oblige(f"{prefix}/frame:input-tensor-{nm}-not-modified-in-place", False, (), "frame")
            # vacuity of the path
            s = z3.Solver()
            s.set("timeout", 5000)
            s.add(ctx.pc)
            s.add(ctx.axioms)
            if s.check() == z3.unsat:
                out["vacuous_paths"] += 1
                continue
            for ob in ctx.obligations:
                ix = (ob.meta or {}).get("index")
                if ix is not None:
                    # row lemmas proved on this path, instantiated at the generic index of the safety obligation
                    for (d, stmt) in ctx.ghost.get("row_lemmas", []):
                        shp = ob.meta.get("shape") or []
                        if shp and shp[0].same(d):
                            ob.hyps = list(ob.hyps) + [stmt(tuple(ix[0]))]
                name = ob.name if "/" in ob.name else f"{prefix}/{ob.name}"
                r = solve.discharge(ctx, ob, timeout, use_cvc5=(tier == "thorough"))  # retry: long budget, no cross-check
                rec = {
                    "name": name,
                    "kind": ob.kind,
                    "status": r["status"],
                    "time": round(r["time"], 4),
                    "backend": r["backend"],
                    "loc": ob.loc,
                    "path": pi,
                }
                if "cvc5" in r:
                    rec["cvc5"] = r["cvc5"]
                if r["status"] != "proved":
                    rec["model"] = r.get("model")
                    rec["reason"] = r.get("reason")
                    rec["meta"] = {k: v for k, v in (ob.meta or {}).items() if k not in ("replay", "index", "shape")}
                    rec["trace"] = [f"{l}:{'T' if d else 'F'}" for l, d in ctx.trace][-30:]
                    m = r.get("_model")
                    rp = (ob.meta or {}).get("replay") or ctx.ghost.get("replay")
                    if m is not None and rp is not None:
                        tmpl, terms = rp
                        vals = {}
                        for k, t in terms.items():
                            vals[k] = _eval(m, t)
                        rec["replay"] = {"template": tmpl, "inputs": vals}
                    if tier == "thorough" or True:
                        rec["smt2"] = solve.smt2_of(ctx, ob)[:20000]
                out["obligations"].append(rec)
        out["hashes"] = dict(I.repo.used_hashes)
        out["renamed_locals"] = dict(getattr(I.repo, "renamed_locals", {}) or {})
    except Exception as e:  # Unsupported and engine bugs alike: checker error
        out["error"] = f"{type(e).__name__}: {e}"
        out["traceback"] = traceback.format_exc()[-3000:]
    out["wall"] = round(time.time() - t0, 3)
    return out


def _eval(m, t):
    import z3

    if isinstance(t, (int, float, str, bool, type(None))):
        return t
    if isinstance(t, (list, tuple)):
        return [_eval(m, x) for x in t]
    if isinstance(t, dict):
        return {k: _eval(m, v) for k, v in t.items()}
    if hasattr(t, "t"):
        t = t.t
    v = m.eval(t, model_completion=True)
    if z3.is_int_value(v):
        return v.as_long()
    if z3.is_rational_value(v):
        return float(v.numerator_as_long()) / float(v.denominator_as_long())
    if z3.is_true(v):
        return True
    if z3.is_false(v):
        return False
    if z3.is_algebraic_value(v):
        a = v.approx(12)
        return float(a.numerator_as_long()) / float(a.denominator_as_long())
    return str(v)


def run_property(prop, tier="quick", only=None, jobs=None):
    reg = load_contracts()
    tasks = []
    for s in reg:
        if s.prop != prop:
            continue
        if only and s.name not in only:
            continue
        for cfg in s.configs:
            tasks.append((prop, s.name, cfg, tier))
    if not tasks:
        return []
    jobs = jobs or min(16, len(tasks))
    if jobs == 1 or len(tasks) == 1:
        results = [run_task(t) for t in tasks]
    else:
        ctxm = mp.get_context("fork")
        with ctxm.Pool(jobs, maxtasksperchild=1) as pool:
            results = pool.map(run_task, tasks, chunksize=1)
    # verdicts must not depend on machine load: scenarios that left an obligation UNDECIDED (solver budget) are run
    # once more with the long budget and at most 4 at a time; a second 'unknown' stays undecided (never a violation)
    if tier == "quick":
        redo = [i for i, r in enumerate(results) if not r["error"] and any(o["status"] == "unknown" for o in r["obligations"])]
        if redo:
            rt = [(tasks[i][0], tasks[i][1], tasks[i][2], "retry") for i in redo]
            if len(rt) == 1:
                again = [run_task(rt[0])]
            else:
                ctxm = mp.get_context("fork")
                with ctxm.Pool(min(4, len(rt)), maxtasksperchild=1) as pool:
                    again = pool.map(run_task, rt, chunksize=1)
            for i, r in zip(redo, again):
                r["retried"] = True
                results[i] = r
    return results
