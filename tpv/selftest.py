"""tpv selftest: differential test of the ASSUMED torch/python contracts (A2/A3).

Small source functions are executed twice on the same concrete integer-valued inputs:
  (a) by the tpv interpreter + lazy tensor library (python3-vt, no torch), elements evaluated to rationals,
  (b) by the real interpreter with real torch (/venv/bin/python subprocess).
A mismatch is an ENGINE bug (exit 3), never a property violation.
"""
import json
import os
import random
import subprocess
import sys
import tempfile

import z3

CASES = [
    # (name, source of f(a, b), shape of a, shape of b)
    ("add_broadcast", "def f(a, b):\n    return a + b[:, :1]", (3, 4), (3, 2)),
    ("sub_mul", "def f(a, b):\n    return (a - 2) * a", (2, 3), (1,)),
    ("div", "def f(a, b):\n    return a / (b * b + 1)", (3, 2), (3, 2)),
    ("neg_abs", "def f(a, b):\n    return torch.abs(-a) + torch.square(b)", (4,), (4,)),
    ("cat0", "def f(a, b):\n    return torch.cat((a, b), dim=0)", (2, 3), (4, 3)),
    ("cat1", "def f(a, b):\n    return torch.cat([a, b], dim=-1)", (2, 3), (2, 1)),
    ("stack", "def f(a, b):\n    return torch.stack((a, b), dim=1)", (2, 3), (2, 3)),
    ("column_stack", "def f(a, b):\n    return torch.column_stack((a, b))", (3,), (3, 2)),
    ("reshape_merge", "def f(a, b):\n    return a.reshape(-1, 2)", (3, 2, 2), (1,)),
    ("reshape_split", "def f(a, b):\n    return a.reshape(2, 3, -1)", (6, 2), (1,)),
    ("reshape_mixed", "def f(a, b):\n    return a.reshape(4, 3)", (2, 6), (1,)),
    ("view_flat", "def f(a, b):\n    return a.view(-1)", (2, 3), (1,)),
    ("repeat_interleave", "def f(a, b):\n    return torch.repeat_interleave(a, 3, dim=0)", (2, 2), (1,)),
    ("repeat_interleave1", "def f(a, b):\n    return torch.repeat_interleave(a, 2, 1)", (2, 3), (1,)),
    ("repeat", "def f(a, b):\n    return a.repeat(3, 1)", (2, 2), (1,)),
    ("repeat_lead", "def f(a, b):\n    return a.repeat(2, 1, 1)", (2, 3), (1,)),
    ("repeat_view", "def f(a, b):\n    return a.repeat(3, 1).view(3, 2, 2)", (2, 2), (1,)),
    ("expand", "def f(a, b):\n    return a.unsqueeze(0).expand(3, 2, 2)", (2, 2), (1,)),
    ("unsqueeze_none", "def f(a, b):\n    return a[:, None] * b[None, :]", (3,), (2,)),
    ("squeeze", "def f(a, b):\n    return a.unsqueeze(-1).squeeze(-1) + a.reshape(2, 1, 3).squeeze(1)", (2, 3), (1,)),
    ("permute", "def f(a, b):\n    return torch.permute(a, (2, 0, 1))", (2, 3, 4), (1,)),
    ("transpose", "def f(a, b):\n    return torch.transpose(a, 1, 2)", (2, 3, 4), (1,)),
    ("slice_basic", "def f(a, b):\n    return a[1:, :2]", (4, 3), (1,)),
    ("slice_step", "def f(a, b):\n    return a[::2] + a[1::2]", (6,), (1,)),
    ("slice_neg", "def f(a, b):\n    return a[1:-1, None]", (5,), (1,)),
    ("int_index", "def f(a, b):\n    return a[1] + a[-1]", (3, 2), (1,)),
    ("ellipsis", "def f(a, b):\n    return a[..., 1:]", (2, 3, 4), (1,)),
    ("list_cols", "def f(a, b):\n    return a[:, [2, 0]]", (3, 3), (1,)),
    ("list_as_tuple", "def f(a, b):\n    return a[[slice(0, 2), [1, 0]]]", (3, 3), (1,)),
    ("index_tensor", "def f(a, b):\n    return a[torch.tensor([2, 0, 2])]", (3, 2), (1,)),
    ("index_zip", "def f(a, b):\n    return a[torch.tensor([2, 0, 1]), [0, 1, 0]]", (3, 2), (1,)),
    ("index_select", "def f(a, b):\n    return torch.index_select(a, 1, torch.tensor([1, 0]))", (3, 2), (1,)),
    ("bool_mask", "def f(a, b):\n    return a[a[:, 0] > 0]", (5, 2), (1,)),
    ("where_rows", "def f(a, b):\n    return a[torch.where(a[:, :1] > 0)[0]]", (5, 2), (1,)),
    ("where3", "def f(a, b):\n    return torch.where(a > 0, a, -b)", (3, 2), (3, 2)),
    ("where_scalars", "def f(a, b):\n    return torch.where(a > 0, 2 * 1 - 1, 0.0)", (4,), (1,)),
    ("masked_assign_scalar", "def f(a, b):\n    c = a.clone()\n    c[c[:, 0] > 0] = 7.0\n    return c", (5, 2), (1,)),
    ("masked_assign_gather", "def f(a, b):\n    c = a.clone()\n    m = b[:, 0] > 0\n    c[m, :] = b[m, :]\n    return c", (5, 2), (5, 2)),
    ("where_tuple_assign", "def f(a, b):\n    c = a.clone()\n    idx = torch.where(c.sum(axis=2) >= 1)\n    c[idx] = torch.subtract(torch.tensor([[1.0, 1.0]]), c[idx])\n    return c", (2, 3, 2), (1,)),
    ("slice_assign", "def f(a, b):\n    c = torch.zeros((3, 4))\n    c[:, ::2] = a\n    c[:, 1::2] = b\n    return c", (3, 2), (3, 2)),
    ("col_assign", "def f(a, b):\n    c = torch.zeros((3, 2))\n    c[:, 0] = a\n    c[:, 1:] = b\n    return c", (3,), (3, 1)),
    ("inplace_ops", "def f(a, b):\n    c = a.clone()\n    c *= b\n    c += 1\n    c[:, :1] *= -1\n    return c", (3, 2), (3, 1)),
    ("sum_dims", "def f(a, b):\n    return a.sum(dim=1) + torch.sum(a, dim=-1)", (3, 4), (1,)),
    ("sum_all_mean", "def f(a, b):\n    return torch.stack((a.sum(), torch.mean(a * 1.0)))", (3, 4), (1,)),
    ("sum_keepdim", "def f(a, b):\n    return a.sum(dim=-1, keepdim=True)", (2, 3), (1,)),
    ("minmax", "def f(a, b):\n    return torch.stack((torch.min(a), torch.max(a)))", (3, 4), (1,)),
    ("minmax_dim", "def f(a, b):\n    return torch.min(a, dim=0).values + torch.max(a, dim=0).values", (3, 4), (1,)),
    ("minimum_maximum", "def f(a, b):\n    return torch.maximum(a, b) - torch.min(a, b)", (3, 2), (3, 2)),
    ("clamp", "def f(a, b):\n    return torch.clamp(a, min=0, max=1)", (6,), (1,)),
    ("matmul", "def f(a, b):\n    return torch.matmul(a, b)", (2, 3), (3, 2)),
    ("matmul_batch", "def f(a, b):\n    return torch.matmul(a, b.unsqueeze(-1)).squeeze(-1)", (4, 2, 2), (4, 2)),
    ("bmm", "def f(a, b):\n    return torch.bmm(a, b)", (2, 2, 3), (2, 3, 1)),
    ("meshgrid", "def f(a, b):\n    return torch.permute(torch.stack(torch.meshgrid((a, b))), (2, 1, 0)).reshape(-1, 2)", (3,), (2,)),
    ("linspace", "def f(a, b):\n    return torch.linspace(0, 1, 5)[1:-1] * 8", (1,), (1,)),
    ("arange", "def f(a, b):\n    return torch.arange(1, 5) * a", (4,), (1,)),
    ("zeros_ones", "def f(a, b):\n    return torch.zeros((2, 3)) + torch.ones(3) * a", (2, 3), (1,)),
    ("eye_diag", "def f(a, b):\n    return torch.eye(3) + torch.diag(a)", (3,), (1,)),
    ("logic", "def f(a, b):\n    return torch.logical_or(torch.logical_and(a > 0, b > 0), torch.logical_not(a >= b)) * 1.0", (5,), (5,)),
    ("le_ge", "def f(a, b):\n    return (torch.le(a, b) * 1.0) + (torch.ge(a, b) * 2.0)", (5,), (5,)),
    ("all_any", "def f(a, b):\n    return torch.stack((torch.all(a > -100) * 1.0, torch.any(a > 100) * 1.0))", (5,), (1,)),
    ("norm_sq", "def f(a, b):\n    return torch.linalg.norm(a, dim=1) ** 2", (3, 2), (1,)),
    ("narrow", "def f(a, b):\n    return a.narrow(-1, 1, 2)", (3, 4), (1,)),
    # aliasing: in-place updates through views reach the base, copies do not
    ("alias_reshape", "def f(a, b):\n    c = a.clone()\n    v = c.reshape(-1, 1)\n    v *= 2\n    return c", (3, 2), (1,)),
    ("alias_view_pow", "def f(a, b):\n    c = a.clone()\n    c.view(-1).pow_(2)\n    return c", (3, 2), (1,)),
    ("alias_slice_col", "def f(a, b):\n    c = a.clone()\n    v = c[:, 1:]\n    v += 5\n    w = c[0]\n    w *= -1\n    return c", (3, 2), (1,)),
    ("alias_none_axis", "def f(a, b):\n    c = a.clone()\n    v = c[:, None]\n    v -= 3\n    return c", (4,), (1,)),
    ("alias_unsqueeze_squeeze", "def f(a, b):\n    c = a.clone()\n    c.unsqueeze(0).squeeze(0).mul_(3)\n    return c", (2, 3), (1,)),
    ("alias_transpose", "def f(a, b):\n    c = a.clone()\n    v = c.T\n    v[0] = 9.0\n    return c", (3, 2), (1,)),
    ("alias_detach_data", "def f(a, b):\n    c = a.clone()\n    c.detach().add_(1)\n    c.data.mul_(2)\n    return c", (3,), (1,)),
    ("alias_chain", "def f(a, b):\n    c = a.clone()\n    v = c[1:].reshape(-1)\n    v[0] = 7.0\n    return c + v.sum()", (3, 2), (1,)),
    ("alias_base_write_seen_by_view", "def f(a, b):\n    c = a.clone()\n    v = c[:, 0]\n    c += 10\n    return v * 1", (3, 2), (1,)),
    ("alias_setitem_on_view", "def f(a, b):\n    c = a.clone()\n    v = c.reshape(2, 3)\n    v[1, :2] = b\n    return c", (3, 2), (2,)),
    ("copy_advanced_index", "def f(a, b):\n    c = a.clone()\n    v = c[[0, 1]]\n    v *= 0\n    w = c[c[:, 0] > -100]\n    w += 1\n    return c", (3, 2), (1,)),
    ("copy_arith_clone", "def f(a, b):\n    c = a.clone()\n    v = c * 1\n    v += 1\n    u = c.clone()\n    u -= 1\n    return c", (3, 2), (1,)),
    ("setitem_int_then_slice", "def f(a, b):\n    c = a.clone()\n    c[1, :2] = b\n    return c", (2, 3), (2,)),
    ("reshape_back", "def f(a, b):\n    return a.reshape(2, 3).reshape(3, 2) + a.reshape(6).reshape(3, 2)", (3, 2), (1,)),
    ("reshape_unaligned", "def f(a, b):\n    return a.reshape(2, 3) * 1", (3, 2), (1,)),
    ("reshape_unaligned3", "def f(a, b):\n    return a.reshape(3, 4)", (2, 2, 3), (1,)),
    ("linalg_inv_batch", "def f(a, b):\n    m = torch.tensor([[2.0, 1.0], [1.0, 1.0]]) + torch.eye(2) * (a * a)[:, None, None]\n    return torch.matmul(torch.linalg.inv(m), b.unsqueeze(-1)).squeeze(-1)", (3,), (3, 2)),
    ("inplace_unary", "def f(a, b):\n    c = a.clone()\n    c.abs_()\n    c.add_(1).reciprocal_()\n    d = b.clone()\n    d.view(-1).neg_()\n    d.clamp_(min=-1, max=1)\n    return c + d.sum()", (3, 2), (2, 2)),
    ("mask_count_assign", "def f(a, b):\n    c = a.clone()\n    m = c[:, 0] > 0\n    k = int(m.sum())\n    c[m, :] = b[:k, :]\n    return c", (5, 2), (5, 2)),
    ("alias_flatten", "def f(a, b):\n    c = a.clone()\n    c.flatten()[2] = -4.0\n    return c", (2, 2), (1,)),
    ("linalg_inv", "def f(a, b):\n    m = torch.tensor([[2.0, 1.0], [1.0, 1.0]]) + torch.eye(2) * a[0] * a[0]\n    return torch.matmul(torch.linalg.inv(m), b)", (1,), (2, 1)),
    ("new_zeros_select", "def f(a, b):\n    z = a.new_zeros((a.shape[0], 3))\n    z[:, 0] = a.select(1, 1)\n    z[:, 2] = torch.select(a, 1, 0) + a.new_ones(a.shape[0]) + a.new_full((a.shape[0],), 2.5)\n    return z + b.new_zeros(3)", (4, 2), (3,)),
    ("nonzero_tuple", "def f(a, b):\n    m = a[:, 0] > 0\n    i = m.nonzero(as_tuple=True)[0]\n    j = torch.where(~m)[0]\n    c = b.clone()\n    c[i] = c[i] * 2\n    c[j] = 0\n    return c", (5, 2), (5, 2)),
    ("vstack_hstack", "def f(a, b):\n    return torch.hstack((torch.vstack((a, b)), torch.vstack((b, a))))", (3, 2), (2, 2)),
    ("method_forms", "def f(a, b):\n    return a.flip(dims=(1,)) + a.flip([0]).square() + a.sign().relu() + a.ceil().clamp(min=-1.0, max=2.0)", (3, 2), (1,)),
    ("amin_mT_flipint", "def f(a, b):\n    return a.amin(dim=0) + a.amax(dim=0) + torch.amin(a, dim=0) + (a.mT @ a).amax() + a.flip(1).amin() + a.flip(0, 1)[0]", (3, 2), (1,)),
    ("reshape_infer", "def f(a, b):\n    return a.reshape(len(a), -1, 2) + a.reshape(-1, 2)[0]", (3, 2, 4), (1,)),
    ("flip", "def f(a, b):\n    return torch.flip(a, [0])", (4, 2), (1,)),
    ("sign_relu", "def f(a, b):\n    return torch.sign(a) + torch.relu(a)", (6,), (1,)),
    ("ceil_int", "def f(a, b):\n    n = int(torch.ceil(a[0] / 3))\n    return torch.ones(n + 1)", (1,), (1,)),
    ("python_int_division", "def f(a, b):\n    return torch.tensor([int(7 / 2), 7 // 2, -7 // 2, 7 % 3, -7 % 3, int(-3.5)])", (1,), (1,)),
    ("tuple_unpack_comprehension", "def f(a, b):\n    rows = [a[i] * (i + 1) for i in range(a.shape[0]) if i != 1]\n    return torch.stack(rows)", (3, 2), (1,)),
    ("mask2d_get", "def f(a, b):\n    return a[a > 0]", (3, 2), (1,)),
    ("mask2d_update", "def f(a, b):\n    c = b.clone()\n    m = a > 0\n    c[m] = c[m] * 3 * a[m] ** 2\n    c[torch.logical_not(m)] = 0\n    return c", (3, 2), (3, 2)),
    ("sort_values", "def f(a, b):\n    return torch.sort(a).values", (6,), (1,)),
    ("tensor_from_nested", "def f(a, b):\n    return torch.tensor([[a[0].item(), 1.0], [2, a[1].item()]])", (2,), (1,)),
]


# autograd (A4): inputs are uninterpreted leaves constrained to the concrete values, so the structural
# differentiation in tpv.jets is exercised and compared with real torch.autograd.grad
AG_CASES = [
    ("grad_poly", "def f(a, b):\n    a.requires_grad = True\n    u = a[:, :1] ** 2 * a[:, 1:] + 3 * a[:, 1:]\n    return torch.autograd.grad(u.sum(), a, create_graph=True)[0]", (3, 2), (1,)),
    ("grad_second", "def f(a, b):\n    a.requires_grad = True\n    u = a[:, :1] ** 3 * a[:, 1:] ** 2\n    g = torch.autograd.grad(u.sum(), a, create_graph=True)[0]\n    return torch.autograd.grad(g[:, :1].sum(), a, create_graph=True)[0]", (3, 2), (1,)),
    ("grad_mixed", "def f(a, b):\n    a.requires_grad = True\n    u = a[:, :1] ** 2 * a[:, 1:] ** 2\n    g = torch.autograd.grad(u.sum(), a, create_graph=True)[0]\n    return torch.autograd.grad(g[:, 1:].sum(), a, create_graph=True)[0]", (3, 2), (1,)),
    ("grad_quotient", "def f(a, b):\n    a.requires_grad = True\n    u = a[:, :1] / (a[:, 1:] ** 2 + 1)\n    return torch.autograd.grad(u.sum(), a, create_graph=True)[0]", (3, 2), (1,)),
    ("grad_two_leaves", "def f(a, b):\n    a.requires_grad = True\n    b.requires_grad = True\n    u = (a * b).sum(dim=1, keepdim=True) * a[:, :1]\n    ga, gb = torch.autograd.grad(u.sum(), (a, b), create_graph=True)\n    return torch.cat((ga, gb), dim=1)", (3, 2), (3, 2)),
    ("grad_matmul", "def f(a, b):\n    a.requires_grad = True\n    u = torch.matmul(a, b) ** 2\n    return torch.autograd.grad(u.sum(), a)[0]", (3, 2), (2, 2)),
    ("grad_cat_input", "def f(a, b):\n    a.requires_grad = True\n    b.requires_grad = True\n    z = torch.cat((a, b), dim=1)\n    u = z[:, :1] * z[:, 2:3] + z[:, 1:2] ** 2\n    return torch.autograd.grad(u.sum(), b)[0]", (3, 2), (3, 1)),
    ("grad_row_coupling", "def f(a, b):\n    a.requires_grad = True\n    u = a[:, :1] * a[:, :1].sum()\n    return torch.autograd.grad(u.sum(), a)[0]", (3, 1), (1,)),
    ("grad_unused_raises", "def f(a, b):\n    a.requires_grad = True\n    b.requires_grad = True\n    u = a ** 2\n    return torch.autograd.grad(u.sum(), b)[0]", (3, 1), (3, 1)),
    ("grad_allow_unused", "def f(a, b):\n    a.requires_grad = True\n    b.requires_grad = True\n    u = a ** 2\n    g = torch.autograd.grad(u.sum(), b, allow_unused=True)[0]\n    return torch.zeros(1) if g is None else g", (3, 1), (3, 1)),
    ("grad_const_raises", "def f(a, b):\n    a.requires_grad = True\n    u = torch.zeros((3, 1))\n    return torch.autograd.grad(u.sum(), a)[0]", (3, 1), (1,)),
    ("grad_linear_second_raises", "def f(a, b):\n    a.requires_grad = True\n    u = 3 * a\n    g = torch.autograd.grad(u.sum(), a, create_graph=True)[0]\n    return torch.autograd.grad(g.sum(), a)[0]", (3, 1), (1,)),
    ("grad_where_branch", "def f(a, b):\n    a.requires_grad = True\n    u = torch.where(b > 0, a ** 2, -a)\n    return torch.autograd.grad(u.sum(), a)[0]", (4, 1), (4, 1)),
    ("grad_abs_relu", "def f(a, b):\n    a.requires_grad = True\n    u = torch.relu(a + 0.5) * a\n    return torch.autograd.grad(u.sum(), a)[0]", (4, 1), (1,)),
]
AG_NAMES = {c[0] for c in AG_CASES}
CASES = CASES + AG_CASES


def gen_inputs(seed):
    rnd = random.Random(seed)

    def mk(shape):
        n = 1
        for s in shape:
            n *= s
        flat = [float(rnd.randint(-3, 3)) for _ in range(n)]

        def build(vals, shp):
            if len(shp) == 1:
                return vals[: shp[0]]
            step = len(vals) // shp[0]
            return [build(vals[i * step : (i + 1) * step], shp[1:]) for i in range(shp[0])]

        return build(flat, list(shape))

    return {name: (mk(sa), mk(sb)) for name, _, sa, sb in CASES}


REAL_RUNNER = r'''
import json, sys, warnings
warnings.filterwarnings("ignore")
import torch
cases = json.load(open(sys.argv[1]))
out = {}
for name, (src, a, b) in cases.items():
    env = {"torch": torch}
    try:
        exec(src, env)
        r = env["f"](torch.tensor(a), torch.tensor(b))
        out[name] = {"shape": list(r.shape), "values": r.to(torch.float64).flatten().tolist()}
    except Exception as e:
        out[name] = {"error": type(e).__name__ + ": " + str(e)[:100]}
json.dump(out, open(sys.argv[2], "w"))
'''


def tpv_run(name, src, a, b):
    import ast

    from .interp import Interp, RaisedEx, Env
    from .loader import SFunc
    from .tlib import Tensor, tensor_from_nested
    from . import core

    I = Interp()
    tree = ast.parse(src)
    mod = list(I.repo.modules.values())[0]
    for m in I.repo.modules.values():
        if m is not None and m.name.endswith("circle"):
            mod = m  # a module that imports torch
    fn = SFunc(tree.body[0], mod)

    def sym_leaf(nm, nested):
        """uninterpreted tensor whose elements are constrained (path condition) to the concrete values"""
        shape = []
        x = nested
        while isinstance(x, list):
            shape.append(len(x)); x = x[0]
        f = z3.Function(nm, *([z3.IntSort()] * len(shape) + [z3.RealSort()]))
        import itertools
        for idx in itertools.product(*[range(n) for n in shape]):
            v = nested
            for i in idx:
                v = v[i]
            I.ctx.assume(f(*[z3.IntVal(i) for i in idx]) == z3.RealVal(v))
        return Tensor(core.STensor([core.dim_of(n) for n in shape], lambda idx: f(*[core.zint(c[0] if c else 0) for c in idx]), "real", nm))

    def thunk():
        if name in AG_NAMES:
            ta, tb = sym_leaf("SA", a), sym_leaf("SB", b)
        else:
            ta, tb = Tensor(tensor_from_nested(a)), Tensor(tensor_from_nested(b))
        return I.call_func(fn, [ta, tb], {})

    res = I.run_paths(thunk)
    if len(res) != 1:
        return {"error": f"{len(res)} paths on concrete input"}
    ctx, dec, (status, payload) = res[0]
    if status != "ok":
        return {"error": f"{status}: {payload}"}
    core.set_ctx(ctx)
    v = payload.val
    model = None
    data_dependent = any(d.concrete() is None for d in v.shape)
    if data_dependent or ctx.ghost.get("selectors"):
        # data-dependent size or values reached through a selection (torch.where / boolean mask): instantiate the
        # selector axioms on the whole concrete domain, take a model, and require it to be the ONLY model
        for sel in ctx.ghost.get("selectors", []):
            tot = 1
            for d in sel.src_dims:
                tot *= d.concrete()
            for j in range(tot + 1):
                sel.comps(j)
            import itertools
            for r in itertools.product(*[range(f) for d in sel.src_dims for f in d.factors]):
                sel.pos(r)
            for j1 in range(tot):
                for j2 in range(j1 + 1, tot):
                    ctx.axiom(sel.mono(z3.IntVal(j1), z3.IntVal(j2)))
        s = z3.Solver()
        s.add(ctx.pc)
        s.add(ctx.axioms)
        if s.check() != z3.sat:
            return {"error": "selector axioms inconsistent on concrete input"}
        model = s.model()
        sizes = [model.eval(d.size_term(), model_completion=True) for d in v.shape]
        if data_dependent:
            s.add(z3.Or([d.size_term() != sz for d, sz in zip(v.shape, sizes) if d.concrete() is None]))
            if s.check() != z3.unsat:
                return {"error": "result size not determined by the selector axioms"}
        shape = [sz.as_long() for sz in sizes]
        import itertools
        idxs = [[(i,) for i in range(n)] for n in shape]
        indices = [list(c) for c in itertools.product(*idxs)]
    else:
        shape = [d.concrete() for d in v.shape]
        indices = v.all_indices()
    vals = []
    for idx in indices:
        v.at(idx)  # instantiate the axioms-on-access of every element first (e.g. the permutation of torch.sort)
    for idx in indices:
        t = core.zreal(v.at(idx)) if v.dtype != "bool" else z3.If(v.at(idx), z3.RealVal(1), z3.RealVal(0))
        if model is not None:
            s2 = z3.Solver()
            s2.add(ctx.pc)
            s2.add(ctx.axioms)
            x = z3.Real("selftest_v")
            s2.add(x == t)
            if s2.check() != z3.sat:
                return {"error": "element not evaluable"}
            val = s2.model().eval(x, model_completion=True)
            s2.add(x != val)
            if s2.check() != z3.unsat:
                return {"error": f"element {idx} not determined by the axioms"}
            vals.append(val.numerator_as_long() / val.denominator_as_long())
            continue
        t = z3.simplify(t)
        if z3.is_rational_value(t):
            vals.append(t.numerator_as_long() / t.denominator_as_long())
        else:
            s = z3.Solver()
            s.add(ctx.pc)
            s.add(ctx.axioms)
            x = z3.Real("selftest_v")
            s.add(x == t)
            if s.check() == z3.sat and z3.is_rational_value(s.model().eval(x, model_completion=True)):
                vv = s.model().eval(x, model_completion=True)
                s.add(x != vv)
                if s.check() != z3.unsat:
                    return {"error": f"element {idx} not determined by the axioms"}
                vals.append(vv.numerator_as_long() / vv.denominator_as_long())
            else:
                return {"error": f"non-numeric element {t}"}
    return {"shape": shape, "values": vals}


def run(seed=0):
    """returns (number of differential executions, list of mismatches)"""
    failures, ran = [], 0
    for rep in range(3):
        inputs = gen_inputs(seed * 100 + rep)
        payload = {name: (src, inputs[name][0], inputs[name][1]) for name, src, _, _ in CASES}
        with tempfile.TemporaryDirectory() as td:
            pin, pout, prun = os.path.join(td, "in.json"), os.path.join(td, "out.json"), os.path.join(td, "run.py")
            json.dump(payload, open(pin, "w"))
            open(prun, "w").write(REAL_RUNNER)
            subprocess.run(["/venv/bin/python", prun, pin, pout], check=True, capture_output=True, cwd=td)
            real = json.load(open(pout))
        for name, src, _, _ in CASES:
            ran += 1
            a, b = inputs[name]
            try:
                mine = tpv_run(name, src, a, b)
            except Exception as e:
                mine = {"error": f"{type(e).__name__}: {e}"}
            r = real[name]
            if "error" in r and "error" in mine:
                # both raise: the exception class must agree (message texts vary with the torch version)
                rk = r["error"].split(": ", 1)[0]
                if not mine["error"].startswith("raise: " + rk):
                    failures.append((name, rep, mine["error"], r["error"]))
                continue
            if "error" in r or "error" in mine:
                failures.append((name, rep, mine.get("error"), r.get("error")))
                continue
            ok = mine["shape"] == r["shape"] and len(mine["values"]) == len(r["values"]) and all(abs(x - y) < 1e-6 for x, y in zip(mine["values"], r["values"]))
            if not ok:
                failures.append((name, rep, mine, r))
    return ran, failures


def main():
    seed = int(os.environ.get("VERIF_SEED", "0") or 0)
    ran, failures = run(seed)
    print(f"selftest: {ran} differential executions of {len(CASES)} source snippets (tpv interpreter + torch model vs real CPython + torch)")
    for f in failures:
        print("MISMATCH", json.dumps(f, default=str)[:600])
    if failures:
        print(f"ENGINE ERROR: {len(failures)} mismatches (assumed contracts of torch/python are wrong in the engine)")
        return 3
    print("selftest ok")
    return 0


if __name__ == "__main__":
    sys.exit(main())
