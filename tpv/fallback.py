"""Bounded stand-in for loops whose inductive contract no longer fits the source (cli: 'loop restructured', UNDECIDED),
and -- in the thorough tier -- an additional run on every tree: the NATIVE run-time contract check
/verif/replays/loop_fallback.py on enumerated instances (domains, n, numbers of parameter rows; norms, batch sizes).

It can turn an UNDECIDED into a VIOLATION with a concrete failing input replayed on the real code; it never turns an
UNDECIDED into 'held', and it is never counted as proved."""
import json
import os
import subprocess
import time

VERIF = os.path.dirname(os.path.dirname(os.path.abspath(__file__)))
VENV_PY = "/venv/bin/python"
PROPS = ("C01", "C02", "C04", "C16")
SCRIPT = os.path.join(VERIF, "replays", "loop_fallback.py")


def run(prop):
    t1 = time.time()
    out = {"bounded": "enumerated instances (replays/loop_fallback.py)", "failing": [], "error": None, "skipped_instances": 0}
    try:
        r = subprocess.run([VENV_PY, "-W", "ignore", SCRIPT, json.dumps({"prop": prop})], capture_output=True, text=True, timeout=900)
    except Exception as e:
        out["error"] = f"{type(e).__name__}: {e}"
        return out
    for line in r.stdout.splitlines():
        if not line.startswith("{"):
            continue
        try:
            d = json.loads(line)
        except Exception:
            continue
        if "skipped" in d:
            out["skipped_instances"] += 1
        elif "case" in d:
            out["failing"].append(d)
    if r.returncode not in (0, 1) or (r.returncode == 1 and not out["failing"]) or (r.returncode == 0 and out["failing"]):
        out["error"] = (r.stdout + r.stderr)[-1500:]
        out["failing"] = []
    out["seconds"] = round(time.time() - t1, 1)
    return out


def write_replay(prop, result, because):
    first = result["failing"][0]
    path = os.path.join(VERIF, "replay", f"{prop}_loop_fallback.py")
    os.makedirs(os.path.dirname(path), exist_ok=True)
    doc = [
        "replay file written by /verif/check",
        f"property:   {prop}",
        "found by:   native run-time contract check on enumerated instances (bounded stand-in)",
        f"run because {because}",
        "failing instances:",
    ] + [json.dumps(x) for x in result["failing"][:20]]
    with open(path, "w") as f:
        f.write("#!/venv/bin/python\n")
        f.write("DOC = " + json.dumps("\n".join(doc)) + "\n")
        f.write("import json, subprocess, sys\n")
        f.write("print(DOC)\n")
        f.write("ARG = " + json.dumps(json.dumps({"prop": prop, "only": [first["case"]]})) + "\n")
        f.write("sys.exit(subprocess.call(['/venv/bin/python', '-W', 'ignore', '/verif/replays/loop_fallback.py', ARG]))\n")
    os.chmod(path, 0o755)
    return path


def after_verdict(prop, tier, only, undecided):
    """returns (result dict or None, violation line or None, replay path or None, notes)"""
    form = [e for e in undecided if e.get("kind") == "inv-form"]
    if prop not in PROPS or only is not None or not (form or tier == "thorough"):
        return None, None, None, []
    res = run(prop)
    if res["failing"]:
        first = res["failing"][0]
        because = f"the loop contract no longer fits: {form[0]['name']}" if form else "the thorough tier always runs it"
        path = write_replay(prop, res, because)
        ob = form[0]["name"] if form else f"{prop}/bounded-runtime-contract-check/{first['case']}"
        line = (f"VIOLATION property={prop} replay={path} obligation={ob} clause={first['clause']!r} failing-input={first['case']} "
                "(concrete input found by the bounded run-time contract check and replayed on the real code)")
        return res, line, path, []
    if res["error"]:
        return res, None, None, [f"note: bounded run-time contract check could not be run: {res['error'][:300]}"]
    note = f"note: bounded run-time contract check (native, enumerated instances) found no failing input in {res['seconds']}s"
    if form:
        note += "; the verdict stays UNDECIDED"
    return res, None, None, [note]
