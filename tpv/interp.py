"""tpv interpreter: AST-walking symbolic interpreter for the Python subset used by torchphysics.

One path at a time; forking by re-execution with a recorded decision prefix.  Anything outside
the implemented subset raises Unsupported (checker error), never a verdict.
"""
import ast
import builtins as _hostbuiltins
import os

import z3

from . import core
from .core import Sym, Unsupported, PathEnd, is_sym, zt, zint, zreal, zbool, concretize
from .loader import Repo, SFunc, SClass, NativeClass, ModuleRef

MAX_DEPTH = 120
MAX_CONCRETE_ITERS = 20000


# ----------------------------------------------------------------------------- values
class SObj:
    """instance of a repo class (or of a natively modelled base class)"""

    def __init__(self, cls):
        self.cls = cls
        self.f = {}
        self.native = None

    def __repr__(self):
        return f"<{self.cls.name} object>"


class BoundMethod:
    def __init__(self, obj, func):
        self.obj, self.func = obj, func

    def __repr__(self):
        return f"<bound {self.func!r} of {self.obj!r}>"


class Builtin:
    """host-implemented callable; fn(interp, *args, **kwargs)"""

    def __init__(self, name, fn):
        self.name, self.fn = name, fn

    def __repr__(self):
        return f"<builtin {self.name}>"


class Opaque:
    """an arbitrary user value with identity only"""

    def __init__(self, name):
        self.name = name

    def __repr__(self):
        return f"<opaque {self.name}>"


class StubModule:
    def __init__(self, name, table=None):
        self.name, self.table = name, dict(table or {})

    def has(self, k):
        return k in self.table

    def get(self, k):
        if k not in self.table:
            raise Unsupported(f"{self.name}.{k} has no model")
        return self.table[k]

    def __repr__(self):
        return f"<stub module {self.name}>"


class ExcClass:
    def __init__(self, name):
        self.name = name
        self.host = getattr(_hostbuiltins, name, Exception)

    def __repr__(self):
        return f"<exception class {self.name}>"


class ExcObj:
    def __init__(self, kind, args=()):
        self.kind, self.args = kind, tuple(args)


class RaisedEx(Exception):
    def __init__(self, kind, msg="", loc=None):
        super().__init__(f"{kind}: {msg}")
        self.kind, self.msg, self.loc = kind, msg, loc


class ReturnEx(Exception):
    def __init__(self, v):
        self.v = v


class BreakEx(Exception):
    pass


class ContinueEx(Exception):
    pass


class SymRange:
    def __init__(self, start, stop, step=1):
        self.start, self.stop, self.step = start, stop, step


class Env:
    __slots__ = ("vars", "parent", "fn", "module", "yields", "globals_decl")

    def __init__(self, fn=None, module=None, parent=None):
        self.vars = {}
        self.parent = parent
        self.fn = fn if fn is not None else (parent.fn if parent else None)
        self.module = module if module is not None else (parent.module if parent else None)
        self.yields = None
        self.globals_decl = None

    def lookup(self, name):
        e = self
        while e is not None:
            if name in e.vars:
                return True, e.vars[name]
            e = e.parent
        return False, None

    def child(self):
        return Env(parent=self)


def exc_matches(kind, handler_names):
    host = getattr(_hostbuiltins, kind, None)
    for h in handler_names:
        if h == kind or h in ("Exception", "BaseException"):
            return True
        hh = getattr(_hostbuiltins, h, None)
        if isinstance(host, type) and isinstance(hh, type) and issubclass(host, hh):
            return True
    return False


# ----------------------------------------------------------------------------- interpreter
class Interp:
    def __init__(self, repo=None):
        self.repo = repo or Repo()
        self.ctx = None
        self.decisions, self.dpos, self.pending = [], 0, []
        self.depth = 0
        self.summaries = {}  # qualname -> fn(interp, sfunc, args, kwargs) (modular contract use)
        self.loop_specs = {}  # (qualname, ordinal) -> LoopSpec
        self.call_hooks = []  # fn(interp, sfunc, args, kwargs) observers
        self.default_cache = {}  # (qualname, param) -> value : defaults are evaluated ONCE
        self.inlined = set()
        self.module_values = {}
        self.no_fork = False
        from . import pylib, torchlib

        self.pylib = pylib
        pylib.install(self)
        torchlib.install(self)

    # ---------------------------------------------------------------- paths
    def decide(self, cond, hint=None):
        """symbolic branch: returns a python bool, recording the decision"""
        if isinstance(cond, bool):
            return cond
        if isinstance(cond, Sym):
            cond = zbool(cond)
        cond = z3.simplify(cond)
        if z3.is_true(cond):
            return True
        if z3.is_false(cond):
            return False
        can_t = self.ctx.feasible(cond)
        can_f = self.ctx.feasible(z3.Not(cond))
        if can_t and not can_f:
            return True
        if can_f and not can_t:
            return False
        if not can_t and not can_f:
            raise PathEnd("infeasible")
        if self.no_fork:
            # a history prefix explored along ONE of its paths: its inputs are restricted to that path
            self.ctx.assume(cond)
            return True
        if self.dpos < len(self.decisions):
            d = self.decisions[self.dpos]
        else:
            d = True
            self.decisions.append(True)
            self.pending.append(self.decisions[:-1] + [False])
        self.dpos += 1
        self.ctx.assume(cond if d else z3.Not(cond))
        self.ctx.trace.append((self.ctx.loc, bool(d)))
        return d

    def choose(self, n, label=""):
        """nondeterministic choice among n alternatives (fork)"""
        if self.no_fork:
            return 0
        for k in range(n - 1):
            if self.dpos < len(self.decisions):
                d = self.decisions[self.dpos]
            else:
                d = True
                self.decisions.append(True)
                self.pending.append(self.decisions[:-1] + [False])
            self.dpos += 1
            if d:
                return k
        return n - 1

    def run_paths(self, thunk, max_paths=400):
        """explore all paths of thunk(); returns list of (ctx, decisions, (status, payload))"""
        self.pending = [[]]
        results = []
        while self.pending:
            if len(results) >= max_paths:
                raise Unsupported(f"more than {max_paths} paths")
            self.decisions = self.pending.pop()
            self.dpos = 0
            self.depth = 0
            core.reset_names()
            self.ctx = core.Ctx()
            core.set_ctx(self.ctx)
            self.default_cache = {}
            self.module_values = {}
            self.no_fork = False
            # observers and contract summaries belong to ONE execution of the scenario body (which registers them
            # anew on every path): hooks of an earlier path would fire with that path's stale closures
            self.call_hooks = []
            self.summaries = {}
            self.loop_specs = {}
            self.__dict__.pop("call_func", None)
            try:
                r = ("ok", thunk())
            except RaisedEx as e:
                r = ("raise", e)
            except PathEnd as e:
                r = ("end", e)
            except Unsupported as e:
                # the engine (or the contract code, e.g. on a result of an unexpected shape) cannot go on along this
                # path: a checker error for the scenario -- but what was obliged BEFORE that point still counts
                r = ("unsupported", e)
            except (AttributeError, TypeError, KeyError, IndexError, ValueError, AssertionError) as e:
                # the contract's own (host Python) code tripped over a state / result of a form it does not expect:
                # same treatment -- a checker error, the obligations emitted before (e.g. a failed loop invariant
                # 'state has the form the invariant describes') are kept
                import traceback as _tb

                r = ("unsupported", Unsupported(f"contract code: {type(e).__name__}: {e} @ {_tb.extract_tb(e.__traceback__)[-1].filename.split('/')[-1]}:{_tb.extract_tb(e.__traceback__)[-1].lineno}"))
            results.append((self.ctx, list(self.decisions), r))
        return results

    # ---------------------------------------------------------------- truthiness
    def truth(self, v):
        from .tlib import Tensor

        if v is None:
            return False
        if isinstance(v, (bool, int, float, str, list, tuple, dict, set, range)):
            return bool(v)
        if isinstance(v, Sym):
            return self.decide(zbool(v))
        if isinstance(v, SObj):
            c, m = self.find_method(v.cls, "__bool__")
            if m is not None:
                return self.truth(self.call_method(v, "__bool__", [], {}))
            c, m = self.find_method(v.cls, "__len__")
            if m is not None:
                n = self.call_method(v, "__len__", [], {})
                return self.truth(self.compare(ast.NotEq(), n, 0))
            return True
        if isinstance(v, Tensor):
            t = v.val
            n = t.numel_concrete()
            if n == 1:
                e = t.at([tuple(0 for _ in d.factors) for d in t.shape])
                return self.decide(zbool(e))
            if n == 0:
                raise RaisedEx("RuntimeError", "Boolean value of Tensor with no values is ambiguous")
            if n is None:
                # one-element iff every axis is 1
                one = z3.And([d.size_term() == 1 for d in t.shape])
                if self.ctx.entails(z3.Not(one)):
                    raise RaisedEx("RuntimeError", "Boolean value of Tensor with more than one value is ambiguous")
                raise Unsupported("truth value of a tensor of symbolic size")
            raise RaisedEx("RuntimeError", "Boolean value of Tensor with more than one value is ambiguous")
        if hasattr(v, "__len__") and not isinstance(v, (SFunc, SClass)):
            try:
                return len(v) > 0
            except TypeError:
                pass
        return True

    # ---------------------------------------------------------------- classes
    def find_method(self, cls, name, after=None):
        m = cls.mro()
        if after is not None:
            m = m[m.index(after) + 1 :]
        for c in m:
            if name in c.methods:
                return c, c.methods[name]
            if isinstance(c, NativeClass) and name in c.native_methods:
                return c, c.native_methods[name]
        return None, None

    def find_prop(self, cls, name):
        for c in cls.mro():
            if name in c.props:
                return c, c.props[name]
        return None, None

    def find_setter(self, cls, name):
        for c in cls.mro():
            if name in c.setters:
                return c, c.setters[name]
        return None, None

    def find_class_attr(self, cls, name):
        for c in cls.mro():
            if name in c.class_attrs:
                return c, c.class_attrs[name]
        return None, None

    def find_nested(self, cls, name):
        for c in cls.mro():
            if name in getattr(c, "nested", {}):
                return c.nested[name]
        return None

    def isinstance_(self, o, cls):
        from .tlib import Tensor

        if isinstance(cls, (tuple, list)):
            return any(self.isinstance_(o, c) for c in cls)
        if isinstance(cls, (SClass, NativeClass)):
            if isinstance(o, SObj):
                return o.cls.issubclass(cls)
            if isinstance(cls, NativeClass):
                return self.pylib.native_isinstance(self, o, cls)
            return False
        if isinstance(cls, ExcClass):
            return isinstance(o, ExcObj) and exc_matches(o.kind, [cls.name])
        if isinstance(cls, type):
            if isinstance(o, Sym):
                if cls is int:
                    return o.ty in ("int", "bool")
                if cls is float:
                    return o.ty == "float"
                if cls is bool:
                    return o.ty == "bool"
                return False
            if isinstance(o, (SObj, Tensor, Opaque, SFunc, BoundMethod)):
                if cls is object:
                    return True
                return False
            return isinstance(o, cls)
        raise Unsupported(f"isinstance against {cls!r}")

    def instantiate(self, cls, args, kwargs):
        c_new, m_new = self.find_method(cls, "__new__")
        if m_new is not None and isinstance(c_new, NativeClass):
            obj = m_new(self, cls, *args, **kwargs)
            if not isinstance(obj, SObj):
                return obj  # a natively modelled value (e.g. torch.FloatTensor(data))
        else:
            obj = SObj(cls)
            for c in cls.mro():
                if isinstance(c, NativeClass) and "__alloc__" in c.native_methods:
                    c.native_methods["__alloc__"](self, obj)
        c, m = self.find_method(cls, "__init__")
        if m is not None:
            self.call_resolved(c, m, "__init__", [obj] + list(args), kwargs)
        elif args or kwargs:
            raise RaisedEx("TypeError", f"{cls.name}() takes no arguments")
        return obj

    def new_without_init(self, cls):
        obj = SObj(cls)
        for c in cls.mro():
            if isinstance(c, NativeClass) and "__alloc__" in c.native_methods:
                c.native_methods["__alloc__"](self, obj)
        return obj

    def call_resolved(self, c, m, name, args, kwargs):
        if isinstance(m, ast.AST):
            f = self.method_func(c, m, name)
            if not isinstance(f, SFunc):
                return self.call(f, args, kwargs)
            return self.call_func(f, args, kwargs)
        return m(self, *args, **kwargs)

    def call_method(self, obj, name, args, kwargs=None):
        kwargs = kwargs or {}
        if isinstance(obj, SObj):
            ov = obj.f.get("__overrides__")
            if ov is not None and name in ov:
                return ov[name](self, obj, *args, **kwargs)
            c, m = self.find_method(obj.cls, name)
            if m is None:
                raise RaisedEx("AttributeError", f"{obj.cls.name}.{name}")
            return self.call_resolved(c, m, name, [obj] + list(args), kwargs)
        return self.call(self.getattr(obj, name), list(args), kwargs)

    # ---------------------------------------------------------------- calls
    def call(self, f, args, kwargs=None):
        kwargs = dict(kwargs or {})
        if isinstance(f, BoundMethod):
            if isinstance(f.func, SFunc):
                return self.call_func(f.func, [f.obj] + list(args), kwargs)
            return f.func(self, f.obj, *args, **kwargs)
        if isinstance(f, SFunc):
            return self.call_func(f, list(args), kwargs)
        if isinstance(f, (SClass, NativeClass)):
            return self.instantiate(f, list(args), kwargs)
        if isinstance(f, Builtin):
            return f.fn(self, *args, **kwargs)
        if isinstance(f, ExcClass):
            return ExcObj(f.name, args)
        if isinstance(f, SObj):
            return self.call_method(f, "__call__", args, kwargs)
        if hasattr(f, "tpv_call"):
            return f.tpv_call(self, list(args), kwargs)
        if isinstance(f, type) or callable(f):
            return self.pylib.call_host(self, f, args, kwargs)
        raise RaisedEx("TypeError", f"object {f!r} is not callable")

    def bind_args(self, fn, args, kwargs):
        node = fn.node
        a = node.args
        env = Env(fn=fn, module=fn.module, parent=fn.closure)
        params = [x.arg for x in a.posonlyargs + a.args]
        defaults = a.defaults
        nd = len(defaults)
        args = list(args)
        kwargs = dict(kwargs)
        for i, p in enumerate(params):
            if i < len(args):
                if p in kwargs:
                    raise RaisedEx("TypeError", f"{fn.name}() got multiple values for argument '{p}'")
                env.vars[p] = args[i]
            elif p in kwargs:
                env.vars[p] = kwargs.pop(p)
            else:
                j = i - (len(params) - nd)
                if j < 0:
                    raise RaisedEx("TypeError", f"{fn.name}() missing required argument '{p}'")
                env.vars[p] = self.default_value(fn, p, defaults[j])
        if len(args) > len(params):
            if a.vararg:
                env.vars[a.vararg.arg] = tuple(args[len(params) :])
            else:
                raise RaisedEx("TypeError", f"{fn.name}() takes {len(params)} positional arguments but {len(args)} were given")
        elif a.vararg:
            env.vars[a.vararg.arg] = ()
        for kw, dflt in zip(a.kwonlyargs, a.kw_defaults):
            if kw.arg in kwargs:
                env.vars[kw.arg] = kwargs.pop(kw.arg)
            elif dflt is not None:
                env.vars[kw.arg] = self.default_value(fn, kw.arg, dflt)
            else:
                raise RaisedEx("TypeError", f"{fn.name}() missing keyword-only argument '{kw.arg}'")
        if a.kwarg:
            env.vars[a.kwarg.arg] = dict(kwargs)
        elif kwargs:
            raise RaisedEx("TypeError", f"{fn.name}() got an unexpected keyword argument '{list(kwargs)[0]}'")
        return env

    def default_value(self, fn, pname, expr):
        """default arguments are evaluated once (at definition time) and shared between calls"""
        if fn.closure is not None or isinstance(fn.node, ast.Lambda):
            return self.eval(expr, Env(fn=fn, module=fn.module, parent=fn.closure))
        key = (fn.qualname, pname)
        if key not in self.default_cache:
            self.default_cache[key] = self.eval(expr, Env(fn=fn, module=fn.module))
        return self.default_cache[key]

    def call_func(self, fn, args, kwargs):
        q = fn.qualname
        if fn.closure is None and q in self.summaries:
            r = self.summaries[q](self, fn, list(args), dict(kwargs))
            if r is not NotImplemented:  # a summary may decline (e.g. the outermost call of a recursive function)
                return r
        for h in self.call_hooks:
            h(self, fn, args, kwargs)
        self.repo.note_used(fn)
        env = self.bind_args(fn, args, kwargs)
        self.depth += 1
        if self.depth > MAX_DEPTH:
            raise Unsupported(f"call depth exceeded in {q}")
        saved_loc = self.ctx.loc
        try:
            if isinstance(fn.node, ast.Lambda):
                return self.eval(fn.node.body, env)
            if fn.is_generator:
                env.yields = []
                try:
                    self.exec_block(fn.node.body, env)
                except ReturnEx:
                    pass
                return list(env.yields)
            try:
                self.exec_block(fn.node.body, env)
            except ReturnEx as r:
                return r.v
            return None
        finally:
            self.depth -= 1
            self.ctx.loc = saved_loc

    # ---------------------------------------------------------------- statements
    def exec_block(self, body, env):
        for st in body:
            self.exec(st, env)

    def set_loc(self, st, env):
        m = env.module
        if m is not None and hasattr(st, "lineno"):
            self.ctx.loc = f"{os.path.basename(m.path)}:{st.lineno}"

    def exec(self, st, env):
        self.set_loc(st, env)
        m = getattr(self, "s_" + type(st).__name__, None)
        if m is None:
            raise Unsupported(f"statement {type(st).__name__} at {self.ctx.loc}")
        return m(st, env)

    def s_Expr(self, st, env):
        self.eval(st.value, env)

    def s_Pass(self, st, env):
        pass

    def s_Return(self, st, env):
        raise ReturnEx(self.eval(st.value, env) if st.value is not None else None)

    def s_Assign(self, st, env):
        v = self.eval(st.value, env)
        for t in st.targets:
            self.assign(t, v, env)

    def s_AnnAssign(self, st, env):
        if st.value is not None:
            self.assign(st.target, self.eval(st.value, env), env)

    def s_AugAssign(self, st, env):
        from .tlib import Tensor

        t = st.target
        if isinstance(t, ast.Subscript):
            o = self.eval(t.value, env)
            k = self.eval(t.slice, env)
            cur = self.getitem(o, k)
            rhs = self.eval(st.value, env)
            new = self.binop(st.op, cur, rhs, inplace=True)
            self.setitem(o, k, new)
            return
        if isinstance(t, ast.Attribute):
            o = self.eval(t.value, env)
            cur = self.getattr(o, t.attr)
            rhs = self.eval(st.value, env)
            new = self.binop(st.op, cur, rhs, inplace=True)
            if not (isinstance(cur, Tensor) and new is cur):
                self.setattr(o, t.attr, new)
            return
        cur = self.eval(t, env)
        rhs = self.eval(st.value, env)
        new = self.binop(st.op, cur, rhs, inplace=True)
        self.assign(t, new, env)

    def s_If(self, st, env):
        if self.truth(self.eval(st.test, env)):
            self.exec_block(st.body, env)
        else:
            self.exec_block(st.orelse, env)

    def s_Assert(self, st, env):
        if not self.truth(self.eval(st.test, env)):
            raise RaisedEx("AssertionError", ast.unparse(st.test), self.ctx.loc)

    def s_Raise(self, st, env):
        if st.exc is None:
            raise Unsupported("bare raise")
        v = self.eval(st.exc, env)
        if isinstance(v, ExcClass):
            raise RaisedEx(v.name, "", self.ctx.loc)
        if isinstance(v, ExcObj):
            msg = v.args[0] if v.args and isinstance(v.args[0], str) else ""
            raise RaisedEx(v.kind, msg, self.ctx.loc)
        raise Unsupported(f"raise of {v!r}")

    def s_Delete(self, st, env):
        for t in st.targets:
            if isinstance(t, ast.Name):
                env.vars.pop(t.id, None)
            elif isinstance(t, ast.Subscript):
                o = self.eval(t.value, env)
                k = self.eval(t.slice, env)
                if isinstance(o, (dict, list)):
                    del o[k]
                else:
                    raise Unsupported("del on non-container")
            else:
                raise Unsupported("del target")

    def s_Import(self, st, env):
        for a in st.names:
            v = self.repo.import_module(a.name if a.asname else a.name.split(".")[0])
            env.vars[a.asname or a.name.split(".")[0]] = v

    def s_ImportFrom(self, st, env):
        full = self.repo.abs_module_name(env.module, st.level, st.module)
        for a in st.names:
            env.vars[a.asname or a.name] = self.resolve_lazy(self.repo.import_from(full, a.name), env.module)

    def s_FunctionDef(self, st, env):
        f = SFunc(st, env.module, None, closure=env, name=st.name)
        env.vars[st.name] = self.decorate(f, st.decorator_list, env) if st.decorator_list else f

    def s_Global(self, st, env):
        raise Unsupported("global statement")

    def s_Nonlocal(self, st, env):
        raise Unsupported("nonlocal statement")

    def s_Break(self, st, env):
        raise BreakEx()

    def s_Continue(self, st, env):
        raise ContinueEx()

    def s_With(self, st, env):
        for item in st.items:
            v = self.eval(item.context_expr, env)
            if item.optional_vars is not None:
                self.assign(item.optional_vars, v, env)
            enter = getattr(v, "tpv_enter", None)
            if enter:
                enter(self)
        try:
            self.exec_block(st.body, env)
        finally:
            for item in reversed(st.items):
                pass

    def s_Try(self, st, env):
        try:
            self.exec_block(st.body, env)
        except RaisedEx as e:
            for h in st.handlers:
                names = []
                if h.type is None:
                    names = ["BaseException"]
                else:
                    tv = self.eval(h.type, env)
                    tvs = tv if isinstance(tv, tuple) else (tv,)
                    for x in tvs:
                        if isinstance(x, ExcClass):
                            names.append(x.name)
                        else:
                            raise Unsupported("except with non-exception class")
                if exc_matches(e.kind, names):
                    if h.name:
                        env.vars[h.name] = ExcObj(e.kind, (e.msg,))
                    self.exec_block(h.body, env)
                    break
            else:
                raise
        else:
            self.exec_block(st.orelse, env)
        finally:
            if st.finalbody:
                self.exec_block(st.finalbody, env)

    # ---- loops
    def loop_ordinal(self, fn, st):
        k = 0
        for n in _preorder(fn.node):
            if isinstance(n, (ast.For, ast.While)):
                if n is st:
                    return k
                k += 1
        return None

    def loop_spec_for(self, st, env):
        fn = env.fn
        if fn is None:
            return None
        o = self.loop_ordinal(fn, st)
        return self.loop_specs.get((fn.qualname, o))

    def s_For(self, st, env):
        it = self.eval(st.iter, env)
        if isinstance(it, SObj) and "_tpv_family" in it.f:
            it = it.f["_tpv_family"]
        spec = self.loop_spec_for(st, env)
        if spec is not None:
            return spec.run_for(self, st, env, it)
        if isinstance(it, SymRange):
            raise Unsupported(f"for over symbolic range without loop contract at {self.ctx.loc} in {env.fn.qualname if env.fn else '?'}")
        seq = self.iterate(it)
        broke = False
        for v in seq:
            self.assign(st.target, v, env)
            try:
                self.exec_block(st.body, env)
            except BreakEx:
                broke = True
                break
            except ContinueEx:
                continue
        if not broke:
            self.exec_block(st.orelse, env)

    def s_While(self, st, env):
        spec = self.loop_spec_for(st, env)
        if spec is not None:
            return spec.run_while(self, st, env)
        n = 0
        forks_before = self.dpos
        while True:
            c = self.eval(st.test, env)
            d0 = self.dpos
            if not self.truth(c):
                break
            if self.dpos != d0:
                raise Unsupported(
                    f"while loop with symbolic condition needs a loop contract at {self.ctx.loc} in {env.fn.qualname if env.fn else '?'}"
                )
            n += 1
            if n > MAX_CONCRETE_ITERS:
                raise Unsupported("concrete while loop did not terminate within bound")
            try:
                self.exec_block(st.body, env)
            except BreakEx:
                return
            except ContinueEx:
                continue
        self.exec_block(st.orelse, env)

    def iterate(self, it):
        from .tlib import Tensor

        if isinstance(it, (list, tuple, range, set, frozenset, str)):
            return list(it)
        if isinstance(it, dict):
            return list(it.keys())
        if isinstance(it, SymRange):
            raise Unsupported("iteration over a symbolic range")
        if hasattr(it, "tpv_sym_iter"):
            raise Unsupported("iteration over a symbolic family without a loop contract")
        if isinstance(it, SObj):
            if it.native is not None and isinstance(it.native, dict):
                c, m = self.find_method(it.cls, "__iter__")
                if m is None or not isinstance(m, ast.AST):
                    return list(it.native.keys())
            c, m = self.find_method(it.cls, "__iter__")
            if m is not None:
                r = self.call_method(it, "__iter__", [], {})
                if r is it:
                    raise Unsupported("iteration over an infinite iterator object")
                return self.iterate(r)
            raise RaisedEx("TypeError", f"{it.cls.name} object is not iterable")
        if isinstance(it, Tensor):
            from . import tlib

            return tlib.iter_rows(it)
        if hasattr(it, "tpv_iter"):
            return it.tpv_iter(self)
        try:
            return list(it)
        except TypeError:
            raise Unsupported(f"iterate {type(it).__name__}")

    # ---- assignment
    def assign(self, t, v, env):
        if isinstance(t, ast.Name):
            env.vars[t.id] = v
        elif isinstance(t, ast.Attribute):
            o = self.eval(t.value, env)
            self.setattr(o, t.attr, v)
        elif isinstance(t, (ast.Tuple, ast.List)):
            vs = self.iterate(v)
            star = [i for i, e in enumerate(t.elts) if isinstance(e, ast.Starred)]
            if star:
                i = star[0]
                n_after = len(t.elts) - i - 1
                if len(vs) < len(t.elts) - 1:
                    raise RaisedEx("ValueError", "not enough values to unpack")
                for tt, vv in zip(t.elts[:i], vs[:i]):
                    self.assign(tt, vv, env)
                self.assign(t.elts[i].value, list(vs[i : len(vs) - n_after]), env)
                for tt, vv in zip(t.elts[i + 1 :], vs[len(vs) - n_after :]):
                    self.assign(tt, vv, env)
                return
            if len(vs) != len(t.elts):
                raise RaisedEx("ValueError", f"cannot unpack {len(vs)} values into {len(t.elts)} targets")
            for tt, vv in zip(t.elts, vs):
                self.assign(tt, vv, env)
        elif isinstance(t, ast.Subscript):
            o = self.eval(t.value, env)
            k = self.eval(t.slice, env)
            self.setitem(o, k, v)
        else:
            raise Unsupported("assignment target")

    def setattr(self, o, name, v):
        from .tlib import Tensor

        if isinstance(o, SObj):
            c, m = self.find_setter(o.cls, name)
            if m is not None:
                self.call_func(SFunc(m, c.module, c, name=name), [o, v], {})
                return
            for c in o.cls.mro():
                if isinstance(c, NativeClass) and "__setattr__" in c.native_methods:
                    c.native_methods["__setattr__"](self, o, name, v)
                    return
            o.f[name] = v
            return
        if isinstance(o, Tensor):
            o.set_attr(self, name, v)
            return
        if isinstance(o, dict) and False:
            return
        raise Unsupported(f"setattr on {type(o).__name__}.{name}")

    def setitem(self, o, k, v):
        from .tlib import Tensor

        if isinstance(o, dict):
            if is_sym(k):
                # numeric keys compare by value: overwrite an existing value-equal key, else insert the symbol
                for kk in list(o):
                    if kk is k:
                        o[kk] = v
                        return
                for kk in list(o):
                    if (is_sym(kk) or (isinstance(kk, (int, float)) and not isinstance(kk, bool))) and self.decide(zt(k) == zt(kk)):
                        o[kk] = v
                        return
            o[k] = v
        elif isinstance(o, list):
            if is_sym(k):
                raise Unsupported("symbolic list index in assignment")
            o[k] = v
        elif isinstance(o, SObj):
            self.call_method(o, "__setitem__", [k, v], {})
        elif isinstance(o, Tensor):
            from . import tlib

            tlib.setitem(self, o, k, v)
        else:
            raise Unsupported(f"subscript assignment on {type(o).__name__}")

    # ---------------------------------------------------------------- expressions
    def eval(self, e, env):
        m = getattr(self, "e_" + type(e).__name__, None)
        if m is None:
            raise Unsupported(f"expression {type(e).__name__} at {self.ctx.loc}")
        return m(e, env)

    def e_Constant(self, e, env):
        return e.value

    def resolve_lazy(self, v, module):
        if isinstance(v, tuple) and len(v) in (2, 3) and v[0] == "lazy-assign":
            if len(v) == 3:
                module = v[2]  # the DEFINING module: one value (and one cache of a memoising decorator) per definition
            key = (module.name, id(v[1]))
            if key not in self.module_values:
                if isinstance(v[1], ast.FunctionDef):
                    self.module_values[key] = self.decorate(SFunc(v[1], module), v[1].decorator_list, Env(module=module))
                else:
                    self.module_values[key] = self.eval(v[1], Env(module=module))
            return self.module_values[key]
        return v

    def decorate(self, f, decorator_list, env):
        for d in reversed(decorator_list):
            f = self.call(self.eval(d, env), [f], {})
        return f

    def method_func(self, c, m, name):
        """the callable stored in the class under `name`: the def, or what its (non-builtin) decorators made of it"""
        f = SFunc(m, c.module, c, name=name)
        decs = getattr(c, "decorated", {}).get(name)
        if not decs:
            return f
        key = ("method", c.qualname, name)
        if key not in self.module_values:
            self.module_values[key] = self.decorate(f, decs, Env(module=c.module))
        return self.module_values[key]

    def e_Name(self, e, env):
        found, v = env.lookup(e.id)
        if found:
            return v
        m = env.module
        if m is not None:
            v = self.repo.lookup(m, e.id)
            if v is not None:
                if isinstance(v, tuple) and v and v[0] == "lazy-assign":
                    # find defining module for caching
                    return self.resolve_lazy(v, m)
                return v
        b = self.repo.externals["builtins"]
        if b.has(e.id):
            return b.get(e.id)
        # a variable that a loop under contract assigns but whose value the loop invariant does not describe
        ee = env
        while ee is not None:
            hv = ee.vars.get("__havoced__")
            if hv and e.id in hv:
                self.ctx.oblige(f"{self.ctx.ghost.get('prefix', '?')}/inv:{hv[e.id]}:variable-{e.id}-is-carried-across-iterations-but-not-described-by-the-loop-invariant", False, (), "inv-form")
                raise PathEnd("value not described by the loop invariant")
            ee = ee.parent
        # definite assignment: a local that is assigned somewhere in the function but not on this path
        if env.fn is not None and _assigned_in(env.fn.node, e.id):
            raise RaisedEx("UnboundLocalError", f"local variable '{e.id}' referenced before assignment", self.ctx.loc)
        raise RaisedEx("NameError", f"name '{e.id}' is not defined", self.ctx.loc)

    def _elts(self, elts, env):
        out = []
        for x in elts:
            if isinstance(x, ast.Starred):
                out += list(self.iterate(self.eval(x.value, env)))
            else:
                out.append(self.eval(x, env))
        return out

    def e_Tuple(self, e, env):
        return tuple(self._elts(e.elts, env))

    def e_List(self, e, env):
        return self._elts(e.elts, env)

    def e_Set(self, e, env):
        return set(self._elts(e.elts, env))

    def e_Dict(self, e, env):
        d = {}
        for k, v in zip(e.keys, e.values):
            if k is None:
                src = self.eval(v, env)
                d.update(self.pylib.as_host_mapping(self, src))
            else:
                d[self.eval(k, env)] = self.eval(v, env)
        return d

    def e_Slice(self, e, env):
        g = lambda x: self.eval(x, env) if x is not None else None
        return slice(g(e.lower), g(e.upper), g(e.step))

    def e_Lambda(self, e, env):
        return SFunc(e, env.module, None, closure=env, name="<lambda>")

    def e_Attribute(self, e, env):
        o = self.eval(e.value, env)
        return self.getattr(o, e.attr)

    def e_Starred(self, e, env):
        raise Unsupported("starred expression in this position")

    def e_JoinedStr(self, e, env):
        # f-strings are evaluated when every interpolated value is a concrete str/number (they are used to
        # build dictionary keys such as f"{k}_left"); anything else (messages with tensors etc.) becomes "<?>"
        out = []
        for v in e.values:
            if isinstance(v, ast.Constant):
                out.append(str(v.value))
            elif isinstance(v, ast.FormattedValue):
                try:
                    val = self.eval(v.value, env)
                except (RaisedEx, Unsupported):
                    val = "<?>"
                if isinstance(val, (str, int, float, bool, type(None))) and v.format_spec is None and v.conversion == -1:
                    out.append(format(val))
                else:
                    out.append("<?>")
            else:
                out.append("<?>")
        return "".join(out)

    def e_Yield(self, e, env):
        ee = env
        while ee is not None and ee.yields is None:
            ee = ee.parent
        if ee is None:
            raise Unsupported("yield outside generator")
        ee.yields.append(self.eval(e.value, env) if e.value is not None else None)
        return None

    def e_NamedExpr(self, e, env):
        v = self.eval(e.value, env)
        env.vars[e.target.id] = v
        return v

    def getattr(self, o, name):
        from .tlib import Tensor

        if isinstance(o, SObj):
            ov = o.f.get("__overrides__")
            if ov is not None and name in ov:
                return BoundMethod(o, ov[name])
            if name in o.f:
                return o.f[name]
            if name == "__class__":
                return o.cls
            if name == "__dict__":
                return o.f
            c, m = self.find_prop(o.cls, name)
            if m is not None:
                if isinstance(m, ast.AST):
                    r = self.call_func(SFunc(m, c.module, c, name=name), [o], {})
                    if name in getattr(c, "cached_props", ()):
                        o.f[name] = r
                    return r
                return m(self, o)
            c, m = self.find_method(o.cls, name)
            if m is not None:
                if isinstance(m, ast.AST) and name in getattr(c, "decorated", {}):
                    f = self.method_func(c, m, name)
                    if name in c.staticmethods:
                        return f
                    return BoundMethod(o.cls if name in c.classmethods else o, f if isinstance(f, SFunc) else (lambda I2, *a, _f=f, **k: I2.call(_f, list(a), k)))
                if name in c.staticmethods:
                    return SFunc(m, c.module, c, name=name)
                if name in c.classmethods:
                    return BoundMethod(o.cls, SFunc(m, c.module, c, name=name) if isinstance(m, ast.AST) else m)
                if isinstance(m, ast.AST):
                    return BoundMethod(o, SFunc(m, c.module, c, name=name))
                return BoundMethod(o, m)
            c, a = self.find_class_attr(o.cls, name)
            if a is not None:
                return self.eval(a, Env(module=c.module))
            nc = self.find_nested(o.cls, name)
            if nc is not None:
                return nc
            for c in o.cls.mro():
                if isinstance(c, NativeClass) and name in c.props:
                    return c.props[name](self, o)
            for c in o.cls.mro():
                if isinstance(c, NativeClass) and "__getattr__" in c.native_methods:
                    return c.native_methods["__getattr__"](self, o, name)
            raise RaisedEx("AttributeError", f"'{o.cls.name}' object has no attribute '{name}'", self.ctx.loc)
        if isinstance(o, (SClass, NativeClass)):
            if name == "__name__":
                return o.name
            if name == "__new__":
                c_new, m_new = self.find_method(o, "__new__")
                if m_new is None:
                    return Builtin("object.__new__", lambda I2, c, *a, **k: I2.new_without_init(c))
            c, m = self.find_method(o, name)
            if m is not None:
                if isinstance(m, ast.AST) and name in getattr(c, "decorated", {}):
                    f = self.method_func(c, m, name)
                    if name in c.classmethods:
                        return BoundMethod(o, f if isinstance(f, SFunc) else (lambda I2, *a, _f=f, **k: I2.call(_f, list(a), k)))
                    return f
                if name in c.classmethods:
                    if isinstance(m, ast.AST):
                        return BoundMethod(o, SFunc(m, c.module, c, name=name))
                    return BoundMethod(o, m)
                if isinstance(m, ast.AST):
                    return SFunc(m, c.module, c, name=name)
                return Builtin(f"{c.name}.{name}", m)
            c, a = self.find_class_attr(o, name)
            if a is not None:
                return self.eval(a, Env(module=c.module))
            nc = self.find_nested(o, name)
            if nc is not None:
                return nc
            c, m = self.find_prop(o, name)
            if m is not None:
                return ("property", c, m)
            raise RaisedEx("AttributeError", f"type object '{o.name}' has no attribute '{name}'")
        if isinstance(o, Tensor):
            from . import tlib

            return tlib.tensor_attr(self, o, name)
        if isinstance(o, (StubModule, ModuleRef)):
            v = o.get(name)
            if isinstance(o, ModuleRef):
                v = self.resolve_lazy(v, o.module)
            return v
        if isinstance(o, SFunc):
            if name == "__name__":
                return o.name
            raise RaisedEx("AttributeError", f"function has no attribute {name}")
        if isinstance(o, BoundMethod):
            if name == "__name__":
                return getattr(o.func, "name", "method")
            if name == "__self__":
                return o.obj
        if isinstance(o, ExcObj):
            if name == "args":
                return o.args
        if hasattr(o, "tpv_getattr"):
            return o.tpv_getattr(self, name)
        return self.pylib.host_getattr(self, o, name)

    def e_Call(self, e, env):
        # super()
        if isinstance(e.func, ast.Attribute) and isinstance(e.func.value, ast.Call) and isinstance(e.func.value.func, ast.Name) and e.func.value.func.id == "super":
            fn = env.fn
            while fn is not None and fn.cls is None and fn.closure is not None:
                fn = fn.closure.fn
            if fn is None or fn.cls is None:
                raise Unsupported("super() outside method")
            if e.func.value.args:
                a0 = e.func.value.args
                if not (len(a0) == 2 and isinstance(a0[0], ast.Name) and a0[0].id == fn.cls.name and isinstance(a0[1], ast.Name) and a0[1].id == fn.node.args.args[0].arg):
                    raise Unsupported("super() with arguments other than (OwnClass, self)")
            first = fn.node.args.args[0].arg
            found, selfobj = env.lookup(first)
            if isinstance(selfobj, (SClass, NativeClass)):
                cls_of = selfobj
            else:
                cls_of = selfobj.cls
            c, m = self.find_method(cls_of, e.func.attr, after=fn.cls)
            args, kwargs = self.eval_args(e, env)
            if m is None:
                if e.func.attr in ("__init__",):
                    return None
                raise RaisedEx("AttributeError", f"super has no {e.func.attr}")
            return self.call_resolved(c, m, e.func.attr, [selfobj] + args, kwargs)
        f = self.eval(e.func, env)
        args, kwargs = self.eval_args(e, env)
        return self.call(f, args, kwargs)

    def eval_args(self, e, env):
        args = []
        for a in e.args:
            if isinstance(a, ast.Starred):
                args += list(self.iterate(self.eval(a.value, env)))
            else:
                args.append(self.eval(a, env))
        kwargs = {}
        for k in e.keywords:
            if k.arg is None:
                kwargs.update(self.pylib.as_host_mapping(self, self.eval(k.value, env)))
            else:
                kwargs[k.arg] = self.eval(k.value, env)
        return args, kwargs

    def e_BinOp(self, e, env):
        return self.binop(e.op, self.eval(e.left, env), self.eval(e.right, env))

    def binop(self, op, a, b, inplace=False):
        return self.pylib.binop(self, op, a, b, inplace)

    def e_UnaryOp(self, e, env):
        v = self.eval(e.operand, env)
        return self.pylib.unaryop(self, e.op, v)

    def e_BoolOp(self, e, env):
        if isinstance(e.op, ast.And):
            v = True
            for x in e.values:
                v = self.eval(x, env)
                if not self.truth(v):
                    return v
            return v
        v = False
        for x in e.values:
            v = self.eval(x, env)
            if self.truth(v):
                return v
        return v

    def e_Compare(self, e, env):
        left = self.eval(e.left, env)
        if len(e.ops) == 1:
            return self.compare(e.ops[0], left, self.eval(e.comparators[0], env))
        for op, r in zip(e.ops, e.comparators):
            right = self.eval(r, env)
            c = self.compare(op, left, right)
            if not self.truth(c):
                return False
            left = right
        return True

    def compare(self, op, a, b):
        return self.pylib.compare(self, op, a, b)

    def e_IfExp(self, e, env):
        return self.eval(e.body if self.truth(self.eval(e.test, env)) else e.orelse, env)

    def e_Subscript(self, e, env):
        o = self.eval(e.value, env)
        k = self.eval(e.slice, env)
        return self.getitem(o, k)

    def getitem(self, o, k):
        return self.pylib.getitem(self, o, k)

    def _comp(self, gens, env, emit):
        def rec(i, env_i):
            if i == len(gens):
                emit(env_i)
                return
            g = gens[i]
            for v in self.iterate(self.eval(g.iter, env_i)):
                env2 = env_i.child()
                self.assign(g.target, v, env2)
                if all(self.truth(self.eval(c, env2)) for c in g.ifs):
                    rec(i + 1, env2)

        rec(0, env)

    def e_ListComp(self, e, env):
        out = []
        self._comp(e.generators, env, lambda en: out.append(self.eval(e.elt, en)))
        return out

    def e_GeneratorExp(self, e, env):
        return self.e_ListComp(e, env)

    def e_SetComp(self, e, env):
        return set(self.e_ListComp(e, env))

    def e_DictComp(self, e, env):
        out = {}

        def emit(en):
            k = self.eval(e.key, en)
            out[k] = self.eval(e.value, en)

        self._comp(e.generators, env, emit)
        return out


def _preorder(node):
    for ch in ast.iter_child_nodes(node):
        yield ch
        if isinstance(ch, (ast.FunctionDef, ast.Lambda, ast.ClassDef)):
            continue
        yield from _preorder(ch)


_ASSIGNED_CACHE = {}


def _assigned_in(fnode, name):
    k = id(fnode)
    if k not in _ASSIGNED_CACHE:
        names = set()
        for n in ast.walk(fnode):
            if isinstance(n, ast.Name) and isinstance(n.ctx, (ast.Store, ast.Del)):
                names.add(n.id)
        _ASSIGNED_CACHE[k] = names
    return name in _ASSIGNED_CACHE[k]
