"""tpv absdom: abstract operands under their base-class CONTRACT (modularity).

An abstract Domain denotes an arbitrary set  { x | In(x, p) }  given by an uninterpreted predicate;
its methods are contract summaries (assume `ensures`, check `requires`):
  sample_random_uniform / sample_grid(n, params):  rows [K', n], row (k, j) satisfies In(row, params[k])
  _contains(points, params):  result[r] <=> In(points[r] (by name), params[r] (by name))
  volume(params): positive, a function of the parameter row
  bounding_box(params): encloses every point of the domain for every supplied parameter row
Every concrete Domain subclass is separately proved to refine this contract (C01, C02, C05, C10, C18).
"""
import z3

from . import core
from .core import Sym, STensor, Dim, Unsupported, zint, zreal, zbool, dim_of
from .tlib import Tensor, lift
from . import tlib

DOMAIN = "torchphysics.problem.domains.domain.Domain"
BDOMAIN = "torchphysics.problem.domains.domain.BoundaryDomain"
POINTS = "torchphysics.problem.spaces.points.Points"
PSAMPLER = "torchphysics.problem.samplers.sampler_base.PointSampler"


def _IN():
    from . import interp

    return interp


def space_items(I, space):
    return list(space.native.items())


def coords_of(I, points):
    """name -> STensor of the columns of that variable (via the real Points.coordinates)"""
    c = I.getattr(points, "coordinates")
    return {k: lift(v) for k, v in c.items()}


def is_empty_points(I, p):
    return I.truth(I.getattr(p, "isempty"))


class AbstractDomain:
    def __init__(self, S, name, space, param_dims=None, is_boundary=False, inner=None):
        I = S.I
        self.S, self.I, self.name = S, I, name
        self.space = space
        self.vars = space_items(I, space)  # [(name, dim)]
        self.dim = sum(d for _, d in self.vars)
        self.param_dims = dict(param_dims or {})
        n_in = self.dim + sum(self.param_dims.values())
        R = z3.RealSort()
        self.In = z3.Function(f"{name}_in", *([R] * n_in + [z3.BoolSort()]))
        self.Vol = z3.Function(f"{name}_vol", *([R] * sum(self.param_dims.values()) + [R])) if self.param_dims else z3.Real(f"{name}_vol")
        self.calls = []
        cls = S.find(BDOMAIN if is_boundary else DOMAIN)
        obj = I.new_without_init(cls)
        obj.f["space"] = space
        obj.f["dim"] = self.dim - (1 if is_boundary else 0)
        obj.f["necessary_variables"] = set(self.param_dims)
        obj.f["_user_volume"] = None
        obj.f["__overrides__"] = {
            "sample_random_uniform": self._sample("random"),
            "sample_grid": self._sample("grid"),
            "_contains": self._contains,
            "volume": self._volume,
            "_get_volume": self._volume,
            "bounding_box": self._bounding_box,
        }
        obj.f["__abstract__"] = self
        obj.f["__overrides__"]["__call__"] = self._partial
        self.parent, self.fixed = None, {}
        self.obj = obj
        self.is_boundary = is_boundary
        if is_boundary:
            obj.f["domain"] = inner.obj
            obj.f["__overrides__"]["normal"] = self._normal
            self.Nrm = [z3.Function(f"{name}_n{c}", *([R] * n_in + [R])) for c in range(self.dim)]
        self._boundary = None
        self.box = None

    # ---- helpers
    def in_pred(self, xs, ps):
        if self.parent is not None:
            # a partially evaluated domain denotes the parent at the fixed values (contract of Domain.__call__)
            ps = list(ps)
            full, p = [], 0
            for nm, dm in self.parent.param_dims.items():
                if nm in self.fixed:
                    full += self.fixed[nm]
                else:
                    full += ps[p : p + dm]
                    p += dm
            return self.parent.in_pred(xs, full)
        return self.In(*(list(xs) + list(ps)))

    def _partial(self, I, selfobj, **data):
        """contract of Domain.__call__(**data): a NEW domain that denotes this one at the given values,
        still depending on the remaining variables; this domain is unchanged"""
        rest = {nm: dm for nm, dm in self.param_dims.items() if nm not in data}
        new = AbstractDomain(self.S, self.name + "_at", self.space, rest, is_boundary=False)
        new.parent = self
        new.fixed = {}
        for nm, dm in self.param_dims.items():
            if nm in data:
                v = lift(data[nm])
                z = [tuple(0 for _ in d.factors) for d in v.shape[:-1]]
                new.fixed[nm] = [zreal(v.at(z + [(k,) if dm != 1 else ()])) for k in range(dm)]
        new.Vol = (lambda *ps, _s=self, _n=new: _s.vol_term(_n._full(list(ps))))
        new.boundary
        self.partial_calls = getattr(self, "partial_calls", []) + [(data, new)]
        return new.obj

    def _full(self, ps):
        full, p = [], 0
        for nm, dm in self.parent.param_dims.items():
            if nm in self.fixed:
                full += self.fixed[nm]
            else:
                full += ps[p : p + dm]
                p += dm
        return full

    def vol_term(self, ps):
        if self.parent is not None:
            return self.parent.vol_term(self._full(list(ps)))
        return self.Vol(*ps) if self.param_dims else self.Vol

    def param_terms(self, I, sources, row_of):
        """list of real terms for the declared parameter variables, by NAME, at the given row"""
        IN = _IN()
        out = []
        for nm, dm in self.param_dims.items():
            t = None
            for src, ridx in zip(sources, row_of):
                if src is not None and nm in src:
                    t = (src[nm], ridx)
                    break
            if t is None:
                raise IN.RaisedEx("AssertionError", f"The argument '{nm}' is necessary in {self.name} but not given.", I.ctx.loc)
            tt, ridx = t
            for k in range(dm):
                out.append(zreal(tt.at(list(ridx) + [(k,) if dm != 1 else ()])))
        return out

    @property
    def boundary(self):
        if self._boundary is None:
            self._boundary = AbstractDomain(self.S, self.name + "_bd", self.space, self.param_dims, is_boundary=True, inner=self)
            self.obj.f["boundary"] = self._boundary.obj
        return self._boundary

    # ---- contract summaries
    def _sample(self, kind):
        def summary(I, selfobj, n=None, d=None, params=None, device="cpu"):
            IN = _IN()
            if params is None:
                params = I.call(I.getattr(I.repo.find(POINTS), "empty"), [])
            pc = coords_of(I, params)
            K = I.pylib.b_len(I, params)
            if I.truth(d):
                if I.truth(I.compare(__import__("ast").Gt(), K, 1)):
                    raise IN.RaisedEx("ValueError", "Sampling with a density is only possible for one given pair of parameters", I.ctx.loc)
                m = z3.Int(core.fresh_name(f"{self.name}_nd"))
                I.ctx.assume(m >= 0)
                rows = Dim([m])
                prow = lambda comps: [tuple(0 for _ in params.f["_t"].val.shape[0].factors)] if pc else []
            else:
                if n is None:
                    raise IN.RaisedEx("TypeError", "sampling needs n or d", I.ctx.loc)
                if not isinstance(n, (int, Sym)) or (isinstance(n, Sym) and n.ty != "int"):
                    raise IN.RaisedEx("TypeError", "n must be an integer", I.ctx.loc)
                if isinstance(n, int) and n < 0 or (isinstance(n, Sym) and not I.ctx.entails(zint(n) >= 0) and not I.decide(zint(n) >= 0)):
                    raise IN.RaisedEx("RuntimeError", "negative number of points", I.ctx.loc)
                has_params = I.truth(I.compare(__import__("ast").Gt(), K, 0))
                pd = params.f["_t"].val.shape[0] if has_params else Dim([])
                nfp = len(pd.factors)
                unmerged = list(pd.factors) + list(dim_of(n).factors)
                rows = Dim(unmerged)
                from .tshape import split_digits

                prow = lambda comps: [tuple(split_digits(unmerged, comps)[:nfp])]
            f = z3.Function(core.random_name(f"{self.name}_{kind}"), *([z3.IntSort()] * len(rows.factors) + [z3.IntSort(), z3.RealSort()]))
            rec = {"kind": kind, "n": n, "d": d, "params": params, "rows": rows}
            self.calls.append(rec)

            def fn(idx):
                comps = idx[0]
                xs = [f(*([zint(c) for c in comps] + [z3.IntVal(k)])) for k in range(self.dim)]
                ps = self.param_terms(I, [pc], [prow(comps)]) if self.param_dims else []
                I.ctx.axiom(z3.Implies(z3.And(core.index_hyps(rows, comps)) if core.index_hyps(rows, comps) else z3.BoolVal(True), self.in_pred(xs, ps)))
                c = idx[1][0] if self.dim != 1 else 0
                return core.select_comp(c, self.dim, [(lambda x=x: x) for x in xs])

            t = Tensor(STensor([rows, Dim([self.dim])], fn, "real", f"{self.name}.{kind}"))
            rec["tensor"] = t
            return I.instantiate(I.repo.find(POINTS), [t, self.space], {})

        return summary

    def _contains(self, I, selfobj, points, params=None):
        if params is None:
            params = I.call(I.getattr(I.repo.find(POINTS), "empty"), [])
        xc = coords_of(I, points)
        pc = coords_of(I, params)
        pt = points.f["_t"].val
        if pt.rank != 2:
            raise Unsupported("abstract _contains on points with several batch axes")
        rows = pt.shape[0]
        if pc:
            prow_dim = params.f["_t"].val.shape[0]
            if not prow_dim.same(rows):
                eq = prow_dim.size_term() == rows.size_term()
                if not I.ctx.entails(eq):
                    # requires of the operand contract: one parameter row per point
                    I.ctx.oblige(f"pre@{I.ctx.loc}:{self.name}._contains-one-parameter-row-per-point", eq, (), "pre")
                    I.ctx.assume(eq)
        self.calls.append({"kind": "contains", "points": points, "params": params})

        def fn(idx):
            r = idx[0]
            xs = []
            for nm, dm in self.vars:
                if nm not in xc:
                    raise _IN().RaisedEx("KeyError", nm, I.ctx.loc)
                for k in range(dm):
                    xs.append(zreal(xc[nm].at([r, (k,) if dm != 1 else ()])))
            if pc and not params.f["_t"].val.shape[0].same(rows):
                from .tshape import convert_comps

                pr = convert_comps(rows, params.f["_t"].val.shape[0], r)
            else:
                pr = r
            ps = self.param_terms(I, [pc, xc], [[pr], [r]]) if self.param_dims else []
            return self.in_pred(xs, ps)

        return Tensor(STensor([rows, Dim([])], fn, "bool", f"{self.name}.contains"))

    def _volume(self, I, selfobj, params=None, device="cpu", **kw):
        if params is None:
            params = I.call(I.getattr(I.repo.find(POINTS), "empty"), [])
        pc = coords_of(I, params)
        if not self.param_dims:
            v = self.vol_term([])
            I.ctx.axiom(v > 0)
            return Tensor(STensor([Dim([]), Dim([])], lambda idx: v, "real"))
        rows = params.f["_t"].val.shape[0]

        def fn(idx):
            ps = self.param_terms(I, [pc], [[idx[0]]])
            v = self.vol_term(ps)
            I.ctx.axiom(v > 0)
            return v

        return Tensor(STensor([rows, Dim([])], fn, "real", f"{self.name}.volume"))

    def _bounding_box(self, I, selfobj, params=None, device="cpu"):
        """box[2i] <= x_i <= box[2i+1] for every x with In(x, p_k), every supplied row k (schema)"""
        if params is None:
            params = I.call(I.getattr(I.repo.find(POINTS), "empty"), [])
        bx = [z3.Real(core.fresh_name(f"{self.name}_box{j}")) for j in range(2 * self.dim)]
        self.box = (bx, params)
        for i in range(self.dim):
            I.ctx.axiom(bx[2 * i] < bx[2 * i + 1] if getattr(self, "strict_box", False) else bx[2 * i] <= bx[2 * i + 1])
        return Tensor(STensor([Dim([2 * self.dim])], lambda idx: core.select_comp(idx[0][0], 2 * self.dim, [(lambda b=b: b) for b in bx]), "real"))

    def box_fact(self, xs, ps_row_terms):
        """instance of the enclosure contract of the last bounding_box call"""
        bx, params = self.box
        return z3.Implies(self.in_pred(xs, ps_row_terms), z3.And([z3.And(bx[2 * i] <= xs[i], xs[i] <= bx[2 * i + 1]) for i in range(self.dim)]))

    def _normal(self, I, selfobj, points, params=None, device="cpu"):
        if params is None:
            params = I.call(I.getattr(I.repo.find(POINTS), "empty"), [])
        IN = _IN()
        if not isinstance(points, IN.SObj):
            points = I.instantiate(I.repo.find(POINTS), [points, self.space], {})
        xc = coords_of(I, points)
        pc = coords_of(I, params)
        rows = points.f["_t"].val.shape[0]

        def fn(idx):
            r = idx[0]
            xs = []
            for nm, dm in self.vars:
                for k in range(dm):
                    xs.append(zreal(xc[nm].at([r, (k,) if dm != 1 else ()])))
            ps = self.param_terms(I, [pc, xc], [[r], [r]]) if self.param_dims else []
            ns = [f(*(xs + ps)) for f in self.Nrm]
            I.ctx.axiom(sum((v * v for v in ns), z3.RealVal(0)) == 1)
            c = idx[1][0] if self.dim != 1 else 0
            return core.select_comp(c, self.dim, [(lambda v=v: v) for v in ns])

        return Tensor(STensor([rows, Dim([self.dim])], fn, "real", f"{self.name}.normal"))


def abstract_domain(S, name, space, param_dims=None):
    d = AbstractDomain(S, name, space, param_dims)
    d.boundary  # create the abstract boundary eagerly (property access in repo code is a field read)
    return d


class AbstractSampler:
    """PointSampler operand under its contract (C02 at sampler level): every call returns a FRESH Points object
    in space `space` * params.space with rows [K', n]; row (k, j) carries parameter row k unchanged in the
    parameter columns and its own columns satisfy the sampler's (uninterpreted) predicate Smp(x, params[k])."""

    def __init__(self, S, name, space, n_points, param_vars=None):
        I = S.I
        self.S, self.I, self.name, self.space, self.n = S, I, name, space, n_points
        self.vars = space_items(I, space)
        self.dim = sum(d for _, d in self.vars)
        self.calls = []
        self.Smp = {}
        obj = I.new_without_init(S.find(PSAMPLER))
        obj.f.update({"n_points": n_points, "density": None, "length": None, "filter_fn": None})
        obj.f["__overrides__"] = {"sample_points": self._sample_points}
        obj.f["__abstract__"] = self
        self.obj = obj

    def pred(self, xs, ps):
        key = len(ps)
        if key not in self.Smp:
            self.Smp[key] = z3.Function(f"{self.name}_smp{key}", *([z3.RealSort()] * (len(xs) + len(ps)) + [z3.BoolSort()]))
        return self.Smp[key](*(list(xs) + list(ps)))

    def _sample_points(self, I, selfobj, params=None, device="cpu", **kw):
        if params is None:
            params = I.call(I.getattr(I.repo.find(POINTS), "empty"), [])
        has = I.truth(I.compare(__import__("ast").Gt(), I.pylib.b_len(I, params), 0))
        pt = params.f["_t"].val if has else None
        if pt is not None and pt.rank != 2:
            raise Unsupported("abstract sampler: parameter points with several batch axes")
        pd = pt.shape[0] if has else Dim([])
        pcols = pt.shape[1].concrete() if has else 0
        unmerged = list(pd.factors) + list(dim_of(self.n).factors)
        rows = Dim(unmerged)
        nfp = len(pd.factors)
        from .tshape import split_digits

        f = z3.Function(core.random_name(f"{self.name}_pts"), *([z3.IntSort()] * len(rows.factors) + [z3.IntSort(), z3.RealSort()]))
        dim = self.dim
        me = self

        def fn(idx):
            comps = idx[0]
            xs = [f(*([zint(c) for c in comps] + [z3.IntVal(k)])) for k in range(dim)]
            kd = tuple(split_digits(unmerged, comps)[:nfp])
            ps = [zreal(pt.at([kd, (c,) if pcols != 1 else ()])) for c in range(pcols)] if has else []
            hy = core.index_hyps(rows, comps)
            I.ctx.axiom(z3.Implies(z3.And(hy) if hy else z3.BoolVal(True), me.pred(xs, ps)))
            c = idx[1][0] if (dim + pcols) != 1 else 0
            return core.select_comp(c, dim + pcols, [(lambda x=x: x) for x in xs + ps])

        t = Tensor(STensor([rows, Dim([dim + pcols])], fn, "real", f"{self.name}.sample"))
        space = self.space if not has else I.binop(__import__("ast").Mult(), self.space, params.f["space"])
        p = I.instantiate(I.repo.find(POINTS), [t, space], {})
        self.calls.append({"params": params, "device": device, "result": p, "rows": rows, "tensor": t})
        return p


MODEL = "torchphysics.models.model.Model"


class AbstractModel:
    """Model operand under its contract (C08): output row = M(input row bound BY NAME), rejects inputs whose
    variable set differs from the declared input space; owns one learnable parameter tensor `theta`."""

    def __init__(self, S, name, input_space, output_space):
        I = S.I
        self.S, self.I, self.name = S, I, name
        self.input_space, self.output_space = input_space, output_space
        self.ivars, self.ovars = space_items(I, input_space), space_items(I, output_space)
        self.nin = sum(d for _, d in self.ivars)
        self.nout = sum(d for _, d in self.ovars)
        self.M = [z3.Function(f"{name}_out{c}", *([z3.RealSort()] * self.nin + [z3.RealSort()])) for c in range(self.nout)]
        obj = I.new_without_init(S.find(MODEL))
        for c in obj.cls.mro():
            if "__init__" in getattr(c, "native_methods", {}) and c.name == "nn.Module":
                c.native_methods["__init__"](I, obj)
        obj.f["input_space"], obj.f["output_space"] = input_space, output_space
        theta = I.call(I.repo.externals["torch"].get("nn").get("Parameter"), [Tensor(core.uninterp_tensor(f"{name}_theta", [Dim([3])], "real"))])
        I.setattr(obj, "theta", theta)
        self.theta = theta
        obj.f["__overrides__"] = {"forward": self._forward, "__call__": self._forward}
        obj.f["__abstract__"] = self
        self.obj = obj
        self.calls = []

    def out_terms(self, ins):
        return [m(*ins) for m in self.M]

    def _forward(self, I, selfobj, points):
        IN = _IN()
        keys = list(points.f["space"].native.keys())
        if set(keys) != {n for n, _ in self.ivars}:
            raise IN.RaisedEx("ValueError", "Points are in another space than the model's input space", I.ctx.loc)
        xc = coords_of(I, points)
        pt = points.f["_t"].val
        batch = pt.shape[:-1]
        nb = len(batch)
        self.calls.append({"points": points})
        me = self

        def fn(idx):
            bi = list(idx[:nb])
            ins = []
            for nm, dm in me.ivars:
                for k in range(dm):
                    ins.append(zreal(xc[nm].at(bi + [(k,) if dm != 1 else ()])))
            outs = me.out_terms(ins)
            c = idx[nb][0] if me.nout != 1 else 0
            return core.select_comp(c, me.nout, [(lambda o=o: o) for o in outs])

        t = Tensor(STensor(list(batch) + [Dim([self.nout])], fn, "real", f"{self.name}.out"))
        t.meta["model_input"] = points
        return I.instantiate(I.repo.find(POINTS), [t, self.output_space], {})
