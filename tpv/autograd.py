"""tpv autograd: the assumed contract of torch.autograd.grad on lazy tensors (A4), built on tpv.jets"""
import z3

from . import core, jets
from .core import STensor, Dim, Unsupported
from .tlib import Tensor, lift


def _IN():
    from . import interp

    return interp


def leaves_of(I):
    return I.ctx.ghost.setdefault("leaves", {})


def register_leaf(I, t):
    """called when requires_grad is switched on: elements must be atoms X(index...)"""
    v = t.val
    if any(d.concrete() == 0 for d in v.shape):
        return  # an empty tensor has no elements to differentiate with respect to
    try:
        idx, _ = v.generic_index("lf")
        e = v.at(idx)
    except core.Unsupported:
        return
    if z3.is_app(e) and e.decl().kind() == z3.Z3_OP_UNINTERPRETED and e.num_args() > 0:
        leaves_of(I)[e.decl().name()] = t
        t.meta["leaf_decl"] = e.decl().name()
    elif z3.is_app(e) and e.decl().kind() == z3.Z3_OP_UNINTERPRETED and e.num_args() == 0 and v.numel_concrete() == 1:
        leaves_of(I)[e.decl().name()] = t
        t.meta["leaf_decl"] = e.decl().name()


def deps_of(I, t):
    v = lift(t)
    idx, _ = v.generic_index("dp")
    return jets.occurs(v.at(idx), set(leaves_of(I)))


def grad_fn_of(I, t):
    if t.meta.get("leaf_decl"):
        return None
    return object() if deps_of(I, t) else None


def grad(I, outputs, inputs, grad_outputs=None, retain_graph=None, create_graph=False, allow_unused=False, **kw):
    IN = _IN()
    if grad_outputs is not None or kw.get("is_grads_batched"):
        raise Unsupported("autograd.grad with grad_outputs / batched gradients")
    outs = outputs if isinstance(outputs, (list, tuple)) else [outputs]
    if len(outs) != 1:
        raise Unsupported("autograd.grad with several outputs")
    y = lift(outs[0])
    if y.numel_concrete() != 1:
        raise IN.RaisedEx("RuntimeError", "grad can be implicitly created only for scalar outputs", I.ctx.loc)
    yt = core.zreal(y.at([tuple(0 for _ in d.factors) for d in y.shape]))
    ins = inputs if isinstance(inputs, (list, tuple)) else [inputs]
    leaves = set(leaves_of(I))
    occ = jets.occurs(yt, leaves)
    res = []
    for x in ins:
        if not isinstance(x, Tensor) or not x.requires_grad or not x.meta.get("leaf_decl"):
            raise IN.RaisedEx("RuntimeError", "One of the differentiated Tensors does not require grad", I.ctx.loc)
        name = x.meta["leaf_decl"]
        if not occ:
            raise IN.RaisedEx("RuntimeError", "element 0 of tensors does not require grad and does not have a grad_fn", I.ctx.loc)
        if name not in occ:
            if allow_unused:
                res.append(None)
                continue
            raise IN.RaisedEx("RuntimeError", "One of the differentiated Tensors appears to not have been used in the graph. Set allow_unused=True if this is the desired behavior.", I.ctx.loc)
        xv = x.val

        def fn(idx, xv=xv):
            atom = xv.at(idx)
            return jets.diff(yt, atom, leaves)

        res.append(Tensor(STensor(list(xv.shape), fn, "real", f"grad_{name}")))
    return tuple(res)
