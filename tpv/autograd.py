"""tpv autograd (placeholder, extended for C03/C09): ghost dependency tracking"""
from .core import Unsupported


def grad_fn_of(I, t):
    if "deps" in t.meta and t.meta["deps"]:
        return object()
    return None
