"""tpv loader: reads the repository source on every run, indexes modules/classes/functions,
records the sha256 of every function span that gets executed."""
import ast
import hashlib
import os

from .core import Unsupported

SRC_ROOT = os.environ.get("TP_SRC", "/repo/src")
PKG = "torchphysics"


class SFunc:
    """A repo function (or lambda / nested def) + its defining context."""

    def __init__(self, node, module, cls=None, closure=None, name=None):
        self.node, self.module, self.cls, self.closure = node, module, cls, closure
        self.name = name or getattr(node, "name", "<lambda>")
        self.is_generator = False
        if not isinstance(node, ast.Lambda):
            for n in ast.walk(node):
                if isinstance(n, (ast.Yield, ast.YieldFrom)):
                    self.is_generator = True
                    break

    @property
    def qualname(self):
        base = self.module.name
        if self.cls is not None:
            return f"{base}.{self.cls.name}.{self.name}"
        return f"{base}.{self.name}"

    def __repr__(self):
        return f"<SFunc {self.qualname}>"


KNOWN_DECORATORS = {"property", "classmethod", "staticmethod", "abc.abstractmethod", "abstractmethod"}


class SClass:
    def __init__(self, name, node, module):
        self.name, self.node, self.module = name, node, module
        self.methods, self.props, self.setters = {}, {}, {}
        self.classmethods, self.staticmethods = set(), set()
        self.cached_props, self.decorated = set(), {}
        self.class_attrs = {}  # name -> ast expr (evaluated lazily by interp)
        self._bases = None
        self._mro = None
        self.nested = {}
        for it in node.body:
            if isinstance(it, ast.ClassDef):
                self.nested[it.name] = SClass(it.name, it, module)
                continue
            if isinstance(it, ast.FunctionDef):
                decs = [ast.unparse(d) for d in it.decorator_list]
                if any(d.split(".")[-1] == "cached_property" for d in decs):
                    # functools.cached_property: computed on first access, then an ordinary instance attribute
                    self.props[it.name] = it
                    self.cached_props.add(it.name)
                elif "property" in decs:
                    self.props[it.name] = it
                elif any(d.endswith(".setter") for d in decs):
                    self.setters[it.name] = it
                else:
                    self.methods[it.name] = it
                    if "classmethod" in decs:
                        self.classmethods.add(it.name)
                    if "staticmethod" in decs:
                        self.staticmethods.add(it.name)
                    other = [d for d in it.decorator_list if ast.unparse(d) not in KNOWN_DECORATORS]
                    if other:
                        # applied by the interpreter the first time the method is looked up
                        self.decorated[it.name] = other
            elif isinstance(it, ast.Assign) and len(it.targets) == 1 and isinstance(it.targets[0], ast.Name):
                self.class_attrs[it.targets[0].id] = it.value

    @property
    def qualname(self):
        return f"{self.module.name}.{self.name}"

    @property
    def bases(self):
        if self._bases is None:
            out = []
            for b in self.node.bases:
                out.append(self.module.repo.resolve_expr(self.module, b))
            self._bases = out
        return self._bases

    def mro(self):
        if self._mro is None:
            # C3 linearisation
            seqs = [list(b.mro()) for b in self.bases if isinstance(b, (SClass, NativeClass))]
            seqs.append([b for b in self.bases if isinstance(b, (SClass, NativeClass))])
            res = [self]
            seqs = [s for s in seqs if s]
            while seqs:
                for s in seqs:
                    cand = s[0]
                    if not any(cand in t[1:] for t in seqs):
                        break
                else:
                    raise Unsupported(f"inconsistent MRO for {self.name}")
                res.append(cand)
                for s in seqs:
                    if s[0] is cand:
                        del s[0]
                seqs = [s for s in seqs if s]
            self._mro = res
        return self._mro

    def issubclass(self, other):
        return other in self.mro()

    def __repr__(self):
        return f"<SClass {self.qualname}>"


class NativeClass:
    """A class of an external library modelled natively (nn.Module, Counter, ...)."""

    def __init__(self, name, bases=()):
        self.name = name
        self._bases = list(bases)
        self.methods = {}
        self.props = {}
        self.setters = {}
        self.classmethods = set()
        self.staticmethods = set()
        self.class_attrs = {}
        self.native_methods = {}  # name -> callable(interp, self, *args, **kwargs)

    @property
    def qualname(self):
        return self.name

    @property
    def bases(self):
        return self._bases

    def mro(self):
        res = [self]
        for b in self._bases:
            for c in b.mro():
                if c not in res:
                    res.append(c)
        return res

    def issubclass(self, other):
        return other in self.mro()

    def __repr__(self):
        return f"<NativeClass {self.name}>"


class Module:
    def __init__(self, repo, name, path, is_pkg):
        self.repo, self.name, self.path, self.is_pkg = repo, name, path, is_pkg
        self.src = open(path).read()
        self.tree = ast.parse(self.src)
        self.lines = self.src.splitlines()
        self.defs = {}  # name -> ('class'|'func'|'assign'|'import'|'from', payload)
        self.cache = {}
        self._index()

    @property
    def package(self):
        return self.name if self.is_pkg else self.name.rsplit(".", 1)[0]

    def _index(self):
        for it in self.tree.body:
            self._index_stmt(it)

    def _index_stmt(self, it):
        if isinstance(it, ast.ClassDef):
            self.defs[it.name] = ("class", it)
        elif isinstance(it, ast.FunctionDef):
            self.defs[it.name] = ("func", it)
        elif isinstance(it, ast.Assign):
            for t in it.targets:
                if isinstance(t, ast.Name):
                    self.defs[t.id] = ("assign", it.value)
        elif isinstance(it, ast.Import):
            for a in it.names:
                nm = a.asname or a.name.split(".")[0]
                self.defs[nm] = ("import", a.name if a.asname else a.name.split(".")[0])
        elif isinstance(it, ast.ImportFrom):
            for a in it.names:
                self.defs[a.asname or a.name] = ("from", (it.level, it.module, a.name))
        elif isinstance(it, (ast.If, ast.Try)):
            for sub in it.body:
                self._index_stmt(sub)

    def rel(self):
        return os.path.relpath(self.path, os.path.dirname(SRC_ROOT.rstrip("/")) if False else SRC_ROOT)


class Repo:
    def __init__(self, src_root=None):
        self.root = src_root or SRC_ROOT
        self.modules = {}
        self.externals = {}  # top-level external module name -> stub object (set by interp)
        self.used_hashes = {}  # qualname -> sha256 of source span
        self._load()

    def _load(self):
        base = os.path.join(self.root, PKG)
        if not os.path.isdir(base):
            raise RuntimeError(f"repo source not found at {base}")
        for root, dirs, files in os.walk(base):
            dirs.sort()
            for fn in sorted(files):
                if not fn.endswith(".py"):
                    continue
                p = os.path.join(root, fn)
                rel = os.path.relpath(p, self.root)[:-3].replace(os.sep, ".")
                is_pkg = rel.endswith(".__init__")
                if is_pkg:
                    rel = rel[: -len(".__init__")]
                try:
                    self.modules[rel] = Module(self, rel, p, is_pkg)
                except SyntaxError as e:
                    self.modules[rel] = None
                    self.syntax_errors = getattr(self, "syntax_errors", []) + [(p, str(e))]

    # -------------------------------------------------------------- name resolution
    def module(self, name):
        m = self.modules.get(name)
        if m is None:
            raise Unsupported(f"module {name} not in repo (or unparsable)")
        return m

    def abs_module_name(self, module, level, modname):
        if level == 0:
            return modname
        pkg = module.package.split(".")
        if level > 1:
            pkg = pkg[: len(pkg) - (level - 1)]
        return ".".join(pkg + ([modname] if modname else []))

    def lookup(self, module, name):
        """resolve a module-level name of a repo module; returns None if not defined"""
        if name in module.cache:
            return module.cache[name]
        d = module.defs.get(name)
        if d is None:
            return None
        kind, payload = d
        if kind == "class":
            v = SClass(name, payload, module)
        elif kind == "func":
            # a decorated function is what its decorators return: evaluated (once) by the interpreter
            v = ("lazy-assign", payload, module) if payload.decorator_list else SFunc(payload, module)
        elif kind == "assign":
            v = ("lazy-assign", payload, module)
        elif kind == "import":
            v = self.import_module(payload)
        else:
            level, modname, item = payload
            full = self.abs_module_name(module, level, modname)
            v = self.import_from(full, item)
        module.cache[name] = v
        return v

    def import_module(self, dotted):
        if dotted.split(".")[0] == PKG:
            if dotted in self.modules:
                return ModuleRef(self, self.module(dotted))
            raise Unsupported(f"import {dotted}")
        top = dotted.split(".")[0]
        if top not in self.externals:
            raise Unsupported(f"external module {top} has no model")
        v = self.externals[top]
        for part in dotted.split(".")[1:]:
            v = v.get(part)
        return v

    def import_from(self, full, item):
        if full.split(".")[0] == PKG:
            if full + "." + item in self.modules:
                return ModuleRef(self, self.module(full + "." + item))
            m = self.module(full)
            v = self.lookup(m, item)
            if v is None:
                raise Unsupported(f"cannot import {item} from {full}")
            return v
        top = full.split(".")[0]
        if top not in self.externals:
            raise Unsupported(f"external module {top} has no model")
        v = self.externals[top]
        for part in full.split(".")[1:]:
            v = v.get(part)
        return v.get(item)

    def resolve_expr(self, module, e):
        """resolve a base-class expression (Name or dotted Attribute)"""
        if isinstance(e, ast.Name):
            v = self.lookup(module, e.id)
            if v is None:
                b = self.externals.get("builtins")
                if b is not None and b.has(e.id):
                    return b.get(e.id)
                raise Unsupported(f"base class {e.id} unresolved in {module.name}")
            return v
        if isinstance(e, ast.Attribute):
            o = self.resolve_expr(module, e.value)
            if isinstance(o, ModuleRef):
                return o.get(e.attr)
            return o.get(e.attr)
        raise Unsupported(f"base class expr {ast.unparse(e)}")

    def find(self, qualname):
        """'torchphysics.a.b.Class.method' | '...Class' | '...function' -> SFunc / SClass"""
        parts = qualname.split(".")
        for cut in range(len(parts), 0, -1):
            mn = ".".join(parts[:cut])
            if mn in self.modules and self.modules[mn] is not None:
                m = self.modules[mn]
                rest = parts[cut:]
                if not rest:
                    return ModuleRef(self, m)
                v = self.lookup(m, rest[0])
                if v is None:
                    break
                if len(rest) == 1:
                    return v
                while isinstance(v, SClass) and len(rest) > 2 and rest[1] in v.nested:
                    v = v.nested[rest[1]]
                    rest = rest[1:]
                if isinstance(v, SClass) and len(rest) == 2:
                    if rest[1] in v.nested:
                        return v.nested[rest[1]]
                    for c in v.mro():
                        for table in (c.methods, c.props, c.setters):
                            if rest[1] in table and isinstance(c, SClass):
                                return SFunc(table[rest[1]], c.module, c)
                break
        raise KeyError(qualname)

    def note_used(self, fn):
        q = fn.qualname
        if q in self.used_hashes:
            return
        node = fn.node
        seg = ast.get_source_segment(fn.module.src, node) or ast.unparse(node)
        self.used_hashes[q] = hashlib.sha256(seg.encode()).hexdigest()[:16]


class ModuleRef:
    def __init__(self, repo, module):
        self.repo, self.module = repo, module

    def get(self, name):
        v = self.repo.lookup(self.module, name)
        if v is None:
            sub = self.module.name + "." + name
            if sub in self.repo.modules:
                return ModuleRef(self.repo, self.repo.module(sub))
            raise Unsupported(f"{self.module.name}.{name} unresolved")
        return v

    def __repr__(self):
        return f"<ModuleRef {self.module.name}>"
