"""tpv jets: symbolic differentiation of element terms -- the ASSUMED contract of torch.autograd.grad (A4).

grad(y, x)[r, k] = d y / d x[r, k]   computed structurally on the z3 term of y:
  * leaf atoms        X(r, k)  (elements of tensors with requires_grad=True)
  * arithmetic, If, known functions (tp_sqrt, tp_cos, tp_sin, tp_tanh, tp_exp)
  * uninterpreted smooth functions U(args): chain rule with derivative symbols D{i}_U (second derivatives symmetric)
  * sums over symbolic axes: row-wise collapse  d/dX(r,k) sum_{r'} f(X(r',:)) = df/dX(r,k) at r' = r
Graph reachability (RuntimeError when the variable is not used; grad_fn is None when nothing is reachable) is read off
the syntactic occurrences of leaf atoms in the term, which mirrors torch's graph for the operators under contract.
"""
import z3

from . import core, tsum, tlib
from .core import Unsupported

_DERIV = {}


def deriv_symbol(f, i):
    """D_i f for an uninterpreted function f; mixed second derivatives are canonicalised (Schwarz)"""
    name = f.name()
    idx = [i]
    base = name
    while base.startswith("D") and "_" in base and base[1 : base.index("_")].isdigit():
        idx.append(int(base[1 : base.index("_")]))
        base = base[base.index("_") + 1 :]
    idx.sort()
    nm = "".join(f"D{j}_" for j in idx) + base
    key = (nm, f.arity())
    if key not in _DERIV:
        _DERIV[key] = z3.Function(nm, *([f.domain(k) for k in range(f.arity())] + [z3.RealSort()]))
    return _DERIV[key]


core.RESET_HOOKS.append(_DERIV.clear)

KNOWN = {"tp_sqrt", "tp_cos", "tp_sin", "tp_tanh", "tp_exp", "tp_arccos", "tp_cbrt"}


def is_leaf_app(t, leaves):
    return z3.is_app(t) and t.decl().kind() == z3.Z3_OP_UNINTERPRETED and t.decl().name() in leaves


def occurs(t, leaves, cache=None):
    """set of leaf names occurring in term t"""
    cache = {} if cache is None else cache
    k = t.get_id()
    if k in cache:
        return cache[k]
    out = set()
    if z3.is_app(t):
        if t.decl().kind() == z3.Z3_OP_UNINTERPRETED and t.decl().name() in leaves:
            out.add(t.decl().name())
        info = tsum.SUM_INFO.get(k)
        if info is not None:
            out |= occurs(info[2], leaves, cache)
        for i in range(t.num_args()):
            out |= occurs(t.arg(i), leaves, cache)
    cache[k] = out
    return out


def diff(t, atom, leaves, cache=None):
    """d t / d atom  (atom = application of a leaf function at some index terms)"""
    cache = {} if cache is None else cache
    k = t.get_id()
    if k in cache:
        return cache[k]
    r = _diff(t, atom, leaves, cache)
    cache[k] = r
    return r


ZERO, ONE = z3.RealVal(0), z3.RealVal(1)


def _is_zero(e):
    return z3.is_rational_value(e) and e.numerator_as_long() == 0


def _mul(a, b):
    if _is_zero(a) or _is_zero(b):
        return ZERO
    if z3.is_rational_value(a) and a.numerator_as_long() == a.denominator_as_long():
        return b
    if z3.is_rational_value(b) and b.numerator_as_long() == b.denominator_as_long():
        return a
    return a * b


def _add(a, b):
    if _is_zero(a):
        return b
    if _is_zero(b):
        return a
    return a + b


def _diff(t, atom, leaves, cache):
    if z3.is_rational_value(t) or z3.is_int_value(t) or z3.is_algebraic_value(t):
        return ZERO
    if not z3.is_app(t):
        raise Unsupported("differentiation of a non-application term")
    d = t.decl()
    kind = d.kind()
    n = t.num_args()
    if kind == z3.Z3_OP_UNINTERPRETED:
        name = d.name()
        if name in leaves:
            if name != atom.decl().name():
                return ZERO
            conds = []
            for i in range(n):
                a, b = t.arg(i), atom.arg(i)
                if z3.eq(a, b):
                    continue
                sa, sb = z3.simplify(a), z3.simplify(b)
                if z3.is_int_value(sa) and z3.is_int_value(sb):
                    if sa.as_long() != sb.as_long():
                        return ZERO
                    continue
                conds.append(a == b)
            if not conds:
                return ONE
            return z3.If(z3.And(conds), ONE, ZERO)
        if n == 0:
            info = tsum.SUM_INFO.get(t.get_id())
            if info is not None:
                return _diff_sum(t, info, atom, leaves, cache)
            return ZERO  # a constant symbol (parameter, weight, pi ...)
        if t.sort() != z3.RealSort():
            return ZERO
        if name in KNOWN:
            x = t.arg(0)
            dx = diff(x, atom, leaves, cache)
            if _is_zero(dx):
                return ZERO
            if name == "tp_sqrt":
                return _mul(1 / (2 * t), dx)
            if name == "tp_cos":
                return _mul(-tlib.cos_sin(x)[1], dx)
            if name == "tp_sin":
                return _mul(tlib.cos_sin(x)[0], dx)
            if name == "tp_tanh":
                return _mul(1 - t * t, dx)
            if name == "tp_exp":
                return _mul(t, dx)
            raise Unsupported(f"derivative of {name}")
        # uninterpreted smooth function: chain rule
        acc = ZERO
        for i in range(n):
            a = t.arg(i)
            if a.sort() != z3.RealSort():
                continue
            da = diff(a, atom, leaves, cache)
            if _is_zero(da):
                continue
            acc = _add(acc, _mul(deriv_symbol(d, i)(*[t.arg(j) for j in range(n)]), da))
        return acc
    args = [t.arg(i) for i in range(n)]
    if kind == z3.Z3_OP_ADD:
        acc = ZERO
        for a in args:
            acc = _add(acc, diff(a, atom, leaves, cache))
        return acc
    if kind == z3.Z3_OP_SUB:
        acc = diff(args[0], atom, leaves, cache)
        for a in args[1:]:
            da = diff(a, atom, leaves, cache)
            if not _is_zero(da):
                acc = acc - da if not _is_zero(acc) else -da
        return acc
    if kind == z3.Z3_OP_UMINUS:
        da = diff(args[0], atom, leaves, cache)
        return ZERO if _is_zero(da) else -da
    if kind == z3.Z3_OP_MUL:
        acc = ZERO
        for i, a in enumerate(args):
            da = diff(a, atom, leaves, cache)
            if _is_zero(da):
                continue
            term = da
            for j, b in enumerate(args):
                if j != i:
                    term = _mul(term, b)
            acc = _add(acc, term)
        return acc
    if kind == z3.Z3_OP_DIV:
        a, b = args
        da, db = diff(a, atom, leaves, cache), diff(b, atom, leaves, cache)
        if _is_zero(db):
            return ZERO if _is_zero(da) else da / b
        return (_mul(da, b) - _mul(a, db)) / (b * b)
    if kind == z3.Z3_OP_ITE:
        da, db = diff(args[1], atom, leaves, cache), diff(args[2], atom, leaves, cache)
        if _is_zero(da) and _is_zero(db):
            return ZERO
        return z3.If(args[0], da, db)
    if kind == z3.Z3_OP_TO_REAL:
        return ZERO
    if kind == z3.Z3_OP_POWER:
        if z3.is_rational_value(args[1]) and args[1].denominator_as_long() == 1:
            p = args[1].numerator_as_long()
            da = diff(args[0], atom, leaves, cache)
            if _is_zero(da) or p == 0:
                return ZERO
            return _mul(z3.RealVal(p) * (args[0] ** (p - 1)) if p != 1 else ONE, da)
    raise Unsupported(f"differentiation through {d.name()}")


def _diff_sum(t, info, atom, leaves, cache):
    """d/d atom of sum_{idx} body(idx), body row-wise in the leaf of `atom`"""
    dims, bvars, body = info
    occ = occurs(body, leaves)
    if atom.decl().name() not in occ:
        return ZERO
    # the summation runs over the row axis of the leaf: find, for the atom's leaf, the argument positions that
    # carry the bound variables, check every occurrence uses exactly them (row-wise), substitute and differentiate
    positions = None
    for app in _leaf_apps(body, atom.decl().name()):
        pos = []
        for bv in bvars:
            where = [i for i in range(app.num_args()) if z3.eq(app.arg(i), bv)]
            if len(where) != 1:
                raise Unsupported("sum whose body is not row-wise in the differentiated variable")
            pos.append(where[0])
        if positions is None:
            positions = pos
        elif positions != pos:
            raise Unsupported("sum whose body is not row-wise in the differentiated variable")
    sub = [(bv, atom.arg(p)) for bv, p in zip(bvars, positions)]
    inst = z3.substitute(body, *sub)
    return diff(inst, atom, leaves, {})


def _leaf_apps(t, name, seen=None, out=None):
    seen = set() if seen is None else seen
    out = [] if out is None else out
    if t.get_id() in seen:
        return out
    seen.add(t.get_id())
    if z3.is_app(t):
        if t.decl().kind() == z3.Z3_OP_UNINTERPRETED and t.decl().name() == name:
            out.append(t)
        info = tsum.SUM_INFO.get(t.get_id())
        if info is not None:
            _leaf_apps(info[2], name, seen, out)
        for i in range(t.num_args()):
            _leaf_apps(t.arg(i), name, seen, out)
    return out
