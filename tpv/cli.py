"""tpv cli: ./check Cxx [--tier quick|thorough]"""
import argparse
import json
import os
import re
import subprocess
import sys
import time

from . import runner

VERIF = runner.VERIF
VENV_PY = "/venv/bin/python"

ASSUMPTIONS = {
    "A1": "A1 real arithmetic: float tensors are mathematical reals; isclose(a,b) = |a-b| <= atol + rtol*|b|; integers are mathematical",
    "A2": "A2 Python semantics as implemented by the tpv interpreter (DESIGN 2.2); extraction drops comments, docstrings, annotations, warnings.warn/print/time.time, f-string contents, the device argument, dtypes finer than real/int/bool",
    "A3": "A3 torch/numpy/stdlib operations behave as their tpv models (tlib/tshape/torchlib/pylib): assumed contracts, differential-tested in selftest",
    "A4": "A4 torch.autograd.grad returns the exact derivative and raises iff the graph does not reach the variable (ghost dependency sets)",
    "A5": "A5 Lightning / DataLoader call protocols (external contract)",
    "A6": "A6 boundary of Boolean domain operations = regularised CSG formula",
    "A7": "A7 geometry lemmas not mechanised: first-order outwardness <=> small step leaves/enters for convex primitives",
    "A8": "A8 user code (shape functions, residuals, data functions, filters) is row-wise and returns (N,k)",
    "A9": "A9 z3 / cvc5 are sound; ShapelyPolygon, TrimeshPolyhedron, plotting, torch/numpy/Lightning internals are unverified",
}

PROP_ASSUMPTIONS = {
    "C13": ["A2", "A3", "A8", "A9"],
    "C12": ["A1", "A2", "A3", "A9"],
    "C16": ["A2", "A3", "A5", "A9"],
    "C15": ["A1", "A2", "A3", "A8", "A9"],
}


def sanitize(name):
    return re.sub(r"[^A-Za-z0-9_.\-\[\]]", "_", name)[:180]


def load_known():
    p = os.path.join(VERIF, "known_findings.json")
    if not os.path.exists(p):
        return []
    return json.load(open(p))


def native_replay(prop, ob):
    """run the replay template against the REAL code; returns (reproduced: bool|None, output)"""
    rp = ob.get("replay")
    if not rp:
        return None, ""
    script = os.path.join(VERIF, "replays", rp["template"] + ".py")
    if not os.path.exists(script):
        return None, f"replay template {rp['template']} missing"
    try:
        r = subprocess.run([VENV_PY, script, json.dumps(rp["inputs"])], capture_output=True, text=True, timeout=300)
    except Exception as e:
        return None, f"replay failed to run: {e}"
    out = (r.stdout + r.stderr)[-4000:]
    if r.returncode == 1:
        return True, out
    if r.returncode == 0:
        return False, out
    return None, out


def write_replay(prop, ob, reproduced, replay_out):
    os.makedirs(os.path.join(VERIF, "replay"), exist_ok=True)
    path = os.path.join(VERIF, "replay", sanitize(ob["name"]) + ".py")
    rp = ob.get("replay")
    with open(path, "w") as f:
        f.write("#!/venv/bin/python\n")
        f.write('"""replay file written by /verif/check\n')
        f.write(f"property:   {prop}\nobligation: {ob['name']}\nkind:       {ob['kind']}\nlocation:   {ob.get('loc')}\n")
        f.write(f"status:     {ob['status']} (backend {ob.get('backend')})\n")
        f.write(f"reproduced on the real code: {reproduced}\n")
        f.write("verifier model (inputs):\n" + json.dumps(ob.get("model"), indent=1, default=str) + "\n")
        f.write("branch trace:\n" + json.dumps(ob.get("trace"), default=str) + "\n")
        if ob.get("meta"):
            f.write("detail: " + json.dumps(ob.get("meta"), default=str) + "\n")
        if replay_out:
            f.write("replay output:\n" + replay_out.replace('"""', "'''") + "\n")
        f.write("SMT query (negated obligation):\n" + (ob.get("smt2") or "").replace('"""', "'''")[:12000] + "\n")
        f.write('"""\n')
        f.write("import json, subprocess, sys\n")
        if rp:
            f.write(f"INPUTS = json.loads({json.dumps(json.dumps(rp['inputs']))})\n")
            f.write(f"sys.exit(subprocess.call(['/venv/bin/python', '/verif/replays/{rp['template']}.py', json.dumps(INPUTS)]))\n")
        else:
            f.write("print('no concrete failing input: obligation', %r, 'was not discharged; see the docstring')\n" % ob["name"])
            f.write("sys.exit(2)\n")
    os.chmod(path, 0o755)
    return path


def main(argv=None):
    ap = argparse.ArgumentParser()
    ap.add_argument("prop")
    ap.add_argument("--tier", default=os.environ.get("VERIF_TIER", "quick"), choices=["quick", "thorough"])
    ap.add_argument("--only", nargs="*")
    ap.add_argument("--jobs", type=int, default=None)
    ap.add_argument("--verbose", "-v", action="store_true")
    args = ap.parse_args(argv)
    if args.prop == "selftest":
        from . import selftest

        return selftest.main()
    if args.prop == "lemmas":
        # machine-checked engine lemmas (Lean 4 + Mathlib); any error is a checker error, not a violation
        import glob, subprocess

        root = os.path.join(os.path.dirname(os.path.dirname(os.path.abspath(__file__))), "lemmas")
        bad = 0
        for f in sorted(glob.glob(os.path.join(root, "*.lean"))):
            t1 = time.time()
            r = subprocess.run(["lean", f], capture_output=True, text=True, cwd=root)
            okl = r.returncode == 0 and "error" not in (r.stdout + r.stderr) and "sorry" not in (r.stdout + r.stderr)
            print(f"lemma {os.path.basename(f)}: {'checked' if okl else 'FAILED'} ({time.time() - t1:.0f}s)")
            if not okl:
                print((r.stdout + r.stderr)[-2000:])
                bad += 1
        return 3 if bad else 0
    prop = args.prop
    seed = int(os.environ.get("VERIF_SEED", "0") or 0)
    t0 = time.time()
    engine_selftest = None
    if args.tier == "thorough" and not args.only:
        # the thorough tier first re-validates the ASSUMED torch/python/autograd contracts against real torch
        from . import selftest

        ran, fails = selftest.run(seed)
        engine_selftest = {"differential_executions": ran, "mismatches": len(fails)}
        if fails:
            for f in fails[:10]:
                print("MISMATCH", json.dumps(f, default=str)[:400])
            print(f"ERROR: engine selftest failed ({len(fails)} mismatches between the tpv torch model and real torch)")
            return 3
    results = runner.run_property(prop, args.tier, only=args.only, jobs=args.jobs)
    if not results:
        print(f"ERROR: no contract scenarios registered for {prop}")
        return 3
    errors = [r for r in results if r["error"]]
    # a loop that carries no contract (the loop under contract was moved into another function, or a loop was added) is a
    # limit of the tool on THIS source, i.e. undecided -- not a crash of the checker
    loop_limit = [r for r in errors if re.search(r"needs a loop contract|without loop contract", r["error"] or "")]
    errors = [r for r in errors if r not in loop_limit]
    # ---- aggregate obligations by name
    obs = {}
    for r in loop_limit:
        nm = f"{prop}/{r['scenario']}[{r['cfg']}]/inv-form:loop-without-contract"
        obs[nm] = {"name": nm, "kind": "inv-form", "bounded": r.get("bounded"), "scenario": r["scenario"], "cfg": r["cfg"],
                   "vcs": [{"name": nm, "kind": "inv-form", "status": "refuted", "backend": "none", "time": 0.0,
                            "reason": "loop restructured: " + (r["error"] or "")[:200] + " -- its contract has to be re-attached (no verdict)"}]}
    for r in results:
        for o in r["obligations"]:
            e = obs.setdefault(o["name"], {"name": o["name"], "kind": o["kind"], "vcs": [], "bounded": r.get("bounded"), "scenario": r["scenario"], "cfg": r["cfg"]})
            e["vcs"].append(o)
    for e in obs.values():
        sts = [v["status"] for v in e["vcs"]]
        e["status"] = "proved" if all(s == "proved" for s in sts) else ("refuted" if "refuted" in sts else "unknown")
    vacuous = [r for r in results if not r["error"] and (r["paths"] == 0 or r["paths"] == r["vacuous_paths"] or not r["obligations"])]
    known = [k for k in load_known() if k.get("property") == prop and k.get("status", "open") == "open"]
    # obligation names of safety conditions carry the source line of the call site; an edit elsewhere in the file
    # moves it, so listed findings are matched with the line number masked (scenario, configuration, kind of
    # obligation, file and condition still have to agree)
    import re as _re

    mask = lambda n: _re.sub(r"\.py:\d+", ".py:#", n)
    known_names = {}
    for k in known:
        for n in k["obligations"]:
            known_names[mask(n)] = k
    violations, known_hit, undecided = [], {}, []
    for e in obs.values():
        if e["status"] == "proved":
            continue
        if e["status"] == "unknown":
            undecided.append(e)
            continue
        if e["kind"] == "inv-form":
            # the loop under contract no longer has the form its invariant describes (state renamed / moved into a
            # helper ...): the proof cannot be replayed until the contract is re-attached -- undecided, not a violation
            for v in e["vcs"]:
                if not v.get("reason"):
                    v["reason"] = ("private helper signature changed" if "signature-of-private-helper" in e["name"] else "loop restructured") + ": its contract has to be re-attached (no verdict)"
            undecided.append(e)
            continue
        if mask(e["name"]) in known_names:
            known_hit.setdefault(known_names[mask(e["name"])]["id"], []).append(e)
        else:
            violations.append(e)
    # ---- report
    for k in known:
        if k["id"] in known_hit:
            print(f"KNOWN-FINDING: property={prop} {k['what']}")
        else:
            print(f"note: known finding {k['id']} not reproduced on this tree (obligations proved or absent)")
    rc = 0
    replay_paths = []
    for e in violations:
        bad = [v for v in e["vcs"] if v["status"] == "refuted"][0]
        reproduced, rout = native_replay(prop, bad)
        path = write_replay(prop, bad, reproduced, rout)
        replay_paths.append(path)
        suffix = "" if reproduced else " no-failing-input-found"
        print(f"VIOLATION property={prop} replay={path} obligation={e['name']}{suffix}")
        rc = 1
    if errors:
        for r in errors:
            print(f"CHECKER-ERROR scenario={r['scenario']}[{r['cfg']}] {r['error']}")
            if args.verbose:
                print(r.get("traceback", ""))
        rc = max(rc, 3) if rc != 1 else 1
    if vacuous:
        for r in vacuous:
            print(f"CHECKER-ERROR vacuous scenario {r['scenario']}[{r['cfg']}]: paths={r['paths']} vacuous={r['vacuous_paths']} obligations={len(r['obligations'])}")
        rc = max(rc, 3) if rc != 1 else 1
    if undecided:
        for e in undecided:
            print(f"UNDECIDED obligation={e['name']} reason={[v.get('reason') for v in e['vcs'] if v.get('reason')][:1]}")
        if rc == 0:
            rc = 2
    # ---- bounded stand-in for loops whose inductive contract no longer fits (tpv/fallback.py)
    from . import fallback as _fb

    fb_result, fb_line, fb_path, fb_notes = _fb.after_verdict(prop, args.tier, args.only, undecided)
    for n_ in fb_notes:
        print(n_)
    if fb_line:
        print(fb_line)
        replay_paths.append(fb_path)
        violations.append({"name": "bounded-runtime-contract-check", "fallback": fb_result["failing"][0]})
        rc = 1
    # ---- evidence
    kf_names = {e["name"] for v in known_hit.values() for e in v}
    # obligations that reproduce a listed known finding are reported under known_finding_obligations, not as
    # obligations of the proof (they are, by definition, not discharged)
    unb = [e for e in obs.values() if not e["bounded"] and e["kind"] not in ("cover", "canary") and e["name"] not in kf_names]
    bnd = [e for e in obs.values() if e["bounded"] and e["kind"] not in ("cover", "canary") and e["name"] not in kf_names]
    covers = [e for e in obs.values() if e["kind"] == "cover"]
    canaries = [e for e in obs.values() if e["kind"] == "canary"]
    all_vcs = [v for e in obs.values() for v in e["vcs"]]
    backends = {}
    for v in all_vcs:
        backends[v["backend"]] = backends.get(v["backend"], 0) + 1
    hashes = {}
    for r in results:
        hashes.update(r.get("hashes") or {})
    targets = sorted({t for r in results for t in (r.get("targets") or [])})

    def _executed(t):
        """was the target's source executed by a scenario?  (methods of nested classes are recorded without the outer
        class name)"""
        if t in hashes:
            return t
        parts = t.split(".")
        if len(parts) >= 4:
            alt = ".".join(parts[:-3] + parts[-2:])
            if alt in hashes:
                return alt
        return None

    not_exercised = [t for t in targets if _executed(t) is None]
    form_cut = any(e.get("kind") == "inv-form" for e in undecided)
    if args.only is None and not errors and not form_cut:
        # (after a 'loop restructured' verdict the path ends at that loop: what lies behind it was not reached because
        #  of that verdict, which is already reported as UNDECIDED)
        for t in not_exercised:
            # a function named as being under contract that no scenario ever reaches is an over-claim: checker error
            print(f"CHECKER-ERROR target={t} is listed as under contract but its source was never executed by a scenario")
            rc = max(rc, 3) if rc != 1 else 1
    samples = []
    for e in list(obs.values())[:: max(1, len(obs) // 12)][:12]:
        samples.append({"obligation": e["name"], "kind": e["kind"], "vcs": len(e["vcs"]), "status": e["status"], "bounded": e["bounded"]})
    n_known = sum(len(v) for v in known_hit.values())
    proved_unb = sum(1 for e in unb if e["status"] == "proved")
    level = "proof" if unb else "other"
    try:
        # never report a stronger level than the one claimed in MANIFEST.json for this property
        claimed = {c["property_id"]: c["level_claimed"]["category"] for c in json.load(open(os.path.join(VERIF, "MANIFEST.json")))["checks"]}
        if claimed.get(prop) == "other":
            level = "other"
    except Exception:
        pass
    cov = {
        "checker_cmd": f"./check {prop} --tier {args.tier}",
        "trusted_base": [ASSUMPTIONS[a] for a in PROP_ASSUMPTIONS.get(prop, sorted(ASSUMPTIONS))],
        "obligations": len(unb),
        "discharged": proved_unb,
        "bounded_obligations": len(bnd),
        "bounded_discharged": sum(1 for e in bnd if e["status"] == "proved"),
        "bounded_note": sorted({e["bounded"] for e in bnd}),
        "known_finding_obligations": n_known,
        "vcs": len(all_vcs),
        "paths": sum(r["paths"] for r in results),
        "scenarios": len(results),
        "backends": backends,
        "solver_seconds": round(sum(v["time"] for v in all_vcs), 3),
        "slowest_vcs": [{"obligation": v["name"], "seconds": v["time"], "backend": v["backend"]} for v in sorted(all_vcs, key=lambda v: -v["time"])[:5]],
        "functions_under_contract": {t: hashes.get(_executed(t)) for t in targets if _executed(t) is not None},
        "targets_named_but_not_exercised": not_exercised,
        "functions_executed_from_source": hashes,
        "loop_contract_names_realigned": {k: v for r in results for k, v in (r.get("renamed_locals") or {}).items()},
        "vacuity": {"cover_checks": len(covers), "covers_ok": sum(1 for e in covers if e["status"] == "proved"), "canaries": len(canaries), "canaries_refuted_as_required": sum(1 for e in canaries if e["status"] == "proved")},
        "samples": samples,
        "evaluations": len(all_vcs),
        "distinct_nontrivial": len(obs),
        "rule": "one case = one named obligation (postcondition clause, safety condition, frame condition or exception-freedom of one path) generated from the current /repo source; distinct = distinct obligation names",
        "explanation": "contract scenarios executed symbolically on the real source (tpv), every obligation discharged by z3 (nlsat on a sound QF_NRA weakening, cvc5 for unknowns / thorough tier). 'bounded' obligations are deductive proofs for all row counts, tensor contents, weights and user functions at an ENUMERATED structure size (number of variables / declared parameters / layer widths); they are reported separately and never added to 'discharged'.",
        "engine_selftest": engine_selftest,
        "cvc5_crosscheck": {k: sum(1 for v in all_vcs if v.get("cvc5") == k) for k in sorted({v.get("cvc5") for v in all_vcs if v.get("cvc5")})},
        "undecided": [e["name"] for e in undecided],
        "bounded_runtime_contract_check": fb_result,
        "errors": [f"{r['scenario']}[{r['cfg']}]: {r['error']}" for r in errors],
    }
    ev = {
        "property_id": prop,
        "tier": args.tier,
        "seed": seed,
        "level": level,
        "coverage": cov,
        "assumptions": [ASSUMPTIONS[a] for a in PROP_ASSUMPTIONS.get(prop, sorted(ASSUMPTIONS))],
        "wall_s": round(time.time() - t0, 2),
        "violations": len(violations),
        "known_findings_reproduced": sorted(known_hit),
        "replays": replay_paths,
    }
    os.makedirs(os.path.join(VERIF, "evidence"), exist_ok=True)
    with open(os.path.join(VERIF, "evidence", f"{prop}.json"), "w") as f:
        json.dump(ev, f, indent=1, default=str)
    print(
        f"{prop}: scenarios={len(results)} obligations={len(obs)} (unbounded {len(unb)}, proved {proved_unb}; bounded {len(bnd)}) vcs={len(all_vcs)} "
        f"violations={len(violations)} known={n_known} undecided={len(undecided)} errors={len(errors)} wall={ev['wall_s']}s exit={rc}"
    )
    return rc


if __name__ == "__main__":
    sys.exit(main())
