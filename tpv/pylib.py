"""tpv pylib: Python-level semantics for builtins, operators, host containers and the stdlib
pieces the repo uses (collections.Counter/OrderedDict, inspect, copy, math, warnings, abc ...).

These are the *assumed contracts* of CPython / stdlib (A2/A3 in DESIGN.md); selftest cross-checks
them against the real interpreter.
"""
import ast
import math
import types
from collections import OrderedDict

import z3

from . import core
from .core import Sym, Unsupported, is_sym, zt, zint, zreal, zbool, concretize
from .loader import SFunc, SClass, NativeClass, ModuleRef


def _I():
    from . import interp

    return interp


# ----------------------------------------------------------------------------- numeric helpers
def is_num(v):
    return isinstance(v, (bool, int, float, Sym))


def num_ty(v):
    if isinstance(v, Sym):
        return v.ty
    if isinstance(v, bool):
        return "bool"
    if isinstance(v, int):
        return "int"
    return "float"


def _isinf(v):
    return isinstance(v, float) and (v == math.inf or v == -math.inf)


def floor_div_int(a, b):
    """python floor division on z3 ints (z3 div is Euclidean)"""
    return z3.If(b > 0, a / b, (-a) / (-b))


def sym_arith(I, op, a, b):
    ta, tb = num_ty(a), num_ty(b)
    isfloat = "float" in (ta, tb)
    if _isinf(a) or _isinf(b):
        raise Unsupported("arithmetic with infinity and a symbolic value")
    if isinstance(op, ast.Add):
        return Sym(zreal(a) + zreal(b), "float") if isfloat else Sym(zint(a) + zint(b), "int")
    if isinstance(op, ast.Sub):
        return Sym(zreal(a) - zreal(b), "float") if isfloat else Sym(zint(a) - zint(b), "int")
    if isinstance(op, ast.Mult):
        return Sym(zreal(a) * zreal(b), "float") if isfloat else Sym(zint(a) * zint(b), "int")
    if isinstance(op, ast.Div):
        zb = zreal(b)
        if not I.ctx.entails(zb != 0):
            if I.ctx.feasible(zb == 0) and I.decide(zb == 0):
                raise _I().RaisedEx("ZeroDivisionError", "division by zero", I.ctx.loc)
        return Sym(zreal(a) / zb, "float")
    if isinstance(op, (ast.FloorDiv, ast.Mod)):
        if isfloat:
            zb = zreal(b)
            if not I.ctx.entails(zb != 0):
                if I.decide(zb == 0):
                    raise _I().RaisedEx("ZeroDivisionError", "float floor division by zero", I.ctx.loc)
            q = z3.ToReal(z3.ToInt(zreal(a) / zb))
            if isinstance(op, ast.FloorDiv):
                return Sym(q, "float")
            return Sym(zreal(a) - zb * q, "float")
        za, zb = zint(a), zint(b)
        if not I.ctx.entails(zb != 0):
            if I.decide(zb == 0):
                raise _I().RaisedEx("ZeroDivisionError", "integer division or modulo by zero", I.ctx.loc)
        if I.ctx.entails(zb > 0):
            q = za / zb
        else:
            q = floor_div_int(za, zb)
        if isinstance(op, ast.FloorDiv):
            return Sym(q, "int")
        return Sym(za - zb * q, "int")
    if isinstance(op, ast.Pow):
        if isinstance(b, int) and not isinstance(b, bool) and 0 <= b <= 8:
            if b == 0:
                return 1
            base = zreal(a) if isfloat else zint(a)
            r = base
            for _ in range(b - 1):
                r = r * base
            return Sym(r, "float" if isfloat else "int")
        if isinstance(b, float) and b == 0.5:
            from . import tlib

            return Sym(tlib.sqrt_term(zreal(a)), "float")
        if isinstance(b, int) and b < 0:
            base = zreal(a)
            r = base
            for _ in range(-b - 1):
                r = r * base
            return Sym(1 / r, "float")
        raise Unsupported("symbolic power")
    raise Unsupported(f"symbolic scalar operator {type(op).__name__}")


_HOST_OPS = {
    ast.Add: lambda a, b: a + b,
    ast.Sub: lambda a, b: a - b,
    ast.Mult: lambda a, b: a * b,
    ast.Div: lambda a, b: a / b,
    ast.FloorDiv: lambda a, b: a // b,
    ast.Mod: lambda a, b: a % b,
    ast.Pow: lambda a, b: a**b,
    ast.BitAnd: lambda a, b: a & b,
    ast.BitOr: lambda a, b: a | b,
    ast.BitXor: lambda a, b: a ^ b,
    ast.LShift: lambda a, b: a << b,
    ast.RShift: lambda a, b: a >> b,
    ast.MatMult: None,
}

_DUNDER = {
    ast.Add: "add",
    ast.Sub: "sub",
    ast.Mult: "mul",
    ast.Div: "truediv",
    ast.FloorDiv: "floordiv",
    ast.Mod: "mod",
    ast.Pow: "pow",
    ast.BitAnd: "and",
    ast.BitOr: "or",
    ast.BitXor: "xor",
    ast.MatMult: "matmul",
}


def binop(I, op, a, b, inplace=False):
    from .tlib import Tensor
    from . import tlib

    IN = _I()
    if isinstance(a, Tensor) or isinstance(b, Tensor):
        if isinstance(a, IN.SObj) or isinstance(b, IN.SObj):
            # Points.__torch_function__-style mixing is not used with operators in the repo
            obj = a if isinstance(a, IN.SObj) else b
            name = _DUNDER.get(type(op))
            if isinstance(a, IN.SObj):
                c, m = I.find_method(a.cls, f"__{name}__")
                if m is not None:
                    return I.call_method(a, f"__{name}__", [b])
            else:
                c, m = I.find_method(b.cls, f"__r{name}__")
                if m is not None:
                    return I.call_method(b, f"__r{name}__", [a])
            raise Unsupported(f"tensor {type(op).__name__} object {obj!r}")
        from . import torchlib

        r = tlib.binop(I, op, a, b, inplace)
        torchlib.fw_mark(r, torchlib.fw_join([a, b]), [a] if inplace else [])
        return r
    if isinstance(a, IN.SObj) or isinstance(b, IN.SObj):
        name = _DUNDER.get(type(op))
        if name is None:
            raise Unsupported(f"operator {type(op).__name__} on objects")
        if isinstance(a, IN.SObj):
            if inplace:
                c, m = I.find_method(a.cls, f"__i{name}__")
                if m is not None:
                    return I.call_method(a, f"__i{name}__", [b])
            c, m = I.find_method(a.cls, f"__{name}__")
            if m is not None:
                r = I.call_method(a, f"__{name}__", [b])
                if r is not NotImplemented:
                    return r
        if isinstance(b, IN.SObj):
            c, m = I.find_method(b.cls, f"__r{name}__")
            if m is not None:
                r = I.call_method(b, f"__r{name}__", [a])
                if r is not NotImplemented:
                    return r
        raise IN.RaisedEx("TypeError", f"unsupported operand type(s) for {type(op).__name__}", I.ctx.loc)
    if isinstance(a, Sym) or isinstance(b, Sym):
        if is_num(a) and is_num(b):
            return concretize(sym_arith(I, op, a, b))
        if isinstance(op, ast.Mult) and isinstance(a, (list, tuple)) or isinstance(b, (list, tuple)):
            raise Unsupported("sequence repetition by a symbolic count")
        raise Unsupported(f"operator {type(op).__name__} on {type(a).__name__} and {type(b).__name__}")
    f = _HOST_OPS.get(type(op))
    if f is None:
        raise Unsupported(f"operator {type(op).__name__}")
    if inplace and isinstance(a, list):
        if isinstance(op, ast.Add):
            a.extend(I.iterate(b))
            return a
        if isinstance(op, ast.Mult):
            a *= b
            return a
    if inplace and isinstance(a, set) and isinstance(op, ast.BitOr):
        a |= b
        return a
    if inplace and isinstance(a, dict) and isinstance(op, ast.BitOr):
        a.update(b)
        return a
    try:
        return f(a, b)
    except ZeroDivisionError as e:
        raise IN.RaisedEx("ZeroDivisionError", str(e), I.ctx.loc)
    except TypeError as e:
        raise IN.RaisedEx("TypeError", str(e), I.ctx.loc)
    except OverflowError as e:
        raise IN.RaisedEx("OverflowError", str(e), I.ctx.loc)


def unaryop(I, op, v):
    from .tlib import Tensor
    from . import tlib

    IN = _I()
    if isinstance(op, ast.Not):
        r = I.truth(v)
        return not r
    if isinstance(v, Tensor):
        return tlib.unaryop(I, op, v)
    if isinstance(v, Sym):
        if isinstance(op, ast.USub):
            if v.ty == "float":
                return Sym(-v.t, "float")
            return Sym(-zint(v), "int")
        if isinstance(op, ast.UAdd):
            return v
        raise Unsupported("unary op on symbolic scalar")
    if isinstance(v, IN.SObj):
        nm = {ast.USub: "__neg__", ast.UAdd: "__pos__", ast.Invert: "__invert__"}[type(op)]
        return I.call_method(v, nm, [])
    if isinstance(op, ast.USub):
        return -v
    if isinstance(op, ast.UAdd):
        return +v
    if isinstance(op, ast.Invert):
        return ~v
    raise Unsupported("unary operator")


# ----------------------------------------------------------------------------- comparison
def _contains_sym(v, depth=0):
    if isinstance(v, Sym):
        return True
    if depth > 4:
        return False
    if isinstance(v, (list, tuple, set, frozenset)):
        return any(_contains_sym(x, depth + 1) for x in v)
    if isinstance(v, dict):
        return any(_contains_sym(x, depth + 1) for x in v.values())
    return False


def _is_special(v):
    from .tlib import Tensor

    IN = _I()
    return isinstance(v, (Sym, Tensor, IN.SObj, IN.Opaque, SFunc, IN.BoundMethod, SClass, NativeClass))


def _contains_special(v, depth=0):
    if _is_special(v):
        return True
    if depth > 4:
        return False
    if isinstance(v, (list, tuple, set, frozenset)):
        return any(_contains_special(x, depth + 1) for x in v)
    if isinstance(v, dict):
        return any(_contains_special(x, depth + 1) for x in v.values())
    return False


def py_eq(I, a, b):
    """python == ; returns python bool or Sym<bool> (or a Tensor for tensor operands)"""
    from .tlib import Tensor
    from . import tlib

    IN = _I()
    if a is b and not isinstance(a, (Tensor, float)):
        if isinstance(a, IN.SObj):
            c, m = I.find_method(a.cls, "__eq__")
            if m is None:
                return True
        else:
            return True
    if isinstance(a, Tensor) or isinstance(b, Tensor):
        if isinstance(a, IN.SObj) or isinstance(b, IN.SObj):
            raise Unsupported("tensor == object")
        if a is None or b is None or isinstance(a, str) or isinstance(b, str):
            return False
        return tlib.compare(I, ast.Eq(), a, b)
    if isinstance(a, IN.SObj) or isinstance(b, IN.SObj):
        return obj_eq(I, a, b)
    if isinstance(a, Sym) or isinstance(b, Sym):
        if is_num(a) and is_num(b):
            if _isinf(a) or _isinf(b):
                return False
            if "float" in (num_ty(a), num_ty(b)):
                return concretize(Sym(zreal(a) == zreal(b), "bool"))
            return concretize(Sym(zint(a) == zint(b), "bool"))
        return False
    if isinstance(a, (list, tuple)) and isinstance(b, (list, tuple)) and (_contains_special(a) or _contains_special(b)):
        if type(a) is not type(b) and not (isinstance(a, list) and isinstance(b, list)) and not (isinstance(a, tuple) and isinstance(b, tuple)):
            return False
        if len(a) != len(b):
            return False
        acc = True
        for x, y in zip(a, b):
            r = py_eq(I, x, y)
            if isinstance(r, Tensor):
                r = I.truth(r)
            acc = sym_and(acc, r)
            if acc is False:
                return False
        return acc
    if isinstance(a, dict) and isinstance(b, dict) and (_contains_special(a) or _contains_special(b)):
        if set(a.keys()) != set(b.keys()):
            return False
        acc = True
        for k in a:
            r = py_eq(I, a[k], b[k])
            if isinstance(r, Tensor):
                r = I.truth(r)
            acc = sym_and(acc, r)
            if acc is False:
                return False
        return acc
    if _is_special(a) or _is_special(b):
        return a is b
    try:
        return a == b
    except Unsupported:
        raise
    except Exception as e:
        raise Unsupported(f"host == failed: {e}")


def obj_eq(I, a, b):
    IN = _I()
    # reflected priority: right operand's class is a proper subclass of left's class
    if isinstance(a, IN.SObj) and isinstance(b, IN.SObj) and b.cls is not a.cls and b.cls.issubclass(a.cls):
        cb, mb = I.find_method(b.cls, "__eq__")
        ca, ma = I.find_method(a.cls, "__eq__")
        if mb is not None and mb is not ma:
            r = I.call_resolved(cb, mb, "__eq__", [b, a], {})
            if r is not NotImplemented:
                return r
    if isinstance(a, IN.SObj):
        c, m = I.find_method(a.cls, "__eq__")
        if m is not None:
            r = I.call_resolved(c, m, "__eq__", [a, b], {})
            if r is not NotImplemented:
                return r
    if isinstance(b, IN.SObj):
        c, m = I.find_method(b.cls, "__eq__")
        if m is not None:
            r = I.call_resolved(c, m, "__eq__", [b, a], {})
            if r is not NotImplemented:
                return r
    return a is b


def sym_and(a, b):
    if a is False or b is False:
        return False
    if a is True:
        return b
    if b is True:
        return a
    return concretize(Sym(z3.And(zbool(a), zbool(b)), "bool"))


def sym_or(a, b):
    if a is True or b is True:
        return True
    if a is False:
        return b
    if b is False:
        return a
    return concretize(Sym(z3.Or(zbool(a), zbool(b)), "bool"))


def sym_not(a):
    if isinstance(a, bool):
        return not a
    return concretize(Sym(z3.Not(zbool(a)), "bool"))


def py_in(I, a, b):
    from .tlib import Tensor

    IN = _I()
    if isinstance(b, IN.SObj):
        c, m = I.find_method(b.cls, "__contains__")
        if m is not None:
            return I.truth(I.call_resolved(c, m, "__contains__", [b, a], {}))
        return py_in(I, a, I.iterate(b))
    if isinstance(b, dict) or isinstance(b, type({}.keys())):
        if is_sym(a):
            # numeric keys compare by VALUE: membership of a symbolic number forks over the numeric keys
            for k in list(b):
                if is_sym(k) or (is_num(k) and not isinstance(k, bool)):
                    if k is a or I.decide(zt(a) == zt(k)):
                        return True
            return False
        if _is_special(a):
            return any(k is a for k in b)
        return a in b
    if isinstance(b, str):
        if not isinstance(a, str):
            raise IN.RaisedEx("TypeError", "'in <string>' requires string as left operand")
        return a in b
    if isinstance(b, (list, tuple, set, frozenset, range)) or isinstance(b, (type({}.values()), type({}.items()))):
        if not _is_special(a) and not _contains_special(list(b)):
            return a in b
        acc = False
        for x in b:
            r = py_eq(I, x, a)
            if isinstance(r, Tensor):
                r = I.truth(r)
            acc = sym_or(acc, r)
            if acc is True:
                return True
        return acc
    if isinstance(b, Tensor):
        raise Unsupported("'in' on tensor")
    if hasattr(b, "tpv_contains"):
        return b.tpv_contains(I, a)
    raise Unsupported(f"'in' on {type(b).__name__}")


def compare(I, op, a, b):
    from .tlib import Tensor
    from . import tlib

    IN = _I()
    if isinstance(op, ast.Is):
        return py_is(a, b)
    if isinstance(op, ast.IsNot):
        return not py_is(a, b)
    if isinstance(op, ast.In):
        return py_in(I, a, b)
    if isinstance(op, ast.NotIn):
        return sym_not(py_in(I, a, b))
    if isinstance(op, ast.Eq):
        return py_eq(I, a, b)
    if isinstance(op, ast.NotEq):
        if isinstance(a, IN.SObj):
            c, m = I.find_method(a.cls, "__ne__")
            if m is not None:
                return I.call_resolved(c, m, "__ne__", [a, b], {})
        r = py_eq(I, a, b)
        if isinstance(r, Tensor):
            return tlib.logical_not_t(r)
        return sym_not(r)
    # ordering
    if isinstance(a, Tensor) or isinstance(b, Tensor):
        return tlib.compare(I, op, a, b)
    if isinstance(a, IN.SObj) or isinstance(b, IN.SObj):
        nm = {ast.Lt: "__lt__", ast.LtE: "__le__", ast.Gt: "__gt__", ast.GtE: "__ge__"}[type(op)]
        if isinstance(a, IN.SObj):
            return I.call_method(a, nm, [b])
        raise Unsupported("ordering against object")
    if isinstance(a, Sym) or isinstance(b, Sym):
        if not (is_num(a) and is_num(b)):
            raise IN.RaisedEx("TypeError", "ordering of non-numbers")
        # infinities
        if _isinf(a) or _isinf(b):
            if _isinf(b):
                pos = b > 0
                res = {ast.Lt: pos, ast.LtE: pos, ast.Gt: not pos, ast.GtE: not pos}[type(op)]
            else:
                pos = a > 0
                res = {ast.Lt: not pos, ast.LtE: not pos, ast.Gt: pos, ast.GtE: pos}[type(op)]
            return res
        if "float" in (num_ty(a), num_ty(b)):
            x, y = zreal(a), zreal(b)
        else:
            x, y = zint(a), zint(b)
        t = {ast.Lt: lambda: x < y, ast.LtE: lambda: x <= y, ast.Gt: lambda: x > y, ast.GtE: lambda: x >= y}[type(op)]()
        return concretize(Sym(t, "bool"))
    import operator as o

    try:
        return {ast.Lt: o.lt, ast.LtE: o.le, ast.Gt: o.gt, ast.GtE: o.ge}[type(op)](a, b)
    except TypeError as e:
        raise IN.RaisedEx("TypeError", str(e), I.ctx.loc)


def py_is(a, b):
    if a is None or b is None or a is Ellipsis or b is Ellipsis or isinstance(a, bool) or isinstance(b, bool):
        return a is b
    if isinstance(a, Sym) or isinstance(b, Sym):
        if isinstance(a, Sym) and isinstance(b, Sym):
            return a is b or z3.eq(a.t, b.t)
        return False
    if isinstance(a, (int, str, float)) and isinstance(b, (int, str, float)):
        return type(a) is type(b) and a == b
    return a is b


# ----------------------------------------------------------------------------- subscripts
def getitem(I, o, k):
    from .tlib import Tensor
    from . import tlib

    IN = _I()
    if isinstance(o, Tensor):
        return tlib.getitem(I, o, k)
    if isinstance(o, IN.SObj):
        c, m = I.find_method(o.cls, "__getitem__")
        if m is None:
            raise IN.RaisedEx("TypeError", f"'{o.cls.name}' object is not subscriptable")
        return I.call_resolved(c, m, "__getitem__", [o, k], {})
    if isinstance(o, dict):
        if is_sym(k):
            for kk in list(o):
                if kk is k:
                    return o[kk]
            for kk in list(o):
                if (is_sym(kk) or (is_num(kk) and not isinstance(kk, bool))) and I.decide(zt(k) == zt(kk)):
                    return o[kk]
            raise IN.RaisedEx("KeyError", repr(k), I.ctx.loc)
        try:
            return o[k]
        except KeyError:
            raise IN.RaisedEx("KeyError", repr(k), I.ctx.loc)
        except TypeError as e:
            raise IN.RaisedEx("TypeError", str(e), I.ctx.loc)
    if isinstance(o, (list, tuple, str, range)):
        if isinstance(k, Sym):
            if k.ty == "bool":
                k = Sym(zint(k), "int")
            n = len(o)
            if n == 0:
                raise IN.RaisedEx("IndexError", "index out of range", I.ctx.loc)
            kk = k.t
            inb = z3.And(kk >= -n, kk < n)
            if not I.ctx.entails(inb):
                if not I.decide(inb):
                    raise IN.RaisedEx("IndexError", "index out of range", I.ctx.loc)
            if all(is_num(x) and not isinstance(x, bool) or isinstance(x, Sym) for x in o):
                isf = any(num_ty(x) == "float" for x in o)
                cv = zreal if isf else zint
                e = cv(o[n - 1])
                for j in range(n - 2, -1, -1):
                    e = z3.If(z3.Or(kk == j, kk == j - n), cv(o[j]), e)
                return Sym(e, "float" if isf else "int")
            # fork over positions
            j = I.choose(n, "index")
            I.ctx.assume(z3.Or(kk == j, kk == j - n))
            if not I.ctx.feasible(z3.BoolVal(True)):
                raise core.PathEnd("infeasible index")
            return o[j]
        if isinstance(k, slice):
            if any(is_sym(x) for x in (k.start, k.stop, k.step)):
                raise Unsupported("symbolic slice of python sequence")
        if isinstance(k, Tensor):
            k = tlib.item_value(I, k)
            if is_sym(k):
                return getitem(I, o, k)
        try:
            return o[k]
        except IndexError:
            raise IN.RaisedEx("IndexError", "index out of range", I.ctx.loc)
        except TypeError as e:
            raise IN.RaisedEx("TypeError", str(e), I.ctx.loc)
    if hasattr(o, "tpv_getitem"):
        return o.tpv_getitem(I, k)
    if isinstance(o, (SClass, NativeClass, type)):
        return o  # typing-style subscripts
    raise IN.RaisedEx("TypeError", f"'{type(o).__name__}' object is not subscriptable", I.ctx.loc)


# ----------------------------------------------------------------------------- host objects
def as_host_mapping(I, v):
    IN = _I()
    if isinstance(v, dict):
        return v
    if isinstance(v, IN.SObj) and isinstance(v.native, dict):
        return v.native
    if isinstance(v, IN.SObj):
        c, m = I.find_method(v.cls, "keys")
        if m is not None:
            return {k: I.getitem(v, k) for k in I.iterate(I.call_method(v, "keys", []))}
    raise IN.RaisedEx("TypeError", "argument after ** must be a mapping")


def _hostify_arg(I, v):
    IN = _I()
    if isinstance(v, IN.SObj) and isinstance(v.native, dict):
        return v.native
    if isinstance(v, IN.SObj):
        c, m = I.find_method(v.cls, "__iter__")
        if m is not None:
            return I.iterate(v)
    return v


_ITERABLE_ARG = {"extend", "update", "isdisjoint", "issubset", "issuperset", "union", "intersection", "difference", "symmetric_difference", "intersection_update", "difference_update"}
_UNSAFE_WITH_SPECIAL = {"index", "count", "remove", "sort", "__contains__"}


def host_getattr(I, o, name):
    IN = _I()
    if isinstance(o, (list, dict, str, tuple, set, frozenset, slice, range, int, float, bool, bytes, type(None))) or isinstance(
        o, (type({}.keys()), type({}.values()), type({}.items()), types.SimpleNamespace)
    ):
        if isinstance(o, types.SimpleNamespace):
            try:
                return getattr(o, name)
            except AttributeError:
                raise IN.RaisedEx("AttributeError", name)
        if not hasattr(o, name):
            raise IN.RaisedEx("AttributeError", f"'{type(o).__name__}' object has no attribute '{name}'", I.ctx.loc)
        attr = getattr(o, name)
        if not callable(attr):
            return attr

        def call(I2, *args, **kwargs):
            if name in _UNSAFE_WITH_SPECIAL and (_contains_special(list(o) if not isinstance(o, dict) else list(o.values())) or any(_is_special(a) for a in args)):
                if name == "index":
                    for j, x in enumerate(o):
                        if I2.truth(py_eq(I2, x, args[0])):
                            return j
                    raise IN.RaisedEx("ValueError", "value not in list", I2.ctx.loc)
                if name == "count":
                    return sum(1 for x in o if I2.truth(py_eq(I2, x, args[0])))
                if name == "remove":
                    for j, x in enumerate(o):
                        if I2.truth(py_eq(I2, x, args[0])):
                            del o[j]
                            return None
                    raise IN.RaisedEx("ValueError", "value not in list", I2.ctx.loc)
                raise Unsupported(f"{type(o).__name__}.{name} with symbolic content")
            if name == "format" and isinstance(o, str):
                return "<formatted>"
            if name == "join" and isinstance(o, str):
                return "<joined>"
            hargs = [_hostify_arg(I2, a) if name in _ITERABLE_ARG else a for a in args]
            if isinstance(o, dict) and name in ("get", "pop", "__getitem__", "setdefault") and hargs and is_sym(hargs[0]):
                raise Unsupported("symbolic dict key")
            if isinstance(o, dict) and name == "update":
                for a in hargs:
                    if not isinstance(a, (dict, list, tuple)):
                        raise Unsupported("dict.update with non-mapping")
            try:
                return attr(*hargs, **kwargs)
            except KeyError as e:
                raise IN.RaisedEx("KeyError", str(e), I2.ctx.loc)
            except ValueError as e:
                raise IN.RaisedEx("ValueError", str(e), I2.ctx.loc)
            except IndexError as e:
                raise IN.RaisedEx("IndexError", str(e), I2.ctx.loc)
            except TypeError as e:
                raise IN.RaisedEx("TypeError", str(e), I2.ctx.loc)
            except AttributeError as e:
                raise IN.RaisedEx("AttributeError", str(e), I2.ctx.loc)

        return IN.Builtin(f"{type(o).__name__}.{name}", call)
    if isinstance(o, Sym):
        if name == "item":
            return IN.Builtin("item", lambda I2: o)
        if name in ("real",):
            return o
        raise Unsupported(f"attribute {name} of symbolic scalar")
    if isinstance(o, IN.Opaque):
        if name == "__name__":
            return o.name
        raise Unsupported(f"attribute {name} of opaque user value {o.name}")
    if isinstance(o, type):
        if name == "__name__":
            return o.__name__
        if o is dict and name == "fromkeys":
            return IN.Builtin("dict.fromkeys", lambda I2, ks, v=None: dict.fromkeys(I2.iterate(ks), v))
        if name == "__new__":
            raise Unsupported("host type __new__")
    raise Unsupported(f"getattr {type(o).__name__}.{name}")


def call_host(I, f, args, kwargs):
    IN = _I()
    if f is int:
        return b_int(I, *args, **kwargs)
    if f is float:
        return b_float(I, *args)
    if f is bool:
        return I.truth(args[0]) if args else False
    if f is str:
        if not args:
            return ""
        if isinstance(args[0], str):
            return args[0]
        if isinstance(args[0], (int, float, bool, type(None))):
            return str(args[0])
        return "<str>"
    if f is list:
        return list(I.iterate(args[0])) if args else []
    if f is tuple:
        return tuple(I.iterate(args[0])) if args else ()
    if f is set:
        return set(I.iterate(args[0])) if args else set()
    if f is frozenset:
        return frozenset(I.iterate(args[0])) if args else frozenset()
    if f is dict:
        d = {}
        if args:
            src = args[0]
            if isinstance(src, (dict,)) or (isinstance(src, IN.SObj) and isinstance(src.native, dict)):
                d.update(as_host_mapping(I, src))
            else:
                for kv in I.iterate(src):
                    k, v = I.iterate(kv)
                    d[k] = v
        d.update(kwargs)
        return d
    if f is slice:
        return slice(*args)
    if f is range:
        return b_range(I, *args)
    if f is type:
        return b_type(I, *args)
    if f is object:
        return IN.Opaque("object()")
    if f is OrderedDict:
        d = OrderedDict()
        if args:
            d.update(as_host_mapping(I, args[0]))
        return d
    raise Unsupported(f"call of host callable {f!r}")


# ----------------------------------------------------------------------------- builtins
def b_int(I, v=0, base=None):
    from .tlib import Tensor
    from . import tlib

    IN = _I()
    if isinstance(v, Tensor):
        v = tlib.item_value(I, v)
    if isinstance(v, Sym):
        if v.ty == "int":
            return v
        if v.ty == "bool":
            return Sym(zint(v), "int")
        r = v.t
        return concretize(Sym(z3.If(r >= 0, z3.ToInt(r), -z3.ToInt(-r)), "int"))
    if isinstance(v, float) and (v != v or v in (math.inf, -math.inf)):
        raise IN.RaisedEx("OverflowError" if v == v else "ValueError", "cannot convert float to int")
    try:
        return int(v) if base is None else int(v, base)
    except (TypeError, ValueError) as e:
        raise IN.RaisedEx(type(e).__name__, str(e), I.ctx.loc)


def b_float(I, v=0.0):
    from .tlib import Tensor
    from . import tlib

    if isinstance(v, Tensor):
        v = tlib.item_value(I, v)
    if isinstance(v, Sym):
        return Sym(zreal(v), "float")
    return float(v)


def b_range(I, *a):
    IN = _I()
    if any(is_sym(x) for x in a):
        if len(a) == 1:
            return IN.SymRange(0, a[0], 1)
        if len(a) == 2:
            return IN.SymRange(a[0], a[1], 1)
        return IN.SymRange(*a)
    try:
        return range(*a)
    except TypeError as e:
        raise IN.RaisedEx("TypeError", str(e), I.ctx.loc)


def b_type(I, o):
    from .tlib import Tensor

    IN = _I()
    if isinstance(o, IN.SObj):
        return o.cls
    if isinstance(o, Sym):
        return {"int": int, "float": float, "bool": bool}[o.ty]
    if isinstance(o, Tensor):
        return I.repo.externals["torch"].get("Tensor")
    return type(o)


def b_len(I, o):
    from .tlib import Tensor

    IN = _I()
    if isinstance(o, (list, tuple, dict, str, set, frozenset, range)) or isinstance(o, (type({}.keys()), type({}.values()), type({}.items()))):
        return len(o)
    if isinstance(o, IN.SObj):
        c, m = I.find_method(o.cls, "__len__")
        if m is None:
            raise IN.RaisedEx("TypeError", f"object of type '{o.cls.name}' has no len()", I.ctx.loc)
        n = I.call_resolved(c, m, "__len__", [o], {})
        if isinstance(n, Tensor):
            from . import tlib

            n = tlib.item_value(I, n)
        if isinstance(n, float):
            if n != int(n):
                raise IN.RaisedEx("TypeError", "'float' object cannot be interpreted as an integer")
            # numpy float from np.prod(()) is accepted by len()?  python: TypeError for float
            raise IN.RaisedEx("TypeError", "'float' object cannot be interpreted as an integer")
        return n
    if isinstance(o, Tensor):
        if o.val.rank == 0:
            raise IN.RaisedEx("TypeError", "len() of a 0-d tensor", I.ctx.loc)
        return o.val.shape[0].size()
    if isinstance(o, IN.SymRange):
        raise Unsupported("len of symbolic range")
    if hasattr(o, "tpv_len"):
        return o.tpv_len(I)
    raise IN.RaisedEx("TypeError", f"object of type '{type(o).__name__}' has no len()", I.ctx.loc)


def b_isinstance(I, o, cls):
    return I.isinstance_(o, cls)


def b_issubclass(I, c, cls):
    if isinstance(cls, tuple):
        return any(b_issubclass(I, c, x) for x in cls)
    if isinstance(c, (SClass, NativeClass)) and isinstance(cls, (SClass, NativeClass)):
        return c.issubclass(cls)
    if isinstance(c, type) and isinstance(cls, type):
        return issubclass(c, cls)
    return False


def b_callable(I, o):
    IN = _I()
    if isinstance(o, (SFunc, IN.BoundMethod, IN.Builtin, SClass, NativeClass)):
        return True
    if hasattr(o, "tpv_call"):
        return True
    if isinstance(o, IN.SObj):
        c, m = I.find_method(o.cls, "__call__")
        return m is not None
    if isinstance(o, IN.Opaque):
        return False
    return callable(o) and not isinstance(o, Sym)


def _fold(I, xs, f):
    acc = None
    for x in xs:
        acc = x if acc is None else f(acc, x)
    return acc


def b_max(I, *args, **kw):
    IN = _I()
    xs = list(I.iterate(args[0])) if len(args) == 1 else list(args)
    if not xs:
        if "default" in kw:
            return kw["default"]
        raise IN.RaisedEx("ValueError", "max() arg is an empty sequence", I.ctx.loc)

    def mx(a, b):
        from .tlib import Tensor

        if isinstance(a, Tensor) or isinstance(b, Tensor):
            return b if I.truth(I.compare(ast.Gt(), b, a)) else a
        if isinstance(a, Sym) or isinstance(b, Sym):
            isf = "float" in (num_ty(a), num_ty(b))
            cv = zreal if isf else zint
            if I.ctx.entails(cv(b) >= cv(a), 250):
                return b
            if I.ctx.entails(cv(b) <= cv(a), 250):
                return a
            return concretize(Sym(z3.If(cv(b) > cv(a), cv(b), cv(a)), "float" if isf else "int"))
        return b if b > a else a

    return _fold(I, xs, mx)


def b_min(I, *args, **kw):
    IN = _I()
    xs = list(I.iterate(args[0])) if len(args) == 1 else list(args)
    if not xs:
        if "default" in kw:
            return kw["default"]
        raise IN.RaisedEx("ValueError", "min() arg is an empty sequence", I.ctx.loc)

    def mn(a, b):
        from .tlib import Tensor

        if isinstance(a, Tensor) or isinstance(b, Tensor):
            return b if I.truth(I.compare(ast.Lt(), b, a)) else a
        if isinstance(a, Sym) or isinstance(b, Sym):
            isf = "float" in (num_ty(a), num_ty(b))
            cv = zreal if isf else zint
            if I.ctx.entails(cv(b) <= cv(a), 250):
                return b
            if I.ctx.entails(cv(b) >= cv(a), 250):
                return a
            return concretize(Sym(z3.If(cv(b) < cv(a), cv(b), cv(a)), "float" if isf else "int"))
        return b if b < a else a

    return _fold(I, xs, mn)


def b_sum(I, xs, start=0):
    acc = start
    for x in I.iterate(xs):
        acc = I.binop(ast.Add(), acc, x)
    return acc


def b_abs(I, v):
    from .tlib import Tensor
    from . import tlib

    if isinstance(v, Tensor):
        return tlib.t_abs(I, v)
    if isinstance(v, Sym):
        if v.ty == "float":
            return Sym(z3.If(v.t >= 0, v.t, -v.t), "float")
        t = zint(v)
        return Sym(z3.If(t >= 0, t, -t), "int")
    return abs(v)


def _sym_rows_bool(I, xs, kind):
    """all()/any() of a tensor with a symbolic number of one-element rows: the exact quantifier-free encoding of
    torchlib.reduce_bool_symbolic (implication schema + Skolem witness)"""
    from .tlib import Tensor, ew1
    from . import torchlib

    if not isinstance(xs, Tensor) or xs.val.rank == 0 or xs.val.shape[0].concrete() is not None:
        return None
    v = xs.val
    if any(d.concrete() != 1 for d in v.shape[1:]):
        return None
    if v.dtype != "bool":
        v = ew1(v, lambda x: core.zreal(x) != 0, "bool")
    r = torchlib.reduce_bool_symbolic(I, v, list(range(v.rank)), False, kind)
    return Sym(r.at([]), "bool")


def b_all(I, xs):
    r = _sym_rows_bool(I, xs, "all")
    if r is not None:
        return r
    for x in I.iterate(xs):
        if not I.truth(x):
            return False
    return True


def b_any(I, xs):
    r = _sym_rows_bool(I, xs, "any")
    if r is not None:
        return r
    for x in I.iterate(xs):
        if I.truth(x):
            return True
    return False


def b_zip(I, *its, strict=False):
    seqs = [I.iterate(x) for x in its]
    return list(zip(*seqs))


def b_enumerate(I, it, start=0):
    return list(enumerate(I.iterate(it), start))


def b_sorted(I, it, key=None, reverse=False):
    xs = list(I.iterate(it))
    if key is not None:
        ks = [I.call(key, [x]) for x in xs]
        if _contains_special(ks):
            raise Unsupported("sorted with symbolic keys")
        order = sorted(range(len(xs)), key=lambda j: ks[j], reverse=reverse)
        return [xs[j] for j in order]
    if _contains_special(xs):
        raise Unsupported("sorted with symbolic content")
    return sorted(xs, reverse=reverse)


class Memoised:
    """functools.lru_cache / functools.cache around a repo function: calls with equal arguments return THE SAME
    object as the first such call (so in-place updates of a returned tensor are seen by every later caller).
    Keys: numbers / strings / None by value (symbolic numbers: decided by the path condition), objects and tensors by
    identity (torch.Tensor and plain classes hash by identity).  Eviction (maxsize) is not modelled: an evicted entry
    is recomputed, which for a deterministic function differs from a hit only in object identity -- a scenario that
    depends on that gets the never-evicting behaviour, the one every call sequence shorter than maxsize has."""

    def __init__(self, f):
        self.f = f
        self.entries = []

    def _same(self, I, a, b):
        from .tlib import Tensor

        if a is b:
            return True
        if is_sym(a) or is_sym(b):
            if isinstance(a, (str, type(None))) or isinstance(b, (str, type(None))):
                return False
            return I.decide(zt(a) == zt(b))
        if isinstance(a, (bool, int, float, str, type(None))) and isinstance(b, (bool, int, float, str, type(None))):
            return a == b  # Python's own key equality (1 == 1.0 == True share an entry unless typed=True)
        if isinstance(a, tuple) and isinstance(b, tuple):
            return len(a) == len(b) and all(self._same(I, x, y) for x, y in zip(a, b))
        if isinstance(a, (list, dict, set)) or isinstance(b, (list, dict, set)):
            raise _I().RaisedEx("TypeError", "unhashable type")
        IN = _I()
        for v in (a, b):
            if isinstance(v, IN.SObj) and (I.find_method(v.cls, "__eq__")[1] is not None or I.find_method(v.cls, "__hash__")[1] is not None):
                raise Unsupported("memoised function keyed by an object with its own __eq__/__hash__")
        return False

    def tpv_call(self, I, args, kwargs):
        key = (tuple(args), tuple(sorted(kwargs.items())))
        for k, v in self.entries:
            if len(k[0]) == len(key[0]) and [n for n, _ in k[1]] == [n for n, _ in key[1]] and all(self._same(I, x, y) for x, y in zip(k[0], key[0])) and all(self._same(I, x[1], y[1]) for x, y in zip(k[1], key[1])):
                return v
        v = I.call(self.f, list(args), dict(kwargs))
        self.entries.append((key, v))
        return v

    def tpv_getattr(self, I, name):
        IN = _I()
        if name == "cache_clear":
            return IN.Builtin("cache_clear", lambda I2: self.entries.clear())
        if name == "__wrapped__":
            return self.f
        return I.getattr(self.f, name)

    def __repr__(self):
        return f"<memoised {self.f!r}>"


def make_functools(I):
    IN = _I()
    B = IN.Builtin

    def lru_cache(I2, *a, **k):
        # @lru_cache  |  @lru_cache(maxsize=..., typed=...)
        if len(a) == 1 and not k and not isinstance(a[0], (int, type(None))) and not is_sym(a[0]):
            return Memoised(a[0])
        return B("lru_cache(...)", lambda I3, f: Memoised(f))

    def wraps(I2, wrapped, *a, **k):
        return B("wraps(...)", lambda I3, f: f)

    def partial(I2, f, *a, **k):
        return B("partial", lambda I3, *b, **kk: I3.call(f, list(a) + list(b), {**k, **kk}))

    return IN.StubModule("functools", {"lru_cache": B("lru_cache", lru_cache), "cache": B("cache", lambda I2, f: Memoised(f)), "wraps": B("wraps", wraps), "partial": B("partial", partial), "cached_property": B("cached_property", lambda I2, f: (_ for _ in ()).throw(Unsupported("cached_property outside a class body")))})


def b_getattr(I, o, name, *default):
    IN = _I()
    try:
        return I.getattr(o, name)
    except IN.RaisedEx as e:
        if e.kind == "AttributeError" and default:
            return default[0]
        raise


def b_hasattr(I, o, name):
    IN = _I()
    try:
        I.getattr(o, name)
        return True
    except IN.RaisedEx as e:
        if e.kind == "AttributeError":
            return False
        raise
    except Unsupported:
        raise


def b_setattr(I, o, name, v):
    I.setattr(o, name, v)


def b_print(I, *a, **k):
    return None


def b_id(I, o):
    return id(o)


def b_round(I, v, nd=None):
    if isinstance(v, Sym):
        raise Unsupported("round of symbolic value")
    return round(v) if nd is None else round(v, nd)


def b_iter(I, o):
    if hasattr(o, "tpv_sym_iter"):
        return o  # a symbolic family: consumed by a for-loop under contract
    return list(I.iterate(o))


def b_next(I, it, *default):
    IN = _I()
    if isinstance(it, IN.SObj):
        return I.call_method(it, "__next__", [])
    if isinstance(it, list):
        if it:
            return it.pop(0)
        if default:
            return default[0]
        raise IN.RaisedEx("StopIteration", "")
    raise Unsupported("next() on this object")


def b_map(I, f, *its):
    return [I.call(f, list(a)) for a in zip(*[I.iterate(x) for x in its])]


def b_filter(I, f, it):
    return [x for x in I.iterate(it) if I.truth(I.call(f, [x]) if f is not None else x)]


def b_reversed(I, it):
    return list(reversed(I.iterate(it)))


def b_divmod(I, a, b):
    return (I.binop(ast.FloorDiv(), a, b), I.binop(ast.Mod(), a, b))


def b_pow(I, a, b):
    return I.binop(ast.Pow(), a, b)


def b_super(I, *a):
    raise Unsupported("super() used as a value")


# ----------------------------------------------------------------------------- Counter / OrderedDict (Space bases)
def _native_dict(o):
    IN = _I()
    if isinstance(o, IN.SObj) and isinstance(o.native, dict):
        return o.native
    if isinstance(o, dict):
        return o
    return None


def make_collections(I):
    IN = _I()
    DictC = NativeClass("dict")
    OD = NativeClass("OrderedDict", [DictC])
    CounterC = NativeClass("Counter", [DictC])

    def alloc(I2, obj):
        if obj.native is None:
            obj.native = OrderedDict()

    DictC.native_methods["__alloc__"] = alloc

    def is_counter(o):
        return isinstance(o, IN.SObj) and o.cls.issubclass(CounterC)

    def is_od(o):
        return (isinstance(o, IN.SObj) and o.cls.issubclass(OD)) or isinstance(o, OrderedDict) and not isinstance(o, IN.SObj)

    def cget(I2, o, key):
        d = _native_dict(o)
        if key in d:
            return d[key]
        if is_counter(o):
            return 0
        raise IN.RaisedEx("KeyError", repr(key), I2.ctx.loc)

    # ---- dict protocol
    def d_init(I2, self, *args, **kwargs):
        d = self.native
        if args:
            src = args[0]
            m = _native_dict(src)
            if m is not None:
                d.update(m)
            elif src is not None:
                for kv in I2.iterate(src):
                    k, v = I2.iterate(kv)
                    d[k] = v
        d.update(kwargs)

    def counter_init(I2, self, iterable=None, **kwds):
        # Counter.__init__: super().__init__(); self.update(iterable, **kwds)
        counter_update(I2, self, iterable, **kwds)

    def counter_update(I2, self, iterable=None, **kwds):
        d = self.native
        if iterable is not None:
            m = _native_dict(iterable)
            if m is not None:
                if d:
                    for elem, count in list(m.items()):
                        d[elem] = I2.binop(ast.Add(), count, d.get(elem, 0))
                else:
                    for elem, count in m.items():
                        d[elem] = count
            else:
                for elem in I2.iterate(iterable):
                    d[elem] = I2.binop(ast.Add(), d.get(elem, 0), 1)
        if kwds:
            counter_update(I2, self, kwds)

    def d_contains(I2, self, key):
        if is_sym(key):
            raise Unsupported("symbolic key")
        try:
            return key in self.native
        except TypeError as e:
            raise IN.RaisedEx("TypeError", str(e), I2.ctx.loc)

    def d_getitem(I2, self, key):
        try:
            hash(key)
        except TypeError as e:
            raise IN.RaisedEx("TypeError", str(e), I2.ctx.loc)
        return cget(I2, self, key)

    def d_setitem(I2, self, key, v):
        self.native[key] = v

    def d_delitem(I2, self, key):
        if key in self.native:
            del self.native[key]
        elif not is_counter(self):
            raise IN.RaisedEx("KeyError", repr(key))

    def d_len(I2, self):
        return len(self.native)

    def d_iter(I2, self):
        return list(self.native.keys())

    def d_keys(I2, self):
        return self.native.keys()

    def d_values(I2, self):
        return self.native.values()

    def d_items(I2, self):
        return self.native.items()

    def d_get(I2, self, key, default=None):
        return self.native.get(key, default)

    def d_pop(I2, self, key, *default):
        if key in self.native:
            return self.native.pop(key)
        if default:
            return default[0]
        raise IN.RaisedEx("KeyError", repr(key))

    def d_copy(I2, self):
        o = I2.new_without_init(self.cls)
        o.native.update(self.native)
        return o

    def plain_counter(I2):
        o = IN.SObj(CounterC)
        o.native = OrderedDict()
        return o

    def dict_eq(I2, a, b):
        da, db = _native_dict(a), _native_dict(b)
        if da is None or db is None:
            return NotImplemented
        if set(da.keys()) != set(db.keys()):
            return False
        acc = True
        for k in da:
            acc = sym_and(acc, py_eq(I2, da[k], db[k]))
            if acc is False:
                return False
        return acc

    def od_eq(I2, self, other):
        r = dict_eq(I2, self, other)
        if r is NotImplemented or r is False:
            return r
        if is_od(other):
            if list(_native_dict(self).keys()) != list(_native_dict(other).keys()):
                return False
        return r

    def od_ne(I2, self, other):
        r = od_eq(I2, self, other)
        if r is NotImplemented:
            return r
        return sym_not(r)

    def counter_eq(I2, self, other):
        if not is_counter(other):
            return NotImplemented
        acc = True
        for c in (self, other):
            for e in _native_dict(c):
                acc = sym_and(acc, py_eq(I2, cget(I2, self, e), cget(I2, other, e)))
                if acc is False:
                    return False
        return acc

    def counter_add(I2, self, other):
        if not is_counter(other):
            return NotImplemented
        res = plain_counter(I2)
        for elem, count in self.native.items():
            nc = I2.binop(ast.Add(), count, cget(I2, other, elem))
            if I2.truth(I2.compare(ast.Gt(), nc, 0)):
                res.native[elem] = nc
        for elem, count in other.native.items():
            if elem not in self.native and I2.truth(I2.compare(ast.Gt(), count, 0)):
                res.native[elem] = count
        return res

    def counter_sub(I2, self, other):
        if not is_counter(other):
            return NotImplemented
        res = plain_counter(I2)
        for elem, count in self.native.items():
            nc = I2.binop(ast.Sub(), count, cget(I2, other, elem))
            if I2.truth(I2.compare(ast.Gt(), nc, 0)):
                res.native[elem] = nc
        for elem, count in other.native.items():
            if elem not in self.native and I2.truth(I2.compare(ast.Lt(), count, 0)):
                res.native[elem] = I2.binop(ast.Sub(), 0, count)
        return res

    def counter_and(I2, self, other):
        if not is_counter(other):
            return NotImplemented
        res = plain_counter(I2)
        for elem, count in self.native.items():
            oc = cget(I2, other, elem)
            nc = count if I2.truth(I2.compare(ast.Lt(), count, oc)) else oc
            if I2.truth(I2.compare(ast.Gt(), nc, 0)):
                res.native[elem] = nc
        return res

    def counter_or(I2, self, other):
        if not is_counter(other):
            return NotImplemented
        res = plain_counter(I2)
        for elem, count in self.native.items():
            oc = cget(I2, other, elem)
            nc = oc if I2.truth(I2.compare(ast.Lt(), count, oc)) else count
            if I2.truth(I2.compare(ast.Gt(), nc, 0)):
                res.native[elem] = nc
        for elem, count in other.native.items():
            if elem not in self.native and I2.truth(I2.compare(ast.Gt(), count, 0)):
                res.native[elem] = count
        return res

    DictC.native_methods.update(
        {
            "__init__": d_init,
            "__contains__": d_contains,
            "__getitem__": d_getitem,
            "__setitem__": d_setitem,
            "__delitem__": d_delitem,
            "__len__": d_len,
            "__iter__": d_iter,
            "keys": d_keys,
            "values": d_values,
            "items": d_items,
            "get": d_get,
            "pop": d_pop,
            "copy": d_copy,
            "__eq__": dict_eq,
            "update": lambda I2, self, *a, **k: d_init(I2, self, *a, **k),
        }
    )
    OD.native_methods.update({"__eq__": od_eq, "__ne__": od_ne})
    CounterC.native_methods.update(
        {
            "__init__": counter_init,
            "update": counter_update,
            "__eq__": counter_eq,
            "__add__": counter_add,
            "__sub__": counter_sub,
            "__and__": counter_and,
            "__or__": counter_or,
        }
    )
    return StubModuleT("collections", {"Counter": CounterC, "OrderedDict": OD})


def StubModuleT(name, table):
    return _I().StubModule(name, table)


def native_isinstance(I, o, cls):
    from .tlib import Tensor

    nm = cls.name
    if nm in ("torch.Tensor", "Tensor"):
        return isinstance(o, Tensor)
    if nm == "np.ndarray":
        from .torchlib import NumpyArray

        return isinstance(o, NumpyArray)
    if nm == "dict":
        return isinstance(o, dict)
    if nm == "Iterable":
        return isinstance(o, (list, tuple, dict, set, str))
    if nm == "numbers.Number":
        return is_num(o)
    return False


# ----------------------------------------------------------------------------- inspect / copy
class ArgSpec:
    def __init__(self, args, varargs, varkw, defaults, kwonlyargs, kwonlydefaults):
        self.args, self.varargs, self.varkw, self.defaults = args, varargs, varkw, defaults
        self.kwonlyargs, self.kwonlydefaults = kwonlyargs, kwonlydefaults
        self.annotations = {}

    def tpv_getattr(self, I, name):
        return getattr(self, name)


def getfullargspec(I, f):
    IN = _I()
    skip_self = False
    if isinstance(f, IN.BoundMethod):
        skip_self = True
        f = f.func
    if hasattr(f, "tpv_argspec"):
        return f.tpv_argspec(I)
    if isinstance(f, SFunc):
        a = f.node.args
        args = [x.arg for x in a.posonlyargs + a.args]
        if skip_self:
            args = args[1:]
        env = IN.Env(fn=f, module=f.module, parent=f.closure)
        defaults = tuple(I.eval(d, env) for d in a.defaults) or None
        kwonly = [x.arg for x in a.kwonlyargs]
        kwd = {x.arg: I.eval(d, env) for x, d in zip(a.kwonlyargs, a.kw_defaults) if d is not None} or None
        return ArgSpec(args, a.vararg.arg if a.vararg else None, a.kwarg.arg if a.kwarg else None, defaults, kwonly, kwd)
    if isinstance(f, IN.SObj):
        c, m = I.find_method(f.cls, "__call__")
        if m is not None and isinstance(m, ast.AST):
            return getfullargspec(I, IN.BoundMethod(f, SFunc(m, c.module, c, name="__call__")))
    raise IN.RaisedEx("TypeError", "unsupported callable for getfullargspec", I.ctx.loc)


def deepcopy(I, v, memo=None):
    from .tlib import Tensor

    IN = _I()
    if memo is None:
        memo = {}
    if isinstance(v, (type(None), bool, int, float, str, Sym, SFunc, SClass, NativeClass, IN.Builtin, type, slice, range)) or v is Ellipsis:
        return v
    if id(v) in memo:
        return memo[id(v)]
    if isinstance(v, IN.BoundMethod):
        return IN.BoundMethod(deepcopy(I, v.obj, memo), v.func)
    if hasattr(v, "tpv_deepcopy"):
        r = v.tpv_deepcopy(I, memo)
        memo[id(v)] = r
        return r
    if isinstance(v, list):
        r = []
        memo[id(v)] = r
        r.extend(deepcopy(I, x, memo) for x in v)
        return r
    if isinstance(v, tuple):
        r = tuple(deepcopy(I, x, memo) for x in v)
        return r
    if isinstance(v, dict):
        r = type(v)() if type(v) in (dict, OrderedDict) else {}
        memo[id(v)] = r
        for k, x in v.items():
            r[k] = deepcopy(I, x, memo)
        return r
    if isinstance(v, (set, frozenset)):
        return type(v)(deepcopy(I, x, memo) for x in v)
    if isinstance(v, Tensor):
        r = v.clone_cell()
        memo[id(v)] = r
        return r
    if isinstance(v, IN.SObj):
        c, m = I.find_method(v.cls, "__deepcopy__")
        if m is not None:
            r = I.call_resolved(c, m, "__deepcopy__", [v, memo], {})
            memo[id(v)] = r
            return r
        r = I.new_without_init(v.cls)
        memo[id(v)] = r
        if isinstance(v.native, dict):
            for k, x in v.native.items():
                r.native[k] = deepcopy(I, x, memo)
        elif v.native is not None:
            r.native = deepcopy(I, v.native, memo)
        for k, x in v.f.items():
            r.f[k] = deepcopy(I, x, memo)
        return r
    if isinstance(v, IN.Opaque):
        r = IN.Opaque(f"copy({v.name})")
        r.copy_of = v
        memo[id(v)] = r
        return r
    raise Unsupported(f"deepcopy of {type(v).__name__}")


def shallow_copy(I, v):
    from .tlib import Tensor

    IN = _I()
    if isinstance(v, list):
        return list(v)
    if isinstance(v, dict):
        return dict(v)
    if isinstance(v, set):
        return set(v)
    if isinstance(v, (tuple, str, int, float, bool, type(None), Sym)):
        return v
    if isinstance(v, IN.SObj):
        r = I.new_without_init(v.cls)
        if isinstance(v.native, dict):
            r.native.update(v.native)
        r.f.update(v.f)
        return r
    if isinstance(v, Tensor):
        return v.clone_cell()
    raise Unsupported("copy.copy of this object")


# ----------------------------------------------------------------------------- math
def m_ceil(I, v):
    from .tlib import Tensor
    from . import tlib

    if isinstance(v, Tensor):
        v = tlib.item_value(I, v)
    if isinstance(v, Sym):
        if v.ty != "float":
            return v
        return concretize(Sym(-z3.ToInt(-v.t), "int"))
    return math.ceil(v)


def m_floor(I, v):
    if isinstance(v, Sym):
        if v.ty != "float":
            return v
        return concretize(Sym(z3.ToInt(v.t), "int"))
    return math.floor(v)


def m_sqrt(I, v):
    from . import tlib

    if isinstance(v, Sym):
        return Sym(tlib.sqrt_term(zreal(v)), "float")
    return math.sqrt(v)


def m_isinf(I, v):
    if isinstance(v, Sym):
        return False
    return math.isinf(v)


# ----------------------------------------------------------------------------- install
def install(I):
    IN = _I()
    B = IN.Builtin
    table = {
        "len": B("len", b_len),
        "isinstance": B("isinstance", b_isinstance),
        "issubclass": B("issubclass", b_issubclass),
        "callable": B("callable", b_callable),
        "max": B("max", b_max),
        "min": B("min", b_min),
        "sum": B("sum", b_sum),
        "abs": B("abs", b_abs),
        "all": B("all", b_all),
        "any": B("any", b_any),
        "zip": B("zip", b_zip),
        "enumerate": B("enumerate", b_enumerate),
        "sorted": B("sorted", b_sorted),
        "getattr": B("getattr", b_getattr),
        "hasattr": B("hasattr", b_hasattr),
        "setattr": B("setattr", b_setattr),
        "print": B("print", b_print),
        "id": B("id", b_id),
        "round": B("round", b_round),
        "iter": B("iter", b_iter),
        "next": B("next", b_next),
        "map": B("map", b_map),
        "filter": B("filter", b_filter),
        "reversed": B("reversed", b_reversed),
        "divmod": B("divmod", b_divmod),
        "pow": B("pow", b_pow),
        "super": B("super", b_super),
        "repr": B("repr", lambda I2, o: "<repr>"),
        "int": int,
        "float": float,
        "bool": bool,
        "str": str,
        "list": list,
        "tuple": tuple,
        "dict": dict,
        "set": set,
        "frozenset": frozenset,
        "slice": slice,
        "range": range,
        "type": type,
        "object": object,
        "Ellipsis": Ellipsis,
        "NotImplemented": NotImplemented,
        "None": None,
        "True": True,
        "False": False,
    }
    import builtins as hb

    for nm in dir(hb):
        o = getattr(hb, nm)
        if isinstance(o, type) and issubclass(o, BaseException):
            table[nm] = IN.ExcClass(nm)
    I.repo.externals["builtins"] = IN.StubModule("builtins", table)
    I.repo.externals["collections"] = make_collections(I)
    I.repo.externals["abc"] = IN.StubModule(
        "abc", {"abstractmethod": B("abstractmethod", lambda I2, f: f), "ABC": NativeClass("ABC"), "ABCMeta": NativeClass("ABCMeta")}
    )
    I.repo.externals["warnings"] = IN.StubModule("warnings", {"warn": B("warn", lambda I2, *a, **k: None)})
    I.repo.externals["time"] = IN.StubModule("time", {"time": B("time", lambda I2: 0.0)})
    import itertools as _it

    I.repo.externals["itertools"] = IN.StubModule("itertools", {"product": B("itertools.product", lambda I2, *its, repeat=1: [tuple(c) for c in _it.product(*[I2.iterate(x) for x in its], repeat=repeat)]), "chain": B("itertools.chain", lambda I2, *its: [x for it_ in its for x in I2.iterate(it_)])})
    I.repo.externals["logging"] = IN.StubModule("logging", {})
    I.repo.externals["sys"] = IN.StubModule("sys", {})
    I.repo.externals["numbers"] = IN.StubModule("numbers", {"Number": NativeClass("numbers.Number")})
    I.repo.externals["typing"] = IN.StubModule("typing", {"Iterable": NativeClass("Iterable"), "Dict": dict, "List": list, "Callable": NativeClass("Callable")})
    def _isfunction(I2, o):
        from .spec import UserFn, RowFn

        return isinstance(o, (UserFn, RowFn, SFunc))

    I.repo.externals["inspect"] = IN.StubModule("inspect", {"getfullargspec": B("getfullargspec", getfullargspec), "isfunction": B("isfunction", _isfunction), "signature": B("signature", lambda I2, f: (_ for _ in ()).throw(Unsupported("inspect.signature")))})
    # weak dictionaries behave like dictionaries as long as their keys are alive (they are, during one scenario)
    I.repo.externals["functools"] = make_functools(I)
    I.repo.externals["weakref"] = IN.StubModule("weakref", {"WeakKeyDictionary": dict, "WeakValueDictionary": dict})
    I.repo.externals["copy"] = IN.StubModule("copy", {"deepcopy": B("deepcopy", deepcopy), "copy": B("copy", shallow_copy)})
    from . import tlib

    I.repo.externals["math"] = IN.StubModule(
        "math",
        {
            "pi": tlib.PI_SYM,
            "inf": math.inf,
            "ceil": B("ceil", m_ceil),
            "floor": B("floor", m_floor),
            "sqrt": B("sqrt", m_sqrt),
            "isinf": B("isinf", m_isinf),
        },
    )
