"""tpv torchlib: the `torch` and `numpy` namespaces as seen by interpreted repo code, and the
attributes/methods of tensors.  Every entry is an assumed contract of the real library (A3)."""
import ast
import math

import z3

from . import core
from .core import Sym, STensor, Dim, Unsupported, zint, zreal, zbool, dim_of, concretize, const_tensor, uninterp_tensor
from . import tlib, tshape, tsum
from .tlib import Tensor, lift, zero_index
from .loader import NativeClass


def _IN():
    from . import interp

    return interp


DTYPES = {"float": "real", "float32": "real", "float64": "real", "double": "real", "long": "int", "int": "int", "int64": "int", "int32": "int", "bool": "bool"}


class DType:
    def __init__(self, name, kind):
        self.name, self.kind = name, kind

    def __repr__(self):
        return f"torch.{self.name}"


# ----------------------------------------------------------------------------- float width (ghost)
# The value model has ONE kind "real" for float32 and float64 (A1).  Which of the two a tensor is, is tracked as a
# ghost attribute of the cell, meta["fw"] in {32, 64, None = unknown}, by torch's type-promotion rules: constructors
# without dtype= make float32, *_like / views / reductions keep the width, binary operations and cat / stack take the
# widest operand (python scalars do not count), an IN-PLACE operation and an item assignment keep the width of their
# target (torch rounds the result into it), autograd.grad returns the width of the variable.  No rounding is modelled:
# the ghost only lets a contract say "the result has the precision of the inputs".
_FW_CTORS = {"zeros", "ones", "empty", "full", "eye", "linspace", "rand", "randn", "tensor", "as_tensor", "FloatTensor", "normal"}
_FW_NAMES = {"float64": 64, "double": 64, "float32": 32, "float": 32}


def fw_of(x):
    return x.meta.get("fw") if isinstance(x, Tensor) else None


def _fw_tensors(xs, out):
    for x in xs:
        if isinstance(x, Tensor):
            out.append(x)
        elif isinstance(x, (list, tuple)):
            _fw_tensors(x, out)
    return out


def fw_join(args):
    ts = [t for t in _fw_tensors(args, []) if t.val.dtype == "real"]
    if not ts:
        return None
    ws = [t.meta.get("fw") for t in ts]
    return None if any(w is None for w in ws) else max(ws)


def fw_mark(res, w, args=()):
    """set the width of freshly made result cells (a result that IS one of the arguments -- in-place ops, .to() of
    the same dtype -- keeps what it has)"""
    ins = _fw_tensors(args, [])
    for r in _fw_tensors([res] if not isinstance(res, (list, tuple)) else res, []):
        if any(r is a for a in ins) or r.val.dtype != "real":
            continue
        if "fw" not in r.meta:
            r.meta["fw"] = w
    if hasattr(res, "values") and hasattr(res, "indices") and not isinstance(res, dict):
        fw_mark(getattr(res, "values"), w, args)
    return res


def fw_wrap(name, fn):
    base = name.split(".")[-1]

    def g(I, *a, **k):
        res = fn(I, *a, **k)
        try:
            dt = k.get("dtype")
            if isinstance(dt, DType):
                w = _FW_NAMES.get(dt.name)
            elif base in _FW_CTORS:
                w = 32
                if base in ("tensor", "as_tensor") and a and isinstance(a[0], Tensor):
                    w = fw_of(a[0])
            elif base in ("float",):
                w = 32
            elif base in ("double",):
                w = 64
            elif base in ("to", "type"):
                dts = [x for x in list(a) + list(k.values()) if isinstance(x, DType)]
                w = _FW_NAMES.get(dts[0].name) if dts else fw_join(a[:1])
            else:
                w = fw_join(list(a) + list(k.values()))
            fw_mark(res, w, list(a) + list(k.values()))
        except Unsupported:
            pass
        return res

    return g


def dtype_kind(dt, default=None):
    if dt is None:
        return default
    if isinstance(dt, DType):
        return dt.kind
    if dt is bool:
        return "bool"
    if dt is int:
        return "int"
    if dt is float:
        return "real"
    raise Unsupported(f"dtype {dt!r}")


def cast(a, kind):
    a = lift(a)
    if kind is None or a.dtype == kind:
        return a
    if kind == "int" and a.dtype == "real":
        return tlib.ew1(a, lambda x: z3.If(x >= 0, z3.ToInt(x), -z3.ToInt(-x)), "int")
    return tlib.ew1(a, lambda x: core.conv(x, kind), kind)


def _shape_arg(I, args):
    if len(args) == 1 and isinstance(args[0], (list, tuple)):
        args = list(args[0])
    out = []
    for s in args:
        if isinstance(s, Tensor):
            s = tlib.item_value(I, s)
        if isinstance(s, float):
            raise _IN().RaisedEx("TypeError", "size must be int, got float", I.ctx.loc)
        out.append(s)
    return out


def _dims(I, sizes):
    IN = _IN()
    dims = []
    for s in sizes:
        if isinstance(s, Sym):
            if s.ty == "float":
                raise IN.RaisedEx("TypeError", "size must be int, got float", I.ctx.loc)
            if not I.ctx.entails(zint(s) >= 0):
                if not I.decide(zint(s) >= 0):
                    raise IN.RaisedEx("RuntimeError", "Trying to create tensor with negative dimension", I.ctx.loc)
        elif isinstance(s, int) and s < 0:
            raise IN.RaisedEx("RuntimeError", "Trying to create tensor with negative dimension", I.ctx.loc)
        dims.append(dim_of(s))
    return dims


def _full(I, sizes, value, dtype):
    dims = _dims(I, sizes)
    v = core.conv(value, dtype)
    return Tensor(STensor(dims, lambda idx: v, dtype))


def t_zeros(I, *size, dtype=None, device=None, requires_grad=False, **kw):
    return _full(I, _shape_arg(I, size), 0, dtype_kind(dtype, "real"))


def t_ones(I, *size, dtype=None, device=None, requires_grad=False, **kw):
    return _full(I, _shape_arg(I, size), 1, dtype_kind(dtype, "real"))


def t_empty(I, *size, dtype=None, device=None, **kw):
    dims = _dims(I, _shape_arg(I, size))
    return Tensor(uninterp_tensor("empty", dims, dtype_kind(dtype, "real")))


def t_full(I, size, fill_value, dtype=None, device=None, **kw):
    kind = dtype_kind(dtype, None)
    if kind is None:
        kind = lift(fill_value).dtype if not isinstance(fill_value, (int, float, bool)) else ("bool" if isinstance(fill_value, bool) else ("int" if isinstance(fill_value, int) else "real"))
    if isinstance(fill_value, Tensor):
        fill_value = tlib.item_value(I, fill_value)
    return _full(I, _shape_arg(I, [size]), fill_value, kind)


def t_zeros_like(I, a, dtype=None, **kw):
    a = lift(a)
    v = core.conv(0, dtype_kind(dtype, a.dtype))
    return Tensor(STensor(a.shape, lambda idx: v, dtype_kind(dtype, a.dtype)))


def t_ones_like(I, a, dtype=None, **kw):
    a = lift(a)
    v = core.conv(1, dtype_kind(dtype, a.dtype))
    return Tensor(STensor(a.shape, lambda idx: v, dtype_kind(dtype, a.dtype)))


def t_tensor(I, data, dtype=None, device=None, requires_grad=False, **kw):
    IN = _IN()
    if isinstance(data, Tensor):
        v = data.val
    elif isinstance(data, IN.SObj) and "_t" in data.f:
        v = data.f["_t"].val
    elif isinstance(data, (list, tuple, bool, int, float, Sym)):
        v = lift(data)
    elif isinstance(data, NumpyArray):
        v = data.val
    else:
        raise IN.RaisedEx("TypeError", f"torch.tensor: unsupported data {type(data).__name__}", I.ctx.loc)
    v = cast(v, dtype_kind(dtype, None))
    t = Tensor(v)
    if requires_grad:
        t.set_attr(I, "requires_grad", True)
    return t


def t_as_tensor(I, data, dtype=None, device=None, **kw):
    if isinstance(data, Tensor) and (dtype is None or dtype_kind(dtype) == data.val.dtype):
        return data
    return t_tensor(I, data, dtype=dtype)


def t_arange(I, *args, dtype=None, device=None, **kw):
    IN = _IN()
    args = [tlib.item_value(I, a) if isinstance(a, Tensor) else a for a in args]
    if len(args) == 1:
        lo, hi, st = 0, args[0], 1
    elif len(args) == 2:
        lo, hi, st = args[0], args[1], 1
    else:
        lo, hi, st = args
    if all(isinstance(x, int) for x in (lo, hi, st)):
        vals = list(range(lo, hi, st))
        kind = dtype_kind(dtype, "int")
        return Tensor(cast(tlib.tensor_from_nested(vals) if vals else STensor([Dim([0])], lambda idx: z3.IntVal(0), "int"), kind))
    if not (isinstance(st, int) and st == 1):
        raise Unsupported("symbolic arange with step")
    isf = any(isinstance(x, float) or (isinstance(x, Sym) and x.ty == "float") for x in (lo, hi))
    if isf:
        raise Unsupported("symbolic float arange")
    n = zint(hi) - zint(lo)
    if not I.ctx.entails(n >= 0):
        if not I.decide(n >= 0):
            raise IN.RaisedEx("RuntimeError", "upper bound and larger bound inconsistent with step sign", I.ctx.loc)
    lo_t = zint(lo)
    d = dim_of(z3.simplify(n))
    if len(d.factors) > 1:
        d = Dim([z3.simplify(n)])
    kind = dtype_kind(dtype, "int")

    def fn(idx):
        j = idx[0][0] if idx[0] else 0
        return core.conv(lo_t + zint(j), kind)

    return Tensor(STensor([d], fn, kind))


def t_linspace(I, start, end, steps, dtype=None, device=None, **kw):
    IN = _IN()
    start = tlib.item_value(I, start) if isinstance(start, Tensor) else start
    end = tlib.item_value(I, end) if isinstance(end, Tensor) else end
    if isinstance(steps, Tensor):
        steps = tlib.item_value(I, steps)
    if isinstance(steps, float) or (isinstance(steps, Sym) and steps.ty == "float"):
        raise IN.RaisedEx("TypeError", "linspace(): steps must be int", I.ctx.loc)
    if isinstance(steps, int) and steps < 0 or (isinstance(steps, Sym) and not I.ctx.entails(zint(steps) >= 0) and not I.decide(zint(steps) >= 0)):
        raise IN.RaisedEx("RuntimeError", "number of steps must be non-negative", I.ctx.loc)
    a, b = zreal(start), zreal(end)
    n = steps
    d = dim_of(n)
    if len(d.factors) > 1:
        d = Dim([zint(n)])

    def fn(idx):
        j = idx[0][0] if idx[0] else 0
        if isinstance(n, int):
            if n == 1:
                return a
            return a + zreal(j) * (b - a) / core.realval(n - 1)
        nn = zint(n)
        return z3.If(nn == 1, a, a + zreal(j) * (b - a) / zreal(nn - 1))

    return Tensor(STensor([d], fn, "real"))


def t_eye(I, n, m=None, **kw):
    if not isinstance(n, int):
        raise Unsupported("symbolic eye")
    m = n if m is None else m
    return Tensor(STensor([Dim([n]), Dim([m])], lambda idx: z3.If(zint(idx[0][0] if idx[0] else 0) == zint(idx[1][0] if idx[1] else 0), z3.RealVal(1), z3.RealVal(0)), "real"))


def t_rand(I, *size, device=None, dtype=None, requires_grad=False, **kw):
    dims = _dims(I, _shape_arg(I, size))

    def on(idx, v):
        I.ctx.axiom(z3.And(v >= 0, v < 1))

    t = Tensor(uninterp_tensor("rand", dims, "real", on, random=True))
    I.ctx.ghost.setdefault("rand", []).append(Tensor(t.val))  # snapshot: the cell may be updated in place
    return t


def t_rand_like(I, a, **kw):
    a = lift(a)

    def on(idx, v):
        I.ctx.axiom(z3.And(v >= 0, v < 1))

    t = Tensor(uninterp_tensor("rand", a.shape, "real", on, random=True))
    I.ctx.ghost.setdefault("rand", []).append(Tensor(t.val))  # snapshot: the cell may be updated in place
    return t


class NormalDist:
    """torch.distributions.normal.Normal(loc, scale): sample(shape) is an ARBITRARY real tensor of shape
    shape + broadcast(loc, scale).shape (the support of the normal law is all of R; its law is not modelled)"""

    def __init__(self, I, loc, scale):
        self.batch = tlib.bshape(I, lift(loc).shape, lift(scale).shape)[0]

    def tpv_getattr(self, I, name):
        if name == "sample":
            return _IN().Builtin("Normal.sample", lambda I2, sample_shape=(): Tensor(uninterp_tensor("normal", _dims(I2, _shape_arg(I2, [sample_shape])) + list(self.batch), "real", random=True)))
        raise Unsupported(f"Normal.{name}")


def t_randn(I, *size, **kw):
    dims = _dims(I, _shape_arg(I, size))
    return Tensor(uninterp_tensor("randn", dims, "real", random=True))


def t_randperm(I, n, device=None, **kw):
    """a permutation of 0..n-1: range + injectivity (pairwise, on access) + inverse function"""
    if isinstance(n, Tensor):
        n = tlib.item_value(I, n)
    d = dim_of(n)
    if len(d.factors) > 1:
        d = Dim([zint(n)])
    f = z3.Function(core.random_name("perm"), z3.IntSort(), z3.IntSort())
    inv = z3.Function(core.random_name("perminv"), z3.IntSort(), z3.IntSort())
    nn = zint(n)

    def fn(idx):
        j = zint(idx[0][0] if idx[0] else 0)
        v = f(j)
        I.ctx.axiom(z3.Implies(z3.And(j >= 0, j < nn), z3.And(v >= 0, v < nn, inv(v) == j)))
        return v

    t = Tensor(STensor([d], fn, "int", "randperm"))
    t.meta["perm"] = (f, inv, nn)
    I.ctx.ghost["last_perm"] = (f, inv, nn)
    I.ctx.ghost.setdefault("perms", []).append((f, inv, nn))
    return t


def t_sort(I, a, dim=-1, descending=False, **kw):
    """torch.sort of a 1-D tensor (assumed contract A3): values[j] = a[pi(j)] for a permutation pi of the indices
    (left inverse, as for randperm) and values are monotone (instantiated for neighbours on access)"""
    a = lift(a)
    if a.rank != 1 or len(a.shape[0].factors) > 1:
        raise Unsupported("sort of a tensor that is not 1-D")
    nn = a.shape[0].size_term()
    f = z3.Function(core.fresh_name("sortperm"), z3.IntSort(), z3.IntSort())
    inv = z3.Function(core.fresh_name("sortinv"), z3.IntSort(), z3.IntSort())
    cv = zreal if a.dtype == "real" else zint

    def val(j):
        p = f(j)
        I.ctx.axiom(z3.Implies(z3.And(j >= 0, j < nn), z3.And(p >= 0, p < nn, inv(p) == j)))
        return cv(a.at([(p,) if a.shape[0].factors else ()]))

    def fn(idx):
        j = zint(idx[0][0] if idx[0] else 0)
        v = val(j)
        nxt = val(j + 1)
        I.ctx.axiom(z3.Implies(z3.And(j >= 0, j + 1 < nn), (v >= nxt) if descending else (v <= nxt)))
        return v

    def fi(idx):
        j = zint(idx[0][0] if idx[0] else 0)
        val(j)
        return f(j)

    return MinMaxResult(Tensor(STensor([a.shape[0]], fn, a.dtype, "sort.values")), Tensor(STensor([a.shape[0]], fi, "int", "sort.indices")))


def _ew1(fterm, dom=None):
    def g(I, a, **kw):
        a = lift(a)
        if dom is not None:
            idx, hyps = a.generic_index("dm")
            I.ctx.safety("dom", dom(zreal(a.at(idx))), hyps, "argument in domain")
        return Tensor(tlib.ew1(a, lambda x: fterm(zreal(x)), "real"))

    return g


def t_sqrt(I, a):
    return Tensor(tlib.t_sqrt(I, a))


def t_square(I, a):
    a = lift(a)
    return Tensor(tlib.ew1(a, lambda x: x * x))


def t_sign(I, a):
    a = lift(a)
    return Tensor(tlib.ew1(a, lambda x: z3.If(zreal(x) > 0, z3.RealVal(1), z3.If(zreal(x) < 0, z3.RealVal(-1), z3.RealVal(0))), "real"))


def t_relu(I, a, **kw):
    a = lift(a)
    return Tensor(tlib.ew1(a, lambda x: z3.If(zreal(x) > 0, zreal(x), z3.RealVal(0)), "real"))


def t_clamp(I, a, min=None, max=None):
    a = lift(a)
    out = a
    if min is not None:
        out = tlib.ew2(I, out, lift(min), lambda x, y: z3.If(zreal(x) < zreal(y), zreal(y), zreal(x)), "real")
    if max is not None:
        out = tlib.ew2(I, out, lift(max), lambda x, y: z3.If(zreal(x) > zreal(y), zreal(y), zreal(x)), "real")
    return Tensor(out)


def t_ceil(I, a):
    a = lift(a)
    if a.dtype != "real":
        return Tensor(a)
    return Tensor(tlib.ew1(a, lambda x: z3.ToReal(-z3.ToInt(-x)), "real"))


def t_floor(I, a):
    a = lift(a)
    if a.dtype != "real":
        return Tensor(a)
    return Tensor(tlib.ew1(a, lambda x: z3.ToReal(z3.ToInt(x)), "real"))


def t_maximum(I, a, b):
    dt = tlib.promote(lift(a).dtype, lift(b).dtype)
    cv = zreal if dt == "real" else zint
    return Tensor(tlib.ew2(I, a, b, lambda x, y: z3.If(cv(x) >= cv(y), cv(x), cv(y)), dt))


def t_minimum(I, a, b):
    dt = tlib.promote(lift(a).dtype, lift(b).dtype)
    cv = zreal if dt == "real" else zint
    return Tensor(tlib.ew2(I, a, b, lambda x, y: z3.If(cv(x) <= cv(y), cv(x), cv(y)), dt))


def _cmp(opcls):
    return lambda I, a, b: tlib.compare(I, opcls(), a, b)


def _bin(opcls):
    return lambda I, a, b, **kw: tlib.binop(I, opcls(), a if isinstance(a, Tensor) else Tensor(lift(a)), b)


def t_logical_and(I, a, b):
    return Tensor(tlib.ew2(I, a, b, lambda x, y: z3.And(zbool(x), zbool(y)), "bool"))


def t_logical_or(I, a, b):
    return Tensor(tlib.ew2(I, a, b, lambda x, y: z3.Or(zbool(x), zbool(y)), "bool"))


def t_logical_not(I, a):
    return tlib.logical_not_t(a)


def t_isclose(I, a, b, rtol=1e-05, atol=1e-08, equal_nan=False):
    return Tensor(tlib.ew2(I, a, b, lambda x, y: tlib.isclose_term(x, y, rtol, atol), "bool"))


def t_where(I, cond, a=None, b=None):
    if a is None and b is None:
        return tshape.where_rows(I, cond)
    c = lift(cond)
    la, lb = lift(a), lift(b)
    dt = tlib.promote(la.dtype, lb.dtype)
    ab = tlib.ew2(I, la, lb, lambda x, y: (core.conv(x, dt), core.conv(y, dt)), dt)
    shape, mc, mab = tlib.bshape(I, c.shape, ab.shape)

    def fn(idx):
        cc = zbool(c.at(tlib._opidx(idx, mc, c.shape)))
        x, y = ab.at(tlib._opidx(idx, mab, ab.shape))
        return z3.If(cc, x, y)

    return Tensor(STensor(shape, fn, dt))


def t_equal(I, a, b):
    """torch.equal: same shape and all elements equal (python bool / symbolic bool)"""
    a, b = lift(a), lift(b)
    if a.rank != b.rank:
        return False
    conds = []
    for da, db in zip(a.shape, b.shape):
        if da.same(db):
            continue
        eq = da.size_term() == db.size_term()
        if not I.decide(eq):
            return False
        if len(da.factors) != len(db.factors):
            raise Unsupported("torch.equal with different factorisation")
    n = a.numel_concrete()
    cv = (lambda x: x) if (a.dtype == b.dtype) else zreal
    if n is not None:
        if n == 0:
            return True
        acc = []
        for idx in a.all_indices():
            acc.append(cv(a.at(idx)) == cv(b.at(idx)))
        return concretize(Sym(z3.And(acc), "bool"))
    # symbolic: universally quantified equality as an opaque boolean with an instantiation schema
    e = z3.Bool(core.fresh_name("tequal"))

    def schema(idx):
        return z3.Implies(e, cv(a.at(idx)) == cv(b.at(idx)))

    I.ctx.schema(("equal", list(a.shape)), schema)
    gi, hy = a.generic_index("ne")
    for h in hy:
        I.ctx.axiom(z3.Implies(z3.Not(e), h))
    I.ctx.axiom(z3.Implies(z3.Not(e), cv(a.at(gi)) != cv(b.at(gi))))
    return Sym(e, "bool")


def _reduce(I, a, dim, keepdim, kind):
    IN = _IN()
    a = lift(a)
    axes = tshape._reduce_axes(I, a, dim)
    if kind in ("sum", "mean"):
        dt = "real" if (kind == "mean" or a.dtype == "real") else "int"
        cv = zreal if dt == "real" else zint
        r = tshape.reduce_concrete(I, a, dim, keepdim, lambda x, y: cv(x) + cv(y), None, dt)
        if r is not None:
            out, cnt = r
            if cnt == 0:
                z = cv(0)
                out = STensor(out.shape, lambda idx: z, dt)
                if kind == "mean":
                    I.ctx.safety("div", False, [], "mean of an empty tensor")
            elif kind == "mean":
                out = tlib.ew1(out, lambda x: zreal(x) / core.realval(cnt), "real")
            else:
                out = tlib.ew1(out, cv, dt)
            return Tensor(out)
        conc = [k for k in axes if a.shape[k].concrete() is not None]
        symb = [k for k in axes if a.shape[k].concrete() is None]
        if conc and symb and kind == "sum":
            # unroll the concrete axes, then one symbolic sum over the remaining ones
            part = tshape.reduce_concrete(I, a, conc, True, lambda x, y: cv(x) + cv(y), None, dt)[0]
            out = tsum.reduce_sum(I, part, symb, True)
            if not keepdim:
                for k in sorted(axes, reverse=True):
                    out = tshape.squeeze_axis(out, k)
            return Tensor(out)
        return Tensor(tsum.reduce_sum(I, a, axes, keepdim, mean=(kind == "mean")))
    if kind in ("min", "max"):
        is_max = kind == "max"
        cv = zreal if a.dtype == "real" else zint
        comb = (lambda x, y: z3.If(cv(y) > cv(x), cv(y), cv(x))) if is_max else (lambda x, y: z3.If(cv(y) < cv(x), cv(y), cv(x)))
        r = tshape.reduce_concrete(I, a, dim, keepdim, comb)
        if r is not None:
            out, cnt = r
            if cnt == 0:
                raise IN.RaisedEx("RuntimeError", f"{kind}(): Expected reduction dim to be specified for input.numel() == 0", I.ctx.loc)
            return Tensor(out)
        return Tensor(tsum.reduce_minmax(I, a, axes, keepdim, is_max))
    if kind in ("all", "any"):
        comb = (lambda x, y: z3.And(zbool(x), zbool(y))) if kind == "all" else (lambda x, y: z3.Or(zbool(x), zbool(y)))
        r = tshape.reduce_concrete(I, a, dim, keepdim, comb, None, "bool")
        if r is not None:
            out, cnt = r
            if cnt == 0:
                v = z3.BoolVal(kind == "all")
                out = STensor(out.shape, lambda idx: v, "bool")
            else:
                out = tlib.ew1(out, zbool, "bool")
            return Tensor(out)
        return Tensor(reduce_bool_symbolic(I, a, axes, keepdim, kind))
    raise Unsupported(kind)


def reduce_bool_symbolic(I, a, axes, keepdim, kind):
    rest = [k for k in range(a.rank) if k not in axes]
    if rest:
        raise Unsupported("all/any over a symbolic axis with remaining axes")
    e = z3.Bool(core.fresh_name(kind))
    if kind == "all":
        I.ctx.schema(("all", list(a.shape)), lambda idx: z3.Implies(e, zbool(a.at(idx))))
        gi, hy = a.generic_index("na")
        I.ctx.axiom(z3.Implies(z3.Not(e), z3.And(hy + [z3.Not(zbool(a.at(gi)))])))
    else:
        I.ctx.schema(("any", list(a.shape)), lambda idx: z3.Implies(z3.Not(e), z3.Not(zbool(a.at(idx)))))
        gi, hy = a.generic_index("ea")
        I.ctx.axiom(z3.Implies(e, z3.And(hy + [zbool(a.at(gi))])))
    shape = [Dim([]) for _ in a.shape] if keepdim else []
    return STensor(shape, lambda idx: e, "bool")


def t_sum(I, a, dim=None, keepdim=False, axis=None, **kw):
    r = _reduce(I, a, dim if dim is not None else axis, keepdim, "sum")
    av = lift(a)
    if av.dtype == "bool" and dim is None and axis is None and av.rank >= 1 and isinstance(a, Tensor):
        # the number of True entries of a mask IS the number of positions torch.where / boolean indexing select
        try:
            sel = tshape.where_rows(I, a)[0].meta["sel"][0]
            I.ctx.axiom(zint(r.val.at([() for _ in r.val.shape])) == zint(sel.count))
        except Unsupported:
            pass
    return r


def t_mean(I, a, dim=None, keepdim=False, axis=None, **kw):
    return _reduce(I, a, dim if dim is not None else axis, keepdim, "mean")


def t_all(I, a, dim=None, keepdim=False):
    return _reduce(I, a, dim, keepdim, "all")


def t_any(I, a, dim=None, keepdim=False):
    return _reduce(I, a, dim, keepdim, "any")


def _minmax(kind):
    def g(I, a, dim=None, keepdim=False, **kw):
        if isinstance(dim, Tensor):
            return (t_maximum if kind == "max" else t_minimum)(I, a, dim)
        r = _reduce(I, a, dim, keepdim, kind)
        if dim is not None:
            return MinMaxResult(r, None)
        return r

    return g


class MinMaxResult:
    def __init__(self, values, indices):
        self.values, self.indices = values, indices

    def tpv_getattr(self, I, name):
        if name == "values":
            return self.values
        if name == "indices":
            if self.indices is None:
                raise Unsupported("indices of min/max")
            return self.indices
        raise _IN().RaisedEx("AttributeError", name)

    def tpv_getitem(self, I, k):
        if k == 0:
            return self.values
        raise Unsupported("indices of min/max")

    def tpv_iter(self, I):
        raise Unsupported("unpacking min/max result (indices)")


def t_norm(I, a, ord=None, dim=None, keepdim=False, **kw):
    a = lift(a)
    if ord not in (None, 2, "fro"):
        raise Unsupported("norm order")
    sq = tlib.ew1(a, lambda x: zreal(x) * zreal(x), "real")
    s = _reduce(I, sq, dim, keepdim, "sum")
    return Tensor(tlib.ew1(s.val, lambda x: tlib.sqrt_term(x), "real"))


def t_solve(I, A, B):
    """linalg.solve: returns X with A X = B, requires A invertible (safety obligation det != 0 for 2x2;
    otherwise X is characterised implicitly)."""
    A, B = lift(A), lift(B)
    n = A.shape[-1].concrete()
    if n is None or A.shape[-2].concrete() != n:
        raise Unsupported("solve with symbolic matrix size")
    batch = A.shape[:-2]
    vec = B.rank == A.rank - 1
    Bm = B if not vec else tshape.unsqueeze(I, B, B.rank)
    m = Bm.shape[-1].concrete()
    if m is None:
        raise Unsupported("solve with symbolic rhs columns")
    bshape_, ma, mb = tlib.bshape(I, batch, Bm.shape[:-2])
    nb = sum(len(d.factors) for d in bshape_)
    fs = [[z3.Function(core.fresh_name(f"solve_{i}_{j}"), *([z3.IntSort()] * nb + [z3.RealSort()])) if nb else z3.Real(core.fresh_name(f"solve_{i}_{j}")) for j in range(m)] for i in range(n)]

    def x_at(bi, i, j):
        flat = [zint(c) for comp in bi for c in comp]
        return fs[i][j](*flat) if nb else fs[i][j]

    def a_at(bi, i, k):
        ia = tlib._opidx(bi, ma, batch)
        return zreal(A.at(ia + [(i,) if n != 1 else (), (k,) if n != 1 else ()]))

    def b_at(bi, i, j):
        ib = tlib._opidx(bi, mb, Bm.shape[:-2])
        return zreal(Bm.at(ib + [(i,) if n != 1 else (), (j,) if m != 1 else ()]))

    def det(bi):
        if n == 1:
            return a_at(bi, 0, 0)
        if n == 2:
            return a_at(bi, 0, 0) * a_at(bi, 1, 1) - a_at(bi, 0, 1) * a_at(bi, 1, 0)
        if n == 3:
            a = lambda i, k: a_at(bi, i, k)
            return a(0, 0) * (a(1, 1) * a(2, 2) - a(1, 2) * a(2, 1)) - a(0, 1) * (a(1, 0) * a(2, 2) - a(1, 2) * a(2, 0)) + a(0, 2) * (a(1, 0) * a(2, 1) - a(1, 1) * a(2, 0))
        raise Unsupported("solve for n > 3")

    # safety: invertible
    gi, hy = STensor(bshape_, None).generic_index("sv") if bshape_ else ([], [])
    I.ctx.safety("div", det(gi) != 0, hy, "matrix invertible")

    def fn(idx):
        bi = idx[: len(bshape_)]
        i = idx[len(bshape_)][0] if n != 1 else 0
        j = (idx[len(bshape_) + 1][0] if m != 1 else 0) if not vec else 0
        for ii in range(n):
            for jj in range(m):
                I.ctx.axiom(z3.Implies(det(bi) != 0, sum((a_at(bi, ii, k) * x_at(bi, k, jj) for k in range(n)), z3.RealVal(0)) == b_at(bi, ii, jj)))
        pieces = [[(lambda ii=ii, jj=jj: x_at(bi, ii, jj)) for jj in range(m)] for ii in range(n)]
        return core.select_comp(i, n, [(lambda ii=ii: core.select_comp(j, m, pieces[ii])) for ii in range(n)])

    shape = bshape_ + [Dim([n])] + ([] if vec else [Dim([m])])
    return Tensor(STensor(shape, fn, "real"))


def t_inv(I, A):
    """linalg.inv: the solution X of A X = 1 (requires A invertible, as linalg.solve)"""
    A = lift(A)
    n = A.shape[-1].concrete()
    if n is None:
        raise Unsupported("inv with symbolic matrix size")
    nb = A.rank - 2
    eye = STensor(list(A.shape[:-2]) + [Dim([n]), Dim([n])], lambda idx: z3.If(zint(idx[nb][0] if idx[nb] else 0) == zint(idx[nb + 1][0] if idx[nb + 1] else 0), z3.RealVal(1), z3.RealVal(0)), "real")
    return t_solve(I, A, eye)


def t_cat(I, ts, dim=0, **kw):
    if "axis" in kw:
        dim = kw["axis"]
    ts = I.iterate(ts)
    out = Tensor(tshape.cat(I, ts, dim))
    out.meta["cat_of"] = [x for x in ts if isinstance(x, Tensor)]
    return out


def t_stack(I, ts, dim=0):
    return Tensor(tshape.stack(I, I.iterate(ts), dim))


def t_column_stack(I, ts):
    return Tensor(tshape.column_stack(I, I.iterate(ts)))


def t_meshgrid(I, *ts, indexing="ij"):
    if len(ts) == 1 and isinstance(ts[0], (list, tuple)):
        ts = list(ts[0])
    ts = [lift(t) for t in ts]
    if indexing != "ij":
        raise Unsupported("meshgrid xy indexing")
    shape = [t.shape[0] if t.rank else Dim([]) for t in ts]
    outs = []
    for k, t in enumerate(ts):
        outs.append(Tensor(STensor(shape, (lambda idx, k=k, t=t: t.at([idx[k]] if t.rank else [])), t.dtype)))
    return tuple(outs)


def t_index_select(I, a, dim, index):
    a = lift(a)
    k = tshape.norm_axis(I, dim, a.rank)
    key = [slice(None)] * k + [index]
    return tshape.getitem(I, Tensor(a), tuple(key))


def t_repeat_interleave(I, a, repeats, dim=None):
    IN = _IN()
    if isinstance(a, IN.SObj) and "_t" in a.f:
        a = a.f["_t"]  # Points.__torch_function__ : unwrap to the tensor
    return Tensor(tshape.repeat_interleave(I, a, repeats, dim))


def t_diag(I, a):
    a = lift(a)
    if a.rank != 1 or a.shape[0].concrete() is None:
        raise Unsupported("torch.diag of this input")
    n = a.shape[0].concrete()
    d = Dim([n])

    def fn(idx):
        i = idx[0][0] if n != 1 else 0
        j = idx[1][0] if n != 1 else 0
        return z3.If(zint(i) == zint(j), zreal(a.at([idx[0]])), z3.RealVal(0))

    return Tensor(STensor([d, d], fn, "real"))


def t_narrow(I, t, dim, start, length):
    a = lift(t)
    k = tshape.norm_axis(I, dim, a.rank)
    key = [slice(None)] * k + [slice(start, I.binop(ast.Add(), start, length))]
    return tshape.getitem(I, t if isinstance(t, Tensor) else Tensor(a), tuple(key))


def t_view_as(I, t, other):
    spec = [d.size() for d in lift(other).shape]
    return _reshaped(I, t, tshape.reshape(I, t.val, spec), lambda bv: tshape.reshape(I, bv, spec))


def t_numel(I, a):
    v = lift(a)
    tot = 1
    for d in v.shape:
        tot = I.binop(ast.Mult(), tot, d.size())
    return tot


class NoGrad:
    def tpv_call(self, I, args, kwargs):
        return self

    def tpv_enter(self, I):
        pass


class NumpyArray:
    def __init__(self, val):
        self.val = val


# ----------------------------------------------------------------------------- tensor attributes
# private names torch.Tensor really defines (dir(torch.Tensor) of the pinned torch, names with one leading underscore):
# asking for one of these is "unmodelled", any other private name is an AttributeError unless the program stored it
_REAL_PRIVATE_TENSOR_ATTRS = frozenset(
    """_addmm_activation _autocast_to_full_precision _autocast_to_reduced_precision _backward_hooks _base _cdata
    _clear_non_serializable_cached_data _coalesced_ _conj _conj_physical _dimI _dimV _fix_weakref _grad _grad_fn
    _has_symbolic_sizes_strides _indices _is_all_true _is_any_true _is_view _is_zerotensor _lazy_clone _make_subclass
    _make_wrapper_subclass _namedtensor_internals _neg_view _nested_tensor_size _nested_tensor_storage_offsets
    _nested_tensor_strides _nnz _philox_normal_ _philox_uniform_ _dtensor__new__ _post_accumulate_grad_hooks _python_dispatch _reduce_ex_internal _rev_view_func_unsafe
    _sparse_mask_projection _to_dense _to_sparse _to_sparse_bsc _to_sparse_bsr _to_sparse_csc _to_sparse_csr
    _typed_storage _update_names _use_count _values _version _view_func _view_func_unsafe""".split()
)


_MF_NAMES = None


def _method_function_names():
    global _MF_NAMES
    if _MF_NAMES is None:
        import json as _json, os as _os

        try:
            _MF_NAMES = set(_json.load(open(_os.path.join(_os.path.dirname(_os.path.abspath(__file__)), "tensor_methods_also_functions.json"))))
        except Exception:
            _MF_NAMES = set()
        _MF_NAMES -= {"where"}
    return _MF_NAMES


def tensor_attr(I, t, name):
    IN = _IN()
    B = IN.Builtin
    v = t.val
    if name == "shape":
        return tuple(d.size() for d in v.shape)
    if name == "device":
        return "cpu"
    if name == "dtype":
        if v.dtype == "real" and t.meta.get("fw") == 64:
            return TORCH_DTYPES["float64"]  # float width ghost
        return TORCH_DTYPES[{"real": "float32", "int": "int64", "bool": "bool"}[v.dtype]]
    if name == "requires_grad":
        return t.requires_grad
    if name == "ndim":
        return v.rank
    if name == "T":
        return _permuted(I, t, list(range(v.rank))[::-1])
    if name == "mT":
        if v.rank < 2:
            raise IN.RaisedEx("RuntimeError", "tensor.mT is only supported on matrices or batches of matrices")
        return _m_transpose(I, t, -1, -2)
    if name == "data":
        return _m_detach(I, t)
    if name == "grad_fn":
        from . import autograd

        return autograd.grad_fn_of(I, t)
    if name == "is_leaf":
        return "deps" not in t.meta
    if name == "grad":
        return t.meta.get("grad")
    if name in t.meta.get("pyattrs", ()):
        return t.meta["pyattrs"][name]
    M = TENSOR_METHODS.get(name)
    if M is None and name.endswith("_") and not name.startswith("_"):
        # x.op_(...) : the in-place form of an element-wise method / function -- computes x.op(...) and writes the
        # result into x (through views into the base)
        base = name[:-1]
        f = TENSOR_METHODS.get(base)
        if f is None and base == "reciprocal":
            def f(I2, tt):
                idx, hyps = tt.val.generic_index("rc")
                I2.ctx.safety("div", zreal(tt.val.at(idx)) != 0, hyps, "reciprocal of non-zero")
                return Tensor(tlib.ew1(tt.val, lambda x: 1 / zreal(x), "real"))
        if f is None and base == "zero":
            f = lambda I2, tt: Tensor(tlib.ew1(tt.val, lambda x: core.conv(0, tt.val.dtype), tt.val.dtype))
        if f is None:
            g = I.repo.externals["torch"].table.get(base)
            if g is not None and isinstance(g, B):
                f = lambda I2, tt, *a, **k: g.fn(I2, tt, *a, **k)
        if f is not None:
            def M(I2, tt, *a, _f=f, **k):
                r = _f(I2, tt, *a, **k)
                rv = lift(r)
                if [d.concrete() if d.concrete() is not None else str(d.size_term()) for d in rv.shape] != [d.concrete() if d.concrete() is not None else str(d.size_term()) for d in tt.val.shape]:
                    raise Unsupported(f"in-place {name} changing the shape")
                tt.val = rv
                return tt
    if M is None and name in _method_function_names():
        # x.f(...) where torch.f(x, ...) is modelled and torch documents the method as the function with `self` first
        # (names taken from the installed torch: tpv/tensor_methods_also_functions.json; `where` differs: self is not
        # the condition)
        g = I.repo.externals["torch"].table.get(name)
        if g is not None and isinstance(g, B):
            M = lambda I2, tt, *a, _g=g, **k: _g.fn(I2, tt, *a, **k)
    if M is None:
        if name.startswith("_") and not name.startswith("__") and name not in _REAL_PRIVATE_TENSOR_ATTRS:
            raise IN.RaisedEx("AttributeError", f"'Tensor' object has no attribute '{name}'")
        raise Unsupported(f"tensor.{name} has no model")
    return B(f"Tensor.{name}", lambda I2, *a, **k: fw_wrap(name, M)(I2, t, *a, **k))


def _same_factors(a, b):
    fa = [core._norm_factor(f) for d in a for f in d.factors]
    fb = [core._norm_factor(f) for d in b for f in d.factors]
    return len(fa) == len(fb) and all((x == y) if isinstance(x, int) and isinstance(y, int) else (not isinstance(x, int) and not isinstance(y, int) and z3.eq(x, y)) for x, y in zip(fa, fb))


def _reshaped(I, t, val, fwd):
    """reshape / view / flatten / squeeze / unsqueeze: a view when t is contiguous or only size-1 axes change"""
    if t.contig or _same_factors(t.val.shape, val.shape):
        return tlib.make_view(t, val, fwd, lambda bv, nv: tshape.reshape(I, nv, list(bv.shape)), t.contig)
    return tlib.maybe_alias(t, val)


def _m_reshape(I, t, *shape):
    spec = _shape_arg(I, shape)
    return _keep(t, _reshaped(I, t, tshape.reshape(I, t.val, spec), lambda bv: tshape.reshape(I, bv, spec)))


def _keep(src, out):
    """propagate ghost autograd information through structural ops"""
    if "deps" in src.meta or src.requires_grad:
        out.meta["view_of"] = src
    return out


def _m_size(I, t, dim=None):
    if dim is None:
        return tuple(d.size() for d in t.val.shape)
    return t.val.shape[tshape.norm_axis(I, dim, t.val.rank)].size()


def _m_to(I, t, *a, **k):
    kind = None
    for x in list(a) + list(k.values()):
        if isinstance(x, DType):
            kind = x.kind
    if kind is None:
        return t
    if kind == t.val.dtype:
        # the model has one kind per dtype family (float32 and float64 are both "real"): torch returns the tensor
        # itself when it already has the requested dtype and a converted COPY otherwise -- both are explored
        if I.choose(2, "to(dtype): same tensor | converted copy") == 0:
            return t
        return Tensor(t.val, t.requires_grad)
    return Tensor(cast(t.val, kind))


def _m_item(I, t):
    return tlib.item_value(I, t)


def _m_tolist(I, t):
    v = t.val
    if v.numel_concrete() is None:
        raise Unsupported("tolist of symbolic-size tensor")
    ty = {"real": "float", "int": "int", "bool": "bool"}[v.dtype]

    def rec(prefix, k):
        if k == v.rank:
            return concretize(Sym(v.at(prefix), ty))
        d = v.shape[k]
        n = d.concrete()
        return [rec(prefix + [(j,) if n != 1 else ()], k + 1) for j in range(n)]

    return rec([], 0)


def _m_repeat(I, t, *reps):
    return Tensor(tshape.repeat(I, t.val, _shape_arg(I, reps)))


def _m_expand(I, t, *sizes):
    sz = _shape_arg(I, sizes)
    return tlib.make_view(t, tshape.expand(I, t.val, sz), lambda bv: tshape.expand(I, bv, sz), None, False)


def _m_unsqueeze(I, t, dim):
    return _keep(t, _reshaped(I, t, tshape.unsqueeze(I, t.val, dim), lambda bv: tshape.unsqueeze(I, bv, dim)))


def _m_squeeze(I, t, dim=None):
    return _keep(t, _reshaped(I, t, tshape.squeeze(I, t.val, dim), lambda bv: tshape.squeeze(I, bv, dim)))


def _m_clone(I, t, **kw):
    return _keep(t, Tensor(t.val))


def _m_detach(I, t):
    return tlib.make_view(t, t.val, lambda bv: bv, lambda bv, nv: nv, t.contig)


def _m_fill(I, t, value):
    v = core.conv(value if not isinstance(value, Tensor) else tlib.item_value(I, value), t.val.dtype)
    t.val = STensor(t.val.shape, lambda idx: v, t.val.dtype)
    return t


def _m_dim(I, t):
    return t.val.rank


def _m_numel(I, t):
    return t_numel(I, t)


def _m_flatten(I, t, start_dim=0, end_dim=-1):
    r = t.val.rank
    s, e = tshape.norm_axis(I, start_dim, r), tshape.norm_axis(I, end_dim, r)
    sizes = [d.size() for d in t.val.shape]
    spec = sizes[:s] + [-1] + sizes[e + 1 :]
    return _reshaped(I, t, tshape.reshape(I, t.val, spec), lambda bv: tshape.reshape(I, bv, spec))


def _m_requires_grad_(I, t, flag=True):
    t.set_attr(I, "requires_grad", flag)
    return t


def _m_copy_(I, t, src):
    t.val = tlib.broadcast_to(I, lift(src), t.val.shape)
    return t


def _permuted(I, t, order):
    order = [tshape.norm_axis(I, k, t.val.rank) for k in order]
    inv = [order.index(k) for k in range(len(order))] if sorted(order) == list(range(len(order))) else None
    val = tshape.permute(I, t.val, order)
    return _keep(t, tlib.make_view(t, val, lambda bv: tshape.permute(I, bv, order), lambda bv, nv: tshape.permute(I, nv, inv), t.contig and order == sorted(order)))


def _m_permute(I, t, *order):
    return _permuted(I, t, _shape_arg(I, order))


def _m_transpose(I, t, a, b):
    r = t.val.rank
    order = list(range(r))
    a, b = tshape.norm_axis(I, a, r), tshape.norm_axis(I, b, r)
    order[a], order[b] = order[b], order[a]
    return _permuted(I, t, order)


def _wrap(f):
    return lambda I, t, *a, **k: f(I, t, *a, **k)


def _inplace(opcls):
    def g(I, t, other, **kw):
        return tlib.binop(I, opcls(), t, other, inplace=True)

    return g


def _m_new_filled(value):
    """x.new_zeros / new_ones(size): a fresh tensor of x's dtype (and float width) filled with `value`"""

    def f(I, t, *size, dtype=None, device=None, requires_grad=False, **kw):
        kind = dtype_kind(dtype, lift(t).dtype)
        r = _full(I, _shape_arg(I, size), value, kind)
        if dtype is None and kind == "real":
            r.meta["fw"] = t.meta.get("fw")
        return r

    return f


def _m_new_full(I, t, size, fill_value, dtype=None, device=None, **kw):
    kind = dtype_kind(dtype, lift(t).dtype)
    if isinstance(fill_value, Tensor):
        fill_value = tlib.item_value(I, fill_value)
    r = _full(I, _shape_arg(I, [size]), fill_value, kind)
    if dtype is None and kind == "real":
        r.meta["fw"] = t.meta.get("fw")
    return r


def _m_select(I, t, dim, index):
    """x.select(dim, i) = x[(slice(None),) * dim + (i,)] (a view)"""
    a = lift(t)
    k = tshape.norm_axis(I, dim, a.rank)
    return tshape.getitem(I, t if isinstance(t, Tensor) else Tensor(a), tuple([slice(None)] * k + [index]))


def t_nonzero(I, t, as_tuple=False, **kw):
    if as_tuple is not True:
        raise Unsupported("nonzero(as_tuple=False)")
    return tshape.where_rows(I, t)


def _amm(I, a, dim, keepdim, kind):
    """amin / amax: the values of min / max over `dim` (all axes when dim is None)"""
    if isinstance(dim, (list, tuple)):
        if len(dim) != 1:
            raise Unsupported("amin/amax over several axes")
        dim = dim[0]
    return _reduce(I, a, dim, keepdim, kind)


def _t_flip_fn(I, a, dims):
    if not isinstance(dims, (list, tuple)):
        raise _IN().RaisedEx("TypeError", "flip(): argument 'dims' must be tuple of ints")
    return Tensor(tshape.flip(I, a, dims))


def t_vstack(I, ts):
    ts = I.iterate(ts)
    if any(lift(x).rank < 2 for x in ts):
        raise Unsupported("vstack of tensors with fewer than two axes")
    return t_cat(I, ts, 0)


def t_hstack(I, ts):
    ts = I.iterate(ts)
    if any(lift(x).rank < 2 for x in ts):
        raise Unsupported("hstack of tensors with fewer than two axes")
    return t_cat(I, ts, 1)


TENSOR_METHODS = {
    "reshape": _m_reshape,
    "view": _m_reshape,
    "size": _m_size,
    "to": _m_to,
    "cpu": lambda I, t: t,
    "cuda": lambda I, t, *a, **k: t,
    "float": lambda I, t: t if t.val.dtype == "real" else Tensor(cast(t.val, "real")),
    "double": lambda I, t: t if t.val.dtype == "real" else Tensor(cast(t.val, "real")),
    "long": lambda I, t: t if t.val.dtype == "int" else Tensor(cast(t.val, "int")),
    "int": lambda I, t: t if t.val.dtype == "int" else Tensor(cast(t.val, "int")),
    "bool": lambda I, t: t if t.val.dtype == "bool" else Tensor(cast(t.val, "bool")),
    "type": lambda I, t, dt=None: t if dt is None else Tensor(cast(t.val, dtype_kind(dt))),
    "item": _m_item,
    "tolist": _m_tolist,
    "repeat": _m_repeat,
    "expand": _m_expand,
    "unsqueeze": _m_unsqueeze,
    "squeeze": _m_squeeze,
    "clone": _m_clone,
    "detach": _m_detach,
    "contiguous": lambda I, t: t if t.contig else Tensor(t.val),
    "fill_": _m_fill,
    "dim": _m_dim,
    "numel": _m_numel,
    "flatten": _m_flatten,
    "requires_grad_": _m_requires_grad_,
    "copy_": _m_copy_,
    "permute": _m_permute,
    "transpose": _m_transpose,
    "sum": t_sum,
    "mean": t_mean,
    "min": _minmax("min"),
    "max": _minmax("max"),
    "all": t_all,
    "any": t_any,
    "abs": lambda I, t: tlib.t_abs(I, t),
    "sqrt": t_sqrt,
    "square": t_square,
    "pow": lambda I, t, e: Tensor(tlib.power(I, t, e)),
    "add_": _inplace(ast.Add),
    "sub_": _inplace(ast.Sub),
    "mul_": _inplace(ast.Mult),
    "div_": _inplace(ast.Div),
    "pow_": _inplace(ast.Pow),
    "add": _bin(ast.Add),
    "sub": _bin(ast.Sub),
    "mul": _bin(ast.Mult),
    "div": _bin(ast.Div),
    "matmul": lambda I, t, o: Tensor(tshape.matmul(I, t.val, lift(o))),
    "norm": t_norm,
    "index_select": t_index_select,
    "repeat_interleave": t_repeat_interleave,
    "isclose": t_isclose,
    "logical_not": t_logical_not,
    "numpy": lambda I, t: NumpyArray(t.val),
    "__len__": lambda I, t: t.val.shape[0].size(),
    "view_as": t_view_as,
    "expand_as": lambda I, t, other: Tensor(tshape.expand(I, t.val, [d.size() for d in lift(other).shape])),
    "narrow": t_narrow,
    "select": _m_select,
    "flip": lambda I, t, *dims, **kw: Tensor(tshape.flip(I, t, kw["dims"] if "dims" in kw else (dims[0] if len(dims) == 1 and isinstance(dims[0], (list, tuple)) else list(dims)))),
    "amin": lambda I, a, dim=None, keepdim=False: _amm(I, a, dim, keepdim, "min"),
    "amax": lambda I, a, dim=None, keepdim=False: _amm(I, a, dim, keepdim, "max"),
    "new_zeros": _m_new_filled(0),
    "new_ones": _m_new_filled(1),
    "new_full": _m_new_full,
    "nonzero": t_nonzero,
    "neg": lambda I, t: Tensor(tlib.ew1(t.val, lambda x: -zreal(x), "real")),
    "tanh": lambda I, t: Tensor(tlib.ew1(t.val, lambda x: tlib.tanh_term(zreal(x)), "real")),
}

TORCH_DTYPES = {k: DType(k, v) for k, v in DTYPES.items()}
TORCH_DTYPES["cfloat"] = DType("cfloat", "complex")


# ----------------------------------------------------------------------------- numpy
def np_prod(I, xs, **kw):
    xs = I.iterate(xs)
    if not xs:
        return 1.0
    acc = 1
    for x in xs:
        acc = I.binop(ast.Mult(), acc, x)
    return acc


def np_ceil(I, v):
    from . import pylib

    if isinstance(v, Tensor):
        return t_ceil(I, v)
    r = pylib.m_ceil(I, v)
    if isinstance(r, int):
        return float(r)
    if isinstance(r, Sym):
        return Sym(zreal(r), "float")
    return r


def np_sqrt(I, v):
    if isinstance(v, Sym):
        return Sym(tlib.sqrt_term(zreal(v)), "float")
    if isinstance(v, Tensor):
        return t_sqrt(I, v)
    # irrational constants stay symbolic so that exact identities (sqrt(x)^2 = x) are available
    if isinstance(v, (int, float)):
        r = math.sqrt(v)
        if r == int(r):
            return r
        return Sym(tlib.sqrt_term(core.realval(v)), "float")
    raise Unsupported("np.sqrt argument")


def np_cbrt(I, v):
    if isinstance(v, Sym):
        return Sym(tlib.cbrt_term(zreal(v)), "float")
    if isinstance(v, Tensor):
        return Tensor(tlib.ew1(lift(v), lambda x: tlib.cbrt_term(zreal(x)), "real"))
    r = round(abs(v) ** (1.0 / 3.0))
    if r ** 3 == abs(v):
        return math.copysign(r, v)
    return Sym(tlib.cbrt_term(core.realval(v)), "float")


def np_lcm(I, a, b):
    if isinstance(a, int) and isinstance(b, int):
        return math.lcm(a, b)
    from . import speclib

    return speclib.lcm_sym(I, a, b)


def install(I):
    IN = _IN()
    B = IN.Builtin
    S = IN.StubModule
    TensorC = NativeClass("torch.Tensor")
    FloatTensorC = NativeClass("torch.Tensor")
    FloatTensorC.native_methods["__new__"] = lambda I2, cls, data: t_tensor(I2, data, dtype=float)
    tbl = {
        "Tensor": TensorC,
        "FloatTensor": FloatTensorC,
        "LongTensor": TensorC,
        "Size": tuple,
        "tensor": B("tensor", t_tensor),
        "as_tensor": B("as_tensor", t_as_tensor),
        "from_numpy": B("from_numpy", lambda I2, a: Tensor(a.val)),
        "zeros": B("zeros", t_zeros),
        "ones": B("ones", t_ones),
        "empty": B("empty", t_empty),
        "full": B("full", t_full),
        "zeros_like": B("zeros_like", t_zeros_like),
        "ones_like": B("ones_like", t_ones_like),
        "arange": B("arange", t_arange),
        "linspace": B("linspace", t_linspace),
        "eye": B("eye", t_eye),
        "rand": B("rand", t_rand),
        "rand_like": B("rand_like", t_rand_like),
        "randn": B("randn", t_randn),
        "randperm": B("randperm", t_randperm),
        "sqrt": B("sqrt", t_sqrt),
        "cos": B("cos", _ew1(lambda x: tlib.cos_sin(x)[0])),
        "sin": B("sin", _ew1(lambda x: tlib.cos_sin(x)[1])),
        "arccos": B("arccos", _ew1(tlib.acos_term, lambda x: z3.And(x >= -1, x <= 1))),
        "acos": B("acos", _ew1(tlib.acos_term, lambda x: z3.And(x >= -1, x <= 1))),
        "exp": B("exp", _ew1(tlib.exp_term)),
        "tanh": B("tanh", _ew1(tlib.tanh_term)),
        "abs": B("abs", lambda I2, a: tlib.t_abs(I2, a)),
        "absolute": B("absolute", lambda I2, a: tlib.t_abs(I2, a)),
        "square": B("square", t_square),
        "sign": B("sign", t_sign),
        "relu": B("relu", t_relu),
        "clamp": B("clamp", t_clamp),
        "ceil": B("ceil", t_ceil),
        "floor": B("floor", t_floor),
        "pow": B("pow", lambda I2, a, e: Tensor(tlib.power(I2, a, e))),
        "maximum": B("maximum", t_maximum),
        "minimum": B("minimum", t_minimum),
        "add": B("add", _bin(ast.Add)),
        "subtract": B("subtract", _bin(ast.Sub)),
        "sub": B("sub", _bin(ast.Sub)),
        "multiply": B("multiply", _bin(ast.Mult)),
        "mul": B("mul", _bin(ast.Mult)),
        "divide": B("divide", _bin(ast.Div)),
        "div": B("div", _bin(ast.Div)),
        "matmul": B("matmul", lambda I2, a, b: Tensor(tshape.matmul(I2, lift(a), lift(b)))),
        "bmm": B("bmm", lambda I2, a, b: Tensor(tshape.matmul(I2, lift(a), lift(b)))),
        "le": B("le", _cmp(ast.LtE)),
        "lt": B("lt", _cmp(ast.Lt)),
        "ge": B("ge", _cmp(ast.GtE)),
        "gt": B("gt", _cmp(ast.Gt)),
        "eq": B("eq", _cmp(ast.Eq)),
        "ne": B("ne", _cmp(ast.NotEq)),
        "logical_and": B("logical_and", t_logical_and),
        "logical_or": B("logical_or", t_logical_or),
        "logical_not": B("logical_not", t_logical_not),
        "isclose": B("isclose", t_isclose),
        "where": B("where", t_where),
        "equal": B("equal", t_equal),
        "sum": B("sum", t_sum),
        "mean": B("mean", t_mean),
        "min": B("min", _minmax("min")),
        "max": B("max", _minmax("max")),
        "all": B("all", t_all),
        "any": B("any", t_any),
        "cat": B("cat", t_cat),
        "vstack": B("vstack", t_vstack),
        "amin": B("amin", lambda I2, a, dim=None, keepdim=False: _amm(I2, a, dim, keepdim, "min")),
        "amax": B("amax", lambda I2, a, dim=None, keepdim=False: _amm(I2, a, dim, keepdim, "max")),
        "hstack": B("hstack", t_hstack),
        "nonzero": B("nonzero", t_nonzero),
        "select": B("select", _m_select),
        "stack": B("stack", t_stack),
        "column_stack": B("column_stack", t_column_stack),
        "meshgrid": B("meshgrid", t_meshgrid),
        "reshape": B("reshape", lambda I2, a, shape: _m_reshape(I2, a if isinstance(a, Tensor) else Tensor(lift(a)), shape)),
        "permute": B("permute", lambda I2, a, order: _m_permute(I2, a if isinstance(a, Tensor) else Tensor(lift(a)), order)),
        "transpose": B("transpose", lambda I2, a, d0, d1: _m_transpose(I2, a if isinstance(a, Tensor) else Tensor(lift(a)), d0, d1)),
        "flip": B("flip", lambda I2, a, dims: _t_flip_fn(I2, a, dims)),
        "unsqueeze": B("unsqueeze", lambda I2, a, dim: _m_unsqueeze(I2, a if isinstance(a, Tensor) else Tensor(lift(a)), dim)),
        "squeeze": B("squeeze", lambda I2, a, dim=None: _m_squeeze(I2, a if isinstance(a, Tensor) else Tensor(lift(a)), dim)),
        "repeat_interleave": B("repeat_interleave", t_repeat_interleave),
        "index_select": B("index_select", t_index_select),
        "sort": B("sort", t_sort),
        "aminmax": B("aminmax", lambda I2, a, dim=None, keepdim=False: (_reduce(I2, a, dim, keepdim, "min"), _reduce(I2, a, dim, keepdim, "max"))),
        "numel": B("numel", t_numel),
        "diag": B("diag", t_diag),
        "is_tensor": B("is_tensor", lambda I2, o: isinstance(o, Tensor)),
        "no_grad": NoGrad(),
        "set_grad_enabled": NoGrad(),
        "linalg": S("torch.linalg", {"norm": B("linalg.norm", t_norm), "solve": B("linalg.solve", t_solve), "inv": B("linalg.inv", t_inv)}),
        "distributions": S("torch.distributions", {"normal": S("torch.distributions.normal", {"Normal": B("Normal", lambda I2, loc=0.0, scale=1.0, **kw: NormalDist(I2, loc, scale))})}),
    }
    for _k, _v in list(tbl.items()):
        if isinstance(_v, B) and _k not in ("is_tensor", "numel", "manual_seed"):
            tbl[_k] = B(_v.name, fw_wrap(_k, _v.fn))
    tbl.update(TORCH_DTYPES)
    torch = S("torch", tbl)
    I.repo.externals["torch"] = torch
    np_tbl = {
        "pi": tlib.PI_SYM,
        "prod": B("np.prod", np_prod),
        "ceil": B("np.ceil", np_ceil),
        "sqrt": B("np.sqrt", np_sqrt),
        "lcm": B("np.lcm", np_lcm),
        "cbrt": B("np.cbrt", np_cbrt),
        "ndarray": NativeClass("np.ndarray"),
        "inf": math.inf,
    }
    I.repo.externals["numpy"] = S("numpy", np_tbl)
    from . import nnlib, autograd

    nnlib.install(I, torch)
    def _grad(I2, outputs, inputs, *a, **k):
        res = autograd.grad(I2, outputs, inputs, *a, **k)
        ins = list(inputs) if isinstance(inputs, (list, tuple)) else [inputs]
        for r, x in zip(res, ins):
            if isinstance(r, Tensor) and "fw" not in r.meta:
                r.meta["fw"] = fw_of(x)  # a gradient has the dtype of the variable
        return res

    torch.table["autograd"].table["grad"] = B("autograd.grad", _grad)
