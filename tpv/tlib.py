"""tpv tlib (part 1): tensor heap cell, broadcasting, element-wise operations, math functions.

These are the ASSUMED contracts of torch (A3): real arithmetic, exact broadcasting rules.
"""
import ast

import z3

from . import core
from .core import Sym, STensor, Dim, Unsupported, zint, zreal, zbool, conv, const_tensor, dim_of, concretize, ctx


def _IN():
    from . import interp

    return interp


class Tensor:
    """heap cell holding an (immutable) lazy tensor value; identity matters for in-place ops.

    Aliasing: a cell made by a VIEW operation of torch (basic indexing, reshape / view / flatten of a contiguous
    tensor, squeeze / unsqueeze, permute / transpose / T, detach / .data, expand, narrow) shares the storage of its
    base: it is a lens (fwd, bwd) on the base cell -- reading recomputes it from the base's current value, an in-place
    update is written back into the base (and so on up the chain).  `contig` records whether the memory layout is
    known to be contiguous: reshape of a non-contiguous tensor is a view or a copy depending on strides the model does
    not track, such a result is a copy that may not be written to, nor read after its base changed (Unsupported)."""

    def __init__(self, val, requires_grad=False):
        self._val = val
        self._view = None  # (base cell, fwd(base value) -> value, bwd(base value, new value) -> new base value | None)
        self._cache = None
        self._maybe = None  # (base cell, base value at creation): aliasing undetermined
        self.contig = True
        self.requires_grad = requires_grad
        self.meta = {}

    @property
    def val(self):
        if self._view is None:
            if self._maybe is not None and self._maybe[0].val is not self._maybe[1]:
                raise Unsupported("read of a reshape of a non-contiguous tensor after its base was updated in place (view or copy depends on strides)")
            return self._val
        base, fwd, _ = self._view
        bv = base.val
        if self._cache is None or self._cache[0] is not bv:
            self._cache = (bv, fwd(bv))
        return self._cache[1]

    @val.setter
    def val(self, v):
        if self._view is None:
            if self._maybe is not None:
                raise Unsupported("in-place update of a reshape of a non-contiguous tensor (view or copy depends on strides)")
            self._val = v
            return
        base, fwd, bwd = self._view
        if bwd is None:
            raise Unsupported("in-place update through this kind of view (expand)")
        base.val = bwd(base.val, v)
        self._cache = (base.val, v)

    def rebind(self, v):
        """`t.data = other`: the cell points to new storage, views of the old storage are unaffected"""
        self._view, self._cache, self._maybe, self.contig = None, None, None, True
        self._val = v

    def clone_cell(self):
        t = Tensor(self.val, self.requires_grad)
        t.meta = dict(self.meta)
        return t

    def set_attr(self, I, name, v):
        if name == "requires_grad":
            self.requires_grad = bool(I.truth(v))
            if self.requires_grad and "leaf" not in self.meta:
                self.meta["leaf"] = core.fresh_name("leaf")
                from . import autograd

                autograd.register_leaf(I, self)
            return
        if name == "data":
            self.rebind(lift(v))
            return
        if name == "grad":
            self.meta["grad"] = v
            return
        if name.startswith("_") and not name.startswith("__"):
            # a private Python attribute stored in the tensor's __dict__ (real tensors accept them)
            self.meta.setdefault("pyattrs", {})[name] = v
            return
        raise Unsupported(f"set tensor.{name}")

    def __repr__(self):
        return f"Tensor({self.val})"


def make_view(base, value, fwd, bwd, contig):
    """the cell of a torch view of `base` (current value `value` = fwd(base.val))"""
    t = Tensor(None)
    t._view = (base, fwd, bwd)
    t._cache = (base.val, value)
    t.contig = contig
    return t


def maybe_alias(base, value):
    """a result that torch makes a view or a copy depending on strides (reshape of a non-contiguous tensor)"""
    t = Tensor(value)
    t._maybe = (base, base.val)
    return t


def T(x):
    return x.val if isinstance(x, Tensor) else x


def lift(x):
    """anything tensor-like -> STensor"""
    if isinstance(x, Tensor):
        return x.val
    if isinstance(x, STensor):
        return x
    if isinstance(x, (bool, int, float, Sym)):
        return const_tensor(x)
    if isinstance(x, (list, tuple)):
        return tensor_from_nested(x)
    IN = _IN()
    if isinstance(x, IN.SObj) and "_t" in x.f:
        return x.f["_t"].val
    raise Unsupported(f"cannot lift {type(x).__name__} to a tensor")


def mk(val, like=None):
    t = Tensor(val)
    return t


# ----------------------------------------------------------------------------- constants
PI = z3.Real("pi")
PI_SYM = Sym(PI, "float")
_SQRT = z3.Function("tp_sqrt", z3.RealSort(), z3.RealSort())
_COS = z3.Function("tp_cos", z3.RealSort(), z3.RealSort())
_SIN = z3.Function("tp_sin", z3.RealSort(), z3.RealSort())
_ACOS = z3.Function("tp_arccos", z3.RealSort(), z3.RealSort())
_EXP = z3.Function("tp_exp", z3.RealSort(), z3.RealSort())
_TANH = z3.Function("tp_tanh", z3.RealSort(), z3.RealSort())
_CBRT = z3.Function("tp_cbrt", z3.RealSort(), z3.RealSort())
_POW = z3.Function("tp_pow", z3.RealSort(), z3.RealSort(), z3.RealSort())


def cbrt_term(x):
    y = _CBRT(x)
    ctx().axiom(z3.And(y * y * y == x, z3.Implies(x >= 0, y >= 0), z3.Implies(x <= 0, y <= 0)))
    return y


def pi_axioms():
    return [PI > z3.RealVal("3.1415"), PI < z3.RealVal("3.1416")]


def sqrt_term(x):
    x = z3.simplify(x)
    if z3.is_rational_value(x):
        n, d = x.numerator_as_long(), x.denominator_as_long()
        import math

        rn, rd = math.isqrt(n) if n >= 0 else -1, math.isqrt(d)
        if n >= 0 and rn * rn == n and rd * rd == d:
            return z3.RealVal(rn) / z3.RealVal(rd) if rd != 1 else z3.RealVal(rn)
    y = _SQRT(x)
    ctx().axiom(z3.Implies(x >= 0, z3.And(y >= 0, y * y == x)))
    return y


def cos_sin(x):
    x = z3.simplify(x)
    c, s = _COS(x), _SIN(x)
    ctx().axiom(c * c + s * s == 1)
    ctx().axiom(z3.And(c >= -1, c <= 1, s >= -1, s <= 1))
    if z3.is_rational_value(x) and x.numerator_as_long() == 0:
        ctx().axiom(z3.And(c == 1, s == 0))
    return c, s


def acos_term(x):
    y = _ACOS(x)
    c, s = cos_sin(y)
    ctx().axiom(z3.Implies(z3.And(x >= -1, x <= 1), z3.And(y >= 0, y <= PI, c == x, s >= 0)))
    return y


def exp_term(x):
    y = _EXP(x)
    ctx().axiom(y > 0)
    return y


def tanh_term(x):
    y = _TANH(x)
    ctx().axiom(z3.And(y > -1, y < 1))
    return y


# ----------------------------------------------------------------------------- broadcasting
def _axis_compat(I, a, b):
    """decide how two axes broadcast: returns (dim, use_a, use_b) where use_x is True (index with the
    result index) or False (index with the zero index).  Forks; raises RuntimeError on mismatch."""
    IN = _IN()
    if a.same(b):
        return a, True, True
    if a.is_one:
        return b, False, True
    if b.is_one:
        return a, True, False
    ca, cb = a.concrete(), b.concrete()
    if ca is not None and cb is not None:
        if ca == cb:
            return a, True, True  # same size, canonical form guarantees same factors
        raise IN.RaisedEx("RuntimeError", f"size mismatch {ca} vs {cb} (broadcast)", I.ctx.loc)
    ta, tb = a.size_term(), b.size_term()
    if I.decide(ta == tb):
        if len(a.factors) == 1 and len(b.factors) == 1:
            return a, True, True
        if I.ctx.entails(ta == 1):
            return a, False, False
        # same size, different digit structure: index the other operand through the flat view
        from .tshape import convert_comps

        if len(a.factors) >= len(b.factors):
            return a, True, (lambda comps, a=a, b=b: convert_comps(a, b, comps))
        return b, (lambda comps, a=a, b=b: convert_comps(b, a, comps)), True
    if I.decide(ta == 1):
        return b, False, True
    if I.decide(tb == 1):
        return a, True, False
    raise IN.RaisedEx("RuntimeError", f"size mismatch {a} vs {b} (broadcast)", I.ctx.loc)


def zero_index(d):
    return tuple(0 for _ in d.factors)


def bshape(I, sa, sb):
    ra, rb = len(sa), len(sb)
    r = max(ra, rb)
    out, ma, mb = [], [], []
    for k in range(r):
        a = sa[k - (r - ra)] if k >= r - ra else None
        b = sb[k - (r - rb)] if k >= r - rb else None
        if a is None:
            out.append(b); ma.append(None); mb.append(True)
        elif b is None:
            out.append(a); ma.append(True); mb.append(None)
        else:
            d, ua, ub = _axis_compat(I, a, b)
            out.append(d); ma.append(ua); mb.append(ub)
    return out, ma, mb


def _opidx(idx, m, shape):
    res = []
    k0 = len(m) - len(shape)
    for k in range(len(m)):
        if m[k] is None:
            continue
        d = shape[k - k0]
        if callable(m[k]):
            res.append(tuple(m[k](idx[k])))
        else:
            res.append(idx[k] if m[k] else zero_index(d))
    return res


def broadcast_to(I, a, shape):
    """a broadcast against a target shape (target wins); raises on incompatibility"""
    out, ma, mb = bshape(I, a.shape, shape)
    for d, t in zip(out, shape if len(shape) == len(out) else [None] * len(out)):
        pass
    return STensor(out, lambda idx: a.at(_opidx(idx, ma, a.shape)), a.dtype)


def promote(da, db, op=None):
    if op == "div":
        return "real"
    if "real" in (da, db):
        return "real"
    if "int" in (da, db):
        return "int"
    return "bool"


def ew2(I, a, b, f, dtype):
    a, b = lift(a), lift(b)
    shape, ma, mb = bshape(I, a.shape, b.shape)
    return STensor(shape, lambda idx: f(a.at(_opidx(idx, ma, a.shape)), b.at(_opidx(idx, mb, b.shape))), dtype)


def ew1(a, f, dtype=None):
    a = lift(a)
    return STensor(a.shape, lambda idx: f(a.at(idx)), dtype or a.dtype)


def _arith(name):
    def g(I, a, b):
        a, b = lift(a), lift(b)
        dt = promote(a.dtype, b.dtype, name)
        if dt == "bool":
            if name in ("add",):
                return ew2(I, a, b, lambda x, y: z3.Or(x, y), "bool")
            if name == "mul":
                return ew2(I, a, b, lambda x, y: z3.And(x, y), "bool")
            dt = "int"
        cv = zreal if dt == "real" else zint
        if name == "add":
            return ew2(I, a, b, lambda x, y: cv(x) + cv(y), dt)
        if name == "sub":
            return ew2(I, a, b, lambda x, y: cv(x) - cv(y), dt)
        if name == "mul":
            return ew2(I, a, b, lambda x, y: cv(x) * cv(y), dt)
        raise Unsupported(name)

    return g


add, sub, mul = _arith("add"), _arith("sub"), _arith("mul")


def div(I, a, b):
    a, b = lift(a), lift(b)
    idx, hyps = b.generic_index("dv")
    I.ctx.safety("div", zreal(b.at(idx)) != 0, hyps, "divisor non-zero", index=idx, shape=list(b.shape))
    return ew2(I, a, b, lambda x, y: zreal(x) / zreal(y), "real")


def floordiv(I, a, b):
    a, b = lift(a), lift(b)
    if promote(a.dtype, b.dtype) == "real":
        return ew2(I, a, b, lambda x, y: z3.ToReal(z3.ToInt(zreal(x) / zreal(y))), "real")
    from .pylib import floor_div_int

    return ew2(I, a, b, lambda x, y: floor_div_int(zint(x), zint(y)), "int")


def power(I, a, b):
    a = lift(a)
    if isinstance(b, Tensor) and b.val.numel_concrete() == 1:
        bv = z3.simplify(b.val.at([zero_index(d) for d in b.val.shape]))
        if z3.is_int_value(bv):
            b = bv.as_long()
        elif z3.is_rational_value(bv):
            b = float(bv.numerator_as_long()) / float(bv.denominator_as_long())
    if isinstance(b, bool):
        b = int(b)
    if isinstance(b, float) and b == int(b) and abs(b) < 16:
        b = int(b)
        force_real = True
    else:
        force_real = False
    if isinstance(b, int):
        if b == 0:
            return ew1(a, lambda x: z3.RealVal(1), "real")
        dt = "real" if (force_real or a.dtype == "real" or b < 0) else "int"
        cv = zreal if dt == "real" else zint

        def f(x):
            x = cv(x)
            r = x
            for _ in range(abs(b) - 1):
                r = r * x
            return r if b > 0 else 1 / r

        if b < 0:
            idx, hyps = a.generic_index("pw")
            I.ctx.safety("div", zreal(a.at(idx)) != 0, hyps, "negative power of non-zero")
        return ew1(a, f, dt)
    if isinstance(b, float) and b == 0.5:
        return t_sqrt(I, a)
    if isinstance(b, float) and abs(b - 1.0 / 3.0) < 1e-12:
        idx, hyps = a.generic_index("cb")
        I.ctx.safety("dom", zreal(a.at(idx)) >= 0, hyps, "fractional power of non-negative")
        return ew1(a, lambda x: cbrt_term(zreal(x)), "real")
    if isinstance(b, (Tensor, STensor)):
        # element-wise x ** y with a tensor exponent: the real power function stays uninterpreted (tp_pow), only the
        # element-wise / broadcasting structure is modelled
        return ew2(I, a, lift(b), lambda x, y: _POW(zreal(x), zreal(y)), "real")
    raise Unsupported(f"tensor power with exponent {b!r}")


def binop(I, op, a, b, inplace=False):
    target = a if (inplace and isinstance(a, Tensor)) else None
    if isinstance(op, ast.Add):
        r = add(I, a, b)
    elif isinstance(op, ast.Sub):
        r = sub(I, a, b)
    elif isinstance(op, ast.Mult):
        r = mul(I, a, b)
    elif isinstance(op, ast.Div):
        r = div(I, a, b)
    elif isinstance(op, ast.FloorDiv):
        r = floordiv(I, a, b)
    elif isinstance(op, ast.Pow):
        if not isinstance(a, Tensor):
            raise Unsupported("scalar ** tensor")
        r = power(I, a, b)
    elif isinstance(op, ast.MatMult):
        from . import tshape

        r = tshape.matmul(I, lift(a), lift(b))
    elif isinstance(op, (ast.BitAnd, ast.BitOr, ast.BitXor)):
        la, lb = lift(a), lift(b)
        if la.dtype != "bool" or lb.dtype != "bool":
            raise Unsupported("bitwise op on non-bool tensors")
        f = {ast.BitAnd: lambda x, y: z3.And(x, y), ast.BitOr: lambda x, y: z3.Or(x, y), ast.BitXor: lambda x, y: z3.Xor(x, y)}[type(op)]
        r = ew2(I, la, lb, f, "bool")
    else:
        raise Unsupported(f"tensor operator {type(op).__name__}")
    if target is not None:
        # in-place: result must have the shape of the target (torch raises otherwise)
        IN = _IN()
        tv = target.val
        if len(r.shape) != len(tv.shape):
            raise IN.RaisedEx("RuntimeError", "in-place result shape differs from target", I.ctx.loc)
        for dr, dt_ in zip(r.shape, tv.shape):
            if dr.same(dt_):
                continue
            if not I.decide(dr.size_term() == dt_.size_term()):
                raise IN.RaisedEx("RuntimeError", "output with shape doesn't match the broadcast shape", I.ctx.loc)
            if not (len(dr.factors) == len(dt_.factors)):
                if I.ctx.entails(dt_.size_term() == 1):
                    continue
                raise Unsupported("in-place op with different axis factorisation")
        if tv.dtype != "real" and r.dtype == "real":
            raise IN.RaisedEx("RuntimeError", "result type Float can't be cast to the desired output type", I.ctx.loc)
        shape = tv.shape
        rr = r
        target.val = STensor(shape, lambda idx: rr.at(idx), r.dtype if tv.dtype == r.dtype else tv.dtype)
        return target
    return Tensor(r)


def unaryop(I, op, v):
    a = lift(v)
    if isinstance(op, ast.USub):
        if a.dtype == "bool":
            raise _IN().RaisedEx("RuntimeError", "negative of bool tensor")
        return Tensor(ew1(a, lambda x: -x))
    if isinstance(op, ast.UAdd):
        return v
    if isinstance(op, ast.Invert):
        if a.dtype != "bool":
            raise Unsupported("~ on non-bool tensor")
        return Tensor(ew1(a, lambda x: z3.Not(x), "bool"))
    raise Unsupported("unary tensor op")


def compare(I, op, a, b):
    a, b = lift(a), lift(b)
    if a.dtype == "bool" and b.dtype == "bool":
        if isinstance(op, ast.Eq):
            return Tensor(ew2(I, a, b, lambda x, y: x == y, "bool"))
        if isinstance(op, ast.NotEq):
            return Tensor(ew2(I, a, b, lambda x, y: x != y, "bool"))
    dt = promote(a.dtype, b.dtype)
    cv = zreal if dt == "real" else zint
    f = {
        ast.Eq: lambda x, y: cv(x) == cv(y),
        ast.NotEq: lambda x, y: cv(x) != cv(y),
        ast.Lt: lambda x, y: cv(x) < cv(y),
        ast.LtE: lambda x, y: cv(x) <= cv(y),
        ast.Gt: lambda x, y: cv(x) > cv(y),
        ast.GtE: lambda x, y: cv(x) >= cv(y),
    }[type(op)]
    return Tensor(ew2(I, a, b, f, "bool"))


def logical_not_t(t):
    return Tensor(ew1(lift(t), lambda x: z3.Not(zbool(x)), "bool"))


# ----------------------------------------------------------------------------- math functions
def t_sqrt(I, a):
    a = lift(a)
    idx, hyps = a.generic_index("sq")
    I.ctx.safety("dom", zreal(a.at(idx)) >= 0, hyps, "sqrt argument non-negative")
    return ew1(a, lambda x: sqrt_term(zreal(x)), "real")


def t_abs(I, a):
    a = lift(a)
    if a.dtype == "real":
        return Tensor(ew1(a, lambda x: z3.If(x >= 0, x, -x)))
    return Tensor(ew1(a, lambda x: z3.If(zint(x) >= 0, zint(x), -zint(x)), "int"))


def isclose_term(x, y, rtol=1e-5, atol=1e-8):
    """|x - y| <= atol + rtol*|y| over the reals (A1)"""
    x, y = zreal(x), zreal(y)
    d = z3.If(x - y >= 0, x - y, y - x)
    ay = z3.If(y >= 0, y, -y)
    return d <= core.realval(atol) + core.realval(rtol) * ay


def item_value(I, t):
    """the python scalar of a one-element tensor (t.item(), int(t), float(t))"""
    IN = _IN()
    v = lift(t)
    n = v.numel_concrete()
    if n is None:
        one = z3.And([d.size_term() == 1 for d in v.shape])
        if not I.ctx.entails(one):
            if not I.decide(one):
                raise IN.RaisedEx("RuntimeError", "a Tensor with more than 1 element cannot be converted to Scalar", I.ctx.loc)
    elif n != 1:
        raise IN.RaisedEx("RuntimeError" if n > 1 else "RuntimeError", f"a Tensor with {n} elements cannot be converted to Scalar", I.ctx.loc)
    e = v.at([zero_index(d) for d in v.shape])
    ty = {"real": "float", "int": "int", "bool": "bool"}[v.dtype]
    return concretize(Sym(e, ty))


def tensor_from_nested(x, dtype=None):
    """torch.tensor(nested list of scalars / symbolic scalars / one-element tensors)"""
    IN = _IN()

    def shape_of(v):
        if isinstance(v, (list, tuple)):
            if not v:
                return [0]
            s0 = shape_of(v[0])
            for w in v[1:]:
                if shape_of(w) != s0:
                    raise IN.RaisedEx("ValueError", "ragged nested sequence")
            return [len(v)] + s0
        if isinstance(v, Tensor):
            sh = []
            for d in v.val.shape:
                c = d.concrete()
                if c is None:
                    raise Unsupported("torch.tensor of a list containing symbolic-size tensors")
                sh.append(c)
            return sh
        return []

    shp = shape_of(x)

    def leaf_dtype(v):
        if isinstance(v, (list, tuple)):
            ds = [leaf_dtype(w) for w in v]
            return "real" if "real" in ds else ("int" if "int" in ds else ("bool" if ds else "real"))
        if isinstance(v, Tensor):
            return v.val.dtype
        if isinstance(v, bool) or (isinstance(v, Sym) and v.ty == "bool"):
            return "bool"
        if isinstance(v, int) or (isinstance(v, Sym) and v.ty == "int"):
            return "int"
        if isinstance(v, (float, Sym)):
            return "real"
        raise IN.RaisedEx("TypeError", f"torch.tensor: not a number ({type(v).__name__})")

    dt = dtype or leaf_dtype(x)

    def get(v, comps):
        if isinstance(v, (list, tuple)):
            c = comps[0]
            n = len(v)
            if n == 1:
                return get(v[0], comps[1:])
            return core.select_comp(c, n, [(lambda w=w: get(w, comps[1:])) for w in v])
        if isinstance(v, Tensor):
            idx, p = [], 0
            for d in v.val.shape:
                idx.append(() if d.is_one else (comps[p],))
                p += 1
            return conv(v.val.at(idx), dt)
        return conv(v, dt)

    dims = [Dim([s]) for s in shp]

    def fn(idx):
        full = [(c[0] if s != 1 else 0) for c, s in zip(idx, shp)]
        return get(x, full)

    return STensor(dims, fn, dt)


def iter_rows(t):
    from . import tshape

    v = t.val
    if v.rank == 0:
        raise _IN().RaisedEx("TypeError", "iteration over a 0-d tensor")
    n = v.shape[0].concrete()
    if n is None:
        raise Unsupported("iteration over a tensor with symbolic first axis")
    return [Tensor(tshape.index_axis_int(v, 0, j)) for j in range(n)]


# ----------------------------------------------------------------------------- delegations
def getitem(I, t, k):
    from . import tshape

    return tshape.getitem(I, t, k)


def setitem(I, t, k, v):
    from . import tshape

    return tshape.setitem(I, t, k, v)


def tensor_attr(I, t, name):
    from . import torchlib

    return torchlib.tensor_attr(I, t, name)
