"""tpv tsum: reductions over symbolic axes.

sum / mean: an uninterpreted constant keyed by the body term at canonical bound variables
(extensionality for syntactically equal bodies; nothing else assumed).
min / max: fresh value + attained-witness + quantified bound registered as an instantiation schema.
"""
import z3

from . import core
from .core import STensor, Dim, Unsupported, zint, zreal, zbool, ctx
from . import tlib
from .tlib import lift, zero_index

_BOUND = {}
_SUMS = {}
SUM_INFO = {}  # id of the sum constant -> (dims, bound variables, body term)   (used by jets)
_DEPTH = [0]


def bound_var(depth, pos):
    k = (depth, pos)
    if k not in _BOUND:
        _BOUND[k] = z3.Int(f"bv!{depth}!{pos}")
    return _BOUND[k]


def sum_term(dims, body, kind="sum", sort=None):
    """Σ over the index space `dims` (list of Dim) of body(list of digit tuples)"""
    depth = _DEPTH[0]
    _DEPTH[0] += 1
    try:
        idx, p = [], 0
        for d in dims:
            comp = []
            for _ in d.factors:
                comp.append(bound_var(depth, p)); p += 1
            idx.append(tuple(comp))
        b = z3.simplify(body(idx))
    finally:
        _DEPTH[0] -= 1
    key = (kind, tuple(str(f) for d in dims for f in d.factors), b.sexpr())
    if key not in _SUMS:
        c = z3.Const(core.fresh_name(kind), sort or b.sort())
        _SUMS[key] = c
        SUM_INFO[c.get_id()] = (dims, [v for comp in idx for v in comp], b)
    return _SUMS[key]


def reset():
    _SUMS.clear()
    SUM_INFO.clear()


core.RESET_HOOKS.append(reset)


def reduce_sum(I, a, axes, keepdim, mean=False):
    """sum/mean over (possibly symbolic) axes"""
    a = lift(a)
    rest = [k for k in range(a.rank) if k not in axes]
    shape = [a.shape[k] if k not in axes else Dim([]) for k in range(a.rank)] if keepdim else [a.shape[k] for k in rest]
    red_dims = [a.shape[k] for k in axes]
    cnt = None
    for d in red_dims:
        cnt = d.size_term() if cnt is None else cnt * d.size_term()
    cnt = z3.IntVal(1) if cnt is None else cnt
    dt = "real" if (mean or a.dtype == "real") else "int"
    cv = zreal if dt == "real" else zint

    def fn(idx):
        def body(ridx):
            full = [None] * a.rank
            if keepdim:
                for k in range(a.rank):
                    full[k] = idx[k]
            else:
                for p, k in enumerate(rest):
                    full[k] = idx[p]
            for k, c in zip(axes, ridx):
                full[k] = c
            return cv(a.at(full))

        s = sum_term(red_dims, body, "sum")
        if mean:
            return s / zreal(cnt)
        return s

    if mean:
        I.ctx.safety("div", cnt != 0, [], "mean over a non-empty axis")
    return STensor(shape, fn, dt)


def reduce_minmax(I, a, axes, keepdim, is_max):
    """min/max over symbolic axes: fresh value m with  m = a[w]  for a witness w and the
    quantified bound  forall i: m <= a[i]  registered as a schema (instantiated by contracts)."""
    IN = tlib._IN()
    a = lift(a)
    rest = [k for k in range(a.rank) if k not in axes]
    if rest:
        raise Unsupported("min/max over a symbolic axis with remaining axes")
    total = None
    for k in axes:
        total = a.shape[k].size_term() if total is None else total * a.shape[k].size_term()
    if not I.ctx.entails(total >= 1):
        if not I.decide(total >= 1):
            raise IN.RaisedEx("RuntimeError", "min()/max(): Expected reduction dim to be specified for input.numel() == 0", I.ctx.loc)
    cv = zreal if a.dtype == "real" else zint
    m = z3.Const(core.fresh_name("max" if is_max else "min"), z3.RealSort() if a.dtype == "real" else z3.IntSort())
    # witness
    widx, hyps = a.generic_index("w")
    for h in hyps:
        I.ctx.assume(h)
    I.ctx.assume(m == cv(a.at(widx)))
    dims = list(a.shape)
    # the attaining index is kept so that selectors built over the same axes can be instantiated at it
    I.ctx.ghost.setdefault("minmax_witness", []).append((widx, dims))

    def schema(idx):
        v = cv(a.at(idx))
        return (m >= v) if is_max else (m <= v)

    I.ctx.schema(("minmax", dims), schema)
    shape = [Dim([]) for _ in a.shape] if keepdim else []
    return STensor(shape, lambda idx: m, a.dtype)


def matmul_symbolic(I, a, b):
    """a[..., n, K] @ b[..., K, m] with symbolic inner size K"""
    IN = tlib._IN()
    ka, kb = a.shape[-1], b.shape[-2]
    if not ka.same(kb):
        eq = ka.size_term() == kb.size_term()
        if not I.ctx.entails(eq):
            if not I.decide(eq):
                raise IN.RaisedEx("RuntimeError", "mat1 and mat2 shapes cannot be multiplied", I.ctx.loc)
        if len(ka.factors) != len(kb.factors):
            raise Unsupported("matmul inner axes with different factorisation")
    bshape_, ma, mb = tlib.bshape(I, a.shape[:-2], b.shape[:-2])
    shape = bshape_ + [a.shape[-2], b.shape[-1]]

    def fn(idx):
        bi = idx[:-2]
        ia = tlib._opidx(bi, ma, a.shape[:-2])
        ib = tlib._opidx(bi, mb, b.shape[:-2])
        return sum_term([ka], lambda r: zreal(a.at(ia + [idx[-2], r[0]])) * zreal(b.at(ib + [r[0], idx[-1]])), "sum")

    return STensor(shape, fn, "real")
