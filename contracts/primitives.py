"""Primitive domains and their boundaries under contract (C01, C02, C05, C06, C10, C18).

One table entry per primitive: constructor, shape parameters with their preconditions, and the ORACLES taken
from the property statements (set denotation, boundary, measure, bounding box, active-constraint gradients).
The generic scenarios below turn every entry into contracts on the real methods:
  sample_random_uniform / sample_grid   C01: every row lies in the set of its own parameter row
                                        C02: rows = [K', n], grouped by parameter row; space = domain space
  _contains                             C05: one truth value per row; <=> InSet (interior); boundary accept/reject band
  volume                                C10: analytic measure, positive, per row
  bounding_box                          C18: encloses every point of every supplied row; tight for one row
  normal                                C06: finite, unit, first-order outward at every boundary point
Configurations: shape parameters constant (symbolic reals) or arbitrary row-wise functions of 't';
no parameter points or K >= 1 symbolic parameter rows.
"""
import ast

import z3

from tpv import core, tlib
from tpv.core import zint, zreal, Sym, Dim
from tpv.spec import scenario, second_use, RowFn
from .geom import POINTS, R1, R2, R3, DOM, tensor_of, cols, ensure_rows, sq, absz

D = "torchphysics.problem.domains."
DOMAIN = D + "domain.Domain"
BDOMAIN = D + "domain.BoundaryDomain"


def cross(a, b):
    return a[0] * b[1] - a[1] * b[0]


def dot(a, b):
    return sum((x * y for x, y in zip(a, b)), z3.RealVal(0))


def vsub(a, b):
    return [x - y for x, y in zip(a, b)]


def tol(b, atol=1e-8, rtol=1e-5):
    return core.realval(atol) + core.realval(rtol) * absz(b)


def close(a, b, atol=1e-8, rtol=1e-5):
    return absz(a - b) <= tol(b, atol, rtol)


# ----------------------------------------------------------------------------- shape-parameter harness
class Shapes:
    """symbolic shape parameters of one domain instance, constant or row-wise functions of t"""

    def __init__(self, S, prim, kind, rows):
        """rows: None (no params) | ('K', Sym) parameter rows | ('N', Sym, tensor) per-point parameter rows"""
        self.S, self.prim, self.kind = S, prim, kind
        self.args = {}
        self.consts = {}
        self.fns = {}
        for (nm, ncols, scalar) in prim.params:
            if kind == "const":
                vals = [S.real(f"{nm}{c}") for c in range(ncols)]
                self.consts[nm] = [v.t for v in vals]
                self.args[nm] = vals[0] if scalar else list(vals)
            elif kind == "tconst":
                # the constant handed over as a torch tensor: the domain keeps THIS tensor (DomainUserFunction returns
                # it un-copied), so the frame obligation of Session.tensor covers 'the stored parameter is not updated'
                T = S.tensor(nm, [] if scalar else [ncols])
                self.consts[nm] = [zreal(T.val.at([] if scalar else [(c,)])) for c in range(ncols)]
                self.args[nm] = T
            else:
                f = RowFn(nm, ["t"], ncols, {"t": 1})
                f.on_value = self._on_value
                self.fns[nm] = f
                self.args[nm] = f
        if kind in ("const", "tconst"):
            for p in prim.pre(self.consts):
                S.assume(p)

    def _on_value(self, I, ins, outs):
        # precondition of the constructor, as an axiom schema instantiated wherever a shape function is evaluated
        vals = {nm: f.value_terms(list(ins)) for nm, f in self.fns.items()}
        for p in self.prim.pre(vals):
            I.ctx.axiom(p)

    def at(self, tval):
        """shape values at parameter value t (z3 real) -- adds the precondition there"""
        if self.kind in ("const", "tconst"):
            return self.consts
        vals = {nm: f.value_terms([tval]) for nm, f in self.fns.items()}
        for p in self.prim.pre(vals):
            self.S.ctx.axiom(p)
        return vals


class Harness:
    def __init__(self, S, prim, cfg=None, point_rows=None):
        cfg = cfg or S.cfg
        self.S, self.prim = S, prim
        kind, pk = cfg.split("/")[:2]
        self.kind, self.pk = kind, pk
        self.K = None
        self.ptensor = None
        if point_rows is not None:
            # membership / normal: each point has its own parameter row
            self.N = point_rows
            if kind == "fn":
                self.ptensor = S.tensor("tparam", [self.N, 1])
                self.params = S.new(POINTS, self.ptensor, S.new(R1, "t"))
            else:
                self.params = S.call(S.getattr(S.find(POINTS), "empty"))
        elif pk == "none":
            self.params = S.call(S.getattr(S.find(POINTS), "empty"))
        elif pk == "1":
            self.ptensor = S.tensor("tparam", [1, 1])
            self.params = S.new(POINTS, self.ptensor, S.new(R1, "t"))
        else:
            self.K = S.int("K", 1)
            self.ptensor = S.tensor("tparam", [self.K, 1])
            self.params = S.new(POINTS, self.ptensor, S.new(R1, "t"))
        # later rounds of a history scenario (spec.second_use) get the SAME domain object
        self.shapes, self.dom = S.shared(("primitive", prim.name, getattr(prim, "orientation", None), kind), lambda: self._make(S, prim, kind))

    @staticmethod
    def _make(S, prim, kind):
        shapes = Shapes(S, prim, kind, None)
        return shapes, prim.construct(S, shapes.args)

    @property
    def Kp(self):
        return 1 if self.K is None else self.K

    def vals(self, rowdigits):
        if self.kind in ("const", "tconst"):
            return self.shapes.at(None)
        return self.shapes.at(zreal(self.ptensor.val.at([tuple(rowdigits), ()])))

    def rows_dim(self, n):
        return Dim(([self.K] if self.K is not None else []) + [n])

    def split(self, comps):
        if self.K is None:
            return (), tuple(comps)
        return tuple(comps[:1]), tuple(comps[1:])

    def grouped(self, d):
        """row axis d is grouped by parameter row: its first (outermost) digit ranges over the K parameter rows"""
        if self.K is None:
            return True
        return len(d.factors) >= 2 and not isinstance(d.factors[0], int) and z3.eq(d.factors[0], zint(self.K))


# ----------------------------------------------------------------------------- primitive table
class Prim:
    name = ""
    cls = ""
    dim = 2
    space = R2
    params = []  # (name, cols, scalar)
    has_boundary = True
    grid_single_row_only = False

    def construct(self, S, args):
        return S.new(self.cls, S.new(self.space, "x"), *[args[nm] for nm, _, _ in self.params])

    def pre(self, v):
        return []

    def boundary_of(self, S, dom):
        return S.getattr(dom, "boundary")


class IntervalP(Prim):
    name, cls, dim, space = "interval", D + "domain1D.interval.Interval", 1, R1
    normal_pre = "the interval is wider than the isclose tolerance of its end points (otherwise both ends are 'close' to every point)"

    def pre_normal(self, v):
        lo, hi = v["lower_bound"][0], v["upper_bound"][0]
        return [hi - lo > tol(lo), hi - lo > tol(hi)]
    bcls = D + "domain1D.interval.IntervalBoundary"
    params = [("lower_bound", 1, True), ("upper_bound", 1, True)]

    def pre(self, v):
        return [v["lower_bound"][0] < v["upper_bound"][0]]

    def inset(self, x, v):
        return z3.And(v["lower_bound"][0] <= x[0], x[0] <= v["upper_bound"][0])

    def onbd(self, x, v):
        return z3.Or(x[0] == v["lower_bound"][0], x[0] == v["upper_bound"][0])

    def band(self, x, v):
        return z3.Or(close(x[0], v["lower_bound"][0]), close(x[0], v["upper_bound"][0]))

    def meas(self, v):
        return v["upper_bound"][0] - v["lower_bound"][0]

    def bmeas(self, v):
        return z3.RealVal(2)

    def box(self, v):
        return [(v["lower_bound"][0], v["upper_bound"][0])]

    def hull(self, v):
        """points of the set as a parametrised family (for the enclosure proof): returns (vars, constraints, x)"""
        u = z3.Real("hu")
        return [u], [u >= 0, u <= 1], [v["lower_bound"][0] + u * (v["upper_bound"][0] - v["lower_bound"][0])]

    def outward(self, x, n, v):
        lo, hi = v["lower_bound"][0], v["upper_bound"][0]
        return [z3.Implies(x[0] == lo, n[0] < 0), z3.Implies(x[0] == hi, n[0] > 0)]


class CircleP(Prim):
    name, cls = "circle", D + "domain2D.circle.Circle"
    bcls = D + "domain2D.circle.CircleBoundary"
    params = [("center", 2, False), ("radius", 1, True)]

    def pre(self, v):
        return [v["radius"][0] > 0]

    def d2(self, x, v):
        return sum((sq(a - b) for a, b in zip(x, v["center"])), z3.RealVal(0))

    def inset(self, x, v):
        return self.d2(x, v) <= sq(v["radius"][0])

    def onbd(self, x, v):
        return self.d2(x, v) == sq(v["radius"][0])

    def band(self, x, v):
        r = v["radius"][0]
        t = tol(r)
        return z3.And(self.d2(x, v) <= sq(r + t), z3.Or(r - t < 0, self.d2(x, v) >= sq(r - t)))

    def meas(self, v):
        return tlib.PI * sq(v["radius"][0])

    def bmeas(self, v):
        return 2 * tlib.PI * v["radius"][0]

    def box(self, v):
        return [(c - v["radius"][0], c + v["radius"][0]) for c in v["center"]]

    def hull(self, v):
        xs = [z3.Real(f"hx{i}") for i in range(self.dim)]
        return xs, [self.inset(xs, v)], xs

    def outward(self, x, n, v):
        return [dot(n, vsub(x, v["center"])) > 0]


class SphereP(CircleP):
    name, cls, dim, space = "sphere", D + "domain3D.sphere.Sphere", 3, R3
    bcls = D + "domain3D.sphere.SphereBoundary"
    params = [("center", 3, False), ("radius", 1, True)]
    grid_single_row_only = True

    def meas(self, v):
        r = v["radius"][0]
        return z3.RealVal(4) / 3 * tlib.PI * r * r * r

    def bmeas(self, v):
        return 4 * tlib.PI * sq(v["radius"][0])


class ParallelogramP(Prim):
    name, cls = "parallelogram", D + "domain2D.parallelogram.Parallelogram"
    bcls = D + "domain2D.parallelogram.ParallelogramBoundary"
    params = [("origin", 2, False), ("corner_1", 2, False), ("corner_2", 2, False)]
    orientation = None  # None: any (det != 0) | 'ccw' | 'cw'

    def dirs(self, v):
        return vsub(v["corner_1"], v["origin"]), vsub(v["corner_2"], v["origin"])

    def det(self, v):
        d1, d2 = self.dirs(v)
        return cross(d1, d2)

    def pre(self, v):
        if self.orientation == "ccw":
            return [self.det(v) > 0]
        if self.orientation == "cw":
            return [self.det(v) < 0]
        return [self.det(v) != 0]

    def UVD(self, x, v):
        d1, d2 = self.dirs(v)
        p = vsub(x, v["origin"])
        return cross(p, d2), cross(d1, p), cross(d1, d2)

    @staticmethod
    def between(U, D_):
        """0 <= U/D <= 1 without division"""
        return z3.Or(z3.And(D_ > 0, 0 <= U, U <= D_), z3.And(D_ < 0, D_ <= U, U <= 0))

    def inset(self, x, v):
        U, V, D_ = self.UVD(x, v)
        return z3.And(self.between(U, D_), self.between(V, D_))

    def onbd(self, x, v):
        U, V, D_ = self.UVD(x, v)
        return z3.Or(z3.And(z3.Or(U == 0, U == D_), self.between(V, D_)), z3.And(z3.Or(V == 0, V == D_), self.between(U, D_)))

    def band(self, x, v):
        U, V, D_ = self.UVD(x, v)
        # |U/D - i| <= tol(i)  <=> |U - i D| <= tol(i) |D|
        aD = absz(D_)
        near = lambda W, i: absz(W - i * D_) <= tol(z3.RealVal(i)) * aD
        return z3.Or(near(U, 0), near(U, 1), near(V, 0), near(V, 1))

    def meas(self, v):
        return absz(self.det(v))

    def side_lengths_sq(self, v):
        d1, d2 = self.dirs(v)
        return dot(d1, d1), dot(d2, d2)

    def bmeas(self, v):
        l1, l2 = self.side_lengths_sq(v)
        return 2 * (tlib.sqrt_term(l1) + tlib.sqrt_term(l2))

    def corners(self, v):
        o, c1, c2 = v["origin"], v["corner_1"], v["corner_2"]
        return [o, c1, c2, [c1[i] + c2[i] - o[i] for i in range(2)]]

    def hull(self, v):
        u, w = z3.Real("hu"), z3.Real("hv")
        d1, d2 = self.dirs(v)
        return [u, w], [u >= 0, u <= 1, w >= 0, w <= 1], [v["origin"][i] + u * d1[i] + w * d2[i] for i in range(2)]

    def box_tight(self, lo, hi, i, v):
        cs = [c[i] for c in self.corners(v)]
        return z3.And(z3.Or([lo == c for c in cs]), z3.Or([hi == c for c in cs]), z3.And([lo <= c for c in cs]), z3.And([hi >= c for c in cs]))

    def outward(self, x, n, v):
        U, V, D_ = self.UVD(x, v)
        d1, d2 = self.dirs(v)
        # grad(U/D) = (d2y, -d2x)/D ; grad(V/D) = (-d1y, d1x)/D ; multiply through by D*D > 0
        gu = [d2[1] * D_, -d2[0] * D_]
        gv = [-d1[1] * D_, d1[0] * D_]
        return [
            z3.Implies(U == 0, dot(n, gu) < 0),
            z3.Implies(U == D_, dot(n, gu) > 0),
            z3.Implies(V == 0, dot(n, gv) < 0),
            z3.Implies(V == D_, dot(n, gv) > 0),
        ]


class TriangleP(ParallelogramP):
    name, cls = "triangle", D + "domain2D.triangle.Triangle"
    bcls = D + "domain2D.triangle.TriangleBoundary"

    def inset(self, x, v):
        U, V, D_ = self.UVD(x, v)
        return z3.Or(z3.And(D_ > 0, U >= 0, V >= 0, U + V <= D_), z3.And(D_ < 0, U <= 0, V <= 0, U + V >= D_))

    def onbd(self, x, v):
        U, V, D_ = self.UVD(x, v)
        return z3.And(self.inset(x, v), z3.Or(U == 0, V == 0, U + V == D_))

    def band(self, x, v):
        U, V, D_ = self.UVD(x, v)
        aD = absz(D_)
        near = lambda W, i: absz(W - i * D_) <= tol(z3.RealVal(i)) * aD
        return z3.Or(near(U, 0), near(V, 0), near(U + V, 1))

    def meas(self, v):
        return absz(self.det(v)) / 2

    def bmeas(self, v):
        d1, d2 = self.dirs(v)
        d3 = vsub(v["corner_2"], v["corner_1"])
        return tlib.sqrt_term(dot(d1, d1)) + tlib.sqrt_term(dot(d2, d2)) + tlib.sqrt_term(dot(d3, d3))

    def corners(self, v):
        return [v["origin"], v["corner_1"], v["corner_2"]]

    def hull(self, v):
        u, w = z3.Real("hu"), z3.Real("hv")
        d1, d2 = self.dirs(v)
        return [u, w], [u >= 0, w >= 0, u + w <= 1], [v["origin"][i] + u * d1[i] + w * d2[i] for i in range(2)]

    def outward(self, x, n, v):
        U, V, D_ = self.UVD(x, v)
        d1, d2 = self.dirs(v)
        gu = [d2[1] * D_, -d2[0] * D_]
        gv = [-d1[1] * D_, d1[0] * D_]
        guv = [gu[0] + gv[0], gu[1] + gv[1]]
        return [z3.Implies(U == 0, dot(n, gu) < 0), z3.Implies(V == 0, dot(n, gv) < 0), z3.Implies(U + V == D_, dot(n, guv) > 0)]


class PointP(Prim):
    name, cls, dim, space = "point", D + "domain0D.point.Point", 2, R2
    params = [("point", 2, False)]
    has_boundary = False

    def inset(self, x, v):
        return z3.And([a == b for a, b in zip(x, v["point"])])

    def band(self, x, v):
        return z3.And([close(a, b, atol=1e-3) for a, b in zip(x, v["point"])])

    def meas(self, v):
        return z3.RealVal(1)

    def hull(self, v):
        return [], [], list(v["point"])


PRIMS = [IntervalP(), CircleP(), SphereP(), ParallelogramP(), TriangleP(), PointP()]
CFGS = ["const/none", "const/K", "fn/K"]


# ----------------------------------------------------------------------------- perimeter-walk helper contract
def clampz(x):
    return z3.If(x < 0, z3.RealVal(0), z3.If(x > 1, z3.RealVal(1), x))


def walk_coeffs(prim, L, sides):
    """the coefficients the walk assigns to the edge directions, as functions of the distance L (spec)"""
    cs, rest = [], L
    seq = sides if prim.name == "triangle" else [sides[0], sides[1], sides[0], sides[1]]
    for s_ in seq:
        cs.append(clampz(rest / s_))
        rest = rest - s_
    return cs


def walk_post(prim, cs):
    """where the coefficients may lie: a point of the perimeter in edge coordinates"""
    unit = lambda c: z3.And(c >= 0, c <= 1)
    if prim.name == "triangle":
        c1, c2, c3 = cs
        return z3.Or(z3.And(unit(c1), c2 == 0, c3 == 0), z3.And(c1 == 1, unit(c2), c3 == 0), z3.And(c1 == 1, c2 == 1, unit(c3)))
    a, b = cs
    return z3.Or(z3.And(z3.Or(a == 0, a == 1), unit(b)), z3.And(z3.Or(b == 0, b == 1), unit(a)))


def walk_summary(prim):
    """contract of <Boundary>._transform_interval_to_boundary:
    requires side lengths > 0, 0 <= bound_location; modifies points, bound_location;
    ensures points_out[k,j,:] = points_in[k,j,:] + sum_i c_i(k,j) * dir_i[k,:] with walk_post(c)"""
    from tpv.core import STensor, uninterp_tensor
    from tpv.tlib import Tensor

    def summary(I, fn, args, kwargs):
        if prim.name == "triangle":
            selfo, d1, d2, d3, s1, s2, s3, points, L = args
            dirs, sides = [d1, d2, d3], [s1, s2, s3]
        else:
            selfo, d1, d2, s1, s2, points, L = args
            dirs, sides = [d1, d2], [s1, s2]
        for n_, s_ in enumerate(sides):
            gi, hy = s_.val.generic_index("pw")
            I.ctx.oblige(f"pre@{I.ctx.loc}:side-{n_}-positive", zreal(s_.val.at(gi)) > 0, hy, "pre")
        gi, hy = L.val.generic_index("pl")
        I.ctx.oblige(f"pre@{I.ctx.loc}:distance-non-negative", zreal(L.val.at(gi)) >= 0, hy, "pre")
        old = points.val
        batch = old.shape[:2]
        nco = len(dirs)
        fsy = [z3.Function(core.fresh_name(f"walk_c{i}"), *([z3.IntSort()] * sum(len(d.factors) for d in batch) + [z3.RealSort()])) for i in range(nco)]

        def coeffs(bi):
            flat = [zint(c) for comp in bi for c in comp]
            cs = [f(*flat) if flat else z3.Const(f.name(), z3.RealSort()) for f in fsy]
            I.ctx.axiom(walk_post(prim, cs))
            return cs

        def fn_new(idx):
            bi = idx[:2]
            cs = coeffs(bi)
            v = zreal(old.at(idx))
            for c, d in zip(cs, dirs):
                dv = d.val
                v = v + c * zreal(dv.at([bi[0] if not dv.shape[0].is_one else (), idx[2]]))
            return v

        points.val = STensor(old.shape, fn_new, "real")
        L.val = uninterp_tensor("walk_rest", L.val.shape, "real")
        return None

    return summary


def walk_helper_scenario(prim):
    def f(S):
        """the helper against its contract: arbitrary directions, positive side lengths, any distance >= 0"""
        K, n = S.int("K", 1), S.int("n", 1)
        nd = 3 if prim.name == "triangle" else 2
        dirs = [S.tensor(f"dir{i}", [K, 2]) for i in range(nd)]
        sides = [S.tensor(f"side{i}", [K, 1, 1]) for i in range(nd)]
        P0 = S.tensor("P0", [K, n, 2])
        from tpv.tlib import Tensor
        points = Tensor(P0.val)
        Lt = S.tensor("L", [K, n, 1])
        L = Tensor(Lt.val)
        bd = S.I.new_without_init(S.find(prim.bcls))
        q, hy = P0.val.generic_index("w")
        k, j = q[0], q[1]
        sv = [zreal(s_.val.at([k, (), ()])) for s_ in sides]
        for s_ in sides:
            gi, hh = s_.val.generic_index("sp")
            S.ctx.axiom(z3.BoolVal(True))
        # requires (assumed here, checked at the call sites)
        pre = [x > 0 for x in sv] + [zreal(Lt.val.at([k, j, ()])) >= 0]
        # make the precondition available wherever the code evaluates a side length
        posax = lambda idx, v: S.ctx.axiom(v > 0)
        sides2 = []
        for i, s_ in enumerate(sides):
            t2 = S.tensor(f"sidep{i}", [K, 1, 1], on_access=posax)
            sides2.append(t2)
        sv = [zreal(s_.val.at([k, (), ()])) for s_ in sides2]
        Lq = zreal(Lt.val.at([k, j, ()]))
        S.method(bd, "_transform_interval_to_boundary", *(dirs + sides2 + [points, L]))
        cs = walk_coeffs(prim, Lq, sv)
        if prim.name != "triangle":
            cs = [cs[0] - cs[2], cs[1] - cs[3]]
        want = [zreal(P0.val.at([k, j, (c,)])) + sum((cf * zreal(d.val.at([k, (c,)])) for cf, d in zip(cs, dirs)), z3.RealVal(0)) for c in range(2)]
        S.ensure("points-advance-along-the-edges", z3.And([zreal(points.val.at([k, j, (c,)])) == want[c] for c in range(2)]), hy + [Lq >= 0])
        S.ensure("coefficients-on-the-perimeter", walk_post(prim, cs), hy + [Lq >= 0])

    f.__name__ = f"{prim.name}_boundary_walk_helper"
    return f


def sampling_contract(S, prim, h, boundary=False):
    """the (separately proved) contract of <prim>.sample_random_uniform used as a summary at inner call sites:
    ensures rows [K', n] x dim, row (k, j) in the set of parameter row k"""
    from tpv.core import STensor, dim_of
    from tpv.tlib import Tensor
    from tpv.absdom import coords_of
    from tpv.tshape import split_digits

    def summary(I, fn, args, kwargs):
        env = I.bind_args(fn, args, kwargs)
        n, d, params = env.vars["n"], env.vars["d"], env.vars["params"]
        if I.truth(d):
            raise core.Unsupported("density path through the sampling contract")
        I.ctx.oblige(f"pre@{I.ctx.loc}:n-non-negative", zint(n) >= 0, (), "pre")
        pc = coords_of(I, params)
        has = I.truth(I.compare(ast.Gt(), I.pylib.b_len(I, params), 0))
        pd = params.f["_t"].val.shape[0] if has else Dim([])
        unmerged = list(pd.factors) + list(dim_of(n).factors)
        rows = Dim(unmerged)
        f = z3.Function(core.fresh_name(f"{prim.name}_smp"), *([z3.IntSort()] * len(rows.factors) + [z3.IntSort(), z3.RealSort()]))
        pred = prim.onbd if boundary else prim.inset

        def fnv(idx):
            comps = idx[0]
            xs = [f(*([zint(c) for c in comps] + [z3.IntVal(k)])) for k in range(prim.dim)]
            kd = tuple(split_digits(unmerged, comps)[: len(pd.factors)])
            if h.kind == "fn":
                v = h.shapes.at(zreal(pc["t"].at([kd, ()])))
            else:
                v = h.shapes.at(None)
            hy = core.index_hyps(rows, comps)
            I.ctx.axiom(z3.Implies(z3.And(hy) if hy else z3.BoolVal(True), pred(xs, v)))
            c = idx[1][0] if prim.dim != 1 else 0
            return core.select_comp(c, prim.dim, [(lambda x=x: x) for x in xs])

        t = Tensor(STensor([rows, Dim([prim.dim])], fnv, "real"))
        return I.instantiate(I.repo.find(POINTS), [t, h.dom.f["space"]], {})

    return summary


# ----------------------------------------------------------------------------- generic scenarios
def sampling_scenario(prim, prop, method, boundary, which=None):
    def f(S):
        h = Harness(S, prim)
        n = S.int("n", 1)
        obj = h.dom
        if boundary:
            obj = S.getattr(h.dom, which or "boundary")
        if boundary and which is None and prim.name in ("parallelogram", "triangle"):
            S.use_contract(prim.bcls + "._transform_interval_to_boundary", walk_summary(prim))
        if prim.name == "sphere" and method == "sample_grid" and not boundary:
            # ASSUMED lemma (number-theoretic, outside the solver's reach): the lattice points of the
            # ceil(cbrt(6n/pi))^3 box grid that fall inside the ball are at most n
            S.on_call(prim.cls + "._append_random", lambda rec: S.assume(zint(S.I.pylib.b_len(S.I, rec["points_inside"])) <= zint(rec["n"])))
            # the inner random fill-up is used through its own (separately proved) contract
            S.use_contract(prim.cls + ".sample_random_uniform", sampling_contract(S, prim, h))
        wlog = None
        if prop == "C01" and not boundary and method == "sample_grid" and prim.name in ("parallelogram", "triangle"):
            # ghost witness: the barycentric grid the points are built from
            wlog = S.probe_returns(prim.cls + ("._grid_enough_points" if prim.name == "parallelogram" else "._grid_has_n_points"))
        pts = S.method(obj, method, n, None, h.params)
        t = tensor_of(pts)
        ok = t.rank == 2 and t.shape[1].concrete() == prim.dim
        if prop == "C02":
            S.ensure("two-axes-dim-columns", ok)
            if not ok:
                return
            S.ensure("row-count-is-n-per-parameter-row", t.shape[0].size_term() == zint(h.Kp) * zint(n))
            S.ensure("rows-grouped-by-parameter-row", h.grouped(t.shape[0]))
            S.ensure("space-is-domain-space", S.I.truth(S.I.compare(ast.Eq(), S.getattr(pts, "space"), S.getattr(h.dom, "space"))))
            return
        S.ensure("row-structure", ok and h.grouped(t.shape[0]))
        if not (ok and h.grouped(t.shape[0])):
            return
        if which == "boundary_left":
            pred = lambda x, v: x[0] == v["lower_bound"][0]
        elif which == "boundary_right":
            pred = lambda x, v: x[0] == v["upper_bound"][0]
        else:
            pred = prim.onbd if boundary else prim.inset

        def goal(q):
            k, j = h.split(q[0])
            return pred(cols(t, q[0], prim.dim), h.vals(k))

        rp = lambda q: ("geo_prim", {"prim": prim.name, "kind": method, "shapes": h.vals(h.split(q[0])[0]), "n": n}) if (not boundary) else None
        if wlog:
            W = wlog[-1]
            S.ensure("witness-has-one-row-per-point", W.rank == 2 and W.shape[0].same(t.shape[0]) and W.shape[1].concrete() == 2)
            # pure geometry lemma (no code): every point o + u d1 + v d2 of the hull lies in the denoted set
            def mkvars():
                vv = {nm: [z3.Real(f"L_{nm}{c}") for c in range(nc)] for nm, nc, _ in prim.params}
                return [vv, z3.Real("L_u"), z3.Real("L_v")]

            def stmt(vv, u, w):
                hv, hc, hx = prim.hull(vv)
                sub = [(hv[0], u), (hv[1], w)]
                return z3.Implies(z3.And(prim.pre(vv) + [z3.substitute(c, *sub) for c in hc]), prim.inset([z3.substitute(x, *sub) for x in hx], vv))

            inst = S.lemma_schema("hull-points-lie-in-the-set", mkvars, stmt)

            def wit(q):
                k, j = h.split(q[0])
                v = h.vals(k)
                u, w = zreal(W.at([q[0], (0,)])), zreal(W.at([q[0], (1,)]))
                hv, hc, hx = prim.hull(v)
                sub = [(hv[0], u), (hv[1], w)]
                return v, [z3.substitute(c, *sub) for c in hc], [z3.substitute(x, *sub) for x in hx], (u, w)

            S.forall("witness-coordinates-in-range", t, lambda q: z3.And(wit(q)[1]))
            S.forall("row-is-the-hull-point-of-its-witness", t, lambda q: z3.And([a == b for a, b in zip(cols(t, q[0], prim.dim), wit(q)[2])]))
            # conclusion: only from the three facts above (the row term itself is abstracted away)
            def concl(q):
                v, cons, hx, (u, w) = wit(q)
                x = [z3.Real(f"X_{i}") for i in range(prim.dim)]
                return z3.Implies(z3.And(cons + [a == b for a, b in zip(x, hx)] + [inst(v, u, w)] + prim.pre(v)), prim.inset(x, v))

            S.forall("every-row-in-the-set-of-its-own-parameter-row", t, concl)
        else:
            S.forall("every-row-in-the-set-of-its-own-parameter-row", t, goal, replay=rp if not boundary else None)

    tag = ("_" + (which or "boundary")) if boundary else ""
    f.__name__ = f"{prim.name}{tag}_{method}"
    f.__doc__ = "pre: constructor preconditions (positive measure), n >= 1, shape functions row-wise (A8); sample_grid: parameter rows only as its call sites pass them (see grid configs)"
    return f


def contains_scenario(prim, boundary):
    def f(S):
        N = S.int("N", 1)
        h = Harness(S, prim, S.cfg + "/rows", point_rows=N)
        X = S.tensor("X", [N, prim.dim])
        pts = S.new(POINTS, X, S.new(prim.space, "x"))
        obj = S.getattr(h.dom, "boundary") if boundary else h.dom
        res = S.method(obj, "_contains", pts, h.params).val
        S.ensure("one-truth-value-per-row", res.rank == 2 and res.shape[1].is_one and res.dtype == "bool")
        if res.rank != 2:
            return
        S.ensure("row-count", res.shape[0].size_term() == zint(N))
        xv = lambda q: (cols(X.val, q[0], prim.dim), h.vals(q[0]))
        at = lambda q: res.at([q[0], ()])
        if not boundary and prim.name != "point":
            S.forall("membership-is-the-denoted-set", res, lambda q: at(q) == prim.inset(*xv(q)), replay=lambda q: ("geo_prim", {"prim": prim.name, "kind": "contains", "shapes": xv(q)[1], "x": xv(q)[0]}))
        elif prim.name == "point":
            S.forall("accepts-the-point", res, lambda q: z3.Implies(prim.inset(*xv(q)), at(q)))
            S.forall("rejects-beyond-tolerance", res, lambda q: z3.Implies(at(q), prim.band(*xv(q))))
        else:
            cs = (lambda q: [prim.det(xv(q)[1]) > 0, prim.det(xv(q)[1]) < 0]) if hasattr(prim, "det") else None
            S.forall("accepts-exact-boundary-points", res, lambda q: z3.Implies(prim.onbd(*xv(q)), at(q)), cases=cs)
            S.forall("rejects-beyond-tolerance", res, lambda q: z3.Implies(at(q), prim.band(*xv(q))), cases=cs)
        if not boundary:
            r2 = S.method(h.dom, "__contains__", pts).val if h.kind in ("const", "tconst") else None
            if r2 is not None:
                S.forall("dunder-contains-agrees", r2, lambda q: r2.at(q) == res.at(q))

    f.__name__ = f"{prim.name}{'_boundary' if boundary else ''}_contains"
    f.__doc__ = "post: one truth value per row, each point judged against its OWN parameter row"
    return f


def volume_scenario(prim):
    def f(S):
        h = Harness(S, prim)
        v = S.method(h.dom, "volume", h.params).val
        S.ensure("one-value-per-row", z3.And(v.rank == 2, v.shape[-1].is_one, z3.Or(v.shape[0].size_term() == zint(h.Kp), z3.BoolVal(h.kind in ("const", "tconst") and v.shape[0].is_one))))
        S.forall("measure-is-analytic-and-positive", v, lambda q: z3.And(v.at(q) == prim.meas(h.vals(q[0])), v.at(q) > 0), replay=lambda q: ("geo_prim", {"prim": prim.name, "kind": "volume", "shapes": h.vals(q[0])}))
        if prim.has_boundary:
            b = S.method(S.getattr(h.dom, "boundary"), "volume", h.params).val
            S.ensure("boundary-one-value-per-row", z3.And(b.rank == 2, b.shape[-1].is_one))
            if hasattr(prim, "bmeas"):
                S.forall("boundary-measure-is-analytic", b, lambda q: z3.And(b.at(q) == prim.bmeas(h.vals(q[0])), b.at(q) > 0))
            else:
                S.forall("boundary-measure-is-analytic", b, lambda q: z3.And(prim.bmeas_check(b.at(q), h.vals(q[0])), b.at(q) > 0))

    f.__name__ = f"{prim.name}_volume"
    f.__doc__ = "post: volume()[k] = analytic measure of parameter row k, positive for every orientation"
    return f


def bbox_scenario(prim):
    def f(S):
        h = Harness(S, prim)
        box = S.method(h.dom, "bounding_box", h.params).val
        ok = box.rank == 1 and box.shape[0].concrete() == 2 * prim.dim
        S.ensure("flat-2dim-vector", ok)
        if not ok:
            return
        b = [zreal(box.at([(j,)])) for j in range(2 * prim.dim)]
        k = (z3.Int("k"),) if h.K is not None else ()
        hy = [k[0] >= 0, k[0] < zint(h.K)] if h.K is not None else []
        v = h.vals(k)
        inst = S.schema_instances([k]) if h.K is not None else []
        hv, hc, hx = prim.hull(v)
        S.ensure("encloses-every-point-of-every-row", z3.Implies(z3.And(hc) if hc else z3.BoolVal(True), z3.And([z3.And(b[2 * i] <= hx[i], hx[i] <= b[2 * i + 1]) for i in range(prim.dim)])), hy + inst, replay=("geo_prim", {"prim": prim.name, "kind": "bbox", "shapes": v}))
        if h.K is None and prim.name != "point":
            if hasattr(prim, "box_tight"):
                S.ensure("tight-for-single-row", z3.And([prim.box_tight(b[2 * i], b[2 * i + 1], i, v) for i in range(prim.dim)]))
            else:
                S.ensure("tight-for-single-row", z3.And([z3.And(b[2 * i] == lo, b[2 * i + 1] == hi) for i, (lo, hi) in enumerate(prim.box(v))]))
        if prim.has_boundary:
            bb = S.method(S.getattr(h.dom, "boundary"), "bounding_box", h.params).val
            S.ensure("boundary-box-shape", bb.rank == 1 and bb.shape[0].concrete() == 2 * prim.dim)

    f.__name__ = f"{prim.name}_bounding_box"
    f.__doc__ = "post: [min_0, max_0, ...] in space order, enclosing the domain for every supplied parameter row"
    return f


def normal_scenario(prim):
    def f(S):
        N = S.int("N", 1)
        h = Harness(S, prim, S.cfg.split("|")[0] + "/rows", point_rows=N)
        X = S.tensor("X", [N, prim.dim])
        pts = S.new(POINTS, X, S.new(prim.space, "x"))
        nrm = S.method(S.getattr(h.dom, "boundary"), "normal", pts, h.params).val
        ok = nrm.rank == 2 and nrm.shape[1].concrete() == prim.dim
        S.ensure("shape-N-dim", ok)
        if not ok:
            return
        S.ensure("row-count", nrm.shape[0].size_term() == zint(N))
        xv = lambda q: (cols(X.val, q[0], prim.dim), h.vals(q[0]))
        nv = lambda q: cols(nrm, q[0], prim.dim)
        pn = getattr(prim, "pre_normal", None)
        pre = (lambda q: z3.And([prim.onbd(*xv(q))] + pn(xv(q)[1]))) if pn else (lambda q: prim.onbd(*xv(q)))
        S.forall("unit-length", nrm, lambda q: z3.Implies(pre(q), dot(nv(q), nv(q)) == 1))
        S.forall("outward-first-order", nrm, lambda q: z3.Implies(pre(q), z3.And(prim.outward(xv(q)[0], nv(q), xv(q)[1]))))

    f.__name__ = f"{prim.name}_normal"
    f.__doc__ = "pre: points on the boundary of their own parameter row; post: finite, unit, outward (n . grad g > 0 for every active constraint g)"
    return f


def density_scenario(prim, boundary):
    def f(S):
        h = Harness(S, prim)
        dens = S.real("density")
        S.assume(dens.t > 0)
        obj = S.getattr(h.dom, "boundary") if boundary else h.dom
        if boundary and prim.name in ("parallelogram", "triangle"):
            S.use_contract(prim.bcls + "._transform_interval_to_boundary", walk_summary(prim))
        pts = S.method(obj, "sample_random_uniform", None, dens, h.params)
        t = tensor_of(pts)
        rows = t.shape[0].size_term()
        m = (prim.bmeas if boundary else prim.meas)(h.vals(()))
        want_lo, want_hi = dens.t * m, dens.t * m + 1  # ceil(x) = c  <=>  x <= c < x + 1
        if prim.name == "triangle" and not boundary:
            # rejection based: 2*ceil(d*vol) proposals, those with u+v >= 1 are dropped -> at most that many
            S.ensure("at-most-2-ceil-density-times-measure", z3.And(rows >= 0, z3.ToReal(rows) < 2 * want_hi))
        else:
            S.ensure("exactly-ceil-density-times-measure", z3.And(want_lo <= z3.ToReal(rows), z3.ToReal(rows) < want_hi), replay=("geo_prim", {"prim": prim.name, "kind": "density", "shapes": h.vals(()), "density": dens}) if not boundary else None)
        pred = prim.onbd if boundary else prim.inset
        S.forall("rows-in-the-set", t, lambda q: pred(cols(t, q[0], prim.dim), h.vals(())))

    f.__name__ = f"{prim.name}{'_boundary' if boundary else ''}_density_sampling"
    f.__doc__ = "pre: one parameter row at most; post: ceil(density * measure) points (rejection-based shapes: at most), all inside"
    return f


def density_history_scenario(prim, boundary):
    def f(S):
        h = Harness(S, prim, "fn/1")
        dens = S.real("density")
        S.assume(dens.t > 0)
        obj = S.getattr(h.dom, "boundary") if boundary else h.dom
        if boundary and prim.name in ("parallelogram", "triangle"):
            S.use_contract(prim.bcls + "._transform_interval_to_boundary", walk_summary(prim))
        # first call at parameter row t1, then a second call on the SAME object with the same density at row t2
        first = tensor_of(S.method(obj, "sample_random_uniform", None, dens, h.params))
        T2 = S.tensor("tparam2", [1, 1])
        p2 = S.new(POINTS, T2, S.new(R1, "t"))
        second = tensor_of(S.method(obj, "sample_random_uniform", None, dens, p2))
        v2 = h.shapes.at(zreal(T2.val.at([(), ()])))
        m2 = (prim.bmeas if boundary else prim.meas)(v2)
        rows = second.shape[0].size_term()
        lo, hi = dens.t * m2, dens.t * m2 + 1
        if prim.name == "triangle" and not boundary:
            S.ensure("second-call-at-most-2-ceil-density-times-ITS-measure", z3.And(rows >= 0, z3.ToReal(rows) < 2 * hi))
        else:
            S.ensure("second-call-returns-ceil-density-times-the-measure-of-ITS-parameter-row", z3.And(lo <= z3.ToReal(rows), z3.ToReal(rows) < hi))

    f.__name__ = f"{prim.name}{'_boundary' if boundary else ''}_density_sampling_twice_with_different_parameters"
    f.__doc__ = "history: two density samplings of one domain object with the same density at two different parameter rows (the loop the library recommends): the second count is ceil(density * measure at the SECOND row)"
    return f


def normal_direction_summary(prim, exact_log=None):
    """contract of <Polygon>Boundary._get_normal_direction(direction): rows e with |e| = 1, e . d = 0 and fixed
    orientation (parallelogram: cross(d, e) > 0, triangle: cross(d, e) < 0); requires d != 0.
    With exact_log (a list) the closed form is used instead: e = (dy, -dx) / L with L > 0, L*L = |d|^2 (triangle;
    proved by the helper scenario's exact-form obligations); every call is logged as row -> (dx, dy, L)."""
    from tpv.core import STensor
    from tpv.tlib import Tensor

    sign = 1 if prim.name == "parallelogram" else -1

    def summary(I, fn, args, kwargs):
        selfo, direction = args[0], args[1]
        dv = direction.val
        gi, hy = dv.generic_index("nd")
        r = gi[0]
        dx, dy = zreal(dv.at([r, (0,)])), zreal(dv.at([r, (1,)]))
        I.ctx.oblige(f"pre@{I.ctx.loc}:direction-non-zero", dx * dx + dy * dy > 0, hy, "pre")
        nf = sum(len(d.factors) for d in dv.shape[:1])
        fx = z3.Function(core.fresh_name("ndx"), *([z3.IntSort()] * nf + [z3.RealSort()])) if nf else z3.Real(core.fresh_name("ndx"))
        fy = z3.Function(core.fresh_name("ndy"), *([z3.IntSort()] * nf + [z3.RealSort()])) if nf else z3.Real(core.fresh_name("ndy"))

        def fn_(idx):
            row = idx[0]
            flat = [zint(c) for c in row]
            ex, ey = (fx(*flat), fy(*flat)) if nf else (fx, fy)
            ddx, ddy = zreal(dv.at([row, (0,)])), zreal(dv.at([row, (1,)]))
            if exact_log is not None:
                L = fL(*flat) if nf else fL
                # triangle: e = (dy, -dx) / L ; parallelogram: e = (-dy, dx) / L
                I.ctx.axiom(z3.And(L > 0, L * L == ddx * ddx + ddy * ddy, ex * L == -sign * ddy, ey * L == sign * ddx))
            else:
                I.ctx.axiom(z3.And(ex * ex + ey * ey == 1, ex * ddx + ey * ddy == 0, sign * (ddx * ey - ddy * ex) > 0))
            return core.select_comp(idx[1][0], 2, [lambda: ex, lambda: ey])

        if exact_log is not None:
            fL = z3.Function(core.fresh_name("ndL"), *([z3.IntSort()] * nf + [z3.RealSort()])) if nf else z3.Real(core.fresh_name("ndL"))

            def at_row(row):
                flat = [zint(c) for c in row][:nf]
                ex, ey = (fx(*flat), fy(*flat)) if nf else (fx, fy)
                return zreal(dv.at([tuple(row[:nf]), (0,)])), zreal(dv.at([tuple(row[:nf]), (1,)])), (fL(*flat) if nf else fL), ex, ey

            exact_log.append(at_row)
        return Tensor(STensor([dv.shape[0], Dim([2])], fn_, "real"))

    return summary


def normal_direction_helper_scenario(prim):
    def f(S):
        N = S.int("N", 1)
        fD = z3.Function("Dir", z3.IntSort(), z3.IntSort(), z3.RealSort())
        # requires: every direction row is non-zero (axiom schema instantiated wherever a row is read)
        Dn = S.tensor("Dir", [N, 2], on_access=lambda idx, v: S.ctx.axiom(fD(zint(idx[0][0]), 0) * fD(zint(idx[0][0]), 0) + fD(zint(idx[0][0]), 1) * fD(zint(idx[0][0]), 1) > 0))
        bd = S.I.new_without_init(S.find(prim.bcls))
        e = S.method(bd, "_get_normal_direction", Dn, "cpu").val
        q, hy = Dn.val.generic_index("h")
        dx, dy = zreal(Dn.val.at([q[0], (0,)])), zreal(Dn.val.at([q[0], (1,)]))
        ex, ey = zreal(e.at([q[0], (0,)])), zreal(e.at([q[0], (1,)]))
        sign = 1 if prim.name == "parallelogram" else -1
        S.ensure("unit-length", ex * ex + ey * ey == 1, hy)
        S.ensure("perpendicular-to-the-direction", ex * dx + ey * dy == 0, hy)
        S.ensure("fixed-orientation", sign * (dx * ey - dy * ex) > 0, hy)
        L = tlib.sqrt_term(z3.simplify(dx * dx + dy * dy))
        S.ensure("exact-form-x", ex * L == -sign * dy, hy)
        S.ensure("exact-form-y", ey * L == sign * dx, hy)

    f.__name__ = f"{prim.name}_normal_direction_helper"
    return f


def polygon_normal_modular(prim):
    """Parallelogram-/TriangleBoundary.normal, fixed vertex orientation (ccw / cw), constant or parameter-dependent
    corners (one parameter row per point), points exactly on the boundary.  Same proof structure for both shapes:
      A  [pure]  a point exactly on edge f has the edge test of f on (the barycentric coordinates are explicit terms);
      B  [pure]  edge tests that exclude each other are not on together;
      T  [pure]  strict Cauchy-Schwarz in quotient form,  I [pure] dot product of an edge normal with a rotated direction;
      link [pure] the ghost sum N is the signed sum of the ACTIVE edge normals in their closed form (contract of
           _get_normal_direction, proved by the helper scenario);
      C  [pure, one per (edge f, set of active tests containing f)]  N satisfies the outward inequality of edge f;
      assembly [pure, propositional]  A, B, C  =>  N is outward at every edge the point lies on, hence N != 0;
      'result = N / |N|' [code] + the pure normalisation lemma give unit length and outwardness of the result.
    The engine's own 'divisor non-zero' obligation of the final normalisation uses the row lemma N.N > 0."""
    import itertools

    tri = prim.name == "triangle"
    sig = 1 if tri else -1  # closed form of the helper: e = sig * (dy, -dx) / L

    def f(S):
        N = S.int("N", 1)
        h = Harness(S, prim, S.cfg + "/rows", point_rows=N)
        fX = z3.Function("X", z3.IntSort(), z3.IntSort(), z3.RealSort())
        raw = lambda r: [fX(zint(r[0]), z3.IntVal(c)) for c in range(2)]
        X = S.tensor("X", [N, 2], on_access=lambda idx, v: S.ctx.axiom(z3.Implies(z3.And(zint(idx[0][0]) >= 0, zint(idx[0][0]) < zint(N)), prim.onbd(raw(idx[0]), h.vals(idx[0])))))
        pts = S.new(POINTS, X, S.new(prim.space, "x"))
        exact = []
        S.use_contract(prim.bcls + "._get_normal_direction", normal_direction_summary(prim, exact))
        bd = S.getattr(h.dom, "boundary")
        cells = []
        S.on_call(prim.bcls + "._add_local_normal_vector", lambda rec: cells.append(rec["normals"]))
        S.ctx.ghost["assumed_lemmas"].pop()  # this hook only observes, it assumes nothing
        plog = S.probe(prim.bcls + "._add_local_normal_vector")
        nrm = S.method(bd, "normal", pts, h.params).val
        want_calls, want_dirs = (3, 3) if tri else (2, 2)
        ok = nrm.rank == 2 and nrm.shape[1].concrete() == 2 and len(cells) >= 1 and len(plog) == want_calls and len(exact) == want_dirs
        S.ensure("shape-N-2-edge-tests-and-edge-normals-as-expected", ok)
        if not ok:
            return
        Nsum = cells[0].val
        sgn = 1 if prim.orientation == "ccw" else -1

        def pack(row):
            q0 = tuple(row)
            x, v = raw(q0), h.vals(q0)
            U, V, D_ = prim.UVD(x, v)
            Nv = cols(Nsum, q0, 2)
            out = prim.outward(x, Nv, v)
            isc = lambda t_, i: tlib.isclose_term(zreal(t_.at([q0, ()])), core.realval(i))
            tests = []  # (bit, exact-edge condition, outward goal, helper call index, coefficient of that edge normal, kappa)
            # kappa: the gradient used in the outward goal of the test's edge is  kappa * D * (d_y, -d_x)  of the edge direction d
            if tri:
                # calls: (bary_x ~ 0, dir_3), (bary_x + bary_y ~ 1, dir_2), (bary_y ~ 0, dir_1); helper calls: dir_1, dir_2, dir_3
                conds = [U == 0, U + V == D_, V == 0]
                goals = [out[0], out[2], out[1]]
                eidx = [2, 1, 0]
                kap = [-1, 1, -1]
                for k, rec in enumerate(plog):
                    tests.append((isc(rec["bary_coord"], rec["i"]), conds[k], goals[k], eidx[k], sgn, kap[k]))
                excl = [[0, 1, 2]]
            else:
                # outward(): [U == 0, U == D, V == 0, V == D]; call i adds normal_dir_1 * (2i-1) where bary_y ~ i and
                # normal_dir_2 * (2i-1) where bary_x ~ i; normal_dir_1 = ori * e(dir_1), normal_dir_2 = -ori * e(dir_2)
                for rec in plog:
                    i = rec["i"]
                    s_i = 1 if i == 1.0 else -1
                    tests.append((isc(rec["bary_y"], i), (V == D_) if i == 1.0 else (V == 0), out[3] if i == 1.0 else out[2], 0, s_i * sgn, -1))
                    tests.append((isc(rec["bary_x"], i), (U == D_) if i == 1.0 else (U == 0), out[1] if i == 1.0 else out[0], 1, -s_i * sgn, 1))
                excl = [[0, 2], [1, 3]]  # (y ~ 0, y ~ 1) and (x ~ 0, x ~ 1)
            e = [at(list(q0)) for at in exact]
            return x, v, D_, tests, excl, e, Nv, out

        touch = lambda row: [zreal(X.val.at([tuple(row), (0,)])) == raw(tuple(row))[0]]
        tq = lambda ax, ay, bx, by, La, Lb: z3.Implies(z3.And(La > 0, Lb > 0, La * La == ax * ax + ay * ay, Lb * Lb == bx * bx + by * by, ax * by - ay * bx != 0), z3.And(La + (ax * bx + ay * by) / Lb > 0, La - (ax * bx + ay * by) / Lb > 0))
        S.lemma_schema("strict-cauchy-schwarz-quotient-form", lambda: [z3.Real(f"TQ_{k}") for k in ("ax", "ay", "bx", "by", "La", "Lb")], tq)
        ident = lambda jx, jy, Lj, kx, ky: z3.Implies(Lj > 0, (sig * jy / Lj) * ky + (-sig * jx / Lj) * (-kx) == sig * (jx * kx + jy * ky) / Lj)
        S.lemma_schema("dot-product-of-an-edge-normal-with-a-rotated-direction", lambda: [z3.Real(f"ID_{k}") for k in ("jx", "jy", "Lj", "kx", "ky")], ident)

        row = (z3.Int("tq0"),)
        rng = [row[0] >= 0, row[0] < zint(N)]
        x, v, D_, tests, excl, e, Nv, out = pack(row)
        nt = len(tests)
        bits = [t_[0] for t_ in tests]
        ori_fact = (D_ > 0) if sgn == 1 else (D_ < 0)
        S.ensure("orientation-of-the-configuration", ori_fact, rng + touch(row), kind="lemma")
        A = [z3.Implies(tests[k][1], bits[k]) for k in range(nt)]
        for k in range(nt):
            S.ctx.oblige(f"{S.prefix}/lemma:A-point-exactly-on-edge-of-test-{k}-has-that-test-on", A[k], [ori_fact] + touch(row), "lemma", pure=True)
        B = [z3.Not(z3.And([bits[k] for k in grp])) for grp in excl]
        for gi_, bl in enumerate(B):
            S.ctx.oblige(f"{S.prefix}/lemma:B-exclusive-edge-tests-{gi_}-not-on-together", bl, [ori_fact] + touch(row), "lemma", pure=True)
        en = [(sig * e[j][1] / e[j][2], -sig * e[j][0] / e[j][2]) for j in range(len(e))]
        link = [Nv[c] == z3.Sum([z3.If(bits[k], 1, 0) * tests[k][4] * en[tests[k][3]][c] for k in range(nt)]) for c in range(2)]
        exact_facts = [z3.And(e[j][2] > 0, e[j][2] * e[j][2] == e[j][0] * e[j][0] + e[j][1] * e[j][1]) for j in range(len(e))]
        closed_form = [z3.And(e[j][2] > 0, e[j][3] * e[j][2] == sig * e[j][1], e[j][4] * e[j][2] == -sig * e[j][0]) for j in range(len(e))]
        S.ensure("edge-normal-lengths-and-closed-forms-are-the-helper-contract", z3.And(exact_facts + closed_form), rng + touch(row), kind="lemma")
        S.ctx.oblige(f"{S.prefix}/lemma:ghost-sum-is-the-signed-sum-of-the-active-edge-normals", z3.And(link), [ori_fact] + closed_form + touch(row), "lemma", pure=True)
        # active sets: every subset of the tests that contains no exclusive group, non-empty
        C = []
        pair_facts = {}
        for bitsv in itertools.product([False, True], repeat=nt):
            act = [k for k in range(nt) if bitsv[k]]
            if not act or any(all(bitsv[k] for k in grp) for grp in excl):
                continue
            cfgbits = z3.And([bits[k] if bitsv[k] else z3.Not(bits[k]) for k in range(nt)])
            for fk in act:
                ef = tests[fk][3]
                fx, fy, Lf = e[ef][:3]
                tag = "".join(str(int(b)) for b in bitsv)
                goal = tests[fk][2]  # (edge condition => dotterm </> 0)
                dotterm = goal.arg(1).arg(0)
                less = goal.arg(1).decl().kind() == z3.Z3_OP_LT
                cst = tests[fk][5] * sig * tests[fk][4]  # sign of the leading term relative to D
                others = [k for k in act if k != fk and tests[k][3] != ef]
                P = {k: fx * e[tests[k][3]][0] + fy * e[tests[k][3]][1] for k in others}
                rr = {k: tests[k][4] * tests[fk][4] for k in others}  # coefficient ratio (+1 / -1)
                value = (cst * D_ * (Lf + z3.Sum([rr[k] * P[k] / e[tests[k][3]][2] for k in others]))) if others else (cst * D_ * Lf)
                hy1 = [cfgbits] + link + [exact_facts[tests[k][3]] for k in act] + [ident(e[tests[k][3]][0], e[tests[k][3]][1], e[tests[k][3]][2], fx, fy) for k in act]
                S.ctx.oblige(f"{S.prefix}/lemma:C1-test-{fk}-active-{tag}-value-of-the-scalar-product", dotterm == value, hy1, "lemma", pure=True)
                # C2: sign of that value -- a lemma over plain reals, instantiated
                facts = [dotterm == value, ori_fact, Lf > 0]
                for k in others:
                    ek = tests[k][3]
                    kx, ky, Lk = e[ek][:3]
                    key = (ef, ek)
                    if key not in pair_facts:
                        nz_cross = fx * ky - fy * kx != 0
                        S.ctx.oblige(f"{S.prefix}/lemma:edges-{ef}-{ek}-are-not-parallel", nz_cross, [ori_fact], "lemma", pure=True)
                        concl = z3.And(Lf + P[k] / Lk > 0, Lf - P[k] / Lk > 0, Lk > 0)
                        S.ctx.oblige(f"{S.prefix}/lemma:edges-{ef}-{ek}-strict-cauchy-schwarz-instance", concl, [nz_cross, exact_facts[ef], exact_facts[ek], tq(fx, fy, kx, ky, Lf, Lk)], "lemma", pure=True)
                        pair_facts[key] = concl
                    facts.append(pair_facts[key])
                W, Dv, Lfv = z3.Real("SG_W"), z3.Real("SG_D"), z3.Real("SG_Lf")
                if others:
                    k0 = others[0]
                    Pv, Lkv = z3.Real("SG_P"), z3.Real("SG_Lk")
                    sch = lambda W_, D__, Lf_, P_, Lk_, r=rr[k0]: z3.Implies(z3.And(W_ == cst * D__ * (Lf_ + z3.Sum([r * P_ / Lk_])), (D__ > 0) if sgn == 1 else (D__ < 0), Lf_ > 0, z3.And(Lf_ + P_ / Lk_ > 0, Lf_ - P_ / Lk_ > 0, Lk_ > 0)), (W_ < 0) if less else (W_ > 0))
                    lab = f"sign-of-a-two-edge-sum-{cst}-{rr[k0]}-{int(less)}"
                    if lab not in pair_facts:
                        pair_facts[lab] = True
                        S.lemma_schema(lab, lambda: [W, Dv, Lfv, Pv, Lkv], sch)
                    inst = sch(dotterm, D_, Lf, P[k0], e[tests[k0][3]][2])
                else:
                    sch = lambda W_, D__, Lf_: z3.Implies(z3.And(W_ == cst * D__ * Lf_, (D__ > 0) if sgn == 1 else (D__ < 0), Lf_ > 0), (W_ < 0) if less else (W_ > 0))
                    lab = f"sign-of-a-one-edge-term-{cst}-{int(less)}"
                    if lab not in pair_facts:
                        pair_facts[lab] = True
                        S.lemma_schema(lab, lambda: [W, Dv, Lfv], sch)
                    inst = sch(dotterm, D_, Lf)
                S.ctx.oblige(f"{S.prefix}/lemma:C2-test-{fk}-active-{tag}-sum-is-outward-at-that-edge", goal.arg(1), facts + [inst], "lemma", pure=True)
                C.append(z3.Implies(cfgbits, goal))
        goal_all = z3.And(list(out))
        S.ctx.oblige(f"{S.prefix}/post:edge-normal-sum-is-outward", goal_all, A + B + C, "post", pure=True)
        onedge = [t_[1] for t_ in tests]
        S.ctx.oblige(f"{S.prefix}/post:edge-normal-sum-is-not-zero", dot(Nv, Nv) > 0, [goal_all, z3.Or(onedge)], "post", pure=True)
        S.ensure("point-lies-exactly-on-some-edge", z3.Or(onedge), rng + touch(row), kind="lemma")

        def nz(r):
            Nr = cols(Nsum, tuple(r), 2)
            dd = z3.simplify(dot(Nr, Nr))
            return z3.And(dd > 0, tlib.sqrt_term(dd) > 0)

        dd0 = z3.simplify(dot(Nv, Nv))
        sq0 = tlib.sqrt_term(dd0)
        S.ctx.oblige(f"{S.prefix}/lemma:length-of-the-non-zero-sum-is-positive", sq0 > 0, [dd0 > 0, z3.Implies(dd0 >= 0, z3.And(sq0 >= 0, sq0 * sq0 == dd0))], "lemma", pure=True)
        S.ctx.ghost.setdefault("row_lemmas", []).append((core.dim_of(N), lambda r: z3.Implies(z3.And(zint(r[0]) >= 0, zint(r[0]) < zint(N)), nz(r))))
        nv = lambda q: cols(nrm, q[0], 2)
        Nq = lambda q: cols(Nsum, q[0], 2)
        S.forall("result-is-the-normalised-sum", nrm, lambda q: z3.Implies(dot(Nq(q), Nq(q)) > 0, z3.And([nv(q)[c] == Nq(q)[c] / tlib.sqrt_term(z3.simplify(dot(Nq(q), Nq(q)))) for c in range(2)])), extra_hyps=lambda q: touch(q[0]))
        S.lemma_schema("normalisation-keeps-direction-and-gives-unit-length", lambda: [z3.Real("L_a"), z3.Real("L_b"), z3.Real("L_s"), z3.Real("L_g0"), z3.Real("L_g1")], lambda a, b, s, g0, g1: z3.Implies(z3.And(s > 0, s * s == a * a + b * b), z3.And((a / s) * (a / s) + (b / s) * (b / s) == 1, z3.Implies(a * g0 + b * g1 > 0, (a / s) * g0 + (b / s) * g1 > 0), z3.Implies(a * g0 + b * g1 < 0, (a / s) * g0 + (b / s) * g1 < 0))))

    f.__name__ = f"{prim.name}_normal_{prim.orientation}"
    f.__doc__ = polygon_normal_modular.__doc__
    return f


def polygon_normal_rounded_instance(prim):
    """INSTANCE (bounded, known finding F31): a slanted polygon with concrete corners and the exact boundary point
    x* = origin + 3/10 (corner_1 - origin); the point handed to normal() is x* with each coordinate perturbed by at most
    the float32 storage rounding |delta_c| <= 2^-24 |x*_c| (the only float effect modelled).  The edge tests of
    normal() use isclose with atol 1e-8, which is tighter than that rounding: the obligation 'some edge test fires'
    (and the engine's own 'divisor non-zero' of the final normalisation) is refuted -- normal() returns 0/0 = NaN."""

    def f(S):
        o, c1, c2 = [0.3, 0.1], [1.7, 0.9], [0.2, 1.3]
        dom = S.new(prim.cls, S.new(R2, "x"), o, c1, c2)
        xs = [core.realval(0.72), core.realval(0.34)]
        de = [S.real("delta0"), S.real("delta1")]
        for c in range(2):
            S.assume(z3.And(de[c].t <= xs[c] / 16777216, de[c].t >= -xs[c] / 16777216))
        from tpv.tlib import tensor_from_nested, Tensor

        X = Tensor(tensor_from_nested([[Sym(xs[0] + de[0].t, "float"), Sym(xs[1] + de[1].t, "float")]]))
        pts = S.new(POINTS, X, S.new(R2, "x"))
        bd = S.getattr(dom, "boundary")
        cells = []
        S.on_call(prim.bcls + "._add_local_normal_vector", lambda rec: cells.append(rec["normals"]))
        S.ctx.ghost["assumed_lemmas"].pop()
        S.method(bd, "normal", pts)
        S.ensure("edge-test-observed", len(cells) >= 1)
        if cells:
            Nv = cols(cells[0].val, (), 2)
            S.ensure("some-edge-test-fires-for-the-float32-rounded-boundary-point", dot(Nv, Nv) > 0)

    f.__name__ = f"{prim.name}_normal_at_a_float32_rounded_boundary_point_instance"
    f.__doc__ = polygon_normal_rounded_instance.__doc__
    return f


def normal_same_as_fresh_object(prim):
    def f(S):
        N1 = S.int("N1", 1)
        h = Harness(S, prim, S.cfg + "/rows", point_rows=N1)
        bd = S.getattr(h.dom, "boundary")
        X1 = S.tensor("X1", [N1, prim.dim])
        with S.quiet():
            S.method(bd, "normal", S.new(POINTS, X1, S.new(prim.space, "x")), h.params)
        N2 = S.int("N2", 1)
        X2 = S.tensor("X2", [N2, prim.dim])
        pts2 = S.new(POINTS, X2, S.new(prim.space, "x"))
        if h.kind == "fn":
            p2 = S.new(POINTS, S.tensor("tparam2", [N2, 1]), S.new(R1, "t"))
        else:
            p2 = S.call(S.getattr(S.find(POINTS), "empty"))
        with S.quiet():
            used = S.method(bd, "normal", pts2, p2)
            fresh = S.method(S.getattr(prim.construct(S, h.shapes.args), "boundary"), "normal", pts2, p2)
        if prim.name in ("parallelogram", "triangle") and h.kind == "fn":
            # candidate counter-instance (refutation only): a rectangle / right triangle that turns by 90 degrees
            # between t = 0 (first query) and t = 1 (second query), asked at its corners and edge midpoints
            R = z3.RealVal
            o, c1, c2 = (0, 0), (0, 2), (-1, 0)
            tri = prim.name == "triangle"
            far = (c1[0] + c2[0], c1[1] + c2[1])
            corners = [o, c1, c2] + ([] if tri else [far])
            ring = [o, c1, c2] if tri else [o, c1, far, c2]
            mids = [((a[0] + b[0]) / 2, (a[1] + b[1]) / 2) for a, b in zip(ring, ring[1:] + ring[:1])]
            table = corners + mids

            def X2fn(q, c):
                e = R(0)
                for k, pnt in reversed(list(enumerate(table))):
                    e = z3.If(q == k, z3.If(c == 0, R(pnt[0]), R(pnt[1])), e)
                return e

            S.candidate_instance(
                "shape turning by 90 degrees between the two queries",
                {
                    "origin_0": lambda t: R(0) * t, "origin_1": lambda t: R(0) * t,
                    "corner_1_0": lambda t: 2 - 2 * t, "corner_1_1": lambda t: 2 * t,
                    "corner_2_0": lambda t: -t, "corner_2_1": lambda t: 1 - t,
                    "tparam": lambda q: R(0) * z3.ToReal(q), "tparam2": lambda q: R(1) + 0 * z3.ToReal(q),
                    "X1": lambda q, c: R(0) * z3.ToReal(q), "X2": X2fn,
                },
                {N1.t: len(table), N2.t: len(table)},
            )
        S.same_tensor("second-query-on-a-used-boundary-object-equals-the-query-on-a-fresh-one", used, fresh)

    f.__name__ = f"{prim.name}_normal_does_not_depend_on_earlier_queries"
    f.__doc__ = "history (relational): after normal() was asked for N1 arbitrary points / parameter rows, the SAME boundary object asked for N2 other points / rows returns entry by entry what a newly constructed domain returns -- so the contract proved for a fresh object holds after any one earlier query; the safety obligations of the three runs are those of the plain scenario and not repeated"
    return f


class _Oriented(ParallelogramP):
    pass


def _register():
    for prim in PRIMS:
        helpers = {
            "circle": [prim.cls + "._compute_center_and_radius"],
            "sphere": [prim.cls + "._compute_center_and_radius"],
            "parallelogram": [prim.cls + "._construct_parallelogram"],
            "triangle": [prim.cls + "._construct_triangle"],
        }.get(prim.name, [])

        def both(prop, targets, configs, hist_configs, body, bounded=None, light=False):
            """the scenario, and its history variant (spec.second_use): the same object asked again"""
            scenario(prop, targets, configs=configs, bounded=bounded)(body)
            if hist_configs:
                scenario(prop, targets, configs=hist_configs, bounded=bounded)(second_use(body, light=light))

        for method in ("sample_random_uniform", "sample_grid"):
            cfgs = CFGS + ["tconst/none"]
            if method == "sample_grid":
                # call sites (GridSampler, domain operations) pass no parameters, one row, or rows the shape depends on
                cfgs = ["const/none", "fn/1", "tconst/none"] if prim.name in ("sphere", "parallelogram", "triangle") else ["const/none", "fn/1", "fn/K", "tconst/none"]
            for prop in ("C01", "C02"):
                hist = ["fn/1", "tconst/none"] if prop == "C01" else []
                heavy = method == "sample_grid" and prim.name in ("sphere", "parallelogram", "triangle")
                both(prop, [prim.cls + "." + method, DOMAIN + ".len_of_params"] + helpers, cfgs, hist[:1] if heavy else hist, sampling_scenario(prim, prop, method, False), light=heavy)
                if prim.has_boundary:
                    both(prop, [prim.bcls + "." + method] + helpers, cfgs, hist, sampling_scenario(prim, prop, method, True))
                if prim.name == "interval":
                    for side in ("boundary_left", "boundary_right"):
                        both(prop, [D + "domain1D.interval.IntervalSingleBoundaryPoint." + method], cfgs, hist, sampling_scenario(prim, prop, method, True, side))
        if prim.name in ("parallelogram", "triangle"):
            scenario("C01", [prim.bcls + "._transform_interval_to_boundary", prim.bcls + "._scale_points_on_side"], configs=["any"])(walk_helper_scenario(prim))
            # the same exact spec is the per-call law clause of the boundary samplers (C11): the walk is the arc-length
            # parametrisation of the perimeter (leg k is covered at constant speed with ITS OWN side length)
            scenario("C11", [prim.bcls + "._transform_interval_to_boundary", prim.bcls + "._scale_points_on_side"], configs=["any"])(walk_helper_scenario(prim))
        both("C05", [prim.cls + "._contains", DOMAIN + ".__contains__"] + ([prim.cls + "._solve_lgs"] if prim.name in ("parallelogram", "triangle") else []), ["const", "fn", "tconst"], ["fn", "tconst"], contains_scenario(prim, False))
        if prim.has_boundary:
            both("C05", [prim.bcls + "._contains"], ["const", "fn", "tconst"], ["fn", "tconst"], contains_scenario(prim, True))
        both("C10", [prim.cls + "._get_volume", DOMAIN + ".volume"] + ([prim.bcls + "._get_volume"] if prim.has_boundary else []), CFGS + ["tconst/K"], ["fn/K", "tconst/K"], volume_scenario(prim))
        if prim.name != "point":
            both("C10", [prim.cls + ".sample_random_uniform", DOMAIN + ".compute_n_from_density"], ["const/none", "fn/1", "tconst/none"], ["tconst/none"], density_scenario(prim, False))
            if prim.name in ("interval", "circle", "sphere"):
                scenario("C10", [prim.cls + ".sample_random_uniform", DOMAIN + ".compute_n_from_density"], configs=["fn/1-then-fn/1"])(density_history_scenario(prim, False))
            if prim.has_boundary:
                both("C10", [prim.bcls + ".sample_random_uniform", DOMAIN + ".compute_n_from_density"], ["const/none", "fn/1", "tconst/none"], ["tconst/none"], density_scenario(prim, True))
        both("C18", [prim.cls + ".bounding_box"] + ([BDOMAIN + ".bounding_box"] if prim.has_boundary else []), CFGS + ["tconst/K"], ["fn/K", "tconst/none"], bbox_scenario(prim))
        if prim.has_boundary:
            if prim.name in ("parallelogram", "triangle"):
                scenario("C06", [prim.bcls + "._get_normal_direction"], configs=["any"])(normal_direction_helper_scenario(prim))
                scenario("C06", [prim.bcls + ".normal", prim.bcls + "._add_local_normal_vector"], configs=["slanted"], bounded="one concrete shape and boundary point; float32 storage rounding of the point only")(polygon_normal_rounded_instance(prim))
                for ori in ("ccw", "cw"):
                    p4 = type(prim)()
                    p4.orientation = ori
                    both("C06", [prim.bcls + ".normal", prim.bcls + "._add_local_normal_vector", BDOMAIN + "._transform_input_for_normals"], ["const", "fn", "tconst"], [], polygon_normal_modular(p4))
            else:
                both("C06", [prim.bcls + ".normal", BDOMAIN + "._transform_input_for_normals"], ["const", "fn", "tconst"], ["fn", "tconst"], normal_scenario(prim))
            scenario("C06", [prim.bcls + ".normal"], configs=["fn", "tconst"])(normal_same_as_fresh_object(prim))


_register()
