"""Circle / CircleBoundary under contract (C01, C02, C05, C06, C10, C18).
Oracle: InSet(x, p) <=> |x - c(p)|^2 <= r(p)^2 ;  OnBd <=> |x - c|^2 = r^2 ;  Meas = pi r^2 ;  |bd| = 2 pi r."""
import z3

from tpv.spec import scenario
from tpv.core import zint, zreal
from tpv import tlib
from .geom import *

C = DOM + "domain2D.circle.Circle"
CB = DOM + "domain2D.circle.CircleBoundary"
PRE = "precondition: radius > 0 (row-wise); n >= 1; shape functions row-wise (A8)"


def mk(S):
    g = Geo(S)
    carg, cev = g.shape("center", 2)
    rarg, rev = g.shape("radius", 1, positive=True)
    dom = S.new(C, S.new(R2, "x"), carg, rarg)
    return g, dom, cev, rev


def in_disc(x, c, r):
    return sq(x[0] - c[0]) + sq(x[1] - c[1]) <= sq(r[0])


def on_circle(x, c, r):
    return sq(x[0] - c[0]) + sq(x[1] - c[1]) == sq(r[0])


def _sampling(S, prop, method, boundary):
    g, dom, cev, rev = mk(S)
    n = S.int("n", 1)
    obj = S.getattr(dom, "boundary") if boundary else dom
    pts = S.method(obj, method, n, None, g.params)
    t = tensor_of(pts)
    if prop == "C02":
        ensure_rows(S, "rows", t, g.rows_factors(n))
        S.ensure("two-columns", t.shape[1].concrete() == 2)
        S.ensure("space-is-domain-space", S.I.truth(S.I.compare(ast.Eq(), S.getattr(pts, "space"), S.getattr(dom, "space"))))
        return
    ok = t.shape[0].same(g.rows_factors(n))
    S.ensure("row-structure", ok)
    if not ok:
        return
    pred = on_circle if boundary else in_disc

    def goal(q):
        k, j = g.split_row(q[0])
        return pred(cols(t, q[0], 2), cev(k), rev(k))

    S.forall("every-row-in-the-set-of-its-own-parameter-row", t, lambda q: goal([q[0], q[1]]))
    if not boundary and method == "sample_random_uniform":
        S.canary("rows-in-half-radius-disc", (lambda q: sq(cols(t, q[0], 2)[0] - cev(g.split_row(q[0])[0])[0]) + sq(cols(t, q[0], 2)[1] - cev(g.split_row(q[0])[0])[1]) <= sq(rev(g.split_row(q[0])[0])[0]) / 4)(t.generic_index("cn")[0]))


for _prop in ("C01", "C02"):
    for _m in ("sample_random_uniform", "sample_grid"):
        for _b in (False, True):
            def _f(S, _prop=_prop, _m=_m, _b=_b):
                _sampling(S, _prop, _m, _b)
            _f.__name__ = f"circle{'_boundary' if _b else ''}_{_m}"
            _f.__doc__ = PRE
            scenario(_prop, [(CB if _b else C) + "." + _m, C + "._compute_center_and_radius"], configs=CFGS)(_f)


@scenario("C05", [C + "._contains", CB + "._contains", DOM + "domain.Domain.__contains__"], configs=["const/none", "fn/none"])
def circle_contains(S):
    """post: exactly one truth value per row; interior: result <=> |x-c|^2 <= r^2 (each point's own parameter row);
    boundary: |x-c|^2 = r^2 => accepted, accepted => | |x-c| - r | <= atol + rtol*r"""
    g = Geo(S, "const/none")
    fn = S.cfg.startswith("fn")
    N = S.int("N", 1)
    X = S.tensor("X", [N, 2])
    if fn:
        from tpv.spec import RowFn
        cf = RowFn("center", ["t"], 2, {"t": 1})
        rf = RowFn("radius", ["t"], 1, {"t": 1})
        rf.on_value = lambda I, ins, outs: [I.ctx.axiom(o > 0) for o in outs]
        dom = S.new(C, S.new(R2, "x"), cf, rf)
        Tt = S.tensor("tt", [N, 1])
        params = S.new(POINTS, Tt, S.new(R1, "t"))
        cev = lambda row: cf.value_terms([zreal(Tt.val.at([row, ()]))])
        rev = lambda row: rf.value_terms([zreal(Tt.val.at([row, ()]))])
    else:
        carg, cev0 = g.shape("center", 2)
        rarg, rev0 = g.shape("radius", 1, positive=True)
        dom = S.new(C, S.new(R2, "x"), carg, rarg)
        params = g.params
        cev = lambda row: cev0(())
        rev = lambda row: rev0(())
    pts = S.new(POINTS, X, S.new(R2, "x"))
    res = S.method(dom, "_contains", pts, params).val
    S.ensure("one-truth-value-per-row", res.rank == 2 and res.shape[0].size_term() == zint(N) and res.shape[1].is_one)
    S.forall("interior-membership-is-the-closed-disc", res, lambda q: res.at(q) == in_disc(cols(X.val, q[0], 2), cev(q[0]), rev(q[0])))
    if not fn:
        r2 = S.method(dom, "__contains__", pts).val
        S.forall("dunder-contains-agrees", r2, lambda q: r2.at(q) == res.at(q))
    bres = S.method(S.getattr(dom, "boundary"), "_contains", pts, params).val
    S.ensure("boundary-one-truth-value-per-row", bres.rank == 2 and bres.shape[0].size_term() == zint(N) and bres.shape[1].is_one)
    S.forall("boundary-accepts-exact-boundary-points", bres, lambda q: z3.Implies(on_circle(cols(X.val, q[0], 2), cev(q[0]), rev(q[0])), bres.at(q)))

    def band(q):
        x, c, r = cols(X.val, q[0], 2), cev(q[0]), rev(q[0])
        d2 = sq(x[0] - c[0]) + sq(x[1] - c[1])
        tol = core.realval(1e-8) + core.realval(1e-5) * r[0]
        # | sqrt(d2) - r | <= tol   <=>  (r - tol)^2 <= d2 <= (r + tol)^2   (r - tol >= 0)
        return z3.Implies(bres.at(q), z3.And(d2 <= sq(r[0] + tol), z3.Or(r[0] - tol < 0, d2 >= sq(r[0] - tol))))

    S.forall("boundary-rejects-beyond-tolerance", bres, band)


@scenario("C10", [C + "._get_volume", CB + "._get_volume", DOM + "domain.Domain.volume"], configs=CFGS)
def circle_volume(S):
    """post: one positive value per parameter row, pi r^2 (boundary: 2 pi r)"""
    g, dom, cev, rev = mk(S)
    v = S.method(dom, "volume", g.params).val
    # constant shapes may answer with a single (broadcastable) row
    S.ensure("one-value-per-row", z3.And(v.rank == 2, v.shape[-1].is_one, z3.Or(v.shape[0].size_term() == zint(g.Kp), z3.BoolVal(g.shape_kind == "const" and v.shape[0].is_one))))
    S.forall("area-is-pi-r-squared", v, lambda q: z3.And(v.at(q) == tlib.PI * sq(rev(q[0])[0]), v.at(q) > 0))
    b = S.method(S.getattr(dom, "boundary"), "volume", g.params).val
    S.forall("perimeter-is-2-pi-r", b, lambda q: z3.And(b.at(q) == 2 * tlib.PI * rev(q[0])[0], b.at(q) > 0))


@scenario("C18", [C + ".bounding_box", DOM + "domain.BoundaryDomain.bounding_box"], configs=CFGS)
def circle_bounding_box(S):
    """post: 1-D tensor [xmin, xmax, ymin, ymax]; every point of every supplied parameter row's disc is enclosed;
    tight for a single row"""
    g, dom, cev, rev = mk(S)
    box = S.method(dom, "bounding_box", g.params).val
    S.ensure("shape-2dim", box.rank == 1 and box.shape[0].concrete() == 4)
    b = [zreal(box.at([(j,)])) for j in range(4)]
    k = (z3.Int("k"),) if g.K is not None else ()
    hy = [k[0] >= 0, k[0] < zint(g.K)] if g.K is not None else []
    x = [z3.Real("px"), z3.Real("py")]
    c, r = cev(k), rev(k)
    inst = S.schema_instances([k]) if g.K is not None else []
    S.ensure("encloses-every-point-of-every-row", z3.Implies(in_disc(x, c, r), z3.And(b[0] <= x[0], x[0] <= b[1], b[2] <= x[1], x[1] <= b[3])), hy + inst)
    if g.K is None:
        S.ensure("tight", z3.And(b[0] == c[0] - r[0], b[1] == c[0] + r[0], b[2] == c[1] - r[0], b[3] == c[1] + r[0]))
    bb = S.method(S.getattr(dom, "boundary"), "bounding_box", g.params).val
    S.ensure("boundary-box-is-domain-box", z3.And([zreal(bb.at([(j,)])) == b[j] for j in range(4)]) if g.K is None else bb.shape[0].concrete() == 4)


@scenario("C06", [CB + ".normal", DOM + "domain.BoundaryDomain._transform_input_for_normals"], configs=["const/none", "fn/none"])
def circle_normal(S):
    """pre: points on the circle of their own parameter row.  post: finite (radius != 0), unit length,
    outward first-order: n . grad(|x-c|^2 - r^2) > 0"""
    fn = S.cfg.startswith("fn")
    N = S.int("N", 1)
    X = S.tensor("X", [N, 2])
    g = Geo(S, "const/none")
    if fn:
        from tpv.spec import RowFn
        cf = RowFn("center", ["t"], 2, {"t": 1})
        rf = RowFn("radius", ["t"], 1, {"t": 1})
        rf.on_value = lambda I, ins, outs: [I.ctx.axiom(o > 0) for o in outs]
        dom = S.new(C, S.new(R2, "x"), cf, rf)
        Tt = S.tensor("tt", [N, 1])
        params = S.new(POINTS, Tt, S.new(R1, "t"))
        cev = lambda row: cf.value_terms([zreal(Tt.val.at([row, ()]))])
        rev = lambda row: rf.value_terms([zreal(Tt.val.at([row, ()]))])
    else:
        carg, cev0 = g.shape("center", 2)
        rarg, rev0 = g.shape("radius", 1, positive=True)
        dom = S.new(C, S.new(R2, "x"), carg, rarg)
        params = g.params
        cev = lambda row: cev0(())
        rev = lambda row: rev0(())
    pts = S.new(POINTS, X, S.new(R2, "x"))
    nrm = S.method(S.getattr(dom, "boundary"), "normal", pts, params).val
    S.ensure("shape-N-2", nrm.rank == 2 and nrm.shape[0].size_term() == zint(N) and nrm.shape[1].concrete() == 2)

    def pre(q):
        return on_circle(cols(X.val, q[0], 2), cev(q[0]), rev(q[0]))

    S.forall("unit-length", nrm, lambda q: z3.Implies(pre(q), sq(cols(nrm, q[0], 2)[0]) + sq(cols(nrm, q[0], 2)[1]) == 1))
    S.forall("outward", nrm, lambda q: z3.Implies(pre(q), cols(nrm, q[0], 2)[0] * (cols(X.val, q[0], 2)[0] - cev(q[0])[0]) + cols(nrm, q[0], 2)[1] * (cols(X.val, q[0], 2)[1] - cev(q[0])[1]) > 0))
