"""C07 — training through the Solver equals the reference optimisation loop (repository side).

Assumed external contract (A5, Lightning): Trainer.fit calls on_train_start once, then per step training_step once,
backward on the returned tensor, optimizer.step() / scheduler at the configured frequency on what
configure_optimizers returned, and never steps the optimizer during validation.
Repository side under contract:
  training_step : loop invariant  loss = PS(i),  PS(0) = 0, PS(i+1) = PS(i) + weight_i * L_i(device, n_training_step)
                  (the recursive definition of "sum over all conditions, each exactly once"); counter + 1
  on_train_start: counter := 0;  validation_step: counter and parameters untouched, every val condition once
  configure_optimizers: optimizer_class(self.parameters(), lr=lr, **args) -- and parameters() contains every
                  learnable tensor reachable from the conditions (model weights, inverse-problem parameters,
                  adaptive point weights);  GradReverse: forward identity, backward = -grad (ascent)
The number of conditions is SYMBOLIC (a family of abstract conditions indexed by i).
"""
import ast

import z3

from tpv import core
from tpv.core import zint, zreal, Sym, Dim, STensor
from tpv.spec import scenario, LoopSpec, RowFn, TensorFn, rowwise_tensor_fn, scalar_tensor_fn
from tpv.tlib import Tensor
from tpv.absdom import AbstractModel, AbstractSampler

SOLVER = "torchphysics.solver.Solver"
OPT = "torchphysics.solver.OptimizerSetting"
COND = "torchphysics.problem.conditions.condition."
RN = "torchphysics.problem.spaces.space.Rn"
PARAM = "torchphysics.models.parameter.Parameter"
AWL = "torchphysics.models.model.AdaptiveWeightLayer"


class CondFamily:
    """m abstract conditions: condition i has weight w(i) and returns the loss L(i, iteration) when called"""

    def __init__(self, S, name, m):
        self.S, self.name, self.m = S, name, m
        self.w = z3.Function(f"{name}_w", z3.IntSort(), z3.RealSort())
        self.L = z3.Function(f"{name}_L", z3.IntSort(), z3.IntSort(), z3.RealSort())
        self.calls = []
        self.moved = []

    def tpv_sym_iter(self):
        return self.m, self.item

    def item(self, I, i):
        IN = __import__("tpv.interp", fromlist=["x"])
        obj = I.new_without_init(self.S.find(COND + "Condition"))
        for c in obj.cls.mro():
            if getattr(c, "name", "") == "nn.Module":
                c.native_methods["__init__"](I, obj)
        iz = zint(i)
        obj.f.update({"name": "cond", "weight": Sym(self.w(iz), "float"), "track_gradients": True})
        fam = self

        def call(I2, selfobj, device="cpu", iteration=None):
            fam.calls.append({"i": iz, "device": device, "iteration": iteration})
            it = zint(iteration) if iteration is not None else z3.IntVal(-1)
            v = fam.L(iz, it)
            return Tensor(STensor([], lambda idx: v, "real"))

        obj.f["__overrides__"] = {"__call__": call, "forward": call, "_move_static_data": lambda I2, o, device: fam.moved.append(iz)}
        return obj


def mk_solver(S, train, val=()):
    return S.new(SOLVER, train, val)


@scenario("C07", [SOLVER + ".__init__", SOLVER + ".training_step", SOLVER + ".on_train_start"], configs=["symbolic-number-of-conditions"])
def training_step_sums_every_weighted_condition_once(S):
    m = S.int("m", 0)
    fam = CondFamily(S, "train", m)
    sol = mk_solver(S, fam)
    step0 = S.int("step", 0)
    sol.f["n_training_step"] = step0
    PS = z3.Function("PS", z3.IntSort(), z3.RealSort())
    S.ctx.axiom(PS(0) == 0)

    # the accumulator of the loop is 'the local that training_step returns' (whatever it is called); every other
    # variable the loop body assigns is a temporary (made undefined at the loop head by the engine)
    from tpv.spec import returned_local

    acc = returned_local(S.find(SOLVER + ".training_step")) or "loss"

    def make(I_, env, i):
        iz = zint(i)
        v = z3.Real(core.fresh_name("loss"))
        I_.ctx.assume(v == PS(iz))
        # defining recurrence of the partial sum, at this iteration
        I_.ctx.axiom(PS(iz + 1) == PS(iz) + fam.w(iz) * fam.L(iz, zint(step0)))
        env.vars[acc] = Tensor(STensor([Dim([])], lambda idx: v, "real"))

    def check(I_, env, i, tag):
        iz = zint(i)
        lt = env.vars[acc]
        ok = isinstance(lt, Tensor) and lt.val.numel_concrete() == 1
        S.ensure(f"training-loop/{tag}:loss-is-a-scalar", ok, kind="inv")
        if ok:
            lv = zreal(lt.val.at([tuple(0 for _ in d.factors) for d in lt.val.shape]))
            S.ensure(f"training-loop/{tag}:loss-is-the-partial-weighted-sum", lv == PS(iz), kind="inv")
        S.ensure(f"training-loop/{tag}:step-counter-untouched-inside-the-loop", zint(S.getattr(sol, "n_training_step")) == zint(step0), kind="inv")

    S.loop(SOLVER + ".training_step", 0, LoopSpec(make, check, modifies=[acc], label="training-loop"))
    before_calls = len(fam.calls)
    out = S.method(sol, "training_step", None, 0)
    lv = zreal(out.val.at([tuple(0 for _ in d.factors) for d in out.val.shape]))
    S.ensure("returns-the-sum-over-all-conditions", lv == PS(zint(m)))
    S.ensure("step-counter-incremented-once", zint(S.getattr(sol, "n_training_step")) == zint(step0) + 1)
    # on the loop-body path exactly one call was made, with the step index
    for c in fam.calls[before_calls:]:
        S.ensure("condition-evaluated-with-the-step-index", zint(c["iteration"]) == zint(step0))
        S.ensure("condition-evaluated-on-the-solver-device", c["device"] == "cpu")


@scenario("C07", [SOLVER + ".training_step"], configs=["0", "1", "3"], bounded="concrete number of conditions (illustration of the inductive contract; also counts calls)")
def training_step_concrete(S):
    m = int(S.cfg)
    fam = CondFamily(S, "train", m)
    conds = [fam.item(S.I, j) for j in range(m)]
    sol = mk_solver(S, conds)
    step0 = S.int("step", 0)
    sol.f["n_training_step"] = step0
    out = S.method(sol, "training_step", None, 0)
    lv = zreal(out.val.at([tuple(0 for _ in d.factors) for d in out.val.shape]))
    S.ensure("weighted-sum", lv == sum((fam.w(j) * fam.L(j, zint(step0)) for j in range(m)), z3.RealVal(0)))
    S.ensure("each-condition-exactly-once-in-order", [z3.simplify(c["i"]).as_long() for c in fam.calls] == list(range(m)))
    S.ensure("counter", zint(S.getattr(sol, "n_training_step")) == zint(step0) + 1)


@scenario("C07", [SOLVER + ".on_train_start", SOLVER + ".validation_step"], configs=["2-train-2-val"], bounded="two training and two validation conditions")
def start_and_validation(S):
    tr = CondFamily(S, "train", 2)
    va = CondFamily(S, "val", 2)
    sol = mk_solver(S, [tr.item(S.I, j) for j in range(2)], [va.item(S.I, j) for j in range(2)])
    sol.f["n_training_step"] = S.int("step", 0)
    S.method(sol, "on_train_start")
    S.ensure("counter-reset", S.getattr(sol, "n_training_step") == 0)
    S.ensure("static-data-moved-for-every-condition", len(tr.moved) == 2 and len(va.moved) == 2)
    sol.f["n_training_step"] = S.int("step2", 0)
    params_before = [id(p) for p in S.method(sol, "parameters")]
    vals_before = [id(p.val) for p in S.method(sol, "parameters")]
    S.method(sol, "validation_step", None, 0)
    S.ensure("every-validation-condition-evaluated-once", [z3.simplify(c["i"]).as_long() for c in va.calls] == [0, 1] and len(tr.calls) == 0)
    S.ensure("validation-does-not-advance-the-step-counter", zint(S.getattr(sol, "n_training_step")) == z3.Int("step2"))
    S.ensure("validation-does-not-touch-learnable-state", [id(p) for p in S.method(sol, "parameters")] == params_before and [id(p.val) for p in S.method(sol, "parameters")] == vals_before)


@scenario("C07", [SOLVER + ".configure_optimizers", OPT + ".__init__", COND + "SingleModuleCondition.__init__", COND + "AdaptiveWeightsCondition.__init__", COND + "ParameterCondition.__init__", PARAM + ".__init__", AWL + ".__init__"], configs=["no-scheduler", "scheduler"], bounded="one PINN condition with an inverse-problem parameter, one adaptive-weights condition, one parameter condition")
def every_learnable_tensor_is_handed_to_the_optimizer(S):
    I = S.I
    x = S.new(RN, "x", 2)
    model = AbstractModel(S, "net", x, S.new(RN, "u", 1))
    n = S.int("n", 1)
    smp = AbstractSampler(S, "smp", x, n)
    D = S.new(PARAM, [S.real("D0")], S.new(RN, "D", 1))
    res = RowFn("res", ["u", "x", "D"], 1, {"u": 1, "x": 2, "D": 1})
    pinn = S.new(COND + "PINNCondition", model.obj, smp.obj, res, parameter=D, name="pinn")
    aw = S.new(COND + "AdaptiveWeightsCondition", model.obj, S.method(smp.obj, "make_static"), RowFn("res2", ["u", "x"], 1, {"u": 1, "x": 2}), name="adaptive")
    D2 = S.new(PARAM, [S.real("E0")], S.new(RN, "E", 1))
    pc = S.new(COND + "ParameterCondition", D2, RowFn("pen", ["E"], 1, {"E": 1}), 1.0, name="pcond")
    opt_cls = TensorFn("optimizer_class", lambda I_, a, k: I_.pylib and __import__("tpv.interp", fromlist=["x"]).Opaque("optimizer"))
    sched_cls = TensorFn("scheduler_class", lambda I_, a, k: __import__("tpv.interp", fromlist=["x"]).Opaque("scheduler"))
    lr = S.real("lr")
    if S.cfg == "scheduler":
        setting = S.new(OPT, opt_cls, lr, optimizer_args={"betas": 1}, scheduler_class=sched_cls, scheduler_args={"gamma": 2}, scheduler_frequency=7)
    else:
        setting = S.new(OPT, opt_cls, lr, optimizer_args={"betas": 1})
    sol = S.new(SOLVER, [pinn, aw, pc], (), setting)
    out = S.method(sol, "configure_optimizers")
    S.ensure("optimizer-built-exactly-once", len(opt_cls.calls) == 1)
    if len(opt_cls.calls) != 1:
        return
    call = opt_cls.calls[0]
    handed = list(call["args"][0])
    want = {id(model.theta): "model weights", id(D.f["_t"]): "inverse-problem parameter", id(S.getattr(S.getattr(aw, "adaptive_layer"), "weight")): "adaptive point weights", id(D2.f["_t"]): "parameter of the parameter condition"}
    for pid, nm in want.items():
        S.ensure(f"optimised-{nm.replace(' ', '-')}", any(id(p) == pid for p in handed))
    S.ensure("nothing-but-learnable-tensors", all(isinstance(p, Tensor) and p.requires_grad for p in handed))
    S.ensure("learning-rate-and-arguments-forwarded", call["kwargs"].get("lr") is lr and call["kwargs"].get("betas") == 1)
    if S.cfg == "scheduler":
        ok = isinstance(out, tuple) and len(out) == 2 and out[0] == [call["result"]] and isinstance(out[1][0], dict)
        S.ensure("optimizer-and-scheduler-returned", ok)
        if ok:
            sd = out[1][0]
            S.ensure("scheduler-built-on-that-optimizer", len(sched_cls.calls) == 1 and sched_cls.calls[0]["args"][0] is call["result"] and sd["scheduler"] is sched_cls.calls[0]["result"])
            S.ensure("scheduler-stepped-per-step-at-the-configured-frequency", sd["interval"] == "step" and sd["frequency"] == 7)
    else:
        S.ensure("optimizer-returned", out is call["result"])


@scenario("C07", [SOLVER + ".configure_optimizers", OPT + ".__init__"], configs=["two-settings-with-default-arguments", "one-setting-lr-edited-between-fits"])
def optimizer_wiring_does_not_depend_on_earlier_configurations(S):
    """history: configure_optimizers of one Solver, then of another one whose OptimizerSetting was also created with the
    default optimizer_args (resp. the same setting with its lr edited): every optimizer is built with the lr and the
    arguments of ITS setting at that moment, and configuring leaves the settings' argument dictionaries unchanged."""
    from tpv import frame

    fam = CondFamily(S, "train", 1)
    opt_cls = TensorFn("optimizer_class", lambda I_, a, k: __import__("tpv.interp", fromlist=["x"]).Opaque("optimizer"))
    lr1, lr2 = S.real("lr1"), S.real("lr2")
    set1 = S.new(OPT, opt_cls, lr1)
    if S.cfg.startswith("two"):
        set2 = S.new(OPT, opt_cls, lr2)
    else:
        set2 = set1
    sol1 = S.new(SOLVER, fam, (), set1)
    S.method(sol1, "configure_optimizers")
    S.ensure("first-optimizer-built-with-its-own-lr", len(opt_cls.calls) == 1 and opt_cls.calls[0]["kwargs"].get("lr") is lr1)
    S.ensure("configuring-leaves-the-argument-dictionary-unchanged", S.getattr(set1, "optimizer_args") == {})
    if set2 is set1:
        S.I.setattr(set1, "lr", lr2)
    sol2 = S.new(SOLVER, fam, (), set2)
    S.method(sol2, "configure_optimizers")
    S.ensure("second-optimizer-built-once", len(opt_cls.calls) == 2)
    if len(opt_cls.calls) == 2:
        kw = opt_cls.calls[1]["kwargs"]
        S.ensure("second-optimizer-built-with-the-lr-of-its-setting-at-that-moment", kw.get("lr") is lr2)
        S.ensure("no-argument-leaks-from-the-earlier-configuration", sorted(kw) == ["lr"])
    S.ensure("argument-dictionaries-still-unchanged", S.getattr(set1, "optimizer_args") == {} and S.getattr(set2, "optimizer_args") == {})


@scenario("C07", [AWL + ".forward", AWL + ".grad_reverse", AWL + ".GradReverse.forward", AWL + ".GradReverse.backward"], configs=["n"])
def adaptive_weights_ascend(S):
    """post: forward multiplies the unreduced loss by the weights (identity through GradReverse);
    the custom backward returns MINUS the incoming gradient, i.e. the optimizer performs ascent on the weights"""
    n = S.int("n", 1)
    layer = S.new(AWL, n)
    x = S.tensor("loss", [n])
    out = S.method(layer, "forward", x)
    w = S.getattr(layer, "weight")
    S.ensure("weights-are-learnable-one-per-point", w.requires_grad and w.val.shape[0].size_term() == zint(n))
    S.forall("forward-is-weight-times-loss", out, lambda q: zreal(out.val.at(q)) == zreal(w.val.at(q)) * zreal(x.val.at(q)))
    GR = S.getattr(S.find(AWL), "GradReverse")
    g = S.tensor("g", [n])
    back = S.call(S.getattr(GR, "backward"), None, g)
    S.forall("backward-negates-the-gradient", back, lambda q: zreal(back.val.at(q)) == -zreal(g.val.at(q)))
    fwd = S.call(S.getattr(GR, "forward"), None, g)
    S.forall("forward-is-the-identity", fwd, lambda q: zreal(fwd.val.at(q)) == zreal(g.val.at(q)))


KINDS = ["single", "pinn", "mean", "deepritz", "periodic", "integro", "variational", "data", "hpm-at-data-points", "hpm-at-sampler", "hpcm"]


@scenario("C07", [SOLVER + ".configure_optimizers"] + [COND + c + ".__init__" for c in ("SingleModuleCondition", "PINNCondition", "MeanCondition", "DeepRitzCondition", "PeriodicCondition", "IntegroPINNCondition", "DataCondition", "HPM_EquationLoss_at_DataPoints", "HPM_EquationLoss_at_Sampler", "HPCMCondition")] + ["torchphysics.problem.conditions.variational_condition.VariationalPINNCondition.__init__"], configs=KINDS, bounded="one condition of the named class per configuration (every exported condition class that owns a network)")
def every_condition_class_hands_all_its_networks_and_parameters_to_the_optimizer(S):
    """'every step updates all the networks that enter the loss': for every condition class, EVERY network handed to
    the constructor (the state AND the correction network of HPCMCondition, ...) and the inverse-problem parameter are
    among the tensors Solver.configure_optimizers gives to the optimizer (they are registered sub-modules /
    parameters of the condition) -- otherwise they enter the loss but are silently never trained"""
    I = S.I
    x = S.new(RN, "x", 2)
    mul = lambda a, b: I.binop(ast.Mult(), a, b)
    n = S.int("n", 1)
    smp = AbstractSampler(S, "smp", x, n)
    model = AbstractModel(S, "net", x, S.new(RN, "u", 1))
    D = S.new(PARAM, [S.real("D0")], S.new(RN, "D", 1))
    res = RowFn("res", ["u", "x", "D"], 1, {"u": 1, "x": 2, "D": 1})
    E, loader = rowwise_tensor_fn("E"), S.opaque("dataloader")
    nets, k = [model], S.cfg
    has_param = True
    if k == "single":
        cond = S.new(COND + "SingleModuleCondition", model.obj, smp.obj, res, E, parameter=D)
    elif k in ("pinn", "mean", "deepritz"):
        cond = S.new(COND + {"pinn": "PINNCondition", "mean": "MeanCondition", "deepritz": "DeepRitzCondition"}[k], model.obj, smp.obj, res, parameter=D)
    elif k == "periodic":
        lo, hi = S.real("lo"), S.real("hi")
        S.assume(lo.t < hi.t)
        interval = S.new("torchphysics.problem.domains.domain1D.interval.Interval", S.new(RN, "t", 1), lo, hi)
        m2 = AbstractModel(S, "net", mul(S.new(RN, "x", 2), S.new(RN, "t", 1)), S.new(RN, "u", 1))
        nets = [m2]
        cond = S.new(COND + "PeriodicCondition", m2.obj, interval, RowFn("resp", ["u_left", "u_right"], 1, {"u_left": 1, "u_right": 1}), non_periodic_sampler=smp.obj, parameter=D)
    elif k == "integro":
        cond = S.new(COND + "IntegroPINNCondition", model.obj, smp.obj, res, AbstractSampler(S, "ismp", x, S.int("m", 1)).obj, parameter=D)
    elif k == "variational":
        cond = S.new("torchphysics.problem.conditions.variational_condition.VariationalPINNCondition", model.obj, res, smp.obj, S.opaque("test_function_set"), parameter=D)
    elif k == "data":
        cond, has_param = S.new(COND + "DataCondition", model.obj, loader, 2), False
    elif k == "hpm-at-data-points":
        cond = S.new(COND + "HPM_EquationLoss_at_DataPoints", model.obj, loader, 2, res, parameter=D)
    elif k == "hpm-at-sampler":
        cond = S.new(COND + "HPM_EquationLoss_at_Sampler", model.obj, smp.obj, res, parameter=D)
    else:
        corr = AbstractModel(S, "corr", S.new(RN, "u", 1), S.new(RN, "c", 1))
        nets = [model, corr]
        cond, has_param = S.new(COND + "HPCMCondition", model.obj, corr.obj, loader, RowFn("corrfn", ["u"], 1, {"u": 1})), False
    opt_cls = TensorFn("optimizer_class", lambda I_, a, kw: __import__("tpv.interp", fromlist=["x"]).Opaque("optimizer"))
    sol = S.new(SOLVER, [cond], (), S.new(OPT, opt_cls, S.real("lr")))
    S.method(sol, "configure_optimizers")
    S.ensure("optimizer-built-exactly-once", len(opt_cls.calls) == 1)
    if len(opt_cls.calls) != 1:
        return
    handed = list(opt_cls.calls[0]["args"][0])
    for j, m in enumerate(nets):
        S.ensure(f"weights-of-network-{j + 1}-of-{len(nets)}-are-optimised", any(p is m.theta for p in handed))
    if has_param:
        S.ensure("inverse-problem-parameter-is-optimised", any(p is D.f["_t"] for p in handed))
    S.ensure("nothing-but-learnable-tensors", all(isinstance(p, Tensor) and p.requires_grad for p in handed))


@scenario("C07", [SOLVER + ".train_dataloader", SOLVER + ".val_dataloader"], configs=["max-steps-given", "max-steps-missing"])
def dummy_dataloaders_drive_one_step_per_requested_iteration(S):
    """the Solver feeds Lightning a dummy loader: one (empty) batch per requested training step -- trainer.max_steps of
    them with the default batch size 1, 1000 when no maximum is given -- and exactly one batch for validation, so
    training_step runs max_steps times and validation_step once per validation run"""
    from tpv.loader import NativeClass

    I = S.I
    sol = mk_solver(S, [])
    tr = I.new_without_init(NativeClass("Trainer"))
    steps = S.int("max_steps", 1)
    tr.f["max_steps"] = steps if S.cfg == "max-steps-given" else None
    sol.f["trainer"] = tr
    dl = S.method(sol, "train_dataloader")
    want = zint(steps) if S.cfg == "max-steps-given" else z3.IntVal(1000)
    ds = dl.f.get("dataset") if hasattr(dl, "f") else None
    S.ensure("a-dataloader-over-a-one-axis-dummy-tensor", isinstance(ds, Tensor) and ds.val.rank == 1 and dl.f.get("batch_size") == 1)
    if isinstance(ds, Tensor) and ds.val.rank == 1:
        S.ensure("one-dummy-batch-per-requested-training-step", ds.val.shape[0].size_term() == want)
    dv = S.method(sol, "val_dataloader")
    dsv = dv.f.get("dataset") if hasattr(dv, "f") else None
    okv = isinstance(dsv, Tensor) and dsv.val.rank == 1 and dv.f.get("batch_size") == 1
    S.ensure("validation-dataloader-over-a-one-axis-dummy-tensor", okv)
    if okv:
        S.ensure("exactly-one-dummy-batch-for-validation", dsv.val.shape[0].size_term() == 1)
