"""C04 — a condition's loss is reduce(error(residual)) on exactly its sampled points; the residual receives its
arguments by NAME.   C14 — conditions are isolated from each other and repeatable.

Sampler, model, residual, data functions, error and reduce functions are abstract (contracts only):
  sampler  : fresh Points with n rows per call (ghost call log)
  model    : out[r] = M(inputs of row r bound by name)                       (C08 contract)
  residual / data functions : row-wise functions of their NAMED arguments   (A8)
  error_fn : row-wise E, reduce_fn : an arbitrary function Rd of the unreduced tensor
The obligations say: every callable is invoked exactly once per forward, Rd(E(R(bind))) is returned, and bind[name]
is the sampled coordinate / the model output at the same row / the parameter / the data function at the same row.
"""
import ast

import z3

from tpv import core, frame
from tpv.core import zint, zreal, Sym, Dim, STensor
from tpv.spec import scenario, RowFn, rowwise_tensor_fn, scalar_tensor_fn
from tpv.tlib import Tensor
from tpv.absdom import AbstractModel, AbstractSampler
from .geom import POINTS, tensor_of

C = "torchphysics.problem.conditions.condition."
RN = "torchphysics.problem.spaces.space.Rn"
PARAM = "torchphysics.models.parameter.Parameter"
SS = "torchphysics.problem.samplers.sampler_base.StaticSampler"
BOUND = "spaces schematic: inputs x:2, t:1 (both orders), output u:2, one parameter D:1, one data function f"


def mul(S, a, b):
    return S.I.binop(ast.Mult(), a, b)


class World:
    def __init__(self, S, order="xt", static=False):
        self.S = S
        x, t = S.new(RN, "x", 2), S.new(RN, "t", 1)
        self.sspace = mul(S, x, t) if order == "xt" else mul(S, t, x)
        self.order = order
        self.n = S.int("n", 1)
        self.sampler = AbstractSampler(S, "smp", self.sspace, self.n)
        self.sobj = self.sampler.obj
        if static:
            self.sobj = S.method(self.sampler.obj, "make_static")
        self.model = AbstractModel(S, "net", mul(S, S.new(RN, "x", 2), S.new(RN, "t", 1)), S.new(RN, "u", 2))
        self.D = S.new(PARAM, [S.real("D0")], S.new(RN, "D", 1))
        self.fdata = RowFn("fdata", ["t", "x"], 1, {"t": 1, "x": 2})
        self.res = RowFn("res", ["u", "x", "t", "D", "f"], 2, {"u": 2, "x": 2, "t": 1, "D": 1, "f": 1})
        self.E = rowwise_tensor_fn("E")
        self.Rd = scalar_tensor_fn("Rd")

    def cols(self):
        return {"x": [0, 1], "t": [2]} if self.order == "xt" else {"t": [0], "x": [1, 2]}

    def sample_row(self, call_no, r):
        """named coordinates of row r of the call_no-th sample"""
        X = self.sampler.calls[call_no]["tensor"].val
        c = self.cols()
        return {nm: [zreal(X.at([r, (k,)])) for k in ks] for nm, ks in c.items()}


def check_binding(S, w, res_call, call_no, tag=""):
    kw = res_call["kwargs"]
    S.ensure(tag + "residual-gets-exactly-its-named-arguments", sorted(kw) == ["D", "f", "t", "u", "x"])
    if sorted(kw) != ["D", "f", "t", "u", "x"]:
        return
    for nm in ("x", "t"):
        t = kw[nm]
        S.forall(tag + f"{nm}-is-the-sampled-coordinate-of-the-same-row", t, lambda q, nm=nm, t=t: zreal(t.val.at(q)) == core.select_comp(q[1][0] if q[1] else 0, len(w.cols()[nm]), [(lambda k=k: w.sample_row(call_no, q[0])[nm][k]) for k in range(len(w.cols()[nm]))]))
    u = kw["u"]
    S.forall(tag + "u-is-the-model-output-at-the-same-row-inputs-by-name", u, lambda q: zreal(u.val.at(q)) == core.select_comp(q[1][0], 2, [(lambda c=c: w.model.out_terms(w.sample_row(call_no, q[0])["x"] + w.sample_row(call_no, q[0])["t"])[c]) for c in range(2)]))
    f = kw["f"]
    S.forall(tag + "f-is-the-data-function-at-the-same-row", f, lambda q: zreal(f.val.at(q)) == w.fdata.value_terms(w.sample_row(call_no, q[0])["t"] + w.sample_row(call_no, q[0])["x"])[0])
    Dv = kw["D"]
    S.ensure(tag + "D-is-the-learnable-parameter", Dv.val.numel_concrete() == 1 and z3.eq(z3.simplify(zreal(Dv.val.at([(), ()]))), z3.simplify(zreal(w.D.f["_t"].val.at([(), ()])))))


@scenario("C04", [C + "SingleModuleCondition.__init__", C + "SingleModuleCondition.forward", C + "Condition._setup_data_functions", "torchphysics.problem.spaces.points.Points.track_coord_gradients"], configs=["xt", "tx"], bounded=BOUND)
def single_module_condition(S):
    w = World(S, S.cfg)
    cond = S.new(C + "SingleModuleCondition", w.model.obj, w.sobj, w.res, w.E, reduce_fn=w.Rd, data_functions={"f": w.fdata}, parameter=w.D)
    loss = S.method(cond, "forward")
    S.ensure("sampler-asked-exactly-once", len(w.sampler.calls) == 1)
    S.ensure("model-evaluated-exactly-once", len(w.model.calls) == 1)
    S.ensure("residual-evaluated-exactly-once", len(w.res.calls) == 1)
    S.ensure("error-and-reduce-applied-once-in-order", len(w.E.calls) == 1 and len(w.Rd.calls) == 1)
    if not (len(w.res.calls) == 1 and len(w.E.calls) == 1 and len(w.Rd.calls) == 1 and len(w.model.calls) == 1):
        return
    S.ensure("loss-is-reduce-of-error-of-residual", loss is w.Rd.calls[0]["result"] and w.Rd.calls[0]["args"][0] is w.E.calls[0]["result"])
    res_out = w.E.calls[0]["args"][0]
    S.ensure("error-fn-gets-the-residual-value", getattr(res_out, "meta", {}).get("rowfn", (None,))[0] is w.res)
    check_binding(S, w, w.res.calls[0], 0)
    # derivatives w.r.t. the named coordinates are available: the model input is built from the tracked leaves
    kw = w.res.calls[0]["kwargs"]
    S.ensure("coordinates-are-tracked-leaves", all(kw[nm].requires_grad for nm in ("x", "t")))
    mi = w.model.calls[0]["points"].f["_t"]
    S.ensure("model-input-is-built-from-the-tracked-coordinates", set(id(x) for x in mi.meta.get("cat_of", [])) == {id(kw["x"]), id(kw["t"])})


@scenario("C04", [C + "PINNCondition.__init__", C + "MeanCondition.__init__", C + "DeepRitzCondition.__init__", C + "SquaredError.forward", C + "AdaptiveWeightsCondition.__init__"], configs=["pinn", "mean", "deepritz", "squared-error", "adaptive-weights"], bounded=BOUND)
def documented_reductions(S):
    """post: PINN = mean over points of the squared residual summed over components; Mean/DeepRitz = plain mean;
    AdaptiveWeights = squared error, every point weighted with its own learnable weight (initially 1) before the mean"""
    I = S.I
    torch = I.repo.externals["torch"]
    if S.cfg == "adaptive-weights":
        w = World(S, static=True)
        cond = S.new(C + "AdaptiveWeightsCondition", w.model.obj, w.sobj, w.res, data_functions={"f": w.fdata}, parameter=w.D)
        S.ensure("error-is-squared-error", I.isinstance_(S.getattr(cond, "error_fn"), S.find(C + "SquaredError")))
        lw = S.getattr(S.getattr(cond, "adaptive_layer"), "weight")
        S.ensure("one-learnable-weight-per-sampled-point", lw.requires_grad and lw.val.rank == 1 and lw.val.shape[0].size_term() == zint(w.n))
        S.forall("weights-start-at-one", lw, lambda q: zreal(lw.val.at(q)) == 1)
        L = S.tensor("unreduced", [w.n])
        weighted = S.method(S.getattr(cond, "adaptive_layer"), "forward", L).val
        S.forall("point-r-is-weighted-with-weight-r", Tensor(weighted), lambda q: zreal(weighted.at(q)) == zreal(lw.val.at(q)) * zreal(L.val.at(q)))
        S.ensure_raises("a-non-static-sampler-is-rejected", lambda: S.new(C + "AdaptiveWeightsCondition", w.model.obj, w.sampler.obj, w.res), ["ValueError"])
        S.method(cond, "forward")
        S.ensure("residual-evaluated-once-per-forward", len(w.res.calls) == 1)
        if len(w.res.calls) == 1:
            check_binding(S, w, w.res.calls[0], -1)
        return
    if S.cfg == "squared-error":
        N = S.int("N", 1)
        for m in (1, 2, 3):
            X = S.tensor(f"X{m}", [N, m])
            se = S.new(C + "SquaredError")
            o = S.method(se, "forward", X)
            S.ensure(f"one-value-per-row-{m}", o.val.rank == 1 and o.val.shape[0].size_term() == zint(N))
            S.forall(f"sum-of-squares-over-components-{m}", o, lambda q, X=X, m=m: zreal(o.val.at(q)) == sum((zreal(X.val.at([q[0], (c,) if m != 1 else ()])) * zreal(X.val.at([q[0], (c,) if m != 1 else ()])) for c in range(m)), z3.RealVal(0)))
        return
    w = World(S)
    cls = {"pinn": "PINNCondition", "mean": "MeanCondition", "deepritz": "DeepRitzCondition"}[S.cfg]
    cond = S.new(C + cls, w.model.obj, w.sobj, w.res, data_functions={"f": w.fdata}, parameter=w.D)
    S.ensure("reduce-is-torch-mean", S.getattr(cond, "reduce_fn") is torch.get("mean"))
    ef = S.getattr(cond, "error_fn")
    if S.cfg == "pinn":
        S.ensure("error-is-squared-error", I.isinstance_(ef, S.find(C + "SquaredError")))
    else:
        S.ensure("error-is-identity", I.isinstance_(ef, torch.get("nn").get("Identity")))
    S.ensure("weight-and-name-stored", S.getattr(cond, "weight") == 1.0 and isinstance(S.getattr(cond, "name"), str))


@scenario("C04", [C + "DataCondition._compute_dist", C + "DataCondition.forward", C + "DataCondition.__init__"], configs=["2", "inf"], bounded=BOUND + "; one batch per call (use_full_dataset=False)")
def data_condition_single_batch(S):
    """post: |model - target|, norm p: mean(a^p) ; inf: max(a); on exactly the batch the loader delivered"""
    I = S.I
    N = S.int("N", 1)
    x, t = S.new(RN, "x", 2), S.new(RN, "t", 1)
    model = AbstractModel(S, "net", mul(S, x, t), S.new(RN, "u", 1))
    X = S.tensor("X", [N, 3])
    Y = S.tensor("Y", [N, 1])
    px, py = S.new(POINTS, X, mul(S, S.new(RN, "t", 1), S.new(RN, "x", 2))), S.new(POINTS, Y, S.new(RN, "u", 1))
    loader = [(px, py)]
    norm = 2 if S.cfg == "2" else "inf"
    cond = S.new(C + "DataCondition", model.obj, loader, norm)
    probe = S.probe_returns(C + "DataCondition._compute_dist")
    loss = S.method(cond, "forward")
    S.ensure("model-evaluated-once-on-the-batch", len(model.calls) == 1 and model.calls[0]["points"] is px)
    S.ensure("distance-computed-once", len(probe) == 1)
    if len(probe) != 1:
        return
    a = probe[0]
    S.forall("distance-is-abs-model-minus-target-by-name", Tensor(a), lambda q: zreal(a.at(q)) == (lambda d: z3.If(d >= 0, d, -d))(model.out_terms([zreal(X.val.at([q[0], (1,)])), zreal(X.val.at([q[0], (2,)])), zreal(X.val.at([q[0], (0,)]))])[0] - zreal(Y.val.at([q[0], ()]))))
    from tpv import torchlib

    if norm == 2:
        want = torchlib.t_mean(I, Tensor(tensor_pow(I, a, 2)))
    else:
        want = None
    lv = loss.val.at([() for _ in loss.val.shape]) if isinstance(loss, Tensor) else zreal(loss)
    if want is not None:
        S.ensure("loss-is-mean-of-a-to-the-p", z3.eq(z3.simplify(lv), z3.simplify(want.val.at([]))))
    else:
        inst = S.schema_instances([(z3.Int("rr"),)])
        S.ensure("loss-is-an-upper-bound-of-every-entry", lv >= zreal(a.at([(z3.Int("rr"),), ()])), [z3.Int("rr") >= 0, z3.Int("rr") < zint(N)] + inst)


def tensor_pow(I, a, p):
    from tpv import tlib

    return tlib.power(I, Tensor(a), p)


# ----------------------------------------------------------------------------- C14
def _user_value(S, f):
    """the data function as the user hands it over: the bare callable, or (configurations */wrapped) already wrapped in
    a torchphysics UserFunction -- an object the user may keep using and share between conditions"""
    return S.new("torchphysics.utils.user_fun.UserFunction", f) if S.cfg.endswith("/wrapped") else f


@scenario("C14", [C + "Condition._setup_data_functions", C + "SingleModuleCondition.__init__"], configs=["plain-sampler", "static-sampler", "plain-sampler/wrapped", "static-sampler/wrapped"], bounded=BOUND)
def user_containers_are_left_unmodified(S):
    """frame: constructing a condition leaves the user's data-function dictionary (keys AND values), the user's
    function objects (also when they are UserFunction wrappers) and the sampler's observable state unchanged"""
    w = World(S, static=S.cfg.startswith("static-sampler"))
    user_dict = {"f": _user_value(S, w.fdata)}
    before = frame.snap(user_dict)
    cond = S.new(C + "SingleModuleCondition", w.model.obj, w.sobj, w.res, w.E, reduce_fn=w.Rd, data_functions=user_dict, parameter=w.D)
    S.ensure("user-dictionary-unchanged", frame.diff(before, frame.snap(user_dict)) is None)
    S.ensure("condition-does-not-alias-the-user-dictionary", S.getattr(cond, "data_functions") is not user_dict)


@scenario("C14", [C + "Condition._setup_data_functions", C + "SingleModuleCondition.forward"], configs=["plain-sampler", "static-sampler", "plain-sampler/wrapped", "static-sampler/wrapped"], bounded=BOUND + "; two conditions sharing one dictionary (interference is pairwise)")
def conditions_sharing_a_dictionary_do_not_interfere(S):
    """post: a second condition built from the SAME user dictionary (the same function objects, bare or wrapped)
    evaluates the data function on ITS OWN points"""
    static = S.cfg.startswith("static-sampler")
    w1 = World(S, static=static)
    user_dict = {"f": _user_value(S, w1.fdata)}
    c1 = S.new(C + "SingleModuleCondition", w1.model.obj, w1.sobj, w1.res, w1.E, reduce_fn=w1.Rd, data_functions=user_dict, parameter=w1.D)
    # second world: own sampler (static as well), shares model, residual, data function dictionary
    n2 = S.int("n2", 1)
    smp2 = AbstractSampler(S, "smp2", w1.sspace, n2)
    sobj2 = S.method(smp2.obj, "make_static") if static else smp2.obj
    res2 = RowFn("res2", ["u", "x", "t", "D", "f"], 2, {"u": 2, "x": 2, "t": 1, "D": 1, "f": 1})
    c2 = S.new(C + "SingleModuleCondition", w1.model.obj, sobj2, res2, w1.E, reduce_fn=w1.Rd, data_functions=user_dict, parameter=w1.D)
    S.method(c2, "forward")
    S.ensure("second-residual-called-once", len(res2.calls) == 1)
    if len(res2.calls) != 1:
        return
    f = res2.calls[0]["kwargs"].get("f")
    X2 = smp2.calls[-1]["tensor"].val
    ok = isinstance(f, Tensor) and f.val.rank == 2 and f.val.shape[0].size_term() is not None
    S.ensure("data-has-one-row-per-point-of-the-second-condition", ok and I_entails(S, f.val.shape[0].size_term() == zint(n2)))
    if ok and I_entails(S, f.val.shape[0].size_term() == zint(n2)):
        S.forall("data-function-evaluated-on-the-second-conditions-own-points", f, lambda q: zreal(f.val.at(q)) == w1.fdata.value_terms([zreal(X2.at([q[0], (2,)])), zreal(X2.at([q[0], (0,)])), zreal(X2.at([q[0], (1,)]))])[0])


@scenario("C14", [C + "Condition._setup_data_functions", C + "SingleModuleCondition.__init__", C + "SingleModuleCondition.forward", SS + ".sample_points"], configs=["plain-sampler", "static-sampler"], bounded=BOUND + "; two conditions sharing one sampler, data functions registered under the same key")
def conditions_sharing_a_sampler_keep_their_own_data_functions(S):
    """two conditions built on the SAME (static) sampler, each with its own data function under the same key 'f': each
    behaves as if constructed alone -- the second one evaluates ITS function (not the first one's, however data may
    be pre-evaluated or cached) on the sampled points, in either evaluation order"""
    static = S.cfg == "static-sampler"
    w = World(S, static=static)
    f1 = w.fdata
    f2 = RowFn("fdata2", ["t", "x"], 1, {"t": 1, "x": 2})
    res2 = RowFn("res2", ["u", "x", "t", "D", "f"], 2, {"u": 2, "x": 2, "t": 1, "D": 1, "f": 1})
    c1 = S.new(C + "SingleModuleCondition", w.model.obj, w.sobj, w.res, w.E, reduce_fn=w.Rd, data_functions={"f": f1}, parameter=w.D)
    c2 = S.new(C + "SingleModuleCondition", w.model.obj, w.sobj, res2, w.E, reduce_fn=w.Rd, data_functions={"f": f2}, parameter=w.D)
    S.method(c2, "forward")
    S.method(c1, "forward")
    S.ensure("each-residual-called-once", len(res2.calls) == 1 and len(w.res.calls) == 1)
    if not (len(res2.calls) == 1 and len(w.res.calls) == 1):
        return
    for (nm, rc, fn_) in (("second", res2.calls[0], f2), ("first", w.res.calls[0], f1)):
        f = rc["kwargs"].get("f")
        xk, tk = rc["kwargs"].get("x"), rc["kwargs"].get("t")
        ok = isinstance(f, Tensor) and isinstance(xk, Tensor) and isinstance(tk, Tensor) and f.val.rank == 2
        S.ensure(f"{nm}-condition-gets-data-and-coordinates", ok)
        if ok:
            S.forall(f"{nm}-condition-evaluates-its-OWN-data-function-at-its-points", f, lambda q, f=f, xk=xk, tk=tk, fn_=fn_: zreal(f.val.at(q)) == fn_.value_terms([zreal(tk.val.at([q[0], ()])), zreal(xk.val.at([q[0], (0,)])), zreal(xk.val.at([q[0], (1,)]))])[0])


@scenario("C14", [C + "Condition._setup_data_functions", C + "SingleModuleCondition.forward", SS + ".sample_points"], configs=["interval-1", "interval-2"], bounded=BOUND + "; static sampler with a finite resample interval, history of three forward calls", name="static_sampler_with_a_finite_interval_data_follow_the_current_points")
@scenario("C04", [C + "Condition._setup_data_functions", C + "SingleModuleCondition.forward", SS + ".sample_points"], configs=["interval-1", "interval-2"], bounded=BOUND + "; static sampler with a finite resample interval, history of three forward calls")
def static_sampler_with_a_finite_interval_data_follow_the_current_points(S):
    """a condition on a StaticSampler that re-samples every I calls (I = 1, 2): in EVERY forward call -- before and
    after a re-sampling -- the data function values handed to the residual are the data function at the coordinates
    handed to the residual in the same call (whatever was pre-evaluated at construction time)"""
    w = World(S)
    interval = 1 if S.cfg == "interval-1" else 2
    sobj = S.method(w.sampler.obj, "make_static", interval)
    cond = S.new(C + "SingleModuleCondition", w.model.obj, sobj, w.res, w.E, reduce_fn=w.Rd, data_functions={"f": w.fdata}, parameter=w.D)
    for k in range(3):
        S.method(cond, "forward")
    S.ensure("residual-called-once-per-forward", len(w.res.calls) == 3)
    S.ensure("the-sampler-was-asked-again-after-the-interval", len(w.sampler.calls) >= 2)
    for k, rc in enumerate(w.res.calls[:3]):
        f, xk, tk = rc["kwargs"].get("f"), rc["kwargs"].get("x"), rc["kwargs"].get("t")
        ok = isinstance(f, Tensor) and isinstance(xk, Tensor) and isinstance(tk, Tensor) and f.val.rank == 2
        S.ensure(f"call-{k}-gets-data-and-coordinates", ok)
        if ok:
            S.ensure(f"call-{k}-one-data-row-per-point", f.val.shape[0].size_term() == xk.val.shape[0].size_term())
            S.forall(f"call-{k}-data-function-evaluated-at-the-points-of-this-call", f, lambda q, f=f, xk=xk, tk=tk: zreal(f.val.at(q)) == w.fdata.value_terms([zreal(tk.val.at([q[0], ()])), zreal(xk.val.at([q[0], (0,)])), zreal(xk.val.at([q[0], (1,)]))])[0])


@scenario("C04", [C + "SingleModuleCondition.__init__", C + "SingleModuleCondition.forward", "torchphysics.utils.user_fun.UserFunction._set_input_args_for_function"], configs=["two-conditions-one-lambda-expression"], bounded=BOUND)
def residuals_from_one_lambda_expression_keep_their_own_default_arguments(S):
    """history: conditions built in a loop with `lambda u, x, k=k: ...` (one code object, different defaults): each
    condition's residual is called with ITS OWN default k and the model output / coordinates of ITS OWN sample"""
    from tpv.spec import UserFn

    w = World(S)
    n2 = S.int("n2", 1)
    smp2 = AbstractSampler(S, "smp2", w.sspace, n2)
    k1, k2 = S.opaque("k_of_the_first"), S.opaque("k_of_the_second")
    ret = lambda I, bound: bound["u"]
    r1 = UserFn("res", ["u", "x", "k"], {"k": k1}, returns=ret)
    r2 = UserFn("res", ["u", "x", "k"], {"k": k2}, returns=ret)
    r2.code = r1.code
    c1 = S.new(C + "SingleModuleCondition", w.model.obj, w.sobj, r1, w.E, reduce_fn=w.Rd)
    c2 = S.new(C + "SingleModuleCondition", w.model.obj, smp2.obj, r2, w.E, reduce_fn=w.Rd)
    S.method(c2, "forward")
    S.method(c1, "forward")
    S.ensure("each-residual-called-once", len(r1.calls) == 1 and len(r2.calls) == 1)
    if len(r1.calls) == 1 and len(r2.calls) == 1:
        S.ensure("second-residual-gets-its-own-default", r2.calls[0]["bound"].get("k") is k2)
        S.ensure("first-residual-gets-its-own-default", r1.calls[0]["bound"].get("k") is k1)


@scenario("C14", [C + "SingleModuleCondition.__init__", C + "PINNCondition.__init__", C + "AdaptiveWeightsCondition.__init__", C + "Condition._setup_data_functions"], configs=["single-module", "pinn", "adaptive-weights"], bounded=BOUND)
def constructing_a_condition_leaves_the_users_sampler_as_configured(S):
    """a static sampler with a finite resample interval I is handed to a condition constructor: afterwards it is the
    same object, wrapped around the same sampler, with the SAME resample interval (another condition sharing it keeps
    getting fresh points every I calls), and the condition uses that very object"""
    w = World(S)
    I_ = S.int("I", 1)
    sobj = S.method(w.sampler.obj, "make_static", I_)
    res = RowFn("res3", ["u", "x", "t"], 2, {"u": 2, "x": 2, "t": 1})
    if S.cfg == "single-module":
        cond = S.new(C + "SingleModuleCondition", w.model.obj, sobj, res, w.E, reduce_fn=w.Rd)
    elif S.cfg == "pinn":
        cond = S.new(C + "PINNCondition", w.model.obj, sobj, res)
    else:
        cond = S.new(C + "AdaptiveWeightsCondition", w.model.obj, sobj, res)
    S.ensure("condition-uses-the-users-sampler-object", S.getattr(cond, "sampler") is sobj)
    S.ensure("still-a-static-sampler-around-the-same-sampler", S.getattr(sobj, "is_static") is True and S.getattr(sobj, "sampler") is w.sampler.obj)
    ri = S.getattr(sobj, "resample_interval")
    S.ensure("resample-interval-unchanged", (not isinstance(ri, float)) and zint(ri) == zint(I_))


def I_entails(S, f):
    return S.ctx.entails(f)


@scenario("C14", [C + "SingleModuleCondition.forward", SS + ".sample_points"], configs=["static"], bounded=BOUND)
def static_sampler_gives_repeatable_loss(S):
    """post: two evaluations without an optimisation step in between see the same points and compute the same
    unreduced loss (row by row), hence the same reduced loss"""
    w = World(S, static=True)
    cond = S.new(C + "SingleModuleCondition", w.model.obj, w.sobj, w.res, w.E, reduce_fn=w.Rd, data_functions={"f": w.fdata}, parameter=w.D)
    S.method(cond, "forward")
    S.method(cond, "forward")
    S.ensure("wrapped-sampler-drawn-once", len(w.sampler.calls) == 1)
    S.ensure("two-evaluations", len(w.Rd.calls) == 2)
    if len(w.Rd.calls) == 2:
        a, b = w.Rd.calls[0]["args"][0].val, w.Rd.calls[1]["args"][0].val
        S.ensure("same-number-of-rows", a.shape[0].size_term() == b.shape[0].size_term())
        S.forall("same-unreduced-loss-row-by-row", Tensor(a), lambda q: zreal(a.at(q)) == zreal(b.at(q)))


@scenario("C14", [C + "PeriodicCondition.__init__", C + "PeriodicCondition.forward", C + "Condition._setup_data_functions"], configs=["plain", "static"], bounded=BOUND, name="periodic_left_and_right_data_on_their_own_side")
@scenario("C04", [C + "PeriodicCondition.__init__", C + "PeriodicCondition.forward"], configs=["plain", "static"], bounded=BOUND)
def periodic_condition_routes_left_and_right(S):
    """post: the residual receives u/t/f with suffix _left evaluated at the LEFT end of the periodic interval and
    suffix _right at the RIGHT end, paired row by row with the non-periodic points (C14: each side on its own side)"""
    I = S.I
    lo, hi = S.real("lo"), S.real("hi")
    S.assume(lo.t < hi.t)
    interval = S.new("torchphysics.problem.domains.domain1D.interval.Interval", S.new(RN, "t", 1), lo, hi)
    n = S.int("n", 1)
    smp = AbstractSampler(S, "smp", S.new(RN, "x", 2), n)
    sobj = S.method(smp.obj, "make_static") if S.cfg == "static" else smp.obj
    model = AbstractModel(S, "net", mul(S, S.new(RN, "x", 2), S.new(RN, "t", 1)), S.new(RN, "u", 1))
    fdata = RowFn("fdata", ["t", "x"], 1, {"t": 1, "x": 2})
    res = RowFn("res", ["u_left", "u_right", "t_left", "t_right", "x", "f_left", "f_right"], 1, {"u_left": 1, "u_right": 1, "t_left": 1, "t_right": 1, "x": 2, "f_left": 1, "f_right": 1})
    E, Rd = rowwise_tensor_fn("E"), scalar_tensor_fn("Rd")
    cond = S.new(C + "PeriodicCondition", model.obj, interval, res, non_periodic_sampler=sobj, error_fn=E, reduce_fn=Rd, data_functions={"f": fdata})
    loss = S.method(cond, "forward")
    S.ensure("residual-evaluated-exactly-once", len(res.calls) == 1 and len(Rd.calls) == 1 and loss is Rd.calls[0]["result"])
    if len(res.calls) != 1:
        return
    kw = res.calls[0]["kwargs"]
    X = smp.calls[-1]["tensor"].val
    xr = lambda q: [zreal(X.at([q[0], (c,)])) for c in range(2)]
    for side, end in (("left", lo.t), ("right", hi.t)):
        tt = kw[f"t_{side}"]
        S.forall(f"t_{side}-is-the-{side}-end", tt, lambda q, tt=tt, end=end: zreal(tt.val.at(q)) == end)
        uu = kw[f"u_{side}"]
        S.forall(f"u_{side}-is-the-model-at-the-{side}-end-and-the-same-row", uu, lambda q, uu=uu, end=end: zreal(uu.val.at(q)) == model.out_terms(xr(q) + [end])[0])
        ff = kw[f"f_{side}"]
        S.forall(f"f_{side}-is-the-data-function-on-its-own-side", ff, lambda q, ff=ff, end=end: zreal(ff.val.at(q)) == fdata.value_terms([end] + xr(q))[0])
    xx = kw["x"]
    S.forall("x-is-the-non-periodic-sample", xx, lambda q: zreal(xx.val.at(q)) == zreal(X.at(q)))


# ----------------------------------------------------------------------------- integro-differential condition
@scenario("C04", [C + "IntegroPINNCondition.__init__", C + "IntegroPINNCondition.forward"], configs=["xt"], bounded=BOUND + "; integral variable x")
def integro_condition_pairs_every_point_with_every_integral_point(S):
    """IntegroPINNCondition.forward: n sampled points (x, t) and m integral points x'.  post: every callable invoked
    once (the model twice: on the points and on the combined points); the residual receives BY NAME
      x[i], t[i]            the sampled coordinates of row i            (shape [n, 1, .])
      x_integral[j]         the integral points                         (shape [1, m, .])
      u[i]       = M(x_i, t_i)
      u_integral[i, j] = M(x'_j, t_i)    -- the integral variable replaced, the other coordinates of row i kept
    and the loss is reduce(error(residual))."""
    I = S.I
    x, t = S.new(RN, "x", 2), S.new(RN, "t", 1)
    n, m = S.int("n", 1), S.int("m", 1)
    smp = AbstractSampler(S, "smp", mul(S, x, t), n)
    ismp = AbstractSampler(S, "ismp", S.new(RN, "x", 2), m)
    model = AbstractModel(S, "net", mul(S, S.new(RN, "x", 2), S.new(RN, "t", 1)), S.new(RN, "u", 2))
    res = RowFn("res", ["u", "u_integral", "x", "x_integral", "t"], 2, {"u": 2, "u_integral": 2, "x": 2, "x_integral": 2, "t": 1})
    E, Rd = rowwise_tensor_fn("E"), scalar_tensor_fn("Rd")
    cond = S.new(C + "IntegroPINNCondition", model.obj, smp.obj, res, ismp.obj, E, reduce_fn=Rd)
    loss = S.method(cond, "forward")
    S.ensure("samplers-asked-exactly-once-each", len(smp.calls) == 1 and len(ismp.calls) == 1)
    S.ensure("model-evaluated-on-points-and-on-combined-points", len(model.calls) == 2)
    S.ensure("residual-error-reduce-once-each", len(res.calls) == 1 and len(E.calls) == 1 and len(Rd.calls) == 1)
    if not (len(res.calls) == 1 and len(E.calls) == 1 and len(Rd.calls) == 1 and len(smp.calls) == 1 and len(ismp.calls) == 1):
        return
    S.ensure("loss-is-reduce-of-error-of-residual", loss is Rd.calls[0]["result"] and Rd.calls[0]["args"][0] is E.calls[0]["result"])
    S.ensure("error-fn-gets-the-residual-value", getattr(E.calls[0]["args"][0], "meta", {}).get("rowfn", (None,))[0] is res)
    kw = res.calls[0]["kwargs"]
    names_ok = sorted(kw) == ["t", "u", "u_integral", "x", "x_integral"]
    S.ensure("residual-gets-exactly-its-named-arguments", names_ok)
    if not names_ok:
        return
    X, Xi = smp.calls[0]["tensor"].val, ismp.calls[0]["tensor"].val
    srow = lambda r: {"x": [zreal(X.at([r, (k,)])) for k in range(2)], "t": [zreal(X.at([r, (2,)]))]}
    irow = lambda r: [zreal(Xi.at([r, (k,)])) for k in range(2)]
    shapes = {"x": (True, False, 2), "t": (True, False, 1), "x_integral": (False, True, 2), "u": (True, False, 2), "u_integral": (True, True, 2)}
    for nm, (hn, hm, dm) in shapes.items():
        v = kw[nm].val
        ok = v.rank == 3 and (v.shape[0].size_term() == zint(n) if hn else v.shape[0].is_one) and (v.shape[2].concrete() == dm)
        S.ensure(f"{nm}-has-shape-points-by-integral-points-by-dim", ok if isinstance(ok, bool) else z3.And(ok, (v.shape[1].size_term() == zint(m)) if hm else z3.BoolVal(v.shape[1].is_one)))
    struct_ok = all(kw[nm].val.rank == 3 and kw[nm].val.shape[2].concrete() == dm and kw[nm].val.shape[0].is_one == (not hn) and kw[nm].val.shape[1].is_one == (not hm) for nm, (hn, hm, dm) in shapes.items())
    S.ensure("argument-axes-are-points-by-integral-points-by-dim", struct_ok)
    if not struct_ok:
        return
    comp = lambda q, dm: (q[2][0] if dm != 1 else 0)
    for nm in ("x", "t"):
        v = kw[nm].val
        dm = shapes[nm][2]
        S.forall(f"{nm}-is-the-sampled-coordinate-of-row-i", kw[nm], lambda q, v=v, nm=nm, dm=dm: zreal(v.at(q)) == core.select_comp(comp(q, dm), dm, [(lambda k=k: srow(q[0])[nm][k]) for k in range(dm)]))
    v = kw["x_integral"].val
    S.forall("x_integral-is-the-integral-point-j", kw["x_integral"], lambda q: zreal(v.at(q)) == core.select_comp(comp(q, 2), 2, [(lambda k=k: irow(q[1])[k]) for k in range(2)]))
    u = kw["u"].val
    S.forall("u-is-the-model-at-the-sampled-point-inputs-by-name", kw["u"], lambda q: zreal(u.at(q)) == core.select_comp(comp(q, 2), 2, [(lambda c=c: model.out_terms(srow(q[0])["x"] + srow(q[0])["t"])[c]) for c in range(2)]))
    ui = kw["u_integral"].val
    S.forall("u_integral-i-j-is-the-model-at-integral-point-j-with-the-other-coordinates-of-row-i", kw["u_integral"], lambda q: zreal(ui.at(q)) == core.select_comp(comp(q, 2), 2, [(lambda c=c: model.out_terms(irow(q[1]) + srow(q[0])["t"])[c]) for c in range(2)]))
    S.ensure("coordinates-are-tracked-leaves", all(kw[nm].requires_grad for nm in ("x", "t", "x_integral")))


# ----------------------------------------------------------------------------- DeepONet condition
@scenario("C04", ["torchphysics.problem.conditions.deeponet_condition.DeepONetSingleModuleCondition.__init__", "torchphysics.problem.conditions.deeponet_condition.DeepONetSingleModuleCondition.forward", "torchphysics.problem.conditions.deeponet_condition.PIDeepONetCondition.__init__", "torchphysics.models.deeponet.deeponet.DeepONet._forward_branch"], configs=["pi-deeponet"], bounded="trunk variable x:1, output u:2, input functions f:1 (schematic); numbers of functions, locations, neurons and discretisation points symbolic")
def deeponet_condition_evaluates_every_function_at_every_sampled_location(S):
    """PIDeepONetCondition.forward with K input functions (CustomFunctionSet f_k = fparam(k, x), real class) and n
    sampled locations: the functions are (re)sampled and the branch evaluated once, the locations sampled once and
    shared by all functions, and the residual receives BY NAME for function b and location j
       x[b, j] = location j,   u[b, j, c] = sum_k T[b, j, c, k] Br[b, c, k],   f[b, j] = f_b(location j);
    the loss is reduce(error(residual)) -- with PIDeepONetCondition's defaults the mean over functions and locations
    of the squared residual summed over components."""
    from .c09_deeponet import abstract_trunk_branch, DON, BRANCH, FS
    from tpv.absdom import abstract_domain
    from tpv import tsum

    I = S.I
    K, n, q, nd = S.int("K", 1), S.int("n", 1), S.int("q", 1), S.int("ndisc", 1)
    d = 2
    xs = S.new(RN, "x", 1)
    trunk, _unused, Tt, Bt = abstract_trunk_branch(S, K, n, d, q, True)
    tcalls = []
    trunk.f["__overrides__"] = {"forward": lambda I2, o, pts: (tcalls.append(pts), Tt)[1], "__call__": lambda I2, o, pts: (tcalls.append(pts), Tt)[1]}
    fsp = S.new(FS, abstract_domain(S, "Din", xs).obj, S.new(RN, "f", 1))
    disc = AbstractSampler(S, "disc", xs, nd)
    branch = S.new(BRANCH, fsp, disc.obj)
    bcalls = []

    def branch_call(I2, o, batch):
        bcalls.append(batch)
        o.f["current_out"] = Bt

    branch.f["__overrides__"] = {"forward": branch_call, "__call__": branch_call}
    psmp = AbstractSampler(S, "par", S.new(RN, "k", 1), K)
    fpar = RowFn("fparam", ["k", "x"], 1, {"k": 1, "x": 1})
    fset = S.new("torchphysics.problem.domains.functionsets.functionset.CustomFunctionSet", fsp, psmp.obj, fpar)
    us = S.new(RN, "u", d)
    net = S.new(DON, trunk, branch, us, Sym(zint(q) * d, "int"))
    smp = AbstractSampler(S, "smp", S.new(RN, "x", 1), n)
    res = RowFn("res", ["u", "x", "f"], 2, {"u": 2, "x": 1, "f": 1})
    cfg_default = True
    cond = S.new("torchphysics.problem.conditions.deeponet_condition.PIDeepONetCondition", net, fset, smp.obj, res)
    loss = S.method(cond, "forward", "cpu", 0)
    S.ensure("functions-sampled-once-branch-evaluated-once", len(psmp.calls) == 1 and len(bcalls) == 1)
    S.ensure("locations-sampled-once-trunk-evaluated-once", len(smp.calls) == 1 and len(tcalls) == 1)
    S.ensure("residual-evaluated-once", len(res.calls) == 1)
    if not (len(res.calls) == 1 and len(smp.calls) == 1 and len(psmp.calls) == 1 and len(tcalls) == 1):
        return
    X = smp.calls[0]["tensor"].val
    Kp = psmp.calls[0]["tensor"].val
    tin = tensor_of(tcalls[0])
    ok = tin.rank == 3 and tin.shape[2].concrete() == 1
    S.ensure("trunk-input-functions-by-locations", ok and tin.shape[0].size_term() == zint(K) and tin.shape[1].size_term() == zint(n))
    if ok:
        S.forall("trunk-input-b-j-is-location-j-for-every-function", Tensor(tin), lambda qq: zreal(tin.at(qq)) == zreal(X.at([qq[1], ()])))
    kw = res.calls[0]["kwargs"]
    names_ok = sorted(kw) == ["f", "u", "x"]
    S.ensure("residual-gets-exactly-its-named-arguments", names_ok)
    if not names_ok:
        return
    dims = {"x": 1, "u": 2, "f": 1}
    struct_ok = all(kw[nm].val.rank == 3 and kw[nm].val.shape[2].concrete() == dm for nm, dm in dims.items())
    S.ensure("arguments-have-axes-functions-locations-dim", struct_ok)
    if not struct_ok:
        return
    for nm in dims:
        v = kw[nm].val
        S.ensure(f"{nm}-has-K-functions-and-n-locations", z3.And(v.shape[0].size_term() == zint(K), v.shape[1].size_term() == zint(n)))
    xv, uv, fv = kw["x"].val, kw["u"].val, kw["f"].val
    S.forall("x-b-j-is-location-j", kw["x"], lambda qq: zreal(xv.at(qq)) == zreal(X.at([qq[1], ()])))
    S.forall("u-b-j-is-the-inner-product-of-function-b-and-location-j", kw["u"], lambda qq: zreal(uv.at(qq)) == tsum.sum_term([Dim([zint(q)])], lambda r: zreal(Tt.val.at([qq[0], qq[1], qq[2], r[0]])) * zreal(Bt.val.at([qq[0], qq[2], r[0]])), "sum"))
    S.forall("f-b-j-is-input-function-b-at-location-j", kw["f"], lambda qq: zreal(fv.at(qq)) == fpar.value_terms([zreal(Kp.at([qq[0], ()])), zreal(X.at([qq[1], ()]))])[0])
    S.ensure("x-is-a-tracked-leaf", kw["x"].requires_grad)
    # PIDeepONetCondition defaults: SquaredError then torch.mean
    rv = res.calls[0]["result"].val
    lossv = loss.val
    S.ensure("loss-is-one-number", lossv.numel_concrete() == 1)
    from tpv import torchlib, tlib

    sq = tlib.power(I, Tensor(rv), 2)
    want = torchlib.t_mean(I, torchlib.t_sum(I, sq, dim=-1))
    S.ensure("loss-is-the-mean-over-functions-and-locations-of-the-squared-residual-summed-over-components", z3.eq(z3.simplify(zreal(lossv.at([() for _ in lossv.shape]))), z3.simplify(zreal(want.val.at([])))))


@scenario("C04", [C + "HPM_EquationLoss_at_Sampler.__init__", C + "HPM_EquationLoss_at_Sampler.forward", C + "ParameterCondition.__init__", C + "ParameterCondition.forward"], configs=["hpm-at-sampler", "parameter-condition"], bounded=BOUND)
def hpm_at_sampler_and_parameter_condition(S):
    """HPM_EquationLoss_at_Sampler: loss = reduce(error(residual)) with the residual evaluated ONCE on exactly the
    sampled points -- it receives, by name, the tracked coordinates, the learnable parameter and the data functions
    evaluated at the same rows (the network enters through the user's residual);  ParameterCondition: the loss is the
    user's penalty of the learnable parameter, by name"""
    I = S.I
    if S.cfg == "parameter-condition":
        D = S.new(PARAM, [S.real("D0"), S.real("D1")], S.new(RN, "D", 2))
        pen = RowFn("penalty", ["D"], 1, {"D": 2})
        cond = S.new(C + "ParameterCondition", D, pen, 1.0)
        loss = S.method(cond, "forward")
        S.ensure("penalty-evaluated-once", len(pen.calls) == 1 and loss is pen.calls[0]["result"])
        if len(pen.calls) == 1:
            Dv = pen.calls[0]["kwargs"].get("D")
            S.ensure("penalty-gets-the-parameter-by-name", isinstance(Dv, Tensor) and sorted(pen.calls[0]["kwargs"]) == ["D"])
            if isinstance(Dv, Tensor):
                S.forall("it-is-the-learnable-parameter", Dv, lambda q: zreal(Dv.val.at(q)) == zreal(D.f["_t"].val.at(q)))
        return
    w = World(S)
    res = RowFn("hpmres", ["x", "t", "D", "f"], 2, {"x": 2, "t": 1, "D": 1, "f": 1})
    cond = S.new(C + "HPM_EquationLoss_at_Sampler", w.model.obj, w.sobj, res, error_fn=w.E, reduce_fn=w.Rd, data_functions={"f": w.fdata}, parameter=w.D)
    loss = S.method(cond, "forward")
    S.ensure("sampler-asked-once-residual-error-reduce-once", len(w.sampler.calls) == 1 and len(res.calls) == 1 and len(w.E.calls) == 1 and len(w.Rd.calls) == 1)
    if not (len(res.calls) == 1 and len(w.E.calls) == 1 and len(w.Rd.calls) == 1):
        return
    S.ensure("loss-is-reduce-of-error-of-residual", loss is w.Rd.calls[0]["result"] and w.Rd.calls[0]["args"][0] is w.E.calls[0]["result"] and getattr(w.E.calls[0]["args"][0], "meta", {}).get("rowfn", (None,))[0] is res)
    kw = res.calls[0]["kwargs"]
    S.ensure("residual-gets-exactly-its-named-arguments", sorted(kw) == ["D", "f", "t", "x"])
    if sorted(kw) != ["D", "f", "t", "x"]:
        return
    for nm in ("x", "t"):
        t = kw[nm]
        S.forall(f"{nm}-is-the-sampled-coordinate-of-the-same-row", t, lambda q, nm=nm, t=t: zreal(t.val.at(q)) == core.select_comp(q[1][0] if q[1] else 0, len(w.cols()[nm]), [(lambda k=k: w.sample_row(0, q[0])[nm][k]) for k in range(len(w.cols()[nm]))]))
    S.ensure("coordinates-are-tracked-leaves", all(kw[nm].requires_grad for nm in ("x", "t")))
    f = kw["f"]
    S.forall("f-is-the-data-function-at-the-same-row", f, lambda q: zreal(f.val.at(q)) == w.fdata.value_terms(w.sample_row(0, q[0])["t"] + w.sample_row(0, q[0])["x"])[0])
    Dv = kw["D"]
    S.ensure("D-is-the-learnable-parameter", Dv.val.numel_concrete() == 1 and z3.eq(z3.simplify(zreal(Dv.val.at([(), ()]))), z3.simplify(zreal(w.D.f["_t"].val.at([(), ()])))))


@scenario("C04", [C + "SingleModuleCondition.forward", "torchphysics.utils.user_fun.UserFunction._set_input_args_for_function", "torchphysics.utils.user_fun.UserFunction.__call__"], configs=["two-defaults-each"], bounded=BOUND)
def residual_and_data_function_with_several_default_arguments(S):
    """a residual and a data function that each declare TWO default arguments nobody supplies: inside the condition
    each default reaches the parameter it was declared for (by name), the other arguments are bound as usual"""
    w = World(S)
    sc, of = S.tensor("default_scale", [1]), S.tensor("default_offset", [1])
    am, sh = S.tensor("default_amp", [1]), S.tensor("default_shift", [1])
    res = RowFn("res2d", ["u", "x", "f", "scale", "offset"], 2, {"u": 2, "x": 2, "f": 1, "scale": 1, "offset": 1}, defaults={"scale": sc, "offset": of})
    fdata = RowFn("f2d", ["x", "t", "amp", "shift"], 1, {"x": 2, "t": 1, "amp": 1, "shift": 1}, defaults={"amp": am, "shift": sh})
    cond = S.new(C + "SingleModuleCondition", w.model.obj, w.sobj, res, w.E, reduce_fn=w.Rd, data_functions={"f": fdata})
    S.method(cond, "forward")
    S.ensure("residual-and-data-function-evaluated-once", len(res.calls) == 1 and len(fdata.calls) == 1)
    if not (len(res.calls) == 1 and len(fdata.calls) == 1):
        return
    kr, kf = res.calls[0]["kwargs"], fdata.calls[0]["kwargs"]
    S.ensure("residual-gets-exactly-its-declared-names", sorted(kr) == ["f", "offset", "scale", "u", "x"])
    S.ensure("residual-defaults-reach-the-parameters-they-were-declared-for", kr.get("scale") is sc and kr.get("offset") is of)
    S.ensure("data-function-gets-exactly-its-declared-names", sorted(kf) == ["amp", "shift", "t", "x"])
    S.ensure("data-function-defaults-reach-the-parameters-they-were-declared-for", kf.get("amp") is am and kf.get("shift") is sh)


class _TestFunctions:
    """abstract test-function set: called with the coordinates it returns Points over R1('v') whose row r is an
    arbitrary function of the coordinates of row r; get_quad_weights(n) is an arbitrary tensor with n rows"""

    def __init__(self, S, w):
        self.S, self.w, self.calls, self.qcalls = S, w, [], []
        self.V = z3.Function("testfn", z3.RealSort(), z3.RealSort(), z3.RealSort(), z3.RealSort())

    def tpv_call(self, I, args, kwargs):
        co = args[0]
        self.calls.append(co)
        x, t = co["x"].val, co["t"].val
        val = STensor([x.shape[0], Dim([])], lambda idx: self.V(zreal(x.at([idx[0], (0,)])), zreal(x.at([idx[0], (1,)])), zreal(t.at([idx[0], ()]))), "real", "testfn")
        return self.S.new(POINTS, Tensor(val), self.S.new(RN, "v", 1))

    def tpv_getattr(self, I, name):
        from tpv.interp import Builtin

        if name == "get_quad_weights":
            def q(I2, n):
                self.qcalls.append(n)
                t = self.S.tensor(f"quadw{len(self.qcalls)}", [n, 1])
                return t
            return Builtin("get_quad_weights", q)
        if name == "to":
            return Builtin("to", lambda I2, *a, **k: self)
        raise core.Unsupported(f"test function set: {name}")


@scenario("C04", ["torchphysics.problem.conditions.variational_condition.VariationalPINNCondition.__init__", "torchphysics.problem.conditions.variational_condition.VariationalPINNCondition.forward"], configs=["xt"], bounded=BOUND + "; test-function set abstract")
def variational_condition(S):
    """VariationalPINNCondition: loss = mean(squared error(residual)) with the residual evaluated ONCE on exactly the
    sampled points; it receives by name the model output at each row, the tracked coordinates, the data functions at the
    same rows, the test functions evaluated at the SAME coordinates and the quadrature weights for exactly as many
    points as were sampled"""
    w = World(S)
    tf = _TestFunctions(S, w)
    res = RowFn("vres", ["u", "x", "t", "f", "v", "quad_weights"], 2, {"u": 2, "x": 2, "t": 1, "f": 1, "v": 1, "quad_weights": 1})
    cond = S.new("torchphysics.problem.conditions.variational_condition.VariationalPINNCondition", w.model.obj, res, w.sobj, tf, data_functions={"f": w.fdata})
    S.method(cond, "forward")
    S.ensure("sampler-model-residual-test-functions-each-used-once", len(w.sampler.calls) == 1 and len(w.model.calls) == 1 and len(res.calls) == 1 and len(tf.calls) == 1 and len(tf.qcalls) == 1)
    if not (len(res.calls) == 1 and len(tf.calls) == 1 and len(tf.qcalls) == 1):
        return
    kw = res.calls[0]["kwargs"]
    S.ensure("residual-gets-exactly-its-named-arguments", sorted(kw) == ["f", "quad_weights", "t", "u", "v", "x"])
    if sorted(kw) != ["f", "quad_weights", "t", "u", "v", "x"]:
        return
    S.ensure("quadrature-weights-for-as-many-points-as-were-sampled", zint(tf.qcalls[0]) == zint(w.n))
    for nm in ("x", "t"):
        t = kw[nm]
        S.forall(f"{nm}-is-the-sampled-coordinate-of-the-same-row", t, lambda q, nm=nm, t=t: zreal(t.val.at(q)) == core.select_comp(q[1][0] if q[1] else 0, len(w.cols()[nm]), [(lambda k=k: w.sample_row(0, q[0])[nm][k]) for k in range(len(w.cols()[nm]))]))
    u = kw["u"]
    S.forall("u-is-the-model-output-at-the-same-row", u, lambda q: zreal(u.val.at(q)) == core.select_comp(q[1][0], 2, [(lambda c=c: w.model.out_terms(w.sample_row(0, q[0])["x"] + w.sample_row(0, q[0])["t"])[c]) for c in range(2)]))
    f = kw["f"]
    S.forall("f-is-the-data-function-at-the-same-row", f, lambda q: zreal(f.val.at(q)) == w.fdata.value_terms(w.sample_row(0, q[0])["t"] + w.sample_row(0, q[0])["x"])[0])
    v = kw["v"]
    S.forall("test-functions-evaluated-at-the-same-row", v, lambda q: zreal(v.val.at(q)) == tf.V(*(w.sample_row(0, q[0])["x"] + w.sample_row(0, q[0])["t"])))
    S.ensure("coordinates-are-tracked-leaves", all(kw[nm].requires_grad for nm in ("x", "t")))


@scenario("C14", [C + "PeriodicCondition._move_static_data", C + "SingleModuleCondition._move_static_data", C + "IntegroPINNCondition._move_static_data", C + "HPM_EquationLoss_at_Sampler._move_static_data"], configs=["periodic", "single", "integro", "hpm-at-sampler"], bounded=BOUND + "; static sampler, device 'cpu'")
def moving_static_data_to_the_training_device_changes_no_data(S):
    """Solver.on_train_start calls condition._move_static_data(device) once before training: afterwards every
    pre-evaluated data function still holds ITS OWN data (the left and the right side of a periodic condition each their
    own), so the loss of a condition on a static sampler is the same before and after being handed to a Solver"""
    I = S.I
    k = S.cfg
    n = S.int("n", 1)
    if k == "periodic":
        lo, hi = S.real("lo"), S.real("hi")
        S.assume(lo.t < hi.t)
        interval = S.new("torchphysics.problem.domains.domain1D.interval.Interval", S.new(RN, "t", 1), lo, hi)
        smp = AbstractSampler(S, "smp", S.new(RN, "x", 2), n)
        model = AbstractModel(S, "net", mul(S, S.new(RN, "x", 2), S.new(RN, "t", 1)), S.new(RN, "u", 1))
        fdata = RowFn("fdata", ["t", "x"], 1, {"t": 1, "x": 2})
        res = RowFn("res", ["u_left", "u_right", "f_left", "f_right"], 1, {"u_left": 1, "u_right": 1, "f_left": 1, "f_right": 1})
        cond = S.new(C + "PeriodicCondition", model.obj, interval, res, non_periodic_sampler=S.method(smp.obj, "make_static"), data_functions={"f": fdata})
        stores = ["left_data_functions", "right_data_functions"]
    else:
        w = World(S, static=True)
        cls = {"single": "SingleModuleCondition", "integro": "IntegroPINNCondition", "hpm-at-sampler": "HPM_EquationLoss_at_Sampler"}[k]
        res = RowFn("res", ["x", "t", "f"], 2, {"x": 2, "t": 1, "f": 1})
        if k == "single":
            cond = S.new(C + cls, w.model.obj, w.sobj, res, w.E, data_functions={"f": w.fdata})
        elif k == "integro":
            cond = S.new(C + cls, w.model.obj, w.sobj, res, AbstractSampler(S, "ismp", S.new(RN, "x", 2), S.int("m", 1)).obj, data_functions={"f": w.fdata})
        else:
            cond = S.new(C + cls, w.model.obj, w.sobj, res, data_functions={"f": w.fdata})
        stores = ["data_functions"]
    before = {st: {key: (uf, uf.f["fun"], uf.f["fun"].val if isinstance(uf.f["fun"], Tensor) else None) for key, uf in S.getattr(cond, st).items()} for st in stores}
    S.ensure("data-were-pre-evaluated-for-the-static-sampler", all(isinstance(v[1], Tensor) for st in stores for v in before[st].values()))
    S.method(cond, "_move_static_data", "cpu")
    for st in stores:
        now = S.getattr(cond, st)
        S.ensure(f"{st}:same-keys-same-wrappers", list(now.keys()) == list(before[st].keys()) and all(now[key] is before[st][key][0] for key in now))
        for key, (uf, cell, val) in before[st].items():
            cur = now[key].f["fun"]
            okc = isinstance(cur, Tensor) and val is not None and cur.val.rank == val.rank
            S.ensure(f"{st}[{key}]:still-a-tensor-of-the-same-rank", okc)
            if okc:
                S.forall(f"{st}[{key}]:holds-its-own-data-as-before", cur, lambda q, cur=cur, val=val: zreal(cur.val.at(q)) == zreal(val.at(q)))
