"""C10 for ShapelyPolygon: shapely itself (C code) is outside the verifier; what IS under contract is the library's
use of it.  Assumed contract of a shapely Polygon P (A3/A10): P.area is the area (holes removed), P.boundary.length is
the total length of ALL rings, P.exterior.length the length of the outer ring only (<= P.boundary.length, equal only
without holes)."""
import z3

from tpv import core
from tpv.core import Sym, zreal
from tpv.spec import scenario

SP = "torchphysics.problem.domains.domain2D.shapely_polygon.ShapelyPolygon"
SB = "torchphysics.problem.domains.domain2D.shapely_polygon.ShapelyBoundary"
R2 = "torchphysics.problem.spaces.space.R2"


class _Attr:
    def __init__(self, **kw):
        self.kw = kw

    def tpv_getattr(self, I, name):
        if name in self.kw:
            return self.kw[name]
        raise core.Unsupported(f"shapely model: attribute {name}")


def _shapely_stub(S):
    """model of the part of shapely the constructors touch: shapely.geometry.Polygon (a class), polygon.orient (keeps
    area, lengths and bounds -- it only reorders the vertices), exterior / interior rings (the scenarios below use
    polygons whose ring coordinates are never read: the outline / normal table of the boundary object is abstract)"""
    from tpv.interp import StubModule, Builtin
    from tpv.loader import NativeClass

    Poly = NativeClass("shapely.geometry.Polygon")
    geo = StubModule("shapely.geometry", {"Polygon": Poly, "polygon": StubModule("shapely.geometry.polygon", {"orient": Builtin("orient", lambda I, p, *a, **k: p)})})
    S.I.repo.externals["shapely"] = StubModule("shapely", {"geometry": geo, "ops": StubModule("shapely.ops", {})})
    return Poly


def _polygon(S, Poly, **attrs):
    p = S.I.new_without_init(Poly)
    p.f.update(attrs)
    return p


def _mk(S, poly_attrs):
    """a ShapelyPolygon built by its REAL constructor around the polygon model, and its boundary object: the
    shapely-specific part of ShapelyBoundary.__init__ (outline, normal table) is skipped, BoundaryDomain.__init__ is the
    real one"""
    Poly = _shapely_stub(S)
    poly = _polygon(S, Poly, **poly_attrs)
    dom = S.new(SP, S.new(R2, "x"), shapely_polygon=poly)
    bd = S.I.new_without_init(S.find(SB))
    S.call(S.getattr(S.find("torchphysics.problem.domains.domain.BoundaryDomain"), "__init__"), bd, dom)
    return dom, bd


@scenario("C10", [SP + "._get_volume", SB + "._get_volume", SP + ".__init__"], configs=["polygon-with-holes"])
def shapely_measures_are_the_area_and_the_length_of_all_rings(S):
    area, lall, lext = S.real("area"), S.real("length_of_all_rings"), S.real("length_of_the_outer_ring")
    S.assume(z3.And(area.t > 0, lext.t > 0, lext.t < lall.t))
    dom, bd = _mk(S, dict(area=area, boundary=_Attr(length=lall), exterior=_Attr(length=lext)))
    v = S.method(dom, "volume").val
    S.ensure("volume-is-one-number", v.numel_concrete() == 1)
    S.ensure("volume-is-the-polygon-area", zreal(v.at([() for _ in v.shape])) == area.t)
    vb = S.method(bd, "volume").val
    S.ensure("boundary-measure-is-one-number", vb.numel_concrete() == 1)
    S.ensure("boundary-measure-is-the-length-of-all-rings-including-holes", zreal(vb.at([() for _ in vb.shape])) == lall.t)


@scenario("C10", [SB + ".sample_random_uniform", SB + ".sample_grid", SB + "._compute_number_of_points", "torchphysics.problem.domains.domain.Domain.compute_n_from_density"], configs=["random", "grid"])
def shapely_boundary_density_sampling_counts_with_the_boundary_measure(S):
    """ShapelyBoundary.sample_*(d=density): the number of points handed to the boundary walk is ceil(density * length of
    all rings) -- the measure of the BOUNDARY, not the area of the polygon (the walk itself, shapely geometry, is used
    through an assumed contract: n ordered arc-length positions -> n points)."""
    from tpv.tlib import Tensor
    from tpv.core import zint

    area, lall, lext = S.real("area"), S.real("length_of_all_rings"), S.real("length_of_the_outer_ring")
    S.assume(z3.And(area.t > 0, lext.t > 0, lext.t <= lall.t))
    dens = S.real("density")
    S.assume(dens.t > 0)
    dom, bd = _mk(S, dict(area=area, boundary=_Attr(length=lall), exterior=_Attr(length=lext)))
    seen = []

    def walk(I, fn, args, kwargs):
        env = I.bind_args(fn, args, kwargs)
        seen.append((env.vars["n"], env.vars["line_points"]))
        return None

    S.use_contract(SB + "._transform_points_to_boundary", walk)
    S.method(bd, "sample_random_uniform" if S.cfg == "random" else "sample_grid", None, dens)
    S.ensure("boundary-walk-called-once", len(seen) == 1)
    if len(seen) != 1:
        return
    n, lp = seen[0]
    want_lo, want_hi = dens.t * lall.t, dens.t * lall.t + 1
    S.ensure("number-of-points-is-ceil-density-times-boundary-length", z3.And(want_lo <= z3.ToReal(zint(n)), z3.ToReal(zint(n)) < want_hi))
    S.ensure("as-many-arc-length-positions", isinstance(lp, Tensor) and lp.val.rank == 1 and True)
    if isinstance(lp, Tensor) and lp.val.rank == 1:
        S.ensure("one-position-per-point", lp.val.shape[0].size_term() == zint(n))
        S.forall("positions-lie-on-the-boundary-curve", lp, lambda q: z3.And(zreal(lp.val.at(q)) >= 0, zreal(lp.val.at(q)) <= lall.t), extra_hyps=lambda q: S.instances(lp.val.shape, q))


@scenario("C18", [SP + ".bounding_box", SP + ".__init__"], configs=["any-polygon"])
def shapely_bounding_box_is_the_bounds_of_the_polygon_in_space_order(S):
    """assumed contract of shapely: polygon.bounds = (minx, miny, maxx, maxy).  post: bounding_box() is
    [minx, maxx, miny, maxy] (the [min_0, max_0, min_1, max_1] layout every consumer reads).
    history: asked three times on the same polygon object, each answer is that vector, and an answer handed out
    earlier is not changed by a later query"""
    b = [S.real(n) for n in ("minx", "miny", "maxx", "maxy")]
    S.assume(z3.And(b[0].t < b[2].t, b[1].t < b[3].t))
    dom, bd = _mk(S, dict(bounds=tuple(b), area=S.real("area")))
    want = [b[0].t, b[2].t, b[1].t, b[3].t]
    boxes = []
    for k in range(3):
        box = S.method(dom, "bounding_box")
        v = box.val
        ok = v.rank == 1 and v.shape[0].concrete() == 4
        S.ensure(f"query-{k + 1}:flat-vector-of-4", ok)
        if not ok:
            return
        S.ensure(f"query-{k + 1}:min0-max0-min1-max1", z3.And([zreal(v.at([(j,)])) == want[j] for j in range(4)]))
        boxes.append(box)
    for k, box in enumerate(boxes[:-1]):
        v = box.val
        S.ensure(f"answer-{k + 1}-unchanged-by-later-queries", z3.And([zreal(v.at([(j,)])) == want[j] for j in range(4)]))
    bb = S.method(bd, "bounding_box").val
    S.ensure("boundary-box-is-the-same-vector", bb.rank == 1 and bb.shape[0].concrete() == 4 and True)
    if bb.rank == 1 and bb.shape[0].concrete() == 4:
        S.ensure("boundary-box-values", z3.And([zreal(bb.at([(j,)])) == want[j] for j in range(4)]))
