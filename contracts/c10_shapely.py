"""C10 for ShapelyPolygon: shapely itself (C code) is outside the verifier; what IS under contract is the library's
use of it.  Assumed contract of a shapely Polygon P (A3/A10): P.area is the area (holes removed), P.boundary.length is
the total length of ALL rings, P.exterior.length the length of the outer ring only (<= P.boundary.length, equal only
without holes)."""
import z3

from tpv import core
from tpv.core import Sym, zreal
from tpv.spec import scenario

SP = "torchphysics.problem.domains.domain2D.shapely_polygon.ShapelyPolygon"
SB = "torchphysics.problem.domains.domain2D.shapely_polygon.ShapelyBoundary"
R2 = "torchphysics.problem.spaces.space.R2"


class _Attr:
    def __init__(self, **kw):
        self.kw = kw

    def tpv_getattr(self, I, name):
        if name in self.kw:
            return self.kw[name]
        raise core.Unsupported(f"shapely model: attribute {name}")


def _mk(S, poly):
    """a ShapelyPolygon / ShapelyBoundary pair around the polygon model: the shapely-specific parts of the constructors
    (vertex handling, outline, normals) are skipped, the base-class constructors Domain.__init__ /
    BoundaryDomain.__init__ are the real ones"""
    dom = S.I.new_without_init(S.find(SP))
    S.call(S.getattr(S.find("torchphysics.problem.domains.domain.Domain"), "__init__"), dom, S.new(R2, "x"), 2)
    dom.f["polygon"] = poly
    dom.f["necessary_variables"] = set()
    bd = S.I.new_without_init(S.find(SB))
    S.call(S.getattr(S.find("torchphysics.problem.domains.domain.BoundaryDomain"), "__init__"), bd, dom)
    return dom, bd


@scenario("C10", [SP + "._get_volume", SB + "._get_volume"], configs=["polygon-with-holes"])
def shapely_measures_are_the_area_and_the_length_of_all_rings(S):
    area, lall, lext = S.real("area"), S.real("length_of_all_rings"), S.real("length_of_the_outer_ring")
    S.assume(z3.And(area.t > 0, lext.t > 0, lext.t < lall.t))
    poly = _Attr(area=area, boundary=_Attr(length=lall), exterior=_Attr(length=lext))
    dom, bd = _mk(S, poly)
    v = S.method(dom, "volume").val
    S.ensure("volume-is-one-number", v.numel_concrete() == 1)
    S.ensure("volume-is-the-polygon-area", zreal(v.at([() for _ in v.shape])) == area.t)
    vb = S.method(bd, "volume").val
    S.ensure("boundary-measure-is-one-number", vb.numel_concrete() == 1)
    S.ensure("boundary-measure-is-the-length-of-all-rings-including-holes", zreal(vb.at([() for _ in vb.shape])) == lall.t)


@scenario("C10", [SB + ".sample_random_uniform", SB + ".sample_grid", SP + "._compute_number_of_points", "torchphysics.problem.domains.domain.Domain.compute_n_from_density"], configs=["random", "grid"])
def shapely_boundary_density_sampling_counts_with_the_boundary_measure(S):
    """ShapelyBoundary.sample_*(d=density): the number of points handed to the boundary walk is ceil(density * length of
    all rings) -- the measure of the BOUNDARY, not the area of the polygon (the walk itself, shapely geometry, is used
    through an assumed contract: n ordered arc-length positions -> n points)."""
    from tpv.tlib import Tensor
    from tpv.core import zint

    area, lall, lext = S.real("area"), S.real("length_of_all_rings"), S.real("length_of_the_outer_ring")
    S.assume(z3.And(area.t > 0, lext.t > 0, lext.t <= lall.t))
    dens = S.real("density")
    S.assume(dens.t > 0)
    poly = _Attr(area=area, boundary=_Attr(length=lall), exterior=_Attr(length=lext))
    dom, bd = _mk(S, poly)
    seen = []

    def walk(I, fn, args, kwargs):
        env = I.bind_args(fn, args, kwargs)
        seen.append((env.vars["n"], env.vars["line_points"]))
        return None

    S.use_contract(SB + "._transform_points_to_boundary", walk)
    S.method(bd, "sample_random_uniform" if S.cfg == "random" else "sample_grid", None, dens)
    S.ensure("boundary-walk-called-once", len(seen) == 1)
    if len(seen) != 1:
        return
    n, lp = seen[0]
    want_lo, want_hi = dens.t * lall.t, dens.t * lall.t + 1
    S.ensure("number-of-points-is-ceil-density-times-boundary-length", z3.And(want_lo <= z3.ToReal(zint(n)), z3.ToReal(zint(n)) < want_hi))
    S.ensure("as-many-arc-length-positions", isinstance(lp, Tensor) and lp.val.rank == 1 and True)
    if isinstance(lp, Tensor) and lp.val.rank == 1:
        S.ensure("one-position-per-point", lp.val.shape[0].size_term() == zint(n))
        S.forall("positions-lie-on-the-boundary-curve", lp, lambda q: z3.And(zreal(lp.val.at(q)) >= 0, zreal(lp.val.at(q)) <= lall.t), extra_hyps=lambda q: S.instances(lp.val.shape, q))
