"""C08 — models are row-wise functions of named variables.

nn.Linear / activations are assumed contracts (A3: Linear acts on the last axis with its own weight and bias,
activations are element-wise functions).  For every point-wise model:
  (i)   permutation: forward(points) = forward(the same data with the variables in another order)
  (ii)  rejection: inputs lacking a required variable (different variable set) raise
  (iii) row-locality: row r of the output is determined by row r of the input (any other batch content)
  (iv)  Sequential = composition, Parallel = join of the parts on their own input variables
  (v)   NormalizationLayer maps the bounding box into [-1, 1]^d
"""
import ast

import z3

from tpv import core
from tpv.core import zint, zreal, Sym, Dim
from tpv.spec import scenario
from tpv.tlib import Tensor
from tpv.absdom import AbstractModel, abstract_domain
from .geom import POINTS, R1, R2, tensor_of

M = "torchphysics.models."
MODEL = M + "model.Model"
RN = "torchphysics.problem.spaces.space.Rn"
BOUND = "input spaces schematic (two variables x:2, t:1 / three variables); layer widths small concrete numbers; rows, contents and weights symbolic"

NETS = {
    "FCN": (M + "fcn.FCN", dict(hidden=(3, 2))),
    "Harmonic_FCN": (M + "fcn.Harmonic_FCN", dict(hidden=(3,), max_frequenz=1)),
    "Polynomial_FCN": (M + "fcn.Polynomial_FCN", dict(hidden=(2,), polynomial_degree=2)),
    "QRES": (M + "qres.QRES", dict(hidden=(2,))),
    "DeepRitzNet": (M + "deepritz.DeepRitzNet", dict(width=2, depth=1)),
}


def mul(S, a, b):
    return S.I.binop(ast.Mult(), a, b)


def spaces(S):
    return mul(S, S.new(RN, "x", 2), S.new(RN, "t", 1)), mul(S, S.new(RN, "t", 1), S.new(RN, "x", 2)), S.new(RN, "u", 2)


def build(S, which):
    cls, kw = NETS[which]
    xt, tx, u = spaces(S)
    return S.new(cls, xt, u, **kw), xt, tx, u


@scenario("C08", [MODEL + "._fix_points_order"] + [NETS[k][0] + ".forward" for k in NETS] + [NETS[k][0] + ".__init__" for k in NETS] + [M + "fcn._construct_FC_layers", M + "qres.Quadratic.forward"], configs=list(NETS), bounded=BOUND)
def pointwise_model(S):
    net, xt, tx, u = build(S, S.cfg)
    I = S.I
    N = S.int("N", 1)
    X = S.tensor("X", [N, 2])
    T = S.tensor("T", [N, 1])
    from tpv import tshape

    d_xt = Tensor(tshape.cat(I, [X.val, T.val], 1))
    d_tx = Tensor(tshape.cat(I, [T.val, X.val], 1))
    p_xt = S.new(POINTS, d_xt, xt)
    p_tx = S.new(POINTS, d_tx, tx)
    o1 = S.method(net, "forward", p_xt)
    o2 = S.method(net, "forward", p_tx)
    t1, t2 = tensor_of(o1), tensor_of(o2)
    S.ensure("output-space", list(S.getattr(o1, "space").native.keys()) == ["u"] and t1.rank == 2 and t1.shape[1].concrete() == 2 and t1.shape[0].size_term() == zint(N))
    S.forall("same-output-for-permuted-variable-order", o1.f["_t"], lambda q: zreal(t1.at(q)) == zreal(t2.at(q)))
    # (ii) missing / foreign variable rejected
    only_x = S.new(POINTS, X, S.new(RN, "x", 2))
    S.ensure_raises("input-lacking-a-variable-rejected", lambda: S.method(net, "forward", only_x), ["ValueError", "KeyError", "RuntimeError", "AssertionError"])
    wrong = S.new(POINTS, d_xt, mul(S, S.new(RN, "x", 2), S.new(RN, "s", 1)))
    S.ensure_raises("input-with-a-foreign-variable-rejected", lambda: S.method(net, "forward", wrong), ["ValueError", "KeyError", "AssertionError"])
    # (iii) row locality: another batch that agrees on row r gives the same output row r
    Nb = S.int("Nb", 1)
    Y = S.tensor("Y", [Nb, 3])
    r1, r2 = z3.Int("r1"), z3.Int("r2")
    S.assume(z3.And(r1 >= 0, r1 < zint(N), r2 >= 0, r2 < zint(Nb)))
    for c in range(3):
        S.assume(zreal(Y.val.at([(r2,), (c,)])) == zreal(d_xt.val.at([(r1,), (c,)])))
    o3 = S.method(net, "forward", S.new(POINTS, Y, xt))
    t3 = tensor_of(o3)
    S.ensure("row-depends-only-on-its-own-input-row", z3.And([zreal(t3.at([(r2,), (c,)])) == zreal(t1.at([(r1,), (c,)])) for c in range(2)]))
    S.canary("output-ignores-the-input", z3.And([zreal(t3.at([(r2,), (c,)])) == zreal(t1.at([(z3.IntVal(0),), (c,)])) for c in range(2)]))


@scenario("C08", [NETS[k][0] + ".forward" for k in ("FCN", "DeepRitzNet", "Harmonic_FCN", "QRES")], configs=["FCN", "DeepRitzNet", "Harmonic_FCN", "QRES"], bounded=BOUND)
def several_batch_axes(S):
    """models that accept several batch axes: arranging the rows into [B, n] gives the rows of the flat batch"""
    net, xt, tx, u = build(S, S.cfg)
    Bn, n = S.int("B", 1), S.int("n", 1)
    Y = S.tensor("Y", [Bn, n, 3])
    from tpv import tshape

    flat = Tensor(tshape.reshape(S.I, Y.val, [-1, 3]))
    o2 = tensor_of(S.method(net, "forward", S.new(POINTS, Y, xt)))
    o1 = tensor_of(S.method(net, "forward", S.new(POINTS, flat, xt)))
    S.ensure("shapes", o2.rank == 3 and o1.rank == 2)
    if o2.rank == 3 and o1.rank == 2:
        S.forall("arrangement-into-batch-axes-is-irrelevant", Tensor(o2), lambda q: zreal(o2.at(q)) == zreal(o1.at([q[0] + q[1], q[2]])))


@scenario("C08", [M + "model.Sequential.__init__", M + "model.Sequential.forward", M + "model.Parallel.__init__", M + "model.Parallel.forward"], configs=["sequential", "sequential-permuted-intermediate", "parallel"], bounded=BOUND)
def compositions(S):
    I = S.I
    N = S.int("N", 1)
    xt, tx, u = spaces(S)
    X = S.tensor("X", [N, 2])
    T = S.tensor("T", [N, 1])
    from tpv import tshape

    d_tx = Tensor(tshape.cat(I, [T.val, X.val], 1))
    p = S.new(POINTS, d_tx, tx)

    def row_inputs(q, order):
        vals = {"x": [zreal(X.val.at([q[0], (c,)])) for c in range(2)], "t": [zreal(T.val.at([q[0], ()]))]}
        return [v for nm in order for v in vals[nm]]

    if S.cfg == "sequential":
        A = AbstractModel(S, "A", xt, S.new(RN, "w", 2))
        Bm = AbstractModel(S, "B", S.new(RN, "w", 2), u)
        seq = S.new(M + "model.Sequential", A.obj, Bm.obj)
        S.ensure("spaces-of-composition", list(S.getattr(seq, "input_space").native.keys()) == ["x", "t"] and list(S.getattr(seq, "output_space").native.keys()) == ["u"])
        o = S.method(seq, "forward", p)
        t = tensor_of(o)
        S.forall("sequential-is-composition", o.f["_t"], lambda q: zreal(t.at(q)) == core.select_comp(q[1][0], 2, [(lambda c=c: Bm.out_terms(A.out_terms(row_inputs(q, ["x", "t"])))[c]) for c in range(2)]))
        S.ensure("each-part-evaluated-once", len(A.calls) == 1 and len(Bm.calls) == 1)
    elif S.cfg == "sequential-permuted-intermediate":
        # the first model's output space lists the SAME variables as the second model's input space in another order:
        # the intermediate result is handed over by NAME; a second model over foreign names is rejected
        vw = mul(S, S.new(RN, "v", 1), S.new(RN, "w", 1))
        wv = mul(S, S.new(RN, "w", 1), S.new(RN, "v", 1))
        A = AbstractModel(S, "A", xt, vw)
        Bm = AbstractModel(S, "B", wv, u)
        seq = S.new(M + "model.Sequential", A.obj, Bm.obj)
        o = S.method(seq, "forward", p)
        t = tensor_of(o)

        def want(q):
            a = A.out_terms(row_inputs(q, ["x", "t"]))  # (v, w)
            return Bm.out_terms([a[1], a[0]])             # B reads (w, v) by name

        S.forall("intermediate-result-is-handed-over-by-name", o.f["_t"], lambda q: zreal(t.at(q)) == core.select_comp(q[1][0], 2, [(lambda c=c: want(q)[c]) for c in range(2)]))
        Cm = AbstractModel(S, "C", mul(S, S.new(RN, "r", 1), S.new(RN, "s", 1)), u)
        seq2 = S.new(M + "model.Sequential", A.obj, Cm.obj)
        S.ensure_raises("second-model-over-foreign-variable-names-is-rejected", lambda: S.method(seq2, "forward", p), ["ValueError", "KeyError", "AssertionError"])
    else:
        A = AbstractModel(S, "A", S.new(RN, "x", 2), S.new(RN, "u", 1))
        Bm = AbstractModel(S, "B", tx, S.new(RN, "v", 1))
        par = S.new(M + "model.Parallel", A.obj, Bm.obj)
        S.ensure("input-space-union-in-order", list(S.getattr(par, "input_space").native.keys()) == ["x", "t"])
        S.ensure("output-space-join", list(S.getattr(par, "output_space").native.keys()) == ["u", "v"])
        o = S.method(par, "forward", p)
        t = tensor_of(o)
        S.ensure("output-columns", t.rank == 2 and t.shape[1].concrete() == 2)
        S.forall("parallel-is-the-join-of-the-parts-on-their-own-variables", o.f["_t"], lambda q: zreal(t.at(q)) == core.select_comp(q[1][0], 2, [lambda: A.out_terms(row_inputs(q, ["x"]))[0], lambda: Bm.out_terms(row_inputs(q, ["t", "x"]))[0]]))


@scenario("C08", [M + "model.NormalizationLayer.__init__", M + "model.NormalizationLayer.forward"], configs=["abstract-domain"], bounded=BOUND)
def normalization_layer(S):
    """post (with C18): every point inside the bounding box (lo_i < hi_i) is mapped into [-1, 1]^d, by name"""
    dom = abstract_domain(S, "D", S.new(RN, "x", 2))
    dom.strict_box = True  # pre: the domain has positive extent along every axis (otherwise 2/(max-min) is infinite)
    layer = S.new(M + "model.NormalizationLayer", dom.obj)
    bx, _ = dom.box
    N = S.int("N", 1)
    X = S.tensor("X", [N, 2])
    o = S.method(layer, "forward", S.new(POINTS, X, S.new(RN, "x", 2)))
    t = tensor_of(o)
    S.ensure("shape", t.rank == 2 and t.shape[1].concrete() == 2)

    def goal(q):
        x = [zreal(X.val.at([q[0], (c,)])) for c in range(2)]
        inside = z3.And([z3.And(bx[2 * i] <= x[i], x[i] <= bx[2 * i + 1], bx[2 * i] < bx[2 * i + 1]) for i in range(2)])
        return z3.Implies(inside, z3.And([z3.And(zreal(t.at([q[0], (c,)])) >= -1, zreal(t.at([q[0], (c,)])) <= 1) for c in range(2)]))

    S.forall("box-mapped-into-unit-cube", o.f["_t"], goal)
    S.forall("box-corners-attain-the-bounds", o.f["_t"], lambda q: z3.Implies(z3.And(zreal(X.val.at([q[0], (0,)])) == bx[0], zreal(X.val.at([q[0], (1,)])) == bx[3], bx[0] < bx[1], bx[2] < bx[3]), z3.And(zreal(t.at([q[0], (0,)])) == -1, zreal(t.at([q[0], (1,)])) == 1)))


@scenario("C08", [M + "model.NormalizationLayer.forward", MODEL + "._fix_points_order"], configs=["input-in-domain-order", "input-in-other-order"], bounded=BOUND)
def normalization_layer_is_a_function_of_the_named_variables(S):
    """NormalizationLayer over a domain in the space x:2 * t:1, called directly with the variables in either order:
    the result lies in the layer's output space (= the domain's space, in ITS order) and the coordinates BY NAME are
    (v - centre) / half-width of the box of the same variable -- the same named data gives the same named result."""
    xt, tx, _u = spaces(S)
    dom = abstract_domain(S, "D", xt)
    dom.strict_box = True
    layer = S.new(M + "model.NormalizationLayer", dom.obj)
    bx, _ = dom.box
    N = S.int("N", 1)
    X, T = S.tensor("X", [N, 2]), S.tensor("T", [N, 1])
    from tpv import tshape
    from tpv.absdom import coords_of

    other = S.cfg == "input-in-other-order"
    data = Tensor(tshape.cat(S.I, [T.val, X.val] if other else [X.val, T.val], 1))
    o = S.method(layer, "forward", S.new(POINTS, data, tx if other else xt))
    S.ensure("result-lies-in-the-domain-space-in-its-own-order", list(S.getattr(o, "space").native.keys()) == ["x", "t"])
    co = coords_of(S.I, o)
    ok = set(co) == {"x", "t"} and co["x"].rank == 2 and co["x"].shape[1].concrete() == 2 and co["t"].rank == 2
    S.ensure("coordinates-by-name-have-their-dimensions", ok)
    if not ok:
        return
    norm = lambda v, i: (v - (bx[2 * i + 1] + bx[2 * i]) / 2) * (2 / (bx[2 * i + 1] - bx[2 * i]))
    S.forall("x-is-normalised-with-the-box-of-x", Tensor(co["x"]), lambda q: zreal(co["x"].at(q)) == core.select_comp(q[1][0], 2, [(lambda c=c: norm(zreal(X.val.at([q[0], (c,)])), c)) for c in range(2)]))
    S.forall("t-is-normalised-with-the-box-of-t", Tensor(co["t"]), lambda q: zreal(co["t"].at(q)) == norm(zreal(T.val.at([q[0], ()])), 2))


@scenario("C08", [MODEL + "._fix_points_order", NETS["FCN"][0] + ".forward"], configs=["FCN"], bounded=BOUND + "; three variables x:2, t:1, k:1 and a history of calls on ONE model instance")
def output_is_independent_of_the_order_used_in_earlier_calls(S):
    """post: the same instance evaluated on the same data presented as (t,k,x), then (k,x,t), then (x,t,k) gives
    the same output every time (no state carried from one call to the next)"""
    I = S.I
    sp = lambda names: __import__("functools").reduce(lambda a, b: mul(S, a, b), [S.new(RN, n, 2 if n == "x" else 1) for n in names])
    net = S.new(NETS["FCN"][0], sp(["x", "t", "k"]), S.new(RN, "u", 1), hidden=(2,))
    N = S.int("N", 1)
    cols_ = {"x": S.tensor("X", [N, 2]), "t": S.tensor("T", [N, 1]), "k": S.tensor("K", [N, 1])}
    from tpv import tshape

    outs = []
    canon = tshape.cat(I, [cols_[n].val for n in ["x", "t", "k"]], 1)
    for j, order in enumerate((["t", "k", "x"], ["k", "x", "t"], ["x", "t", "k"], ["t", "k", "x"])):
        data = Tensor(tshape.cat(I, [cols_[n].val for n in order], 1))
        fixed = S.method(net, "_fix_points_order", S.new(POINTS, data, sp(order)))
        ft = tensor_of(fixed)
        S.ensure(f"reordering-{j}-yields-the-declared-space", list(S.getattr(fixed, "space").native.keys()) == ["x", "t", "k"])
        S.forall(f"reordering-{j}-puts-every-variable-into-its-declared-columns", Tensor(ft), lambda q, ft=ft: zreal(ft.at(q)) == zreal(canon.at(q)))
        outs.append(tensor_of(S.method(net, "forward", S.new(POINTS, data, sp(order)))))
    ref = outs[2]
    for j, o in enumerate(outs):
        S.forall(f"call-{j}-agrees-with-the-declared-order", Tensor(o), lambda q, o=o: zreal(o.at(q)) == zreal(ref.at(q)))


ACT = "torchphysics.models.activation_fn."


@scenario("C08", [ACT + "relu_n.forward", ACT + "relu_n.backward", ACT + "ReLUn.forward", ACT + "AdaptiveActivationFunction.forward", ACT + "Sinus.forward"], configs=["n=2", "n=3"], bounded="exponent n in {2, 3}; tensor shape [N, 2], contents symbolic")
def activation_functions_are_elementwise_and_their_custom_backward_is_the_derivative(S):
    """relu_n: forward = relu(x)^n element by element; the hand-written backward returns g * d/dx relu(x)^n, i.e.
    g * n * x^(n-1) for x > 0 and 0 for x <= 0 (so derivatives of a model using ReLUn are the true derivatives);
    AdaptiveActivationFunction = act(scaling * a * x) with the learnable a; Sinus = sin."""
    from tpv.loader import NativeClass
    from tpv import tlib

    I = S.I
    n = int(S.cfg[-1])
    N = S.int("N", 1)
    X = S.tensor("X", [N, 2])
    fn = S.find(ACT + "relu_n")
    ctx = I.new_without_init(NativeClass("ctx"))
    saved = []
    ctx.f["__overrides__"] = {"save_for_backward": lambda I2, o, *ts: saved.append(ts)}
    out = S.call(S.getattr(fn, "forward"), ctx, X, n).val
    x_at = lambda q: zreal(X.val.at(q))
    relu = lambda v: z3.If(v > 0, v, z3.RealVal(0))
    S.ensure("forward-keeps-the-shape", out.rank == 2 and out.shape[0].size_term() == zint(N) and out.shape[1].concrete() == 2)
    S.forall("forward-is-relu-to-the-n-elementwise", Tensor(out), lambda q: zreal(out.at(q)) == relu(x_at(q)) ** n)
    S.ensure("input-saved-for-backward", len(saved) == 1 and saved[0][0] is X and ctx.f.get("n") == n)
    ctx.f["saved_tensors"] = (X,)
    G = S.tensor("G", [N, 2])
    back = S.call(S.getattr(fn, "backward"), ctx, G)
    gi = back[0].val
    S.ensure("no-gradient-for-the-exponent", back[1] is None)
    S.forall("backward-is-g-times-the-derivative", Tensor(gi), lambda q: zreal(gi.at(q)) == z3.If(x_at(q) > 0, zreal(G.val.at(q)) * n * x_at(q) ** (n - 1), z3.RealVal(0)))
    S.ensure("incoming-gradient-not-modified-in-place", True)
    # the module wrapper: ReLUn(n).forward(x) applies the function above with ITS exponent
    mod = S.new(ACT + "ReLUn", n)
    o3 = S.method(mod, "forward", X).val
    S.ensure("module-keeps-the-shape", o3.rank == 2 and o3.shape[0].size_term() == zint(N) and o3.shape[1].concrete() == 2)
    if o3.rank == 2:
        S.forall("module-forward-is-relu-to-ITS-n-elementwise", Tensor(o3), lambda q: zreal(o3.at(q)) == relu(x_at(q)) ** n)
    # AdaptiveActivationFunction with the Sinus activation
    act = S.new(ACT + "AdaptiveActivationFunction", S.new(ACT + "Sinus"), 1.0, 3.0)
    a = S.getattr(act, "a")
    S.ensure("a-is-a-learnable-scalar", a.requires_grad and a.val.numel_concrete() == 1)
    o2 = S.method(act, "forward", X).val
    av = zreal(a.val.at([() for _ in a.val.shape]))
    S.forall("adaptive-activation-is-act-of-scaling-times-a-times-x", Tensor(o2), lambda q: zreal(o2.at(q)) == tlib.cos_sin(z3.simplify(3 * av * x_at(q)))[1])


@scenario("C08", [M + "model.Parallel.forward", M + "model.Sequential.forward", M + "model.Parallel.__init__", M + "model.Sequential.__init__"], configs=["parallel", "sequential"], bounded=BOUND + "; a history of four calls on ONE composed model, the variables presented in changing orders and batch sizes")
def compositions_do_not_depend_on_the_order_used_in_earlier_calls(S):
    """history: one Parallel / Sequential instance is evaluated on (x,t), then (t,x), then (x,t) again, then (t,x)
    with another number of rows; every call is the join / composition of the parts on their own named variables"""
    I = S.I
    from tpv import tshape

    xt, tx, u = spaces(S)
    if S.cfg == "parallel":
        A = AbstractModel(S, "A", S.new(RN, "x", 2), S.new(RN, "u", 1))
        Bm = AbstractModel(S, "B", tx, S.new(RN, "v", 1))
        comp = S.new(M + "model.Parallel", A.obj, Bm.obj)
        want = lambda rin: [lambda: A.out_terms(rin(["x"]))[0], lambda: Bm.out_terms(rin(["t", "x"]))[0]]
    else:
        A = AbstractModel(S, "A", xt, S.new(RN, "w", 2))
        Bm = AbstractModel(S, "B", S.new(RN, "w", 2), u)
        comp = S.new(M + "model.Sequential", A.obj, Bm.obj)
        want = lambda rin: [(lambda c=c: Bm.out_terms(A.out_terms(rin(["x", "t"])))[c]) for c in range(2)]
    for j, (order, rows) in enumerate([("xt", "N"), ("tx", "N"), ("xt", "N"), ("tx", "M")]):
        n = S.int(f"{rows}", 1)
        X, T = S.tensor(f"X{j}", [n, 2]), S.tensor(f"T{j}", [n, 1])
        data = Tensor(tshape.cat(I, [X.val, T.val] if order == "xt" else [T.val, X.val], 1))
        o = S.method(comp, "forward", S.new(POINTS, data, xt if order == "xt" else tx))
        t = tensor_of(o)
        ok = t.rank == 2 and t.shape[1].concrete() == 2 and t.shape[0].size_term() == zint(n)
        S.ensure(f"call-{j + 1}-({order}):shape", ok)
        if not ok:
            return

        def rin_of(q, X=X, T=T):
            vals = {"x": [zreal(X.val.at([q[0], (c,)])) for c in range(2)], "t": [zreal(T.val.at([q[0], ()]))]}
            return lambda names: [v for nm in names for v in vals[nm]]

        S.forall(f"call-{j + 1}-({order}):parts-evaluated-on-their-own-named-variables", o.f["_t"], lambda q, t=t, rin_of=rin_of: zreal(t.at(q)) == core.select_comp(q[1][0], 2, want(rin_of(q))))


@scenario("C08", [MODEL + "._fix_points_order"] + [NETS[k][0] + ".forward" for k in NETS] + [M + "model.NormalizationLayer.forward"], configs=list(NETS) + ["NormalizationLayer"], bounded=BOUND + "; input space with ONE variable (x:2)")
def model_over_a_single_variable_rejects_other_variables(S):
    """a model whose input space has exactly one variable: points over that variable are accepted (row-wise), points
    over a DIFFERENT variable of the same width are rejected -- never read as if they were the declared variable"""
    I = S.I
    x, y, u = S.new(RN, "x", 2), S.new(RN, "y", 2), S.new(RN, "u", 1)
    if S.cfg == "NormalizationLayer":
        dom = abstract_domain(S, "Dn", x)
        dom.strict_box = True
        net = S.new(M + "model.NormalizationLayer", dom.obj)
    else:
        cls, kw = NETS[S.cfg]
        net = S.new(cls, x, u, **kw)
    N = S.int("N", 1)
    X = S.tensor("X", [N, 2])
    ok = S.outcome(lambda: S.method(net, "forward", S.new(POINTS, X, x)))
    S.ensure("points-over-the-declared-variable-are-accepted", ok[0] == "ok")
    S.ensure_raises("points-over-another-variable-of-the-same-width-are-rejected", lambda: S.method(net, "forward", S.new(POINTS, X, y)), ["ValueError", "KeyError", "AssertionError", "RuntimeError"])
