"""shared vocabulary for the geometry contracts (C01, C02, C05, C06, C10, C17, C18).

Configurations: '<shape>/<params>' with
  shape  = const : shape parameters are symbolic real constants (any position / size)
           fn    : shape parameters are arbitrary ROW-WISE functions of the parameter variable 't' (A8)
  params = none  : no parameter points (Points.empty())
           K     : a Points object with K >= 1 rows in the parameter space R1('t')  (K symbolic)
The oracle predicates below are written from the property statements (mathematical set denotations),
independently of the library's own membership code.
"""
import ast

import z3

from tpv import core
from tpv.core import zint, zreal, Sym, Dim
from tpv.spec import RowFn
from tpv.tlib import Tensor, lift

POINTS = "torchphysics.problem.spaces.points.Points"
R1 = "torchphysics.problem.spaces.space.R1"
R2 = "torchphysics.problem.spaces.space.R2"
R3 = "torchphysics.problem.spaces.space.R3"
DOM = "torchphysics.problem.domains."

CFGS = ["const/none", "const/K", "fn/K"]


class Geo:
    def __init__(self, S, cfg=None):
        self.S = S
        cfg = cfg or S.cfg
        self.shape_kind, self.param_kind = cfg.split("/")[:2]
        I = S.I
        if self.param_kind == "none":
            self.K = None
            self.params = S.call(S.getattr(S.find(POINTS), "empty"))
            self.ptensor = None
        else:
            self.K = S.int("K", 1)
            self.ptensor = S.tensor("tparam", [self.K, 1])
            self.params = S.new(POINTS, self.ptensor, S.new(R1, "t"))
        self.fns = {}

    # number of parameter rows as the library sees it: max(1, K)
    @property
    def Kp(self):
        return 1 if self.K is None else self.K

    def t_at(self, kcomps):
        """value of the parameter variable t at parameter row kcomps (digit tuple)"""
        return zreal(self.ptensor.val.at([tuple(kcomps), ()]))

    def shape(self, name, cols, positive=False, scalar=False):
        """a shape parameter: returns (constructor argument, evaluator(kcomps) -> list of z3 reals)"""
        S = self.S
        if self.shape_kind == "const":
            vals = [S.real(f"{name}{c}") for c in range(cols)]
            if positive:
                for v in vals:
                    S.assume(v.t > 0)
            arg = vals[0] if (scalar or cols == 1) else list(vals)
            ev = lambda kcomps: [v.t for v in vals]
        else:
            f = RowFn(name, ["t"], cols, {"t": 1})
            if positive:
                f.on_value = lambda I, ins, outs: [I.ctx.axiom(o > 0) for o in outs]
            arg = f

            def ev(kcomps):
                outs = f.value_terms([self.t_at(kcomps)])
                if positive:
                    for o in outs:
                        S.ctx.axiom(o > 0)
                return outs

        self.fns[name] = (arg, ev)
        return arg, ev

    def rows_factors(self, n):
        """expected factor structure of the row axis for n points per parameter row"""
        fs = []
        if self.K is not None:
            fs.append(self.K)
        fs.append(n)
        return Dim(fs)

    def split_row(self, comps):
        """digits of a row index -> (parameter-row digits, point number digits)"""
        if self.K is None:
            return (), tuple(comps)
        return tuple(comps[:1]), tuple(comps[1:])


def tensor_of(points):
    return points.f["_t"].val


def cols(t, row, n):
    """the n column terms of row `row` (digit tuple) of a 2-D tensor"""
    return [zreal(t.at([tuple(row), (c,) if n != 1 else ()])) for c in range(n)]


def ensure_rows(S, label, t, expected_dim):
    """C02: the row axis is exactly [K', n]: same factor structure (row-major pairing) and same size"""
    d = t.shape[0]
    ok_struct = d.same(expected_dim)
    S.ensure(label + "-count", d.size_term() == expected_dim.size_term())
    S.ensure(label + "-grouped-by-parameter-row", ok_struct or bool(expected_dim.concrete() is not None and d.concrete() == expected_dim.concrete()))
    return ok_struct


def space_keys(S, space):
    return list(space.native.keys())


def sq(x):
    return x * x


def absz(x):
    return z3.If(x >= 0, x, -x)
