"""C11 (partial) — the per-call, all-inputs part of 'samplers follow their named laws'.

Distribution laws proper (uniformity w.r.t. the measure, the Gaussian law, evenness of grids) are statements about
the push-forward of a probability measure and are NOT decided here.  What a contract over one call can state:
  * Latin hypercube: for EVERY outcome of the random generator, on every axis the map row -> slab index is the
    permutation drawn by randperm (a bijection by the randperm contract) and the row's coordinate lies in the
    half-open slab  [lo + j*w, lo + (j+1)*w),  w = (hi-lo)/n   -- exactly one point in each of the n equal slabs.
  * inverse-CDF necessary condition for the closed-form interval sampler: the sample is an affine image of the
    uniform variate with constant slope (hi - lo), i.e. the push-forward of U[0,1) is U[lo,hi).
"""
import z3

from tpv import core
from tpv.core import zint, zreal, Sym, Dim
from tpv.spec import scenario
from tpv.tlib import Tensor
from tpv.absdom import abstract_domain
from .geom import POINTS, R1, R2, tensor_of

LHS = "torchphysics.problem.samplers.random_samplers.LHSSampler"
RN = "torchphysics.problem.spaces.space.Rn"


@scenario("C11", [LHS + "._create_lhs_in_bounding_box", LHS + ".__init__"], configs=["2d"])
def latin_hypercube_one_point_per_slab(S):
    n = S.int("n", 1)
    dom = abstract_domain(S, "D", S.new(RN, "x", 2))
    smp = S.new(LHS, dom.obj, n)
    lo = [S.real(f"lo{i}") for i in range(2)]
    hi = [S.real(f"hi{i}") for i in range(2)]
    for i in range(2):
        S.assume(lo[i].t < hi[i].t)
    from tpv.tlib import tensor_from_nested

    box = Tensor(tensor_from_nested([lo[0], hi[0], lo[1], hi[1]]))
    pts = S.method(smp, "_create_lhs_in_bounding_box", box, "cpu").val
    S.ensure("n-rows-dim-columns", pts.rank == 2 and pts.shape[0].size_term() == zint(n) and pts.shape[1].concrete() == 2)
    perms = S.ctx.ghost.get("perms", [])
    S.ensure("one-permutation-per-axis", len(perms) == 2)
    if len(perms) != 2 or pts.rank != 2:
        return
    for i in range(2):
        f, inv, nn = perms[i]
        w = (hi[i].t - lo[i].t) / z3.ToReal(zint(n))

        def goal(q, i=i, f=f, w=w):
            r = zint(q[0][0])
            j = f(r)
            x = zreal(pts.at([q[0], (i,)]))
            return z3.And(j >= 0, j < zint(n), lo[i].t + z3.ToReal(j) * w <= x, x < lo[i].t + (z3.ToReal(j) + 1) * w)

        S.forall(f"axis-{i}-row-r-lies-in-the-slab-given-by-the-permutation", Tensor(pts), goal)
        s_ = z3.Int("slab")
        S.ensure(f"axis-{i}-every-slab-is-hit-by-exactly-the-row-inv(slab)", z3.And(inv(s_) >= 0, inv(s_) < nn, f(inv(s_)) == s_), [s_ >= 0, s_ < nn, z3.And(inv(s_) >= 0, inv(s_) < nn, f(inv(s_)) == s_)], kind="lemma")
        S.forall(f"axis-{i}-points-stay-inside-the-box", Tensor(pts), lambda q, i=i: z3.And(lo[i].t <= zreal(pts.at([q[0], (i,)])), zreal(pts.at([q[0], (i,)])) < hi[i].t))


@scenario("C18", [LHS + "._create_lhs_in_bounding_box"], configs=["2d"])
def lhs_proposals_cover_the_box(S):
    """C18 consumer clause 'Latin-hypercube proposals cover the whole domain': on every axis, every coordinate y of the
    bounding box [lo, hi) -- hence of every domain point, by the enclosure part of C18 -- shares its slab of width
    (hi-lo)/n with the proposal of row inv(slab(y)); no slab of the box is left without a proposal."""
    n = S.int("n", 1)
    dom = abstract_domain(S, "D", S.new(RN, "x", 2))
    smp = S.new(LHS, dom.obj, n)
    lo = [S.real(f"lo{i}") for i in range(2)]
    hi = [S.real(f"hi{i}") for i in range(2)]
    for i in range(2):
        S.assume(lo[i].t < hi[i].t)
    from tpv.tlib import tensor_from_nested

    box = Tensor(tensor_from_nested([lo[0], hi[0], lo[1], hi[1]]))
    pts = S.method(smp, "_create_lhs_in_bounding_box", box, "cpu").val
    perms = S.ctx.ghost.get("perms", [])
    ok = len(perms) == 2 and pts.rank == 2 and pts.shape[1].concrete() == 2
    S.ensure("n-rows-two-columns-one-permutation-per-axis", ok)
    if not ok:
        return
    S.ensure("n-rows", pts.shape[0].size_term() == zint(n))
    nr = z3.ToReal(zint(n))
    for i in range(2):
        f, inv, nn = perms[i]
        w = (hi[i].t - lo[i].t) / nr
        y = z3.Real(f"y{i}")
        j = z3.Int(f"slab{i}")
        r = inv(j)
        x = zreal(pts.at([(r,), (i,)]))
        hyps = [lo[i].t <= y, y < hi[i].t, lo[i].t + z3.ToReal(j) * w <= y, y < lo[i].t + (z3.ToReal(j) + 1) * w,
                # contract of randperm (A3): inv is the inverse permutation
                z3.Implies(z3.And(j >= 0, j < nn), z3.And(r >= 0, r < nn, f(r) == j))]
        S.ensure(f"axis-{i}-slab-index-of-a-box-coordinate-is-in-range", z3.And(j >= 0, j < zint(n)), hyps, kind="lemma")
        S.ensure(f"axis-{i}-every-box-coordinate-shares-its-slab-with-a-proposal", z3.And(r >= 0, r < zint(n), lo[i].t + z3.ToReal(j) * w <= x, x < lo[i].t + (z3.ToReal(j) + 1) * w, x - y < w, y - x < w), hyps + [j >= 0, j < zint(n)])


@scenario("C11", ["torchphysics.problem.domains.domain1D.interval.Interval.sample_random_uniform"], configs=["const"])
def interval_sampler_is_an_affine_image_of_the_uniform_variate(S):
    lo, hi = S.real("lo"), S.real("hi")
    S.assume(lo.t < hi.t)
    dom = S.new("torchphysics.problem.domains.domain1D.interval.Interval", S.new(R1, "x"), lo, hi)
    n = S.int("n", 1)
    pts = tensor_of(S.method(dom, "sample_random_uniform", n))
    rands = S.ctx.ghost.get("rand", [])
    S.ensure("exactly-one-uniform-draw", len(rands) == 1)
    if len(rands) == 1:
        u = rands[0].val
        S.forall("sample-is-lo-plus-length-times-u", Tensor(pts), lambda q: zreal(pts.at(q)) == lo.t + (hi.t - lo.t) * zreal(u.at([(), q[0], ()])))


def _jacobian_rows(S, pts, rands, dim):
    """d(point coordinates)/d(uniform variates) at a generic row, by structural differentiation of the executed term"""
    from tpv import jets

    q, hy = pts.generic_index("j")
    leaves = set()
    atoms = []
    for u in rands:
        uv = u.val
        # the variate(s) feeding row q: same leading digits, every trailing component
        lead = [() if d.is_one else None for d in uv.shape]
        idx = []
        rowd = list(q[0])
        for d in uv.shape[:-1]:
            if d.is_one:
                idx.append(())
            else:
                idx.append(tuple(rowd[: len(d.factors)])); rowd = rowd[len(d.factors):]
        last = uv.shape[-1].concrete()
        for c in range(last):
            a = uv.at(idx + [(c,) if last != 1 else ()])
            atoms.append(a)
            leaves.add(a.decl().name())
    J = [[jets.diff(zreal(pts.at([q[0], (i,)])), a, leaves) for a in atoms] for i in range(dim)]
    return q, hy, atoms, J


@scenario("C11", ["torchphysics.problem.domains.domain2D.circle.Circle.sample_random_uniform", "torchphysics.problem.domains.domain2D.parallelogram.Parallelogram.sample_random_uniform"], configs=["circle", "parallelogram"])
def closed_form_samplers_have_constant_jacobian(S):
    """inverse-CDF necessary condition: the map (uniform variates) -> point has |det Jacobian| = measure of the domain,
    independent of the variates (so the push-forward of the uniform law has constant density 1/measure)"""
    from tpv import tlib

    n = S.int("n", 1)
    if S.cfg == "circle":
        c = [S.real("c0"), S.real("c1")]
        r = S.real("r")
        S.assume(r.t > 0)
        dom = S.new("torchphysics.problem.domains.domain2D.circle.Circle", S.new(R2, "x"), list(c), r)
        meas = tlib.PI * r.t * r.t
    else:
        o, c1, c2 = [S.real("o0"), S.real("o1")], [S.real("a0"), S.real("a1")], [S.real("b0"), S.real("b1")]
        dom = S.new("torchphysics.problem.domains.domain2D.parallelogram.Parallelogram", S.new(R2, "x"), list(o), list(c1), list(c2))
        det = (c1[0].t - o[0].t) * (c2[1].t - o[1].t) - (c1[1].t - o[1].t) * (c2[0].t - o[0].t)
        S.assume(det != 0)
        meas = z3.If(det >= 0, det, -det)
    pts = tensor_of(S.method(dom, "sample_random_uniform", n))
    rands = S.ctx.ghost.get("rand", [])
    q, hy, atoms, J = _jacobian_rows(S, pts, rands, 2)
    S.ensure("two-uniform-variates-per-point", len(atoms) == 2)
    if len(atoms) != 2:
        return
    d = J[0][0] * J[1][1] - J[0][1] * J[1][0]
    absd = z3.If(d >= 0, d, -d)
    S.ensure("jacobian-determinant-is-the-measure", absd == meas, hy + [atoms[0] > 0, atoms[0] < 1, atoms[1] >= 0, atoms[1] < 1])


# ----------------------------------------------------------------------------- union: volume-proportional mixture
UNION = "torchphysics.problem.domains.domainoperations.union.UnionDomain"


@scenario("C11", [UNION + "._sample_random_with_n", UNION + "._get_volume"], configs=["abstract-operands"])
def union_mixture_uses_the_volume_ratio_of_the_row_own_parameters(S):
    """per-call clause of 'unions are a volume-proportional mixture', for EVERY outcome of the generator:
    row (k, j) of the result is the j-th A-sample of parameter row k if the j-th B-sample of that row lies in A or if
    the uniform draw of that row is <= vol_A(p_k) / (vol_A(p_k) + vol_B(p_k)), and the j-th B-sample otherwise --
    each parameter row is mixed with ITS OWN volume ratio (operands abstract: any nesting)."""
    sp = S.new(R2, "x")
    A = abstract_domain(S, "A", sp, {"t": 1})
    B = abstract_domain(S, "B", sp, {"t": 1})
    dom = S.new(UNION, A.obj, B.obj)
    K = S.int("K", 1)
    n = S.int("n", 1)
    Tt = S.tensor("tt", [K, 1])
    params = S.new(POINTS, Tt, S.new(R1, "t"))
    pts = tensor_of(S.method(dom, "sample_random_uniform", n, None, params))
    sa = [c for c in A.calls if c.get("kind") == "random"]
    sb = [c for c in B.calls if c.get("kind") == "random"]
    rands = S.ctx.ghost.get("rand", [])
    ok = len(sa) == 1 and len(sb) == 1 and len(rands) == 1 and pts.rank == 2 and len(pts.shape[0].factors) == 2
    S.ensure("one-sample-of-each-operand-one-uniform-draw-rows-K-by-n", ok)
    if not ok:
        return
    ta, tb, u = sa[0]["tensor"].val, sb[0]["tensor"].val, rands[0].val
    S.ensure("one-uniform-draw-per-result-row", u.shape[0].size_term() == zint(K) * zint(n))

    def goal(q):
        k, j = zint(q[0][0]), zint(q[0][1])
        tk = [zreal(Tt.val.at([(k,), ()]))]
        va, vb = A.vol_term(tk), B.vol_term(tk)
        flat = k * zint(n) + j
        uq = zreal(u.at([(flat,) if len(u.shape[0].factors) == 1 else q[0], ()]))
        brow = [zreal(tb.at([q[0], (c,)])) for c in range(2)]
        take_a = z3.Or(A.in_pred(brow, tk), uq <= va / (va + vb))
        c = q[1]
        return zreal(pts.at([q[0], c])) == z3.If(take_a, zreal(ta.at([q[0], c])), zreal(tb.at([q[0], c])))

    S.forall("row-is-the-A-sample-iff-B-sample-in-A-or-draw-below-its-own-volume-ratio", Tensor(pts), goal)


# ----------------------------------------------------------------------------- dependent product: thinning of the second factor
PROD = "torchphysics.problem.domains.domainoperations.product.ProductDomain"


@scenario("C11", [PROD + "._sample_uniform_b_points"], configs=["two-calls-on-one-domain"])
def dependent_product_thins_the_second_factor_with_an_envelope_of_the_batch(S):
    """per-call clause of 'a product A(y) x B is sampled uniformly': the proposals y_j ~ U(B) are kept with probability
    proportional to vol A(y_j), for EVERY outcome of the generator and on every call of one domain object (the
    rejection loop calls it repeatedly, and so do later sample requests):
      (common threshold)  a kept proposal j and a proposal k with  u_k / V_k <= u_j / V_j  => k is kept too,
      (envelope)          a kept proposal j satisfies  V_k * u_j < V_j  for EVERY proposal k of the batch, i.e. the
                          envelope the draws are scaled with is at least the largest volume of THIS batch -- otherwise
                          the acceptance probability of the large-volume proposals is clipped at 1 and the law flattens.
    history: the two clauses are demanded for a first call and for a second call with other parameters / batch size."""
    A = abstract_domain(S, "A", S.new(R2, "x"), {"y": 1, "t": 1})
    B = abstract_domain(S, "B", S.new(R1, "y"), {"t": 1})
    dom = S.new(PROD, A.obj, B.obj)
    rands = S.ctx.ghost.setdefault("rand", [])
    for call in ("first", "second"):
        n = S.int(f"n_{call}", 2)
        Tt = S.tensor(f"tt_{call}", [1, 1])
        params = S.new(POINTS, Tt, S.new(R1, "t"))
        nb, nr = len(B.calls), len(rands)
        out = S.method(dom, "_sample_uniform_b_points", n, params)
        ok = isinstance(out, tuple) and len(out) == 3 and len(B.calls) == nb + 1 and len(rands) == nr + 1
        S.ensure(f"{call}:one-batch-of-proposals-one-uniform-draw", ok)
        if not ok:
            return
        bp = out[1].f["_t"]
        g = bp.meta.get("gather")
        ok = g is not None and getattr(g[1][0], "mask_src", None) is not None
        S.ensure(f"{call}:kept-proposals-are-a-selection-of-the-batch", ok)
        if not ok:
            return
        mask = g[1][0].mask_src.val
        prop = B.calls[-1]["tensor"].val
        u = rands[-1].val
        ok = mask.rank == 1 and u.rank == 1 and mask.shape[0].size_term() == zint(n) and prop.shape[0].size_term() == zint(n)
        S.ensure(f"{call}:one-decision-and-one-draw-per-proposal", ok)
        if not ok:
            return
        tk = zreal(Tt.val.at([(), ()]))
        j, k = z3.Int(f"j_{call}"), z3.Int(f"k_{call}")
        hy = [j >= 0, j < zint(n), k >= 0, k < zint(n)]

        def row(i):
            comps = core.STensor(prop.shape, None).shape[0].factors
            ix = [(i,) if len(comps) == 1 else tuple(__import__("tpv.tshape", fromlist=["x"]).flat_comps(prop.shape[0], i))]
            return zreal(prop.at(ix + [()]))

        V = lambda i: A.vol_term([row(i), tk])
        U = lambda i: zreal(u.at([(i,)]))
        M = lambda i: mask.at([(i,)])
        for i in (j, k):
            S.assume(V(i) > 0)  # operand contract: positive measure
            M(i)  # instantiates the axioms of the selection at both proposals
        inst = S.minmax_cross_instances() + S.schema_instances([(j,), (k,)])
        S.ensure(f"{call}:envelope-is-at-least-every-volume-of-this-batch", z3.Implies(M(j), V(k) * U(j) < V(j)), hy + inst)
        S.ensure(f"{call}:common-threshold-on-draw-over-volume", z3.Implies(z3.And(M(j), U(k) * V(j) <= U(j) * V(k)), M(k)), hy + inst)
