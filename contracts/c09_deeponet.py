"""C09 — DeepONet output is the branch-trunk inner product; the shared-trunk-input fast path is equivalent.

  DeepONet.forward      out[b, n, c] = sum_k T[(b,) n, c, k] * Br[b, c, k]      (neuron count per component q SYMBOLIC)
  reshape helpers       feature column c*q + k  <->  (c, k)  -- the SAME layout in trunk and branch
  BranchNet.fix_input   callable / tensor / Points / function set all hand the branch the tensor D[b, i, :] = f_b(p_i)
  layers.linear         forward[i, n, o] = sum_k input[0, n, k] W[o, k] + b[o]   (= plain layer when all copies equal)
                        backward: grad_input = g W, grad_weight[i] = g[i]^T x, grad_bias = sum g
                        (adjoint of the plain layer after autograd's sum_to_size, A4)
Identity of second derivatives through the custom Function is inherited from A4 (backward is built from
differentiable torch ops computing those formulas) -- assumed, not proved.
"""
import ast

import z3

from tpv import core, tsum
from tpv.core import zint, zreal, Sym, Dim, STensor
from tpv.spec import scenario, RowFn
from tpv.tlib import Tensor
from tpv.absdom import AbstractSampler
from .geom import POINTS, tensor_of

M = "torchphysics.models.deeponet."
DON = M + "deeponet.DeepONet"
TRUNK = M + "trunknets.TrunkNet"
BRANCH = M + "branchnets.BranchNet"
RN = "torchphysics.problem.spaces.space.Rn"
FS = "torchphysics.problem.spaces.functionspace.FunctionSpace"
BOUND = "output dimension d = 2 (schematic); batch sizes, number of locations and neurons per component symbolic"


def abstract_trunk_branch(S, B, n, d, q, trunk_per_function):
    I = S.I
    xs = S.new(RN, "x", 1)
    trunk = I.new_without_init(S.find(TRUNK))
    for c in trunk.cls.mro():
        if getattr(c, "name", "") == "nn.Module":
            c.native_methods["__init__"](I, trunk)
    trunk.f.update({"input_space": xs, "output_space": None, "output_neurons": 0, "trunk_input_copied": True})
    tshape_ = ([B] if trunk_per_function else []) + [n, d, q]
    Tt = S.tensor("Tfeat", tshape_)
    trunk.f["__overrides__"] = {"forward": lambda I2, o, pts: Tt, "__call__": lambda I2, o, pts: Tt}
    branch = I.new_without_init(S.find(BRANCH))
    for c in branch.cls.mro():
        if getattr(c, "name", "") == "nn.Module":
            c.native_methods["__init__"](I, branch)
    Bt = S.tensor("Bfeat", [B, d, q])
    branch.f.update({"input_space": None, "output_space": None, "output_neurons": 0, "current_out": Bt})
    return trunk, branch, Tt, Bt


@scenario("C09", [DON + ".__init__", DON + ".forward", DON + "._check_trunk_and_branch_correct", DON + "._finalize_trunk_and_branch", TRUNK + ".finalize", BRANCH + ".finalize"], configs=["shared-trunk-input", "trunk-input-per-function"], bounded=BOUND)
def deeponet_inner_product(S):
    per_fn = S.cfg == "trunk-input-per-function"
    B, n, q = S.int("B", 1), S.int("n", 1), S.int("q", 1)
    d = 2
    trunk, branch, Tt, Bt = abstract_trunk_branch(S, B, n, d, q, per_fn)
    us = S.new(RN, "u", d)
    net = S.new(DON, trunk, branch, us, Sym(zint(q) * d, "int"))
    pts = S.new(POINTS, S.tensor("X", ([B] if per_fn else []) + [n, 1]), S.new(RN, "x", 1))
    out = S.method(net, "forward", pts)
    t = tensor_of(out)
    S.ensure("output-shape-functions-locations-components", t.rank == 3 and t.shape[0].size_term() == zint(B) and t.shape[1].size_term() == zint(n) and t.shape[2].concrete() == d)
    S.ensure("output-space", list(S.getattr(out, "space").native.keys()) == ["u"])
    if t.rank != 3:
        return

    def want(q_):
        b, nn, c = q_[0], q_[1], q_[2]
        tidx = ([b] if per_fn else []) + [nn, c]
        return tsum.sum_term([Dim([zint(q)])], lambda r: zreal(Tt.val.at(tidx + [r[0]])) * zreal(Bt.val.at([b, c, r[0]])), "sum")

    S.forall("output-is-the-inner-product-of-function-b-and-location-n-per-component", out.f["_t"], lambda q_: zreal(t.at(q_)) == want(q_))


@scenario("C09", [TRUNK + "._reshape_multidimensional_output", BRANCH + "._reshape_multidimensional_output"], configs=["M=6,d=2", "M=6,d=3", "M=4,d=1"], bounded="concrete neuron counts (M, d) enumerated; batch sizes symbolic")
def feature_layout_is_the_same_in_trunk_and_branch(S):
    Mn, d = (int(x.split("=")[1]) for x in S.cfg.split(","))
    qn = Mn // d
    I = S.I
    B, n = S.int("B", 1), S.int("n", 1)
    us = S.new(RN, "u", d)
    tr = I.new_without_init(S.find(TRUNK))
    tr.f.update({"output_space": us, "output_neurons": Mn})
    br = I.new_without_init(S.find(BRANCH))
    br.f.update({"output_space": us, "output_neurons": Mn})
    F2 = S.tensor("F2", [n, Mn])
    o2 = S.method(tr, "_reshape_multidimensional_output", F2).val
    S.ensure("trunk-2d-shape", o2.rank == 3 and o2.shape[1].concrete() == d and o2.shape[2].concrete() == qn)
    feat = lambda c, k: (c * qn + k,) if Mn != 1 else ()
    S.forall("trunk-feature-c*q+k", Tensor(o2), lambda q: z3.And([z3.Implies(z3.And(zint(q[1][0] if d != 1 else 0) == c, zint(q[2][0] if qn != 1 else 0) == k), zreal(o2.at(q)) == zreal(F2.val.at([q[0], feat(c, k)]))) for c in range(d) for k in range(qn)]))
    F3 = S.tensor("F3", [B, n, Mn])
    o3 = S.method(tr, "_reshape_multidimensional_output", F3).val
    S.ensure("trunk-3d-shape", o3.rank == 4 and o3.shape[0].size_term() == zint(B) and o3.shape[1].size_term() == zint(n))
    S.forall("trunk-3d-feature-c*q+k", Tensor(o3), lambda q: z3.And([z3.Implies(z3.And(zint(q[2][0] if d != 1 else 0) == c, zint(q[3][0] if qn != 1 else 0) == k), zreal(o3.at(q)) == zreal(F3.val.at([q[0], q[1], feat(c, k)]))) for c in range(d) for k in range(qn)]))
    G = S.tensor("G", [B, Mn])
    ob = S.method(br, "_reshape_multidimensional_output", G).val
    S.ensure("branch-shape", ob.rank == 3 and ob.shape[0].size_term() == zint(B))
    S.forall("branch-feature-c*q+k", Tensor(ob), lambda q: z3.And([z3.Implies(z3.And(zint(q[1][0] if d != 1 else 0) == c, zint(q[2][0] if qn != 1 else 0) == k), zreal(ob.at(q)) == zreal(G.val.at([q[0], feat(c, k)]))) for c in range(d) for k in range(qn)]))


@scenario("C09", [BRANCH + ".fix_input", BRANCH + "._discretize_function_set", "torchphysics.problem.domains.functionsets.functionset.FunctionSet.create_function_batch", "torchphysics.problem.domains.functionsets.functionset.FunctionSet._create_meshgrid", "torchphysics.problem.domains.functionsets.functionset.CustomFunctionSet._evaluate_function"], configs=["callable", "tensor", "points", "function-set"], bounded=BOUND)
def branch_input_variants(S):
    """post: whatever way the input function is supplied, the branch network is evaluated on D[b, i, :] = f_b(p_i)"""
    I = S.I
    nd = S.int("ndisc", 1)
    xs = S.new(RN, "x", 1)
    from tpv.absdom import abstract_domain
    fsp = S.new(FS, abstract_domain(S, "Din", xs).obj, S.new(RN, "f", 1))
    disc = AbstractSampler(S, "disc", xs, nd)
    br = S.new(BRANCH, fsp, disc.obj)
    seen = []
    br.f["__overrides__"] = {"forward": lambda I2, o, batch: seen.append(batch), "__call__": lambda I2, o, batch: seen.append(batch)}
    if S.cfg == "function-set":
        K = S.int("K", 1)
        psmp = AbstractSampler(S, "par", S.new(RN, "k", 1), K)
        fn = RowFn("fparam", ["k", "x"], 1, {"k": 1, "x": 1})
        fset = S.new("torchphysics.problem.domains.functionsets.functionset.CustomFunctionSet", fsp, psmp.obj, fn)
        S.method(br, "fix_input", fset)
    else:
        fn = RowFn("fin", ["x"], 1, {"x": 1})
        if S.cfg == "callable":
            S.method(br, "fix_input", fn)
        else:
            V = S.tensor("V", [nd, 1])
            S.method(br, "fix_input", V if S.cfg == "tensor" else S.new(POINTS, V, S.new(RN, "f", 1)))
    S.ensure("branch-evaluated-exactly-once", len(seen) == 1)
    if len(seen) != 1:
        return
    D = tensor_of(seen[0])
    S.ensure("input-has-function-axis-points-axis-values", D.rank == 3 and D.shape[2].concrete() == 1 and D.shape[1].size_term() == zint(nd))
    S.ensure("input-lies-in-the-function-output-space", list(seen[0].f["space"].native.keys()) == ["f"])
    if D.rank != 3:
        return
    if S.cfg == "function-set":
        P = disc.calls[-1]["tensor"].val
        Kp = psmp.calls[-1]["tensor"].val
        S.ensure("one-row-per-function", D.shape[0].size_term() == zint(K))
        S.forall("entry-b-i-is-function-b-at-point-i", Tensor(D), lambda q: zreal(D.at(q)) == fn.value_terms([zreal(Kp.at([q[0], ()])), zreal(P.at([q[1], ()]))])[0])
        # history: fixing the input to the same function set AGAIN draws new functions; the branch must see those
        n_par = len(psmp.calls)
        S.method(br, "fix_input", fset)
        S.ensure("second-fix-draws-new-functions-and-evaluates-the-branch-again", len(seen) == 2 and len(psmp.calls) == n_par + 1)
        if len(seen) == 2 and len(psmp.calls) == n_par + 1:
            D2 = tensor_of(seen[1])
            P2, Kp2 = disc.calls[-1]["tensor"].val, psmp.calls[-1]["tensor"].val
            if D2.rank == 3:
                S.forall("second-evaluation-is-on-the-NEWLY-drawn-functions", Tensor(D2), lambda q: zreal(D2.at(q)) == fn.value_terms([zreal(Kp2.at([q[0], ()])), zreal(P2.at([q[1], ()]))])[0])
            else:
                S.ensure("second-input-has-function-axis-points-axis-values", False)
    elif S.cfg == "callable":
        P = disc.calls[-1]["tensor"].val
        S.ensure("one-function", D.shape[0].is_one)
        S.forall("entry-i-is-the-function-at-point-i", Tensor(D), lambda q: zreal(D.at(q)) == fn.value_terms([zreal(P.at([q[1], ()]))])[0])
    else:
        S.ensure("one-function", D.shape[0].is_one)
        S.forall("entries-are-the-given-values", Tensor(D), lambda q: zreal(D.at(q)) == zreal(V.val.at([q[1], q[2]])))


@scenario("C09", [M + "layers.linear.forward", M + "layers.linear.backward", M + "layers.TrunkLinear.forward", M + "layers.TrunkLinear.__init__"], configs=["k=2,o=3"], bounded="feature counts k=2, o=3; number of copies and locations symbolic")
def shared_trunk_linear_layer(S):
    I = S.I
    Ic, n = S.int("copies", 1), S.int("n", 1)
    k, o = 2, 3
    layer = S.new(M + "layers.TrunkLinear", k, o)
    W, b = S.getattr(layer, "weight"), S.getattr(layer, "bias")
    S.ensure("weight-and-bias-are-learnable", W.requires_grad and b.requires_grad and W.val.shape[0].concrete() == o and W.val.shape[1].concrete() == k)
    X = S.tensor("X", [Ic, n, k])
    out = S.method(layer, "forward", X).val
    S.ensure("forward-shape", out.rank == 3 and out.shape[0].size_term() == zint(Ic) and out.shape[1].size_term() == zint(n) and out.shape[2].concrete() == o)
    plain = lambda i, nn, oo: sum((zreal(X.val.at([i, nn, (kk,)])) * zreal(W.val.at([(oo,), (kk,)])) for kk in range(k)), z3.RealVal(0)) + zreal(b.val.at([(oo,)]))
    first = lambda nn, oo: sum((zreal(X.val.at([(0,), nn, (kk,)])) * zreal(W.val.at([(oo,), (kk,)])) for kk in range(k)), z3.RealVal(0)) + zreal(b.val.at([(oo,)]))
    S.forall("forward-uses-the-first-copy", Tensor(out), lambda q: z3.And([z3.Implies(zint(q[2][0]) == oo, zreal(out.at(q)) == first(q[1], oo)) for oo in range(o)]))
    # precondition of the fast path: all copies of the trunk input are identical
    same = lambda q: z3.And([zreal(X.val.at([q[0], q[1], (kk,)])) == zreal(X.val.at([(0,), q[1], (kk,)])) for kk in range(k)])
    S.forall("equals-the-plain-layer-when-the-copies-are-identical", Tensor(out), lambda q: z3.Implies(same(q), z3.And([z3.Implies(zint(q[2][0]) == oo, zreal(out.at(q)) == plain(q[0], q[1], oo)) for oo in range(o)])))
    # backward formulas
    lin = S.find(M + "layers.linear")
    ctx = I.new_without_init(__import__("tpv.loader", fromlist=["x"]).NativeClass("ctx"))
    ctx.f["saved_tensors"] = (Tensor(__import__("tpv.tshape", fromlist=["x"]).index_axis_int(X.val, 0, 0)), W, b)
    ctx.f["needs_input_grad"] = (True, True, True)
    G = S.tensor("G", [Ic, n, o])
    gi, gw, gb = S.call(S.getattr(lin, "backward"), ctx, G)
    S.forall("grad-input-is-g-times-W", gi, lambda q: z3.And([z3.Implies(zint(q[2][0]) == kk, zreal(gi.val.at(q)) == sum((zreal(G.val.at([q[0], q[1], (oo,)])) * zreal(W.val.at([(oo,), (kk,)])) for oo in range(o)), z3.RealVal(0))) for kk in range(k)]))
    S.ensure("grad-weight-shape-per-copy", gw.val.rank == 3 and gw.val.shape[0].size_term() == zint(Ic) and gw.val.shape[1].concrete() == o and gw.val.shape[2].concrete() == k)
    S.forall("grad-weight-is-g-transposed-times-input", gw, lambda q: zreal(gw.val.at(q)) == tsum.sum_term([Dim([zint(n)])], lambda r: zreal(G.val.at([q[0], r[0], q[1]])) * zreal(X.val.at([(0,), r[0], q[2]])), "sum"))
    S.ensure("grad-bias-shape", gb.val.rank == 1 and gb.val.shape[0].concrete() == o)


@scenario("C09", [M + "trunknets.FCTrunkNet.__init__", M + "trunknets.FCTrunkNet.finalize", M + "trunknets.FCTrunkNet.forward", M + "trunknets.construct_FC_trunk_layers", M + "layers.TrunkLinear.forward", M + "layers.linear.forward"], configs=["hidden=(2,),neurons=4,d=2", "hidden=(2,2),activations=[Tanh,Sigmoid],neurons=4,d=2"], bounded="one hidden layer of width 2 (resp. two hidden layers with DIFFERENT activations given as a list), 4 output neurons, output dimension 2, trunk variable x:1; numbers of functions and locations, weights and inputs symbolic")
def fast_trunk_net_equals_the_plain_trunk_net_end_to_end(S):
    """FCTrunkNet(trunk_input_copied=True) (TrunkLinear layers evaluating the first copy only) and
    FCTrunkNet(trunk_input_copied=False) (plain nn.Linear layers) with THE SAME weights give the same feature tensor
    [functions, locations, components, neurons] whenever the trunk input is the same for every function -- the
    precondition under which the fast path is used -- and the features have the layout component*q + neuron."""
    I = S.I
    B, n = S.int("B", 1), S.int("n", 1)
    xs = S.new(RN, "x", 1)
    us = S.new(RN, "u", 2)
    deep = "activations" in S.cfg
    nn = I.repo.externals["torch"].get("nn")
    mk = lambda copied: S.new(M + "trunknets.FCTrunkNet", xs, hidden=(2, 2), activations=[S.I.instantiate(nn.get("Tanh"), [], {}), S.I.instantiate(nn.get("Sigmoid"), [], {})], trunk_input_copied=copied) if deep else S.new(M + "trunknets.FCTrunkNet", xs, hidden=(2,), trunk_input_copied=copied)
    fast, plain = mk(True), mk(False)
    S.method(fast, "finalize", us, 4)
    S.method(plain, "finalize", us, 4)
    fl = [l for l in S.I.iterate(S.getattr(fast, "sequential")) if hasattr(l, "f") and "weight" in l.f]
    pl = [l for l in S.I.iterate(S.getattr(plain, "sequential")) if hasattr(l, "f") and "weight" in l.f]
    want_layers = 3 if deep else 2
    S.ensure("same-number-of-affine-layers-as-hidden-layers-plus-one", len(fl) == want_layers and len(pl) == want_layers)
    if not (len(fl) == want_layers and len(pl) == want_layers):
        return
    for a, b in zip(fl, pl):
        S.ensure("same-layer-shapes", [d.concrete() for d in a.f["weight"].val.shape] == [d.concrete() for d in b.f["weight"].val.shape])
        # the same weights in both networks (the comparison is between the two evaluation strategies)
        b.f["weight"].val = a.f["weight"].val
        b.f["bias"].val = a.f["bias"].val
    X0 = S.tensor("X0", [n, 1])
    X = Tensor(STensor([core.dim_of(B), core.dim_of(n), Dim([])], lambda idx: zreal(X0.val.at([idx[1], ()])), "real"))
    pts = S.new(POINTS, X, xs)
    of = S.method(fast, "forward", pts).val
    op = S.method(plain, "forward", S.new(POINTS, Tensor(X.val), xs)).val
    ok = of.rank == 4 and op.rank == 4 and [d.concrete() for d in of.shape[2:]] == [2, 2] and [d.concrete() for d in op.shape[2:]] == [2, 2]
    S.ensure("feature-tensor-functions-locations-components-neurons", ok)
    if not ok:
        return
    S.ensure("one-feature-block-per-function-and-location", z3.And(op.shape[0].size_term() == zint(B), op.shape[1].size_term() == zint(n), of.shape[1].size_term() == zint(n)))
    # the fast path may keep a broadcastable leading axis of size 1 or B
    lead_one = of.shape[0].is_one
    S.forall("fast-path-equals-plain-path", Tensor(op), lambda q: zreal(op.at(q)) == zreal(of.at([() if lead_one else q[0], q[1], q[2], q[3]])))
    # the plain network (trunk_input_copied=False) is for trunk inputs that DIFFER between the functions: its feature
    # block (b, n) is a function of the location X[b, n] alone
    S.ensure("flag-is-kept-by-the-network", S.getattr(plain, "trunk_input_copied") is False and S.getattr(fast, "trunk_input_copied") is True)
    B2, n2 = S.int("B2", 1), S.int("n2", 1)
    XA, XB = S.tensor("XA", [B, n, 1]), S.tensor("XB", [B2, n2, 1])
    oa = S.method(plain, "forward", S.new(POINTS, XA, xs)).val
    ob = S.method(plain, "forward", S.new(POINTS, XB, xs)).val
    ia, ja, ib, jb = z3.Int("ia"), z3.Int("ja"), z3.Int("ib"), z3.Int("jb")
    rng = [ia >= 0, ia < zint(B), ja >= 0, ja < zint(n), ib >= 0, ib < zint(B2), jb >= 0, jb < zint(n2)]
    same_loc = zreal(XA.val.at([(ia,), (ja,), ()])) == zreal(XB.val.at([(ib,), (jb,), ()]))
    if oa.rank == 4 and ob.rank == 4:
        S.ensure("plain-network-block-b-n-depends-on-location-b-n-only", z3.And([zreal(oa.at([(ia,), (ja,), (c,), (k,)])) == zreal(ob.at([(ib,), (jb,), (c,), (k,)])) for c in range(2) for k in range(2)]), rng + [same_loc])
    else:
        S.ensure("plain-network-feature-tensor-has-rank-4", False)


@scenario("C09", [M + "branchnets.FCBranchNet.__init__", M + "branchnets.FCBranchNet.finalize", M + "branchnets.FCBranchNet.forward", BRANCH + "._reshape_multidimensional_output"], configs=["ndisc=2,hidden=(2,),neurons=4,d=2"], bounded="2 discretisation points of a scalar input function, one hidden layer of width 2, 4 output neurons, output dimension 2; number of functions, weights and values symbolic")
def fc_branch_net_maps_function_b_to_feature_block_b(S):
    """FCBranchNet.forward: the discretised input functions [B, ndisc, 1] are flattened per function, sent through the
    fully connected network, and stored as current_out[b, c, k] = feature c*q + k of function b: block b depends on
    function b alone, and the layout is the one the DeepONet inner product assumes"""
    from tpv.absdom import abstract_domain

    I = S.I
    B, B2 = S.int("B", 1), S.int("B2", 1)
    xs = S.new(RN, "x", 1)
    fsp = S.new(FS, abstract_domain(S, "Din", xs).obj, S.new(RN, "f", 1))
    disc = AbstractSampler(S, "disc", xs, 2)
    br = S.new(M + "branchnets.FCBranchNet", fsp, disc.obj, hidden=(2,))
    S.method(br, "finalize", S.new(RN, "u", 2), 4)
    FA, FB = S.tensor("FA", [B, 2, 1]), S.tensor("FB", [B2, 2, 1])
    S.method(br, "forward", S.new(POINTS, FA, S.new(RN, "f", 1)))
    oa = S.getattr(br, "current_out").val
    S.method(br, "forward", S.new(POINTS, FB, S.new(RN, "f", 1)))
    ob = S.getattr(br, "current_out").val
    ok = oa.rank == 3 and ob.rank == 3 and [d.concrete() for d in oa.shape[1:]] == [2, 2]
    S.ensure("feature-tensor-functions-components-neurons", ok and oa.shape[0].size_term() == zint(B) and ob.shape[0].size_term() == zint(B2))
    if not ok:
        return
    ia, ib = z3.Int("ia"), z3.Int("ib")
    rng = [ia >= 0, ia < zint(B), ib >= 0, ib < zint(B2)]
    same_fn = z3.And([zreal(FA.val.at([(ia,), (j,), ()])) == zreal(FB.val.at([(ib,), (j,), ()])) for j in range(2)])
    S.ensure("block-b-depends-on-function-b-only", z3.And([zreal(oa.at([(ia,), (c,), (k,)])) == zreal(ob.at([(ib,), (c,), (k,)])) for c in range(2) for k in range(2)]), rng + [same_fn])
    # layout: run the network by hand on the flattened functions and compare feature c*q + k
    flat = Tensor(__import__("tpv.tshape", fromlist=["x"]).reshape(I, FA.val, [-1, 2]))
    feats = S.method(S.getattr(br, "sequential"), "__call__", flat).val
    S.forall("current-out-b-c-k-is-feature-c-q-plus-k-of-function-b", Tensor(oa), lambda q: z3.And([z3.Implies(z3.And(zint(q[1][0]) == c, zint(q[2][0]) == k), zreal(oa.at(q)) == zreal(feats.at([q[0], (c * 2 + k,)]))) for c in range(2) for k in range(2)]))


@scenario("C09", [DON + "._forward_branch", BRANCH + "._discretize_function_set"], configs=["two-function-sets-one-network"], bounded="trunk variable x:1, input functions f:1; numbers of functions / discretisation points symbolic; a history of four calls")
def branch_is_re_evaluated_for_the_function_set_it_is_asked_for(S):
    """history on ONE DeepONet: _forward_branch(A, it=0), (B, 0), (B, 0), (A, 0), (B, 1), then a second network sharing
    B.  The branch features always belong to the function set of the LAST request: A's request evaluates the branch on A's functions, B's first request in the
    same iteration evaluates it on B's functions (not reusing A's), a repeated request for B in the same iteration
    reuses them (no resampling), and the next iteration resamples B's functions and evaluates again."""
    from tpv.absdom import abstract_domain

    I = S.I
    KA, KB, q, nd = S.int("KA", 1), S.int("KB", 1), S.int("q", 1), S.int("ndisc", 1)
    d = 2
    xs = S.new(RN, "x", 1)
    trunk, _u, Tt, Bt = abstract_trunk_branch(S, KA, S.int("n", 1), d, q, True)
    fsp = S.new(FS, abstract_domain(S, "Din", xs).obj, S.new(RN, "f", 1))
    disc = AbstractSampler(S, "disc", xs, nd)
    branch = S.new(BRANCH, fsp, disc.obj)
    seen = []
    branch.f["__overrides__"] = {"forward": lambda I2, o, batch: seen.append(batch), "__call__": lambda I2, o, batch: seen.append(batch)}
    pa, pb = AbstractSampler(S, "parA", S.new(RN, "k", 1), KA), AbstractSampler(S, "parB", S.new(RN, "k", 1), KB)
    fA = RowFn("fA", ["k", "x"], 1, {"k": 1, "x": 1})
    fB = RowFn("fB", ["k", "x"], 1, {"k": 1, "x": 1})
    CFS = "torchphysics.problem.domains.functionsets.functionset.CustomFunctionSet"
    setA, setB = S.new(CFS, fsp, pa.obj, fA), S.new(CFS, fsp, pb.obj, fB)
    net = S.new(DON, trunk, branch, S.new(RN, "u", d), Sym(zint(q) * d, "int"))
    S.method(net, "_forward_branch", setA, 0)
    S.ensure("request-for-A-samples-A-and-evaluates-the-branch", len(seen) == 1 and len(pa.calls) == 1 and len(pb.calls) == 0)
    S.method(net, "_forward_branch", setB, 0)
    S.ensure("request-for-B-in-the-same-iteration-samples-B-and-evaluates-the-branch-again", len(seen) == 2 and len(pb.calls) == 1 and len(pa.calls) == 1)
    if len(seen) == 2 and len(pb.calls) == 1:
        Dm = tensor_of(seen[1])
        P = disc.calls[-1]["tensor"].val
        Kp = pb.calls[-1]["tensor"].val
        okd = Dm.rank == 3 and Dm.shape[2].concrete() == 1
        S.ensure("second-evaluation-has-one-row-per-function-of-B", okd and Dm.shape[0].size_term() == zint(KB))
        if okd:
            S.forall("second-evaluation-is-on-the-functions-of-B", Tensor(Dm), lambda qq: zreal(Dm.at(qq)) == fB.value_terms([zreal(Kp.at([qq[0], ()])), zreal(P.at([qq[1], ()]))])[0])
    S.method(net, "_forward_branch", setB, 0)
    S.ensure("repeated-request-in-the-same-iteration-reuses-the-features", len(seen) == 2 and len(pb.calls) == 1)
    # back to A in the SAME iteration: A's functions are not resampled, but the features in the branch are B's now
    S.method(net, "_forward_branch", setA, 0)
    S.ensure("request-for-A-after-B-re-evaluates-the-branch-without-resampling-A", len(seen) == 3 and len(pa.calls) == 1)
    if len(seen) == 3:
        Dm = tensor_of(seen[2])
        P = disc.calls[-1]["tensor"].val
        Kp = pa.calls[-1]["tensor"].val
        okd = Dm.rank == 3 and Dm.shape[2].concrete() == 1
        S.ensure("third-evaluation-has-one-row-per-function-of-A", okd and Dm.shape[0].size_term() == zint(KA))
        if okd:
            S.forall("third-evaluation-is-on-the-functions-of-A", Tensor(Dm), lambda qq: zreal(Dm.at(qq)) == fA.value_terms([zreal(Kp.at([qq[0], ()])), zreal(P.at([qq[1], ()]))])[0])
    S.method(net, "_forward_branch", setB, 1)
    S.ensure("next-iteration-resamples-and-evaluates-again", len(seen) == 4 and len(pb.calls) == 2)
    # a second network that shares function set B and is asked in the same iteration: its OWN branch is evaluated
    trunk2, _u2, _T2, _B2 = abstract_trunk_branch(S, KB, S.int("n2", 1), d, q, True)
    branch2 = S.new(BRANCH, fsp, disc.obj)
    seen2 = []
    branch2.f["__overrides__"] = {"forward": lambda I2, o, batch: seen2.append(batch), "__call__": lambda I2, o, batch: seen2.append(batch)}
    net2 = S.new(DON, trunk2, branch2, S.new(RN, "u", d), Sym(zint(q) * d, "int"))
    S.method(net2, "_forward_branch", setB, 1)
    S.ensure("second-network-sharing-the-function-set-evaluates-its-own-branch-without-resampling", len(seen2) == 1 and len(pb.calls) == 2 and len(seen) == 4)


@scenario("C09", [M + "trunknets.FCTrunkNet.forward", "torchphysics.models.model.Model._fix_points_order"], configs=["fast", "plain"], bounded="trunk variables x:2, t:1, one hidden layer of width 2, 2 neurons, output dimension 1; numbers of functions and locations, weights and inputs symbolic")
def trunk_net_reads_its_variables_by_name(S):
    """the trunk net is a model over NAMED variables (C08 applies to it): locations handed over as (t, x) give the
    same features as the same locations handed over in the declared order (x, t) -- a sampler over A_t * A_x
    produces the first form; locations lacking a variable are rejected"""
    I = S.I
    from tpv import tshape

    B, n = S.int("B", 1), S.int("n", 1)
    mul = lambda a, b: I.binop(ast.Mult(), a, b)
    xt = mul(S.new(RN, "x", 2), S.new(RN, "t", 1))
    tx = mul(S.new(RN, "t", 1), S.new(RN, "x", 2))
    net = S.new(M + "trunknets.FCTrunkNet", xt, hidden=(2,), trunk_input_copied=(S.cfg == "fast"))
    S.method(net, "finalize", S.new(RN, "u", 1), 2)
    X0, T0 = S.tensor("X0", [n, 2]), S.tensor("T0", [n, 1])
    lead = lambda v, cols_: STensor([core.dim_of(B), core.dim_of(n), Dim([cols_])], lambda idx: zreal(v.at([idx[1], idx[2]])), "real")
    d_xt = Tensor(tshape.cat(I, [lead(X0.val, 2), lead(T0.val, 1)], 2))
    d_tx = Tensor(tshape.cat(I, [lead(T0.val, 1), lead(X0.val, 2)], 2))
    o1 = S.method(net, "forward", S.new(POINTS, d_xt, xt)).val
    o2 = S.method(net, "forward", S.new(POINTS, d_tx, tx)).val
    ok = o1.rank == o2.rank and o1.rank >= 3 and all(a.same(b) for a, b in zip(o1.shape, o2.shape))
    S.ensure("same-feature-shape-for-both-variable-orders", ok)
    if ok:
        S.forall("same-features-for-permuted-variable-order", Tensor(o1), lambda q: zreal(o1.at(q)) == zreal(o2.at(q)))
    only_x = S.new(POINTS, Tensor(lead(X0.val, 2)), S.new(RN, "x", 2))
    S.ensure_raises("locations-lacking-a-variable-rejected", lambda: S.method(net, "forward", only_x), ["ValueError", "KeyError", "RuntimeError", "AssertionError"])


@scenario("C09", [M + "branchnets.ConvBranchNet1D.__init__", M + "branchnets.ConvBranchNet1D.finalize", M + "branchnets.ConvBranchNet1D.forward", BRANCH + "._reshape_multidimensional_output"], configs=["ndisc=3,channels=2,hidden=(2,),neurons=4,d=2"], bounded="3 discretisation points of a 2-component input function, conv net abstract (any map keeping the layout), one hidden layer of width 2, 4 output neurons, output dimension 2; number of functions, weights and values symbolic")
def conv_branch_net_hands_channels_first_to_the_convolution_and_keeps_function_b_in_block_b(S):
    """ConvBranchNet1D.forward: the user's convolutional network receives the discretised functions as
    (function, channel, position) -- entry [b, c, l] is component c of function b at discretisation point l --, its
    output is brought back to (function, position, channel), flattened per function and sent through the fully
    connected part; current_out[b, c, k] is feature c*q + k of function b"""
    from tpv.absdom import abstract_domain
    from tpv import tshape
    from tpv.spec import TensorFn

    I = S.I
    B = S.int("B", 1)
    xs = S.new(RN, "x", 1)
    fsp = S.new(FS, abstract_domain(S, "Din", xs).obj, S.new(RN, "f", 2))
    disc = AbstractSampler(S, "disc", xs, 3)
    seen = []

    def conv(I_, a, k):
        seen.append(a[0])
        # an arbitrary network that keeps (function, channel, position): modelled as the identity on the layout with
        # an uninterpreted pointwise map (the contract is about what it is GIVEN and where its output goes)
        g = z3.Function("convmap", z3.RealSort(), z3.RealSort())
        v = a[0].val
        return Tensor(STensor(v.shape, lambda idx: g(zreal(v.at(idx))), "real", "conv"))

    net = TensorFn("conv_net", conv)
    br = S.new(M + "branchnets.ConvBranchNet1D", fsp, disc.obj, net, hidden=(2,))
    S.method(br, "finalize", S.new(RN, "u", 2), 4)
    F = S.tensor("F", [B, 3, 2])
    S.method(br, "forward", S.new(POINTS, F, S.new(RN, "f", 2)))
    S.ensure("convolution-called-once", len(seen) == 1)
    if len(seen) != 1:
        return
    ci = seen[0].val
    ok = ci.rank == 3 and ci.shape[1].concrete() == 2 and ci.shape[2].concrete() == 3 and ci.shape[0].size_term() == zint(B)
    S.ensure("convolution-input-is-functions-by-channels-by-positions", ok)
    if ok:
        S.forall("entry-b-c-l-is-component-c-of-function-b-at-point-l", Tensor(ci), lambda q: zreal(ci.at(q)) == zreal(F.val.at([q[0], q[2], q[1]])))
    oa = S.getattr(br, "current_out").val
    ok = oa.rank == 3 and [d.concrete() for d in oa.shape[1:]] == [2, 2] and oa.shape[0].size_term() == zint(B)
    S.ensure("feature-tensor-functions-components-neurons", ok)
    if not ok:
        return
    g = z3.Function("convmap", z3.RealSort(), z3.RealSort())
    conv_out_back = STensor([core.dim_of(B), Dim([3]), Dim([2])], lambda idx: g(zreal(F.val.at(idx))), "real")
    flat = Tensor(tshape.reshape(I, conv_out_back, [-1, 6]))
    feats = S.method(S.getattr(br, "sequential"), "__call__", flat).val
    S.forall("current-out-b-c-k-is-feature-c-q-plus-k-of-function-b", Tensor(oa), lambda q: z3.And([z3.Implies(z3.And(zint(q[1][0]) == c, zint(q[2][0]) == k), zreal(oa.at(q)) == zreal(feats.at([q[0], (c * 2 + k,)]))) for c in range(2) for k in range(2)]))
