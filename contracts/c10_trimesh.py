"""C10 for TrimeshPolyhedron: trimesh itself (numpy / C code) is outside the verifier; what IS under contract is the
library's USE of it in the constructors and in _get_volume.  Assumed contract of a trimesh mesh M (A3/A10): M.volume is
the SIGNED volume -- positive for outward-wound faces, negative for inward-wound ones; M.fix_normals() re-orients the
faces so that M.volume becomes the (positive) enclosed volume.  Both ways of building a mesh (vertices + faces,
load_mesh from a file) keep the winding they are given."""
import z3

from tpv import core
from tpv.core import zreal
from tpv.spec import scenario

TP = "torchphysics.problem.domains.domain3D.trimesh_polyhedron.TrimeshPolyhedron"
R3 = "torchphysics.problem.spaces.space.R3"


def _trimesh_stub(S, signed_volume):
    from tpv.interp import StubModule, Builtin, SObj
    from tpv.loader import NativeClass

    Mesh = NativeClass("trimesh.Trimesh")
    made = []

    def mk(how):
        m = SObj(Mesh)
        m.f.update({"_fixed": False, "_how": how})
        made.append(m)
        return m

    Mesh.native_methods["fix_normals"] = lambda I, o, *a, **k: o.f.__setitem__("_fixed", True)
    Mesh.props["volume"] = lambda I, o: core.Sym(z3.If(signed_volume.t >= 0, signed_volume.t, -signed_volume.t), "float") if o.f["_fixed"] else signed_volume
    S.I.repo.externals["trimesh"] = StubModule("trimesh", {"Trimesh": Builtin("Trimesh", lambda I, vertices=None, faces=None, **k: mk("vertices-faces")), "load_mesh": Builtin("load_mesh", lambda I, f, file_type=None, **k: mk("file"))})
    lg = S.I.new_without_init(NativeClass("logging.Logger"))
    lg.f["__overrides__"] = {"setLevel": lambda I, o, *a, **k: None}
    S.I.repo.externals["logging"] = StubModule("logging", {"getLogger": Builtin("getLogger", lambda I, *a, **k: lg), "ERROR": 40})
    return made


@scenario("C10", [TP + ".__init__", TP + "._get_volume"], configs=["vertices-and-faces", "mesh-file"])
def trimesh_polyhedron_volume_is_positive_whatever_the_winding(S):
    """TrimeshPolyhedron built from vertices and faces OR loaded from a mesh file, faces wound outwards or inwards (signed
    volume of either sign): volume() is one positive value, the enclosed volume |V| -- the constructor re-orients the
    mesh (fix_normals) on BOTH construction paths"""
    sv = S.real("signed_volume_of_the_mesh_as_given")
    S.assume(sv.t != 0)
    made = _trimesh_stub(S, sv)
    if S.cfg == "vertices-and-faces":
        dom = S.new(TP, S.new(R3, "x"), vertices=[[0, 0, 0], [1, 0, 0], [0, 1, 0], [0, 0, 1]], faces=[[0, 1, 2], [0, 1, 3], [0, 2, 3], [1, 2, 3]])
    else:
        dom = S.new(TP, S.new(R3, "x"), file_name="mesh.stl", file_type="stl")
    S.ensure("one-mesh-built-the-documented-way", len(made) == 1 and made[0].f["_how"] == ("vertices-faces" if S.cfg == "vertices-and-faces" else "file") and S.getattr(dom, "mesh") is made[0])
    v = S.method(dom, "volume").val
    S.ensure("volume-is-one-number", v.numel_concrete() == 1)
    val = zreal(v.at([() for _ in v.shape]))
    S.ensure("volume-is-the-positive-enclosed-volume", z3.And(val > 0, val == z3.If(sv.t >= 0, sv.t, -sv.t)))
