"""C15 — static and adaptive samplers follow their documented state machines.

StaticSampler: 2-state inductive invariant with ghost use-counter  uses = counter + 1:
  created_points set  =>  1 <= uses <= I;  cached branch <=> created_points set and uses < I (returns the IDENTICAL
  object, wrapped sampler untouched, uses+1);  otherwise exactly one fresh draw of the wrapped sampler, uses = 1.
Hence a point set is returned on exactly I consecutive calls.  The wrapped sampler is abstract (contract only).
Adaptive samplers: len unchanged; row r keeps the previous point iff loss_r >= min + ratio*(max-min)
(random variant: ratio replaced by the code's own rand_like draw u_r), otherwise the fresh row r.
"""
import math

import z3

from tpv.spec import scenario
from tpv.core import zint, zreal, Sym, Dim
from tpv.absdom import AbstractSampler, abstract_domain, coords_of
from tpv import frame

SS = "torchphysics.problem.samplers.sampler_base.StaticSampler"
PS = "torchphysics.problem.samplers.sampler_base.PointSampler"
POINTS = "torchphysics.problem.spaces.points.Points"
R2 = "torchphysics.problem.spaces.space.R2"
R1 = "torchphysics.problem.spaces.space.R1"
ATS = "torchphysics.problem.samplers.random_samplers.AdaptiveThresholdRejectionSampler"
ARS = "torchphysics.problem.samplers.random_samplers.AdaptiveRandomRejectionSampler"
RUS = "torchphysics.problem.samplers.random_samplers.RandomUniformSampler"


def _interval(S):
    if S.cfg.endswith("inf"):
        return math.inf
    I = S.int("I", 1)
    return I


@scenario("C15", [SS + ".__init__", PS + ".make_static", SS + ".make_static"], configs=["finite", "inf"])
def static_init_establishes_invariant(S):
    inner = AbstractSampler(S, "inner", S.new(R2, "x"), S.int("n", 1))
    I = _interval(S)
    st = S.method(inner.obj, "make_static", I) if S.cfg == "finite" else S.method(inner.obj, "make_static")
    S.ensure("is-static-sampler", S.I.isinstance_(st, S.find(SS)))
    S.ensure("wraps-the-sampler", S.getattr(st, "sampler") is inner.obj)
    S.ensure("no-cache-yet", S.getattr(st, "created_points") is None)
    S.ensure("counter-zero", S.getattr(st, "counter") == 0)
    ri = S.getattr(st, "resample_interval")
    S.ensure("interval-stored", (ri == math.inf) if S.cfg == "inf" else (zint(ri) == zint(I)))
    S.ensure("wrapped-sampler-not-called", len(inner.calls) == 0)


@scenario("C15", [SS + ".sample_points", SS + "._change_device"], configs=["nocache-finite", "nocache-inf", "cached-finite", "cached-inf"])
def static_step(S):
    """inductive step of the state machine from an ARBITRARY state satisfying the invariant"""
    n = S.int("n", 1)
    inner = AbstractSampler(S, "inner", S.new(R2, "x"), n)
    I = _interval(S)
    st = S.new(SS, inner.obj, I)
    cached = S.cfg.startswith("cached")
    c = S.int("c", 0)
    if cached:
        old = S.new(POINTS, S.tensor("cache", [n, 2]), S.new(R2, "x"))
        st.f["created_points"] = old
        # NO upper bound on the use counter: StaticSampler.make_static(new_interval) may lower the interval
        # below the uses the cached set already has (re-staticising mid-cycle); the interval has then elapsed
        # and the next call must draw a fresh set.
    else:
        old = None
    st.f["counter"] = c
    S.cover("invariant-state-exists")
    params = S.new(POINTS, S.tensor("prm", [S.int("K", 0), 1]), S.new(R1, "t"))
    r = S.method(st, "sample_points", params)
    uses_before = zint(c) + 1
    if cached:
        stay = (uses_before < zint(I)) if I is not math.inf else True
        took_cached = r is old
        # which branch must have been taken on this path?
        S.ensure("cached-branch-iff-interval-not-elapsed", z3.BoolVal(took_cached) == stay if not isinstance(stay, bool) else took_cached == stay)
    else:
        took_cached = False
        S.ensure("no-cache-means-fresh-draw", r is not None and len(inner.calls) == 1)
    if took_cached:
        S.ensure("identical-object-returned", r is old and S.getattr(st, "created_points") is old)
        S.ensure("wrapped-sampler-untouched", len(inner.calls) == 0)
        S.ensure("use-counter-incremented", zint(S.getattr(st, "counter")) == zint(c) + 1)
        if I is not math.inf:
            S.ensure("cached-set-is-within-its-interval", zint(S.getattr(st, "counter")) + 1 <= zint(I))
    else:
        S.ensure("exactly-one-fresh-draw", len(inner.calls) == 1)
        if len(inner.calls) == 1:
            S.ensure("drawn-with-the-given-params", inner.calls[0]["params"] is params)
            S.ensure("fresh-set-returned-and-cached", r is inner.calls[0]["result"] and S.getattr(st, "created_points") is r and r is not old)
        S.ensure("use-counter-reset", S.getattr(st, "counter") == 0)


@scenario("C15", [SS + ".sample_points"], configs=["I=3"], bounded="one concrete history: interval 3, 8 consecutive calls (illustration of the inductive contract)")
def static_history_example(S):
    n = S.int("n", 1)
    inner = AbstractSampler(S, "inner", S.new(R2, "x"), n)
    st = S.new(SS, inner.obj, 3)
    outs = [S.method(st, "sample_points") for _ in range(8)]
    ids = [id(o) for o in outs]
    S.ensure("runs-of-exactly-three", ids[0] == ids[1] == ids[2] and ids[3] == ids[4] == ids[5] and ids[6] == ids[7] and ids[2] != ids[3] and ids[5] != ids[6])
    S.ensure("three-draws", len(inner.calls) == 3)


@scenario("C15", [RUS + "._sample_points", PS + ".sample_points"], configs=["two-calls"])
def non_static_draws_fresh_points_every_call(S):
    dom = abstract_domain(S, "D", S.new(R2, "x"))
    n = S.int("n", 1)
    smp = S.new(RUS, dom.obj, n_points=n)
    a = S.method(smp, "sample_points")
    b = S.method(smp, "sample_points")
    draws = [c for c in dom.calls if c["kind"] == "random"]
    S.ensure("domain-sampled-on-every-call", len(draws) == 2)
    S.ensure("distinct-results", a is not b and a.f["_t"] is not b.f["_t"])


@scenario("C15", [ATS + ".__init__", ATS + ".sample_points", ARS + ".__init__", ARS + ".sample_points"], configs=["threshold", "random"])
def adaptive_keeps_high_loss_points(S):
    thr = S.cfg == "threshold"
    dom = abstract_domain(S, "D", S.new(R2, "x"))
    n = S.int("n", 1)
    ratio = S.real("ratio")
    smp = S.new(ATS, dom.obj, ratio, n_points=n) if thr else S.new(ARS, dom.obj, n_points=n)
    first = S.method(smp, "sample_points")
    S.ensure("first-call-returns-fresh-sample", len([c for c in dom.calls if c["kind"] == "random"]) == 1)
    prev = first.f["_t"].val  # value before the second call
    loss = S.tensor("loss", [n])
    second = S.method(smp, "sample_points", loss)
    draws = [c for c in dom.calls if c["kind"] == "random"]
    S.ensure("second-call-draws-fresh-points", len(draws) == 2)
    fresh = draws[1]["tensor"].val
    cur = second.f["_t"].val
    S.ensure("number-of-points-constant", cur.shape[0].size_term() == zint(n))
    S.ensure("same-space", S.I.truth(S.I.compare(__import__("ast").Eq(), S.getattr(second, "space"), S.getattr(first, "space"))))
    # min / max of the loss: instantiate the reduction schemas at the row under consideration
    q, hy = cur.generic_index("r")
    inst = []
    for (label, fn) in S.ctx.schemas:
        if label[0] == "minmax":
            inst.append(fn([q[0]]))
    mm = [fn for (label, fn) in S.ctx.schemas if label[0] == "minmax"]
    S.ensure("min-max-computed", len(mm) == 2)
    lr = zreal(loss.val.at([q[0]]))
    # the threshold used by the code: recover max/min terms from the schemas (max first, then min)
    mx = z3.Real("mx")
    mn = z3.Real("mn")
    rands = S.ctx.ghost.get("rand", [])
    if thr:
        u = zreal(ratio)
    else:
        u = zreal(rands[-1].val.at([q[0]]))
    # characterise mx, mn by their defining properties at row q and at the witnesses
    keep_cond = None
    # the engine's min/max values are the constants m with schema facts m>=loss[i] / m<=loss[i]
    S.ctx.ghost["mm_probe"] = True
    from tpv import tsum

    # obtain the actual terms: evaluate schema at q gives (m >= loss[q]) / (m <= loss[q])
    # which reduction is the maximum is read off the direction of its bound (m >= loss[i] / m <= loss[i]), not off
    # the order in which the code happens to compute them
    facts = [fn([q[0]]) for fn in mm]
    is_max = [f.decl().kind() == z3.Z3_OP_GE for f in facts]
    S.ensure("one-maximum-and-one-minimum-of-the-loss", sorted(is_max) == [False, True])
    if sorted(is_max) != [False, True]:
        return
    f_max, f_min = (facts[0], facts[1]) if is_max[0] else (facts[1], facts[0])
    m_max, m_min = f_max.arg(0), f_min.arg(0)
    thresh = m_min + (m_max - m_min) * u
    kept = lr >= thresh
    # 'keep exactly the points at or above the threshold': such a previous point is still A row of the result (without
    # parameter rows the order of the rows carries no meaning; with parameter rows the block order is demanded by
    # adaptive_samplers_keep_the_rows_grouped_by_parameter_row)
    jk = z3.Int("kept_row")
    S.ensure("kept-rows-are-previous-points", z3.Implies(kept, z3.Exists([jk], z3.And(jk >= 0, jk < zint(n), z3.And([zreal(cur.at([(jk,), (c,)])) == zreal(prev.at([q[0], (c,)])) for c in range(2)])))), hy + inst)
    # and nothing else survives: every row of the result is a kept previous point or a freshly drawn one
    jo = z3.Int("origin_row")
    S.ensure("every-result-row-is-a-kept-previous-point-or-a-fresh-point", z3.Exists([jo], z3.And(jo >= 0, jo < zint(n), z3.Or(z3.And([zreal(cur.at([q[0], (c,)])) == zreal(fresh.at([(jo,), (c,)])) for c in range(2)]), z3.And([zreal(cur.at([q[0], (c,)])) == zreal(prev.at([(jo,), (c,)])) for c in range(2)] + [zreal(loss.val.at([(jo,)])) >= (thresh if thr else m_min + (m_max - m_min) * zreal(rands[-1].val.at([(jo,)])))])))), hy + inst)
    # 'replaced by fresh points': the row is SOME row of the sample drawn in this call (which candidate replaces which
    # low-loss row is not prescribed); proved with the witness the code itself uses
    jw = z3.Int("fresh_row")
    row_is = lambda j: z3.And([zreal(cur.at([q[0], (c,)])) == zreal(fresh.at([(j,), (c,)])) for c in range(2)])
    S.ensure("other-rows-are-fresh-points", z3.Implies(z3.Not(kept), z3.Exists([jw], z3.And(jw >= 0, jw < zint(n), row_is(jw)))), hy + inst)
    # fresh rows lie inside the domain (operand contract); instantiate by touching the fresh row
    xs = [fresh.at([q[0], (k,)]) for k in range(2)]
    S.ensure("fresh-rows-inside-domain", dom.in_pred(xs, []), hy)
    S.ensure("threshold-between-min-and-max", z3.And(m_min <= lr, lr <= m_max), hy + inst)
    S.canary("all-rows-replaced", cur.at(q) == fresh.at(q), hy + inst)


@scenario("C15", [SS + ".make_static", SS + ".sample_points"], configs=["lower-the-interval-mid-cycle"])
def restaticising_with_an_elapsed_interval_resamples(S):
    """history: a cached set already used `used` times, then make_static(J) with J <= used: the interval has
    elapsed, the next call draws a fresh set and later calls follow the new interval"""
    n = S.int("n", 1)
    inner = AbstractSampler(S, "inner", S.new(R2, "x"), n)
    st = S.new(SS, inner.obj, S.int("I", 1))
    old = S.new(POINTS, S.tensor("cache", [n, 2]), S.new(R2, "x"))
    used = S.int("used", 1)
    st.f["created_points"] = old
    st.f["counter"] = Sym(zint(used) - 1, "int")
    J = S.int("J", 1)
    S.assume(zint(J) <= zint(used))
    r0 = S.method(st, "make_static", J)
    S.ensure("make-static-returns-the-same-sampler", r0 is st)
    r1 = S.method(st, "sample_points")
    S.ensure("elapsed-interval-forces-a-fresh-draw", r1 is not old and len(inner.calls) == 1)
    S.ensure("counter-restarts", zint(S.getattr(st, "counter")) == 0)


@scenario("C01", [ATS + ".sample_points", ARS + ".sample_points"], configs=["threshold", "random"], name="adaptive_sampler_points_stay_in_the_domain")
def adaptive_sampler_points_stay_in_the_domain(S):
    """inductive step for C01 on the adaptive samplers: from an ARBITRARY retained point set whose rows all lie in the
    domain (invariant; established by the first call = a plain uniform sample), one call with an arbitrary loss tensor
    returns a point set whose rows all lie in the domain (each row is the retained or the freshly drawn row r)."""
    thr = S.cfg == "threshold"
    dom = abstract_domain(S, "D", S.new(R2, "x"))
    n = S.int("n", 1)
    smp = S.new(ATS, dom.obj, S.real("ratio"), n_points=n) if thr else S.new(ARS, dom.obj, n_points=n)
    fL = z3.Function("LP", z3.IntSort(), z3.IntSort(), z3.RealSort())
    LP = S.tensor("LP", [n, 2], mutable=True, on_access=lambda idx, v: S.ctx.axiom(z3.Implies(z3.And(zint(idx[0][0]) >= 0, zint(idx[0][0]) < zint(n)), dom.in_pred([fL(zint(idx[0][0]), z3.IntVal(c)) for c in range(2)], []))))
    smp.f["last_points"] = S.new(POINTS, LP, S.new(R2, "x"))
    loss = S.tensor("loss", [n])
    out = S.method(smp, "sample_points", loss)
    t = out.f["_t"].val
    ok = t.rank == 2 and t.shape[1].concrete() == 2
    S.ensure("n-rows-two-columns", ok and t.shape[0].size_term() == zint(n))
    if ok:
        S.forall("every-row-in-the-domain", out.f["_t"], lambda q: dom.in_pred([zreal(t.at([q[0], (c,)])) for c in range(2)], []))


@scenario("C15", [PS + ".is_static", PS + ".is_adaptive", PS + ".make_static"], configs=["flags"])
def static_and_adaptive_flags_identify_the_sampler_kind(S):
    """is_static is true exactly for StaticSampler objects, is_adaptive exactly for the adaptive samplers; sums,
    products and appended samplers of plain samplers are neither; conditions branch on these flags"""
    import ast

    n = S.int("n", 1)
    inner = AbstractSampler(S, "inner", S.new(R2, "x"), n)
    other = AbstractSampler(S, "other", S.new(R1, "t"), n)
    st = S.method(inner.obj, "make_static")
    dom = abstract_domain(S, "D", S.new(R2, "x"))
    ats = S.new(ATS, dom.obj, S.real("ratio"), n_points=n)
    ars = S.new(ARS, dom.obj, n_points=n)
    flag = lambda o, nm: S.getattr(o, nm)
    S.ensure("plain-sampler-is-neither", flag(inner.obj, "is_static") is False and flag(inner.obj, "is_adaptive") is False)
    S.ensure("static-sampler-is-static-not-adaptive", flag(st, "is_static") is True and flag(st, "is_adaptive") is False)
    S.ensure("adaptive-samplers-are-adaptive-not-static", flag(ats, "is_adaptive") is True and flag(ars, "is_adaptive") is True and flag(ats, "is_static") is False and flag(ars, "is_static") is False)
    prod = S.I.binop(ast.Mult(), inner.obj, other.obj)
    sm = S.I.binop(ast.Add(), inner.obj, inner.obj)
    app = S.method(inner.obj, "append", other.obj)
    for nm, o in (("product", prod), ("sum", sm), ("appended", app)):
        S.ensure(f"{nm}-of-plain-samplers-is-neither", flag(o, "is_static") is False and flag(o, "is_adaptive") is False)
    S.ensure("a-static-sampler-of-a-product-is-static", flag(S.method(prod, "make_static"), "is_static") is True)


@scenario("C15", [PS + ".make_static", SS + ".__init__", SS + ".sample_points"], configs=["two-static-samplers-of-one-sampler"])
def static_samplers_made_from_one_sampler_are_independent(S):
    """history: base.make_static(I) twice gives two StaticSampler objects with their OWN cache and use counter (also for
    equal intervals): the first use of each draws its own set, and using one does not advance the other"""
    n = S.int("n", 1)
    inner = AbstractSampler(S, "inner", S.new(R2, "x"), n)
    I = S.int("I", 2)
    s1 = S.method(inner.obj, "make_static", I)
    s2 = S.method(inner.obj, "make_static", I)
    S.ensure("two-distinct-static-samplers", s1 is not s2 and S.I.isinstance_(s1, S.find(SS)) and S.I.isinstance_(s2, S.find(SS)))
    S.ensure("the-wrapped-sampler-is-not-turned-static-itself", S.getattr(inner.obj, "is_static") is False)
    a1 = S.method(s1, "sample_points")
    b1 = S.method(s2, "sample_points")
    S.ensure("each-first-use-draws-its-own-set", len(inner.calls) == 2 and a1 is inner.calls[0]["result"] and b1 is inner.calls[1]["result"] and a1 is not b1)
    a2 = S.method(s1, "sample_points")
    S.ensure("second-use-of-the-first-returns-its-cached-set-whatever-the-second-did", a2 is a1 and len(inner.calls) == 2)
    S.ensure("use-counters-are-separate", zint(S.getattr(s1, "counter")) == 1 and zint(S.getattr(s2, "counter")) == 0)


for _prop in ("C02", "C01", "C15"):
    def _adaptive_rows(S, _prop=_prop):
        """adaptive samplers with K parameter rows (the form a condition with parameters uses them in): after the first
        call AND after a call with a loss tensor the result has exactly n rows per parameter row, grouped by parameter
        row, row (k, j) carries parameter row k unchanged (C02) and lies in the domain at parameter row k (C01) --
        whether it was retained or freshly drawn"""
        thr = S.cfg == "threshold"
        dom = abstract_domain(S, "D", S.new(R2, "x"), {"t": 1})
        n, K = S.int("n", 1), S.int("K", 1)
        Tt = S.tensor("tt", [K, 1])
        params = S.new(POINTS, Tt, S.new(R1, "t"))
        smp = S.new(ATS, dom.obj, S.real("ratio"), n_points=n) if thr else S.new(ARS, dom.obj, n_points=n)
        first = S.method(smp, "sample_points", None, params)
        loss = S.tensor("loss", [S.I.binop(__import__("ast").Mult(), K, n)])
        second = S.method(smp, "sample_points", loss, params)
        for tag, pts in (("first-call", first), ("call-with-a-loss", second)):
            t = pts.f["_t"].val
            ok = t.rank == 2 and t.shape[1].concrete() == 3
            S.ensure(f"{tag}:columns-of-domain-and-parameter-space", ok)
            if not ok:
                return
            S.ensure(f"{tag}:exactly-n-rows-per-parameter-row", t.shape[0].size_term() == zint(K) * zint(n))
            grouped = len(t.shape[0].factors) == 2 and z3.eq(zint(t.shape[0].factors[0]), zint(K))
            S.ensure(f"{tag}:rows-grouped-by-parameter-row", grouped)
            if not grouped:
                return
            inst = lambda q: S.schema_instances([q[0]])
            if _prop in ("C02", "C15"):
                S.forall(f"{tag}:row-carries-its-parameter-row-unchanged", pts.f["_t"], lambda q, t=t: zreal(t.at([q[0], (2,)])) == zreal(Tt.val.at([(q[0][0],), ()])), extra_hyps=inst)
            if _prop in ("C01", "C15"):
                S.forall(f"{tag}:row-in-the-domain-at-its-own-parameter-row", pts.f["_t"], lambda q, t=t: dom.in_pred([zreal(t.at([q[0], (c,)])) for c in range(2)], [zreal(Tt.val.at([(q[0][0],), ()]))]), extra_hyps=inst)
    _adaptive_rows.__name__ = "adaptive_samplers_keep_the_rows_grouped_by_parameter_row"
    scenario(_prop, [ATS + ".sample_points", ARS + ".sample_points"], configs=["threshold", "random"])(_adaptive_rows)


ES = "torchphysics.problem.samplers.sampler_base.EmptySampler"


@scenario("C15", [PS + ".__iter__", PS + ".__next__", SS + ".__next__", ES + ".__init__", ES + ".sample_points", PS + ".empty"], configs=["iteration-protocol"])
def iteration_protocol_follows_the_same_state_machines(S):
    """samplers used as iterators: next() of a non-static sampler draws fresh points every time; next() of a static
    sampler returns the stored points once they exist (the object sample_points returned) and draws otherwise;
    PointSampler.empty() is a static sampler of empty point sets, for any parameters"""
    I = S.I
    dom = abstract_domain(S, "D", S.new(R2, "x"))
    n = S.int("n", 1)
    smp = S.new(RUS, dom.obj, n_points=n)
    S.ensure("iter-returns-the-sampler-itself", S.method(smp, "__iter__") is smp)
    a, b = S.method(smp, "__next__"), S.method(smp, "__next__")
    draws = [c for c in dom.calls if c["kind"] == "random"]
    S.ensure("next-of-a-non-static-sampler-draws-every-time", len(draws) == 2 and a is not b)
    S.ensure("next-returns-n-points", a.f["_t"].val.shape[0].size_term() == zint(n))
    st = S.method(S.new(RUS, dom.obj, n_points=n), "make_static")
    p1 = S.method(st, "__next__")
    p2 = S.method(st, "__next__")
    p3 = S.method(st, "sample_points")
    S.ensure("next-of-a-static-sampler-draws-once-and-then-returns-the-stored-points", len([c for c in dom.calls if c["kind"] == "random"]) == 3 and p1 is p2 and p2 is p3)
    e = S.call(S.getattr(S.find(PS), "empty"))
    S.ensure("empty-sampler-is-static", I.truth(S.getattr(e, "is_static")))
    K = S.int("K", 1)
    params = S.new(POINTS, S.tensor("tt", [K, 1]), S.new(R1, "t"))
    for tag, r in (("without-parameters", S.method(e, "sample_points")), ("with-parameters", S.method(e, "sample_points", params)), ("through-next", S.method(e, "__next__"))):
        S.ensure(f"empty-sampler-gives-empty-points-{tag}", I.truth(S.getattr(r, "isempty")))
    S.ensure("length-of-the-empty-sampler-is-zero", zint(I.pylib.b_len(I, S.new(ES))) == 0)
