"""C12 — Points and Space behave as a table with named column groups.

Abstract view Table(points) = ordered list of (name, dim) + map name -> column block.
Rows N and all tensor contents are symbolic (unbounded); Space dimensions are symbolic integers >= 1 for the
Space contracts; the number of variables is schematic (2..3 names, stated as the bound).
"""
import ast
import itertools

import z3

from tpv import core, tlib
from tpv.core import zint, zreal, Sym, Dim
from tpv.spec import scenario
from tpv.tlib import Tensor
from tpv.torchlib import NumpyArray
from .geom import POINTS, R1, R2, R3, tensor_of

SPACE = "torchphysics.problem.spaces.space.Space"
RN = "torchphysics.problem.spaces.space.Rn"
BOUND = "number of variables schematic (<= 3 named variables); rows, dimensions and contents symbolic"
P = POINTS


def keys(sp):
    return list(sp.native.keys())


def dims(sp):
    return list(sp.native.values())


def mul(S, a, b):
    return S.I.binop(ast.Mult(), a, b)


def eqz(a, b):
    return zint(a) == zint(b)


@scenario("C12", [SPACE + ".__init__", SPACE + ".__mul__", SPACE + ".dim", SPACE + ".variables", RN + ".__init__"], configs=["xy", "xyz", "xx", "xyx"], bounded=BOUND)
def space_product(S):
    """post: products append new names in order and merge equal names by adding dimensions; dim = sum"""
    names = list(S.cfg)
    ds = [S.int(f"d{i}", 1) for i in range(len(names))]
    sp = None
    for nm, d in zip(names, ds):
        f = S.new(RN, nm, d)
        sp = f if sp is None else mul(S, sp, f)
    order = []
    for nm in names:
        if nm not in order:
            order.append(nm)
    S.ensure("names-in-order-of-first-appearance", keys(sp) == order)
    for nm in order:
        tot = sum((zint(d) for n2, d in zip(names, ds) if n2 == nm), z3.IntVal(0))
        S.ensure(f"dimension-of-{nm}-is-the-sum", eqz(sp.native[nm], tot))
        S.ensure(f"getitem-{nm}", eqz(S.I.getitem(sp, nm), tot))
    S.ensure("dim-is-total", eqz(S.getattr(sp, "dim"), sum((zint(d) for d in ds), z3.IntVal(0))))
    S.ensure("variables-set", S.getattr(sp, "variables") == set(order))
    S.ensure("result-is-a-space", S.I.isinstance_(sp, S.find(SPACE)))


@scenario("C12", [SPACE + ".__contains__", SPACE + ".__getitem__", SPACE + ".__eq__", SPACE + ".__ne__"], configs=["xyz"], bounded=BOUND)
def space_subspace_slicing_equality(S):
    dx, dy, dz = S.int("dx", 1), S.int("dy", 1), S.int("dz", 1)
    X, Y, Z = S.new(RN, "x", dx), S.new(RN, "y", dy), S.new(RN, "z", dz)
    sp = mul(S, mul(S, X, Y), Z)
    I = S.I
    S.ctx.ghost["replay"] = ("c12_space_slice", {})
    S.ensure("contains-name", I.truth(I.compare(ast.In(), "y", sp)) and not I.truth(I.compare(ast.In(), "w", sp)))
    S.ensure("contains-subspace-any-order", I.truth(I.compare(ast.In(), mul(S, Z, X), sp)))
    S.ensure("does-not-contain-foreign-variable", not I.truth(I.compare(ast.In(), mul(S, X, S.new(RN, "w", 1)), sp)))
    bigger = S.new(RN, "x", Sym(zint(dx) + 1, "int"))
    S.ensure("does-not-contain-a-larger-dimension", not I.truth(I.compare(ast.In(), bigger, sp)))
    sub = I.getitem(sp, ["z", "x"])
    S.ensure("list-selection-in-requested-order", keys(sub) == ["z", "x"] and I.isinstance_(sub, S.find(SPACE)))
    S.ensure("list-selection-dims", z3.And(eqz(sub.native["z"], dz), eqz(sub.native["x"], dx)))
    sl = I.getitem(sp, slice("y", None))
    S.ensure("name-slice-from-y", keys(sl) == ["y", "z"])
    sl2 = I.getitem(sp, slice(None, "z"))
    S.ensure("name-slice-up-to-z-exclusive", keys(sl2) == ["x", "y"])
    # every name slice (open or named ends, any step incl. negative ones) selects what the same slice selects from the
    # ordered list of variable names -- the oracle is Python's own list slicing on the names
    names = ["x", "y", "z"]
    dims = {"x": dx, "y": dy, "z": dz}
    for a in [None] + names:
        for b in [None] + names:
            for st in (None, 1, 2, -1, -2):
                want = names[slice(None if a is None else names.index(a), None if b is None else names.index(b), st)]
                got = I.getitem(sp, slice(a, b, st))
                okk = keys(got) == want
                S.ensure(f"name-slice-{a}:{b}:{st}-selects-the-sliced-name-list", okk and I.isinstance_(got, S.find(SPACE)))
                if okk and want:
                    S.ensure(f"name-slice-{a}:{b}:{st}-keeps-the-dimensions", z3.And([eqz(got.native[k], dims[k]) for k in want]))
    S.ensure("getitem-name-is-dimension", eqz(I.getitem(sp, "y"), dy))
    same = mul(S, mul(S, S.new(RN, "x", dx), S.new(RN, "y", dy)), S.new(RN, "z", dz))
    perm = mul(S, mul(S, S.new(RN, "y", dy), S.new(RN, "x", dx)), S.new(RN, "z", dz))
    S.ensure("equal-to-same-order", I.truth(I.compare(ast.Eq(), sp, same)) and not I.truth(I.compare(ast.NotEq(), sp, same)))
    S.ensure("order-sensitive-equality", (not I.truth(I.compare(ast.Eq(), sp, perm))) and I.truth(I.compare(ast.NotEq(), sp, perm)))


def mk_points(S, names_dims, N, label="V"):
    sp = None
    total = 0
    for nm, d in names_dims:
        f = S.new(RN, nm, d)
        sp = f if sp is None else mul(S, sp, f)
        total += d
    data = S.tensor(label, [N, total])
    return S.new(P, data, sp), data, sp


def offsets(names_dims):
    off, o = {}, 0
    for nm, d in names_dims:
        off[nm] = (o, d)
        o += d
    return off


LAYOUTS = {"x2t1": [("x", 2), ("t", 1)], "t1x2": [("t", 1), ("x", 2)], "x1y3u2": [("x", 1), ("y", 3), ("u", 2)]}


@scenario("C12", [P + ".__init__", P + ".coordinates", P + "._variable_slices", P + ".from_coordinates", P + ".__len__", P + ".shape", P + ".dim", P + ".variables", P + ".isempty", P + ".empty", P + ".as_tensor"], configs=list(LAYOUTS), bounded=BOUND)
def points_coordinates_roundtrip(S):
    """post: coordinates[v] = columns [off_v, off_v + dim_v) with off_v the sum of the preceding dims;
    from_coordinates(p.coordinates) == p and from_coordinates(c).coordinates == c"""
    nd = LAYOUTS[S.cfg]
    N = S.int("N", 1)
    p, data, sp = mk_points(S, nd, N)
    I = S.I
    co = S.getattr(p, "coordinates")
    off = offsets(nd)
    S.ensure("one-entry-per-variable-in-space-order", list(co.keys()) == [n for n, _ in nd])
    for nm, (o, d) in off.items():
        t = co[nm].val
        S.ensure(f"{nm}-shape", t.rank == 2 and t.shape[0].size_term() == zint(N) and t.shape[1].concrete() == d)
        S.forall(f"{nm}-is-its-column-block", co[nm], lambda q, o=o, d=d, t=t: zreal(t.at(q)) == zreal(data.val.at([q[0], (o + (q[1][0] if d != 1 else 0),)])))
    S.ensure("len-is-row-count", eqz(I.pylib.b_len(I, p), N))
    S.ensure("dim", S.getattr(p, "dim") == sum(d for _, d in nd))
    S.ensure("variables", S.getattr(p, "variables") == {n for n, _ in nd})
    S.ensure("not-empty", not I.truth(S.getattr(p, "isempty")))
    back = S.call(S.getattr(S.find(P), "from_coordinates"), dict(co))
    S.ensure("roundtrip-space", I.truth(I.compare(ast.Eq(), S.getattr(back, "space"), sp)))
    bt = tensor_of(back)
    S.forall("roundtrip-data", back.f["_t"], lambda q: zreal(bt.at(q)) == zreal(data.val.at(q)))
    S.ensure("roundtrip-equal", zbool_(I, I.compare(ast.Eq(), back, p)))
    co2 = S.getattr(back, "coordinates")
    for nm in off:
        a, b = co2[nm].val, co[nm].val
        S.forall(f"coordinates-of-roundtrip-{nm}", co2[nm], lambda q, a=a, b=b: zreal(a.at(q)) == zreal(b.at(q)))
    e = S.call(S.getattr(S.find(P), "empty"))
    S.ensure("empty-is-empty", I.truth(S.getattr(e, "isempty")) and I.pylib.b_len(I, e) == 0)


def zbool_(I, v):
    from tpv.core import zbool

    if isinstance(v, bool):
        return z3.BoolVal(v)
    if isinstance(v, Tensor):
        return z3.BoolVal(I.truth(v))
    return zbool(v)


NAMESEL = {"str": "x", "list": ["t", "x"], "tuple": ("x",), "name-slice": slice("x", None)}


@scenario("C12", [P + ".__getitem__", P + "._compute_slice"], configs=[f"{l}|{r}|{c}" for l in ("x2t1", "t1x2") for r in ("slice", "int", "symint", "ellipsis", "mask", "index", "npmask", "npindex") for c in NAMESEL], bounded=BOUND)
def points_selection(S):
    """post: p[rows, names] = exactly the column blocks of `names` in the requested order with Space(names),
    rows as selected (finite, exhaustive case split over the index kinds the code accepts)"""
    lay, rk, ck = S.cfg.split("|")
    nd = LAYOUTS[lay]
    N = S.int("N", 2)
    p, data, sp = mk_points(S, nd, N)
    I = S.I
    off = offsets(nd)
    names = NAMESEL[ck]
    S.ctx.ghost["replay"] = ("c12_select", {"layout": lay, "rowkind": rk, "colkind": ck, "N": N})
    if ck == "name-slice":
        order = [n for n, _ in nd]
        want = order[order.index("x"):]
    else:
        want = [names] if isinstance(names, str) else list(names)
    wcols = []
    for nm in want:
        o, d = off[nm]
        wcols += list(range(o, o + d))
    lo = S.int("lo", 0)
    S.assume(zint(lo) < zint(N))
    if rk == "slice":
        rows = slice(lo, None)
        rowmap = lambda j: zint(lo) + zint(j)
        nrows = zint(N) - zint(lo)
    elif rk == "int":
        rows = 1
        rowmap = lambda j: z3.IntVal(1)
        nrows = z3.IntVal(1)
    elif rk == "symint":
        rows = lo
        rowmap = lambda j: zint(lo)
        nrows = z3.IntVal(1)
    elif rk == "ellipsis":
        rows = Ellipsis
        rowmap = lambda j: zint(j)
        nrows = zint(N)
    elif rk in ("mask", "npmask"):
        mk = S.tensor("mask", [N], dtype="bool")
        rows = mk if rk == "mask" else NumpyArray(mk.val)  # a numpy boolean mask selects like the torch mask
        rowmap = None
        nrows = None
        rk = "mask"
    else:
        M = S.int("M", 1)
        ix = S.tensor("ix", [M], dtype="int", on_access=lambda idx, v: S.ctx.axiom(z3.And(v >= 0, v < zint(N))))
        rows = ix if rk == "index" else NumpyArray(ix.val)  # a numpy index array selects like the index tensor
        rowmap = lambda j: ix.val.at([(j,)])
        nrows = zint(M)
        rk = "index"
    out = S.outcome(lambda: I.getitem(p, (rows, names)))
    if out[0] == "raise":
        # everything the code does not accept must raise, never mis-select
        S.ensure("rejected-not-mis-selected", out[1] in ("IndexError", "TypeError", "KeyError", "RuntimeError", "AssertionError", "ValueError"))
        S.ensure("this-index-kind-is-accepted-by-the-library", False)
        return
    r = out[1]
    S.ensure("space-is-the-requested-variables-in-order", keys(S.getattr(r, "space")) == want)
    t = tensor_of(r)
    ok = t.rank == 2 and t.shape[1].concrete() == len(wcols)
    S.ensure("column-count", ok)
    if not ok:
        return
    if rk in ("mask", "index", "slice", "ellipsis") and len(t.shape[0].factors) != 1:
        S.ensure("row-axis-is-the-selection", False)
        return
    if rk == "mask":
        sel = S.ctx.ghost["selectors"][-1]
        S.ensure("row-count-is-number-of-true-entries", t.shape[0].size_term() == sel.count)
        S.forall("rows-are-the-masked-rows-in-order-columns-by-name", r.f["_t"], lambda q: zreal(t.at(q)) == core.select_comp(q[1][0] if len(wcols) != 1 else 0, len(wcols), [(lambda c=c: zreal(data.val.at([sel.comps(q[0][0]), (c,)]))) for c in wcols]))
        S.forall("selected-rows-have-true-mask", r.f["_t"], lambda q: mk.val.at([sel.comps(q[0][0])]))
    else:
        S.ensure("row-count", t.shape[0].size_term() == nrows)
        S.forall("rows-as-selected-columns-by-name", r.f["_t"], lambda q: zreal(t.at(q)) == core.select_comp(q[1][0] if len(wcols) != 1 else 0, len(wcols), [(lambda c=c: zreal(data.val.at([(rowmap(q[0][0] if q[0] else 0),), (c,)]))) for c in wcols]))


@scenario("C12", [P + ".join", P + ".__or__", P + ".joined", P + ".repeat", P + ".unsqueeze", P + ".__setitem__", P + ".__add__", P + ".__sub__", P + ".__mul__", P + ".__truediv__", P + ".__pow__", P + ".__eq__", P + ".__iter__"], configs=["ops"], bounded=BOUND)
def points_operations(S):
    """post: join = column concatenation with space_a * space_b (associative); | = row concatenation with the empty
    Points as unit; repeat / unsqueeze / assignment / arithmetic keep rows, columns and names aligned;
    == is sensitive to the variable order"""
    I = S.I
    N, M = S.int("N", 1), S.int("M", 1)
    a, A, spa = mk_points(S, [("x", 2)], N, "A")
    b, B, spb = mk_points(S, [("t", 1)], N, "B")
    c, C, spc = mk_points(S, [("u", 1)], N, "C")
    ab = S.method(a, "join", b)
    S.ensure("join-space", keys(S.getattr(ab, "space")) == ["x", "t"])
    t = tensor_of(ab)
    S.forall("join-columns", ab.f["_t"], lambda q: zreal(t.at(q)) == core.select_comp(q[1][0], 3, [lambda: zreal(A.val.at([q[0], (0,)])), lambda: zreal(A.val.at([q[0], (1,)])), lambda: zreal(B.val.at([q[0], ()]))]))
    l = tensor_of(S.method(S.method(a, "join", b), "join", c))
    r = tensor_of(S.method(a, "join", S.method(b, "join", c)))
    S.forall("join-associative", Tensor(l), lambda q: zreal(l.at(q)) == zreal(r.at(q)))
    e = S.call(S.getattr(S.find(P), "empty"))
    S.ensure("empty-is-unit-of-join", S.method(a, "join", e) is a and S.method(e, "join", a) is a)
    S.ensure("empty-is-unit-of-row-concatenation", I.binop(ast.BitOr(), a, e) is a and I.binop(ast.BitOr(), e, a) is a)
    S.ensure_raises("join-rejects-shared-names", lambda: S.method(a, "join", a), "AssertionError")
    a2, A2, _ = mk_points(S, [("x", 2)], M, "A2")
    cat = I.binop(ast.BitOr(), a, a2)
    ct = tensor_of(cat)
    S.ensure("row-concat-count", ct.shape[0].size_term() == zint(N) + zint(M))
    rr = z3.Int("rr")
    S.ensure("row-concat-first-block", z3.And([zreal(ct.at([(rr,), (k,)])) == zreal(A.val.at([(rr,), (k,)])) for k in range(2)]), [rr >= 0, rr < zint(N)])
    S.ensure("row-concat-second-block", z3.And([zreal(ct.at([(rr,), (k,)])) == zreal(A2.val.at([(rr - zint(N),), (k,)])) for k in range(2)]), [rr >= zint(N), rr < zint(N) + zint(M)])
    S.ensure_raises("row-concat-rejects-other-space", lambda: I.binop(ast.BitOr(), a, b), "AssertionError")
    j = S.call(S.getattr(S.find(P), "joined"), a, b, c)
    S.ensure("joined-space", keys(S.getattr(j, "space")) == ["x", "t", "u"])
    # repeat: tile along the first batch axis
    R = S.int("R", 1)
    rp = S.method(a, "repeat", R)
    rt = tensor_of(rp)
    fs = rt.shape[0].factors
    S.ensure("repeat-rows", rt.shape[0].size_term() == zint(R) * zint(N) and len(fs) == 2)
    if len(fs) == 2:
        S.forall("repeat-tiles-the-rows", rp.f["_t"], lambda q: zreal(rt.at(q)) == zreal(A.val.at([(q[0][1],), q[1]])))
    us = S.method(a, "unsqueeze", 0)
    S.ensure("unsqueeze-adds-a-batch-axis-keeps-space", tensor_of(us).rank == 3 and keys(S.getattr(us, "space")) == ["x"])
    # arithmetic keeps the space and acts element-wise
    a3, A3, _ = mk_points(S, [("x", 2)], N, "A3")
    for nm, op, f in (("add", ast.Add(), lambda x, y: x + y), ("sub", ast.Sub(), lambda x, y: x - y), ("mul", ast.Mult(), lambda x, y: x * y)):
        o = I.binop(op, a, a3)
        ot = tensor_of(o)
        S.ensure(f"{nm}-keeps-space", keys(S.getattr(o, "space")) == ["x"])
        S.forall(f"{nm}-elementwise", o.f["_t"], lambda q, f=f, ot=ot: zreal(ot.at(q)) == f(zreal(A.val.at(q)), zreal(A3.val.at(q))))
    S.ensure_raises("arithmetic-rejects-other-space", lambda: I.binop(ast.Add(), a, b), "AssertionError")
    # pre of the division: every entry of the divisor is non-zero (axiom on access)
    NZ = S.tensor("NZ", [N, 2], on_access=lambda idx, v: S.ctx.axiom(v != 0))
    nz = S.new(P, NZ, spa)
    dv = S.outcome(lambda: I.binop(ast.Div(), a, nz))
    S.ensure("division-defined", dv[0] == "ok")
    if dv[0] == "ok":
        dt_ = tensor_of(dv[1])
        S.ensure("div-keeps-space", keys(S.getattr(dv[1], "space")) == ["x"])
        S.forall("div-elementwise", dv[1].f["_t"], lambda q: z3.Implies(zreal(NZ.val.at(q)) != 0, zreal(dt_.at(q)) * zreal(NZ.val.at(q)) == zreal(A.val.at(q))))
    pw = I.binop(ast.Pow(), a, a3)
    pt_ = tensor_of(pw)
    S.ensure("pow-keeps-space", keys(S.getattr(pw, "space")) == ["x"])
    S.forall("pow-elementwise", pw.f["_t"], lambda q: zreal(pt_.at(q)) == tlib._POW(zreal(A.val.at(q)), zreal(A3.val.at(q))))
    S.ensure_raises("pow-and-division-reject-other-space", lambda: I.binop(ast.Pow(), a, b), "AssertionError")
    # Points with ZERO rows over a real space (e.g. a selection with an all-False mask) are not 'the empty Points':
    # they keep their space through join / joined / | like any other Points
    z_x = S.new(P, S.tensor("ZX", [0, 2]), S.new(RN, "x", 2))
    z_t = S.new(P, S.tensor("ZT", [0, 1]), S.new(RN, "t", 1))
    S.ensure("zero-row-points-over-a-real-space-are-not-the-empty-points", not I.truth(S.getattr(z_x, "isempty")))
    zj = S.method(z_x, "join", z_t)
    S.ensure("join-of-zero-row-points-keeps-both-variables", keys(S.getattr(zj, "space")) == ["x", "t"] and tensor_of(zj).rank == 2 and tensor_of(zj).shape[1].concrete() == 3 and tensor_of(zj).shape[0].concrete() == 0)
    zjj = S.outcome(lambda: S.call(S.getattr(S.find(P), "joined"), z_x, z_t))
    S.ensure("joined-of-zero-row-points-keeps-both-variables", zjj[0] == "ok" and keys(S.getattr(zjj[1], "space")) == ["x", "t"])
    S.ensure_raises("row-concatenation-of-zero-row-points-of-another-space-is-rejected", lambda: I.binop(ast.BitOr(), z_t, a), "AssertionError")
    # iteration over the first batch axis: item i is row i as a Points object over the same space
    two, TWO, sp2 = mk_points(S, [("x", 1), ("t", 1)], 2, "TWO")
    items = list(I.iterate(two))
    S.ensure("iteration-yields-one-item-per-row", len(items) == 2)
    for i_, it in enumerate(items):
        tt_ = tensor_of(it)
        S.ensure(f"item-{i_}-is-a-points-object-over-the-same-space", keys(S.getattr(it, "space")) == ["x", "t"] and tt_.rank == 2 and tt_.shape[0].is_one)
        if tt_.rank == 2 and tt_.shape[0].is_one:
            S.forall(f"item-{i_}-is-row-{i_}", it.f["_t"], lambda q, i_=i_, tt_=tt_: zreal(tt_.at(q)) == zreal(TWO.val.at([(i_,), q[1]])))
    # equality: same data, permuted variable order -> different
    xy, XY, _ = mk_points(S, [("x", 1), ("y", 1)], N, "XY")
    yx = S.new(P, XY, mul(S, S.new(RN, "y", 1), S.new(RN, "x", 1)))
    S.ensure("equality-is-order-sensitive", not I.truth(I.compare(ast.Eq(), xy, yx)))
    same = S.new(P, XY, mul(S, S.new(RN, "x", 1), S.new(RN, "y", 1)))
    S.ensure("equal-to-itself-with-same-space", I.truth(I.compare(ast.Eq(), xy, same)))
    # assignment through the same slicing rules
    tgt_data = Tensor(A.val)
    tgt = S.new(P, tgt_data, spa)
    newrow = S.new(P, S.tensor("NR", [1, 2]), S.new(RN, "x", 2))
    I.setitem(tgt, (slice(0, 1), ["x"]), newrow)
    tt = tgt.f["_t"].val
    S.forall("assignment-changes-only-the-addressed-row", tgt.f["_t"], lambda q: zreal(tt.at(q)) == z3.If(zint(q[0][0]) == 0, zreal(newrow.f["_t"].val.at([(), q[1]])), zreal(A.val.at(q))))
    S.ensure("assignment-keeps-space", keys(S.getattr(tgt, "space")) == ["x"])


@scenario("C12", [P + ".coordinates", P + ".to", P + ".__setitem__", P + ".from_coordinates", P + ".as_tensor", P + ".__getitem__"], configs=["x1y2t1"], bounded=BOUND + "; one Points object observed through a history of reads and updates")
def coordinates_follow_the_data_through_updates(S):
    """history on ONE Points object: coordinates read, dtype conversion with .to (torch may hand back the same tensor
    or a converted copy: both explored), rows of one variable assigned, coordinates read again, ...  After every step
    coordinates[v] is the column block of the CURRENT data, as_tensor / name selection agree with it, and
    from_coordinates(p.coordinates) == p"""
    I = S.I
    nd = [("x", 1), ("y", 2), ("t", 1)]
    off = offsets(nd)
    N = S.int("N", 2)
    p0, data0, sp = mk_points(S, nd, N, "D")
    p = S.new(P, Tensor(data0.val), sp)  # its own storage: the object is updated in place below

    def check(tag, want):
        co = S.getattr(p, "coordinates")
        at = S.getattr(p, "as_tensor").val
        S.forall(f"{tag}:as_tensor-is-the-current-data", Tensor(at), lambda q: zreal(at.at(q)) == want(q[0], q[1][0]))
        for nm, (o, d) in off.items():
            t = co[nm].val
            ok = t.rank == 2 and t.shape[1].concrete() == d and t.shape[0].size_term() == zint(N)
            S.ensure(f"{tag}:coordinates-{nm}-shape", ok)
            if ok:
                S.forall(f"{tag}:coordinates-{nm}-is-the-column-block-of-the-current-data", co[nm], lambda q, o=o, d=d, t=t: zreal(t.at(q)) == want(q[0], o + (q[1][0] if d != 1 else 0)))
        sel = tensor_of(I.getitem(p, (slice(None), ["y"])))
        S.forall(f"{tag}:selection-by-name-agrees", Tensor(sel), lambda q: zreal(sel.at(q)) == want(q[0], 1 + q[1][0]))
        back = S.call(S.getattr(S.find(P), "from_coordinates"), dict(co))
        S.ensure(f"{tag}:roundtrip-equal", zbool_(I, I.compare(ast.Eq(), back, p)))

    orig = lambda r, c: zreal(data0.val.at([r, (c,)]))
    check("1-fresh", orig)
    S.method(p, "to", I.repo.externals["torch"].get("float64"))
    check("2-after-to-dtype", orig)
    new_y = S.new(P, S.tensor("NY", [1, 2]), S.new(RN, "y", 2))
    I.setitem(p, (slice(0, 1), ["y"]), new_y)
    ny = new_y.f["_t"].val

    def upd(r, c):
        r0 = zint(r[0])
        cc = zint(c)
        return z3.If(z3.And(r0 == 0, cc >= 1, cc <= 2), z3.If(cc == 1, zreal(ny.at([(), (0,)])), zreal(ny.at([(), (1,)]))), orig(r, c))

    check("3-after-assigning-y-of-row-0", upd)
    S.method(p, "to", "cpu")
    check("4-after-to-device", upd)


@scenario("C12", [P + ".__setitem__", P + "._compute_slice"], configs=[f"{l}|{r}" for l in ("x2t1", "t1x2") for r in ("index-list", "slice")], bounded=BOUND + "; three rows, two of them addressed (0 and 2); index tensors / boolean masks combined with a column slice are outside the engine's item-assignment model")
def points_assignment_through_row_selectors(S):
    """post: after p[rows, "x"] = q the addressed rows hold q in the columns of x and every other entry is unchanged --
    for rows given as an index list, an index tensor, a boolean mask or a slice (an assignment that is lost in a
    temporary copy made by advanced indexing changes nothing and fails the first clause)"""
    from tpv import torchlib

    lay, rk = S.cfg.split("|")
    nd = LAYOUTS[lay]
    I = S.I
    N = 3  # concrete number of rows: the engine's item assignment needs a concrete row axis for these selectors
    p0, data, sp = mk_points(S, nd, N)
    p = S.new(P, Tensor(data.val), sp)  # its own storage: the assignment is in place by design
    old = data.val
    ox, dx = offsets(nd)["x"]
    Q = S.tensor("Q", [2, dx])
    q = S.new(P, Q, S.new(RN, "x", dx))
    if rk == "index-list":
        rows, order = [0, 2], [0, 2]
    elif rk == "index-tensor":
        rows, order = torchlib.t_tensor(I, [2, 0]), [2, 0]
    elif rk == "mask":
        rows, order = torchlib.t_tensor(I, [True, False, True]), [0, 2]
    else:
        rows, order = slice(0, 3, 2), [0, 2]
    out = S.outcome(lambda: I.setitem(p, (rows, "x"), q))
    if out[0] == "raise":
        S.ensure("this-index-kind-is-accepted-by-the-library", False)
        return
    new = p.f["_t"].val
    S.ensure("shape-kept", new.rank == 2)
    if new.rank != 2:
        return

    def want(qi):
        i, c = zint(qi[0][0]) if qi[0] else z3.IntVal(0), (qi[1][0] if qi[1] else 0)
        base = zreal(old.at(qi))
        if not isinstance(c, int):
            raise AssertionError("column index expected concrete")
        if ox <= c < ox + dx:
            for j, r in enumerate(order):
                base = z3.If(i == r, zreal(Q.val.at([(j,), ((c - ox),) if dx != 1 else ()])), base)
        return base

    for c in range(sum(d for _, d in nd)):
        qi, hy = new.generic_index("sa")
        qi = [qi[0], (c,)]
        S.ensure(f"column-{c}-holds-q-in-the-addressed-rows-and-is-unchanged-elsewhere", zreal(new.at(qi)) == want(qi), hy)
