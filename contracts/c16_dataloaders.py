"""C16 — data loaders deliver every datum with intact input/target pairing.

Contracts on PointsDataset, DeepONetDataset, DeepONetDataset_Unique (integer index arithmetic),
sizes N, batch sizes and the batch index are symbolic integers (unbounded).
Assumed external contract (A5): DataLoader(ds, batch_size=None, shuffle=False) yields ds[0..len(ds)-1] once each.
"""
import ast

import z3

from tpv.spec import scenario
from tpv.core import zint, Sym

PD = "torchphysics.utils.data.dataloader.PointsDataset"
DD = "torchphysics.utils.data.deeponet_dataloader.DeepONetDataset"
DU = "torchphysics.utils.data.deeponet_dataloader.DeepONetDataset_Unique"
POINTS = "torchphysics.problem.spaces.points.Points"
R1 = "torchphysics.problem.spaces.space.R1"
R2 = "torchphysics.problem.spaces.space.R2"


def T(points):
    return points.f["_t"].val


def _points_ds(S, shuffle, drop_last):
    N = S.int("N", 1)
    bs = S.int("bs", 1)
    X = S.tensor("X", [N, 2])
    U = S.tensor("U", [N, 1])
    px = S.new(POINTS, X, S.new(R2, "x"))
    pu = S.new(POINTS, U, S.new(R1, "u"))
    ds = S.new(PD, (px, pu), bs, shuffle=shuffle, drop_last=drop_last)
    return N, bs, X, U, ds


@scenario("C16", [PD + ".__init__", PD + ".__len__", PD + ".__getitem__"], configs=["keep-tail", "drop-last"])
def points_dataset_batches(S):
    """post (__getitem__): batch idx holds rows [idx*bs, min((idx+1)*bs, N)) of EVERY point set, same rows
    in the same order (pairing), at most bs rows; (__len__) = ceil(N/bs) resp. floor(N/bs)"""
    drop = S.cfg == "drop-last"
    N, bs, X, U, ds = _points_ds(S, False, drop)
    L = S.method(ds, "__len__")
    n, b = zint(N), zint(bs)
    if drop:
        S.ensure("len-is-floor", z3.And(zint(L) * b <= n, n < (zint(L) + 1) * b))
    else:
        S.ensure("len-is-ceil", z3.And((zint(L) - 1) * b < n, n <= zint(L) * b))
    idx = S.int("idx", 0)
    S.assume(zint(idx) < zint(L))
    S.cover("some-batch-exists")
    out = S.method(ds, "__getitem__", idx)
    S.ensure("two-point-sets", len(out) == 2)
    bx, bu = T(out[0]), T(out[1])
    i = zint(idx)
    rows = bx.shape[0].size_term()
    hi = z3.If((i + 1) * b < n, (i + 1) * b, n)
    S.ensure("batch-row-count", rows == hi - i * b)
    S.ensure("batch-not-larger-than-requested", z3.And(rows <= b, rows >= 1))
    S.ensure("target-has-same-row-count", bu.shape[0].size_term() == rows)
    S.forall("input-rows-are-the-slice", bx, lambda q: bx.at(q) == X.val.at([(i * b + q[0][0],), q[1]]))
    S.forall("target-rows-are-the-same-slice", bu, lambda q: bu.at(q) == U.val.at([(i * b + q[0][0],), q[1]]))
    # coverage lemma with ghost witness idx = e div bs
    e = z3.Int("e")
    w = e / b
    tail = n - (n % b) if drop else n
    hyp = [e >= 0, e < tail]
    Lz = zint(L)
    S.ensure("coverage-witness-is-a-batch", z3.And(w >= 0, w < Lz), hyp, kind="lemma")
    S.ensure("coverage-sample-in-witness-batch", z3.And(w * b <= e, e < z3.If((w + 1) * b < n, (w + 1) * b, n)), hyp, kind="lemma")
    S.canary("batch-rows-shifted-by-one", bx.at([(0,), (0,)]) == X.val.at([(i * b + 1,), (0,)]))


@scenario("C16", [PD + ".__init__"], configs=["shuffle"])
def points_dataset_shuffle(S):
    """post: shuffling applies ONE permutation to every point set (pairing kept, every sample still present)"""
    N, bs, X, U, ds = _points_ds(S, True, False)
    dps = S.getattr(ds, "data_points")
    sx, su = T(dps[0]), T(dps[1])
    S.ensure("row-count-kept", z3.And(sx.shape[0].size_term() == zint(N), su.shape[0].size_term() == zint(N)))
    # rho = the permutation drawn by randperm (ghost: recorded by the randperm contract)
    pf = S.ctx.ghost.get("last_perm")
    S.ensure("perm-recorded", pf is not None)
    if pf is not None:
        f, inv, nn = pf
        S.forall("input-permuted-by-rho", dps[0].f["_t"], lambda q: sx.at(q) == X.val.at([(f(zint(q[0][0])),), q[1]]))
        S.forall("target-permuted-by-the-same-rho", dps[1].f["_t"], lambda q: su.at(q) == U.val.at([(f(zint(q[0][0])),), q[1]]))
        e = z3.Int("e")
        # every original row e appears at position inv(e): instantiate the permutation axiom at inv(e)
        S.ensure("rho-is-onto", z3.And(inv(e) >= 0, inv(e) < nn, f(inv(e)) == e), [e >= 0, e < nn, z3.And(inv(e) >= 0, inv(e) < nn, f(inv(e)) == e)], kind="lemma")


def _deeponet(S, unique, shuffle_b=False, shuffle_t=False):
    Nb = S.int("Nb", 1)
    Nt = S.int("Nt", 1)
    bb = S.int("bb", 1)
    bt = S.int("bt", 1)
    S.assume(zint(bb) <= zint(Nb))
    S.assume(zint(bt) <= zint(Nt))
    B = S.tensor("B", [Nb, 3, 1])
    Tr = S.tensor("T", [Nb, Nt, 2] if unique else [Nt, 2])
    O = S.tensor("O", [Nb, Nt, 1])
    sb, st, so = S.new(R1, "f"), S.new(R2, "x"), S.new(R1, "u")
    ds = S.new(DU if unique else DD, B, Tr, O, sb, st, so, bb, bt, shuffle_branch=shuffle_b, shuffle_trunk=shuffle_t)
    return Nb, Nt, bb, bt, B, Tr, O, ds


@scenario("C16", [DD + ".__init__", DD + "._slice_points", DD + ".__getitem__"], configs=["plain", "shuffle-both"])
def deeponet_dataset_pairing(S):
    """post (__getitem__): branch rows pi_b((a_b + r) mod Nb), trunk rows pi_t((a_t + s) mod Nt) and
    out[r, s] = O[pi_b(..), pi_t(..)] -- i.e. output[i, j] belongs to branch i and trunk j, also through the
    shuffles (ONE permutation per axis applied to inputs and outputs alike)"""
    sh = S.cfg == "shuffle-both"
    Nb, Nt, bb, bt, B, Tr, O, ds = _deeponet(S, False, sh, sh)
    idx = S.int("idx", 0)
    out = S.method(ds, "__getitem__", idx)
    pb, pt, po = T(out[0]), T(out[1]), T(out[2])
    i, nb, nt, b_, t_ = zint(idx), zint(Nb), zint(Nt), zint(bb), zint(bt)
    ab = (i * b_) % nb
    at = (i * t_) % nt
    rb = pb.shape[0].size_term()
    rt = pt.shape[0].size_term()
    S.ensure("branch-batch-size", z3.And(rb >= 1, rb <= nb))
    S.ensure("trunk-batch-size", z3.And(rt >= 1, rt <= nt))
    S.ensure("output-batch-shape", z3.And(po.shape[0].size_term() == rb, po.shape[1].size_term() == rt))
    if sh:
        perms = S.ctx.ghost.get("perms", [])
        S.ensure("two-permutations-drawn", len(perms) == 2)
        ft, fb = perms[0][0], perms[1][0]
    else:
        ft = fb = lambda x: x

    def wrap(a, r, n):
        return z3.If(a + r < n, a + r, a + r - n)

    S.forall("branch-rows", pb, lambda q: pb.at(q) == B.val.at([(fb(wrap(ab, zint(q[0][0]), nb)),), q[1], q[2]]))
    S.forall("trunk-rows", pt, lambda q: pt.at(q) == Tr.val.at([(ft(wrap(at, zint(q[0][0]), nt)),), q[1]]))
    S.forall("output-i-j-belongs-to-branch-i-trunk-j", po, lambda q: po.at(q) == O.val.at([(fb(wrap(ab, zint(q[0][0]), nb)),), (ft(wrap(at, zint(q[1][0]), nt)),), q[2]]))


@scenario("C16", [DU + ".__init__", DU + ".__len__", DU + ".__getitem__"], configs=["plain"])
def deeponet_unique_pairing_and_coverage(S):
    """post (__getitem__): out[r, s] = O[rho_b r, rho_t s] with the same rho_b / rho_t as the branch / trunk rows;
    (__len__) = ceil(Nb/bb)*ceil(Nt/bt); coverage lemma: every (function i, location j) pair lies in batch
    idx = (i div bb)*Lt + (j div bt)  (ghost witness)"""
    Nb, Nt, bb, bt, B, Tr, O, ds = _deeponet(S, True)
    nb, nt, b_, t_ = zint(Nb), zint(Nt), zint(bb), zint(bt)
    L = zint(S.method(ds, "__len__"))
    Lb0 = zint(S.getattr(ds, "branch_batch_len"))
    Lt0 = zint(S.getattr(ds, "trunk_batch_len"))
    S.ensure("len-is-product", L == Lb0 * Lt0)
    Lb = S.abstract_field(ds, "branch_batch_len", "Lb", lambda v: z3.And((v - 1) * b_ < nb, nb <= v * b_, v >= 1)).t
    Lt = S.abstract_field(ds, "trunk_batch_len", "Lt", lambda v: z3.And((v - 1) * t_ < nt, nt <= v * t_, v >= 1)).t
    # ghost witness: batch index of pair (gi, gj);  wb = gi div bb, wt = gj div bt
    gi, gj, wb, wt = z3.Int("gi"), z3.Int("gj"), z3.Int("wb"), z3.Int("wt")
    S.assume(z3.And(gi >= 0, gi < nb, gj >= 0, gj < nt))
    S.assume(z3.And(wb >= 0, wt >= 0, wb * b_ <= gi, gi < (wb + 1) * b_, wt * t_ <= gj, gj < (wt + 1) * t_))
    S.ctx.ghost["replay"] = ("c16_unique", {"Nb": nb, "Nt": nt, "bb": b_, "bt": t_, "i": gi, "j": gj})
    S.lemma("wb-lt-Lb", wb < Lb)
    S.lemma("wt-lt-Lt", wt < Lt)
    idx_t = wb * Lt + wt
    S.lemma("witness-is-a-batch-index", z3.And(idx_t >= 0, idx_t < Lb * Lt))
    S.lemma("witness-div", idx_t / Lt == wb)
    S.lemma("witness-mod", idx_t % Lt == wt)
    S.lemma("branch-start-no-wrap", (wb * b_) % nb == wb * b_)
    S.lemma("trunk-start-no-wrap", (wt * t_) % nt == wt * t_)
    S.lemma("branch-end", ((wb + 1) * b_) % nb == z3.If((wb + 1) * b_ < nb, (wb + 1) * b_, (wb + 1) * b_ - nb))
    S.lemma("trunk-end", ((wt + 1) * t_) % nt == z3.If((wt + 1) * t_ < nt, (wt + 1) * t_, (wt + 1) * t_ - nt))
    out = S.method(ds, "__getitem__", Sym(idx_t, "int"))
    pb, pt, po = T(out[0]), T(out[1]), T(out[2])
    rb, rt = pb.shape[0].size_term(), pt.shape[1].size_term()
    ab, at = wb * b_, wt * t_

    def wrap(a, r, n):
        return z3.If(a + r < n, a + r, a + r - n)

    S.ensure("batch-sizes", z3.And(rb >= 1, rb <= b_, rt >= 1, rt <= t_, po.shape[0].size_term() == rb, po.shape[1].size_term() == rt, pt.shape[0].size_term() == rb))
    S.forall("branch-rows", pb, lambda q: pb.at(q) == B.val.at([(wrap(ab, zint(q[0][0]), nb),), q[1], q[2]]))
    S.forall("trunk-rows", pt, lambda q: pt.at(q) == Tr.val.at([(wrap(ab, zint(q[0][0]), nb),), (wrap(at, zint(q[1][0]), nt),), q[2]]))
    S.forall("output-i-j-belongs-to-branch-i-trunk-j", po, lambda q: po.at(q) == O.val.at([(wrap(ab, zint(q[0][0]), nb),), (wrap(at, zint(q[1][0]), nt),), q[2]]))
    S.ensure("coverage-pair-in-witness-batch", z3.And(gi - ab >= 0, gi - ab < rb, gj - at >= 0, gj - at < rt), kind="lemma")


@scenario("C16", [DU + ".__init__"], configs=["shuffle-trunk", "shuffle-branch", "shuffle-both"])
def deeponet_unique_shuffles_inputs_and_targets_with_the_same_permutations(S):
    """DeepONetDataset_Unique.__init__ with shuffling (per-function trunk layout): the stored tensors are
    branch[r] = B[pi_b r],  trunk[r, s] = T[pi_b r, pi_t s],  out[r, s] = O[pi_b r, pi_t s]
    with ONE permutation per axis (the drawn ones) applied to inputs and targets alike; __getitem__ then only slices
    the stored tensors (scenario deeponet_unique_pairing_and_coverage, proved for arbitrary stored contents)."""
    sb_, st_ = S.cfg in ("shuffle-branch", "shuffle-both"), S.cfg in ("shuffle-trunk", "shuffle-both")
    Nb, Nt, bb, bt, B, Tr, O, ds = _deeponet(S, True, sb_, st_)
    perms = S.ctx.ghost.get("perms", [])
    S.ensure("one-permutation-per-shuffled-axis", len(perms) == int(sb_) + int(st_))
    if len(perms) != int(sb_) + int(st_):
        return
    ident = lambda x: x
    ft = perms[0][0] if st_ else ident
    fb = perms[-1][0] if sb_ else ident
    sbp, stp, sop = S.getattr(ds, "branch_data_points").val, S.getattr(ds, "trunk_data_points").val, S.getattr(ds, "out_data_points").val
    ok = sbp.rank == 3 and stp.rank == 3 and sop.rank == 3
    S.ensure("stored-tensors-keep-their-rank", ok)
    if not ok:
        return
    S.ensure("stored-sizes", z3.And(sbp.shape[0].size_term() == zint(Nb), stp.shape[0].size_term() == zint(Nb), stp.shape[1].size_term() == zint(Nt), sop.shape[0].size_term() == zint(Nb), sop.shape[1].size_term() == zint(Nt)))
    S.forall("branch-r-is-function-pi_b-r", sbp, lambda q: sbp.at(q) == B.val.at([(fb(zint(q[0][0])),), q[1], q[2]]))
    S.forall("trunk-r-s-is-location-pi_t-s-of-function-pi_b-r", stp, lambda q: stp.at(q) == Tr.val.at([(fb(zint(q[0][0])),), (ft(zint(q[1][0])),), q[2]]))
    S.forall("target-r-s-belongs-to-function-pi_b-r-at-location-pi_t-s", sop, lambda q: sop.at(q) == O.val.at([(fb(zint(q[0][0])),), (ft(zint(q[1][0])),), q[2]]))


def _index_tensor(shape, axis):
    """tensor whose entries equal their own index along `axis` (provenance marker)"""
    from tpv.core import STensor, dim_of, zreal
    from tpv.tlib import Tensor

    dims = [dim_of(s) for s in shape]
    return Tensor(STensor(dims, lambda idx: zreal(idx[axis][0] if idx[axis] else 0), "real"))


@scenario("C16", [DD + ".__len__", DD + ".__getitem__", DD + "._slice_points"], configs=["all-trunk-points-per-batch", "all-functions-per-batch"])
def deeponet_dataset_coverage_single_axis(S):
    """coverage lemma where one axis is delivered whole (batch size -1): every (function i, location j) pair
    lies in batch idx = i div bb (resp. j div bt) and that index is < len(dataset)"""
    trunk_all = S.cfg == "all-trunk-points-per-batch"
    Nb, Nt = S.int("Nb", 1), S.int("Nt", 1)
    bsz = S.int("bs", 1)
    nb, nt, b_ = zint(Nb), zint(Nt), zint(bsz)
    n_ax = nb if trunk_all else nt
    S.assume(b_ <= n_ax)
    B = _index_tensor([Nb, 3, 1], 0)
    Tr = _index_tensor([Nt, 1], 0)
    O = S.tensor("O", [Nb, Nt, 1])
    ds = S.new(DD, B, Tr, O, S.new(R1, "f"), S.new(R1, "x"), S.new(R1, "u"), bsz if trunk_all else -1, -1 if trunk_all else bsz, shuffle_branch=False, shuffle_trunk=False)
    L = zint(S.method(ds, "__len__"))
    gi, gj, w = z3.Int("gi"), z3.Int("gj"), z3.Int("w")
    S.assume(z3.And(gi >= 0, gi < nb, gj >= 0, gj < nt, w >= 0))
    g = gi if trunk_all else gj
    S.assume(z3.And(w * b_ <= g, g < (w + 1) * b_))
    S.ctx.ghost["replay"] = ("c16_deeponet", {"Nb": nb, "Nt": nt, "bb": b_ if trunk_all else -1, "bt": -1 if trunk_all else b_})
    lc = S.ctx.ghost.get("lcm", [])
    S.ensure("lcm-calls-seen", len(lc) >= 1)
    S.lemma("witness-start-no-wrap", (w * b_) % n_ax == w * b_)
    S.lemma("witness-end", ((w + 1) * b_) % n_ax == z3.If((w + 1) * b_ < n_ax, (w + 1) * b_, (w + 1) * b_ - n_ax))
    S.lemma("other-axis-start", (w * (nt if trunk_all else nb)) % (nt if trunk_all else nb) == 0)
    S.lemma("other-axis-end", ((w + 1) * (nt if trunk_all else nb)) % (nt if trunk_all else nb) == 0)
    S.ensure("witness-is-a-batch-index", w < L, kind="lemma")
    out = S.method(ds, "__getitem__", Sym(w, "int"))
    pb, pt = T(out[0]), T(out[1])
    rb, rt = pb.shape[0].size_term(), pt.shape[0].size_term()
    a = w * b_
    if trunk_all:
        S.ensure("pair-covered", z3.And(gi - a >= 0, gi - a < rb, pb.at([(gi - a,), (0,), ()]) == z3.ToReal(gi), gj < rt, pt.at([(gj,), ()]) == z3.ToReal(gj)), kind="lemma")
    else:
        S.ensure("pair-covered", z3.And(gj - a >= 0, gj - a < rt, pt.at([(gj - a,), ()]) == z3.ToReal(gj), gi < rb, pb.at([(gi,), (0,), ()]) == z3.ToReal(gi)), kind="lemma")


@scenario("C16", [DD + ".__len__", DD + ".__getitem__"], configs=["4,4,2,2", "6,4,2,2", "6,5,2,1", "5,3,5,1"], bounded="concrete data-set / batch sizes (instances); used to exhibit the coverage defect, never counted as proved")
def deeponet_dataset_coverage_instance(S):
    """coverage on concrete sizes: every (function i, location j) pair appears in some batch of one pass"""
    Nb, Nt, bb, bt = (int(x) for x in S.cfg.split(","))
    B = _index_tensor([Nb, 3, 1], 0)
    Tr = _index_tensor([Nt, 1], 0)
    O = S.tensor("O", [Nb, Nt, 1])
    ds = S.new(DD, B, Tr, O, S.new(R1, "f"), S.new(R1, "x"), S.new(R1, "u"), bb, bt, shuffle_branch=False, shuffle_trunk=False)
    L = S.method(ds, "__len__")
    S.ensure("len-is-concrete", isinstance(L, int))
    gi, gj = z3.Int("gi"), z3.Int("gj")
    S.assume(z3.And(gi >= 0, gi < Nb, gj >= 0, gj < Nt))
    S.ctx.ghost["replay"] = ("c16_deeponet", {"Nb": Nb, "Nt": Nt, "bb": bb, "bt": bt})
    alts = []
    for idx in range(L):
        out = S.method(ds, "__getitem__", idx)
        pb, pt = T(out[0]), T(out[1])
        inb = z3.Or([pb.at([(r,) if pb.shape[0].concrete() != 1 else (), (0,), ()]) == z3.ToReal(gi) for r in range(pb.shape[0].concrete())])
        int_ = z3.Or([pt.at([(s,) if pt.shape[0].concrete() != 1 else (), ()]) == z3.ToReal(gj) for s in range(pt.shape[0].concrete())])
        alts.append(z3.And(inb, int_))
    S.ensure("every-pair-presented-in-one-pass", z3.Or(alts) if alts else False)


# ----------------------------------------------------------------------------- DataCondition on the full data set
COND = "torchphysics.problem.conditions.condition.DataCondition"
RN = "torchphysics.problem.spaces.space.Rn"


class BatchFamily:
    """an arbitrary data loader: M >= 0 batches; batch i has NR(i) >= 1 rows, inputs FX(i, r, c) in the space t*x and
    targets FY(i, r, c) in the two-dimensional space u (contract of iterating a DataLoader once, A5: every batch exactly once, in order)"""

    def __init__(self, S, M):
        self.S, self.M = S, M
        self.NR = z3.Function("batch_rows", z3.IntSort(), z3.IntSort())
        self.FX = z3.Function("batch_x", z3.IntSort(), z3.IntSort(), z3.IntSort(), z3.RealSort())
        self.FY = z3.Function("batch_y", z3.IntSort(), z3.IntSort(), z3.IntSort(), z3.RealSort())

    def tpv_len(self, I):
        return self.M

    def tpv_sym_iter(self):
        return self.M, self.item

    def item(self, I, i):
        from tpv.core import STensor, Dim
        from tpv.tlib import Tensor

        S, iz = self.S, zint(i)
        n = self.NR(iz)
        I.ctx.assume(n >= 1)
        X = Tensor(STensor([Dim([n]), Dim([3])], lambda idx: self.FX(iz, zint(idx[0][0]), zint(idx[1][0])), "real"))
        Y = Tensor(STensor([Dim([n]), Dim([2])], lambda idx: self.FY(iz, zint(idx[0][0]), zint(idx[1][0])), "real"))
        tx = S.I.binop(ast.Mult(), S.new(RN, "t", 1), S.new(RN, "x", 2))
        return (S.new(POINTS, X, tx), S.new(POINTS, Y, S.new(RN, "u", 2)))


@scenario("C04", [COND + ".forward", COND + "._compute_dist"], configs=["2", "inf", "2/root=2"], name="data_condition_on_the_full_data_set_aggregates_every_batch_once")
@scenario("C16", [COND + ".forward", COND + "._compute_dist"], configs=["2", "inf", "2/root=2"])
def data_condition_on_the_full_data_set_aggregates_every_batch_once(S):
    """DataCondition(use_full_dataset=True).forward over an ARBITRARY loader with a symbolic number M of batches of
    symbolic sizes (inductive loop contract).  Spec functions: Acc(0) = 0 and
      norm p  : Acc(i+1) = Acc(i) + mean(|net(x_i) - y_i| ** p) / M        (mean of the per-batch means; the per-batch
                                                                            mean runs over ALL entries: rows x components)
      norm inf: Acc(i+1) = max(Acc(i), max |net(x_i) - y_i|)               (maximum)
    post: the loss is Acc(M) (root 1); inside the loop every batch is used exactly once, its distance tensor is
    |model(x) - y| row by row with the inputs bound by name, and the model is evaluated once per batch."""
    from tpv.spec import LoopSpec
    from tpv.tlib import Tensor
    from tpv.core import STensor, Dim, zreal
    from tpv.absdom import AbstractModel
    from tpv import torchlib, tlib, core

    I = S.I
    M = S.int("M", 0)
    fam = BatchFamily(S, M)
    tx = I.binop(ast.Mult(), S.new(RN, "x", 2), S.new(RN, "t", 1))
    model = AbstractModel(S, "net", tx, S.new(RN, "u", 2))
    norm = "inf" if S.cfg == "inf" else 2
    rooted = S.cfg.endswith("root=2")
    cond = S.new(COND, model.obj, fam, norm, use_full_dataset=True, root=2.0) if rooted else S.new(COND, model.obj, fam, norm, use_full_dataset=True)
    Acc = z3.Function("Acc", z3.IntSort(), z3.RealSort())
    S.assume(Acc(0) == 0)
    probe = S.probe_returns(COND + "._compute_dist")
    Mz = zint(M)
    ACCV = S.returned_local(COND + ".forward", "loss")  # the accumulator = the local that forward() returns

    def make(I_, env, i):
        v = Acc(zint(i))
        if norm == "inf":
            I_.ctx.assume(v >= 0)
        env.vars[ACCV] = Tensor(STensor([Dim([])], lambda idx: v, "real"))
        del probe[:]
        del model.calls[:]

    def check(I_, env, i, tag):
        loss = env.vars.get(ACCV)
        ok = isinstance(loss, Tensor) and loss.val.numel_concrete() == 1
        S.ensure(f"batch-loop/{tag}:loss-is-one-number", ok, kind="inv")
        if not ok:
            return
        lv = zreal(loss.val.at([() for _ in loss.val.shape]))
        if tag == "inv-init":
            S.ensure(f"batch-loop/{tag}:starts-at-zero", lv == Acc(0), kind="inv")
            return
        # inv-step: i is (previous index + 1); exactly one batch was consumed
        S.ensure(f"batch-loop/{tag}:distance-computed-once-model-evaluated-once", len(probe) == 1 and len(model.calls) == 1, kind="inv")
        if len(probe) != 1:
            return
        a = probe[0]
        prev = z3.simplify(zint(i) - 1)
        S.forall(f"batch-loop/{tag}:distance-is-abs-model-minus-target-of-this-batch-by-name", Tensor(a),
                 lambda q: zreal(a.at(q)) == (lambda d: z3.If(d >= 0, d, -d))(core.select_comp(q[1][0], 2, [(lambda c=c: model.out_terms([fam.FX(prev, zint(q[0][0]), z3.IntVal(1)), fam.FX(prev, zint(q[0][0]), z3.IntVal(2)), fam.FX(prev, zint(q[0][0]), z3.IntVal(0))])[c]) for c in range(2)]) - fam.FY(prev, zint(q[0][0]), zint(q[1][0]))), kind="inv")
        S.ensure(f"batch-loop/{tag}:distance-has-one-entry-per-row-and-component", a.rank == 2 and a.shape[1].concrete() == 2, kind="inv")
        S.ensure(f"batch-loop/{tag}:all-rows-of-the-batch-used", a.shape[0].size_term() == fam.NR(prev), kind="inv")
        if norm == 2:
            want = torchlib.t_mean(I_, tlib.power(I_, Tensor(a), 2)).val.at([])
            definition = Acc(zint(i)) == Acc(prev) + want / z3.ToReal(Mz)
        else:
            want = torchlib._minmax("max")(I_, Tensor(a)).val.at([])
            definition = Acc(zint(i)) == z3.If(want > Acc(prev), want, Acc(prev))
        S.ensure(f"batch-loop/{tag}:accumulator-follows-its-recursive-definition", lv == Acc(zint(i)), [definition] + S.minmax_cross_instances(), kind="inv")

    S.loop(COND + ".forward", 0, LoopSpec(make, check, modifies=[ACCV], label="batch-loop"))
    if rooted:
        # (the mean of the per-batch means of |.|^2 is non-negative: stated, not derived from the sum model)
        S.assume(Acc(Mz) >= 0)
    loss = S.method(cond, "forward")
    lv = zreal(loss.val.at([() for _ in loss.val.shape]))
    if rooted:
        # the documented root is taken ONCE, of the aggregated value (not per batch)
        S.ensure("loss-is-the-root-of-the-accumulator-after-all-M-batches", z3.And(lv >= 0, lv * lv == Acc(Mz)))
    else:
        S.ensure("loss-is-the-accumulator-after-all-M-batches", lv == Acc(Mz))


# ----------------------------------------------------------------------------- DeepONetDataCondition: pairing inside the distance
DCOND = "torchphysics.problem.conditions.deeponet_condition.DeepONetDataCondition"


@scenario("C16", [DCOND + "._compute_dist", DCOND + ".__init__"], configs=["shared-trunk-input", "trunk-input-per-function"], bounded="output dimension d = 2 (schematic); numbers of functions, locations and neurons symbolic")
def deeponet_data_condition_pairs_function_i_with_location_j(S):
    """DeepONetDataCondition._compute_dist on a batch (branch_in, trunk_in, out): the branch is evaluated once on
    branch_in, the trunk once on trunk_in, and dist[i, j, c] = | sum_k T[(i,) j, c, k] * Br[i, c, k] - out[i, j, c] |:
    the target of function i at location j is compared with the model output of branch function i at trunk location j
    (trunk / branch networks abstract: feature tensors T, Br)."""
    from tpv import tsum
    from tpv.core import Dim, zreal
    from tpv.tlib import Tensor
    from .c09_deeponet import abstract_trunk_branch, DON
    from .geom import tensor_of

    per_fn = S.cfg == "trunk-input-per-function"
    B, n, q = S.int("B", 1), S.int("n", 1), S.int("q", 1)
    d = 2
    trunk, branch, Tt, Bt = abstract_trunk_branch(S, B, n, d, q, per_fn)
    bcalls, tcalls = [], []
    branch.f["current_out"] = None

    def branch_call(I2, o, inp, *a, **k):
        bcalls.append(inp)
        o.f["current_out"] = Bt

    def trunk_call(I2, o, pts, *a, **k):
        tcalls.append(pts)
        return Tt

    branch.f["__overrides__"] = {"forward": branch_call, "__call__": branch_call}
    trunk.f["__overrides__"] = {"forward": trunk_call, "__call__": trunk_call}
    us = S.new(RN, "u", d)
    net = S.new(DON, trunk, branch, us, Sym(zint(q) * d, "int"))
    cond = S.new(DCOND, net, [], 2)
    bin_ = S.new(POINTS, S.tensor("Bin", [B, 3, 1]), S.new(RN, "f", 1))
    tin = S.new(POINTS, S.tensor("Tin", ([B] if per_fn else []) + [n, 1]), S.new(RN, "x", 1))
    Out = S.tensor("Out", [B, n, d])
    out = S.new(POINTS, Out, us)
    dist = S.method(cond, "_compute_dist", (bin_, tin, out), "cpu")
    S.ensure("branch-evaluated-once-on-the-branch-input", len(bcalls) == 1 and bcalls[0] is bin_)
    S.ensure("trunk-evaluated-once-on-the-trunk-input", len(tcalls) == 1 and tcalls[0] is tin)
    t = dist.val
    ok = t.rank == 3 and t.shape[2].concrete() == d
    S.ensure("distance-shape-functions-locations-components", ok and t.shape[0].size_term() == zint(B) and t.shape[1].size_term() == zint(n))
    if not ok:
        return

    def want(q_):
        b, nn, c = q_[0], q_[1], q_[2]
        tidx = ([b] if per_fn else []) + [nn, c]
        m = tsum.sum_term([Dim([zint(q)])], lambda r: zreal(Tt.val.at(tidx + [r[0]])) * zreal(Bt.val.at([b, c, r[0]])), "sum")
        dd = m - zreal(Out.val.at([b, nn, c]))
        return z3.If(dd >= 0, dd, -dd)

    S.forall("dist-i-j-compares-target-i-j-with-branch-function-i-at-trunk-location-j", dist, lambda q_: zreal(t.at(q_)) == want(q_))


# ----------------------------------------------------------------------------- the loader wrappers
PDL = "torchphysics.utils.data.dataloader.PointsDataLoader"
DDL = "torchphysics.utils.data.deeponet_dataloader.DeepONetDataLoader"


@scenario("C16", [PDL + ".__init__", DDL + ".__init__"], configs=["points", "deeponet-shared-trunk", "deeponet-trunk-per-function"])
def loader_wrappers_forward_their_arguments_to_the_data_set(S):
    """the DataLoader subclasses build the corresponding data set with the caller's batch sizes / shuffle / drop_last
    flags and iterate it WITHOUT automatic batching or shuffling (batch_size=None, shuffle=False: the data set's own
    batches, each once per pass, A5) -- the per-function trunk layout selects DeepONetDataset_Unique"""
    I = S.I
    if S.cfg == "points":
        N, bs = S.int("N", 1), S.int("bs", 1)
        px = S.new(POINTS, S.tensor("X", [N, 2]), S.new(R2, "x"))
        pu = S.new(POINTS, S.tensor("U", [N, 1]), S.new(R1, "u"))
        ld = S.new(PDL, (px, pu), bs, shuffle=False, drop_last=True)
        ds = S.getattr(ld, "dataset")
        S.ensure("data-set-is-a-points-data-set", I.isinstance_(ds, S.find(PD)))
        S.ensure("batch-size-and-drop-last-forwarded", S.getattr(ds, "batch_size") is bs and S.getattr(ds, "drop_last") is True)
        dp = S.getattr(ds, "data_points")
        S.ensure("data-forwarded-unshuffled-in-order", len(dp) == 2 and dp[0] is px and dp[1] is pu)
    else:
        uniq = S.cfg == "deeponet-trunk-per-function"
        Nb, Nt, bb, bt = S.int("Nb", 1), S.int("Nt", 1), S.int("bb", 1), S.int("bt", 1)
        B = S.tensor("B", [Nb, 3, 1])
        Tr = S.tensor("T", [Nb, Nt, 2] if uniq else [Nt, 2])
        O = S.tensor("O", [Nb, Nt, 1])
        ld = S.new(DDL, B, Tr, O, S.new(R1, "f"), S.new(R2, "x"), S.new(R1, "u"), bb, bt, shuffle_branch=False, shuffle_trunk=False)
        ds = S.getattr(ld, "dataset")
        S.ensure("layout-selects-the-data-set-class", I.isinstance_(ds, S.find(DU if uniq else DD)))
        S.ensure("batch-sizes-forwarded", S.getattr(ds, "branch_batch_size") is bb and S.getattr(ds, "trunk_batch_size") is bt)
        S.ensure("data-forwarded", S.getattr(ds, "branch_data_points") is B and S.getattr(ds, "trunk_data_points") is Tr and S.getattr(ds, "out_data_points") is O)
    S.ensure("no-automatic-batching-or-shuffling-by-the-loader", S.getattr(ld, "batch_size") is None and ld.f.get("_tpv_shuffle") is False)


@scenario("C07", [COND + ".forward"], configs=["two-batches-three-calls"], bounded="a loader with two batches and a history of forward calls of two conditions; batch contents symbolic", name="data_condition_single_batch_mode_cycles_through_the_loader")
@scenario("C16", [COND + ".forward"], configs=["two-batches-three-calls"], bounded="a loader with two batches and a history of forward calls of two conditions; batch contents symbolic")
def data_condition_single_batch_mode_cycles_through_the_loader(S):
    """DataCondition(use_full_dataset=False): successive forward calls use successive batches and start over after the
    last one (each batch once per pass): calls 1, 2, 3 see batches 0, 1, 0"""
    from tpv.absdom import AbstractModel
    from tpv.tlib import Tensor

    I = S.I
    tx = I.binop(ast.Mult(), S.new(RN, "x", 2), S.new(RN, "t", 1))
    model = AbstractModel(S, "net", tx, S.new(RN, "u", 1))
    N0, N1 = S.int("N0", 1), S.int("N1", 1)
    mk = lambda nm, n: (S.new(POINTS, S.tensor("X" + nm, [n, 3]), tx), S.new(POINTS, S.tensor("Y" + nm, [n, 1]), S.new(RN, "u", 1)))
    b0, b1 = mk("0", N0), mk("1", N1)
    loader = (b0, b1)
    cond = S.new(COND, model.obj, loader, 2)
    for _ in range(3):
        S.method(cond, "forward")
    S.ensure("one-model-evaluation-per-call", len(model.calls) == 3)
    if len(model.calls) == 3:
        S.ensure("batches-0-1-then-0-again", model.calls[0]["points"] is b0[0] and model.calls[1]["points"] is b1[0] and model.calls[2]["points"] is b0[0])
    # a second condition (e.g. a validation condition) on the SAME loader walks through it on its own: neither
    # condition consumes batches of the other
    model2 = AbstractModel(S, "net2", tx, S.new(RN, "u", 1))
    cond2 = S.new(COND, model2.obj, loader, 2)
    S.method(cond2, "forward")
    S.method(cond, "forward")
    S.method(cond2, "forward")
    S.ensure("second-condition-starts-at-batch-0-and-continues-with-batch-1", len(model2.calls) == 2 and model2.calls[0]["points"] is b0[0] and model2.calls[1]["points"] is b1[0])
    S.ensure("first-condition-continues-its-own-pass", len(model.calls) == 4 and model.calls[3]["points"] is b1[0])


# ----------------------------------------------------------------------------- HPM / HPCM data conditions (same accumulation loop)
HPCM = "torchphysics.problem.conditions.condition.HPCMCondition"
HPMD = "torchphysics.problem.conditions.condition.HPM_EquationLoss_at_DataPoints"


@scenario("C04", [HPCM + ".forward", HPCM + "._compute_dist", HPCM + ".__init__", HPMD + ".forward", HPMD + "._compute_dist", HPMD + ".__init__"], configs=["hpcm", "hpm-at-data-points"], bounded="spaces schematic (x:2, t:1 -> u:2); norm 2; numbers and sizes of batches symbolic")
def hpm_and_hpcm_conditions_aggregate_every_batch_once(S):
    """the two further data-driven conditions share DataCondition's full-data-set loop.  Inductive loop contract over an
    arbitrary loader: Acc(0) = 0, Acc(i+1) = Acc(i) + mean(a_i ** 2) / M, loss = Acc(M), every batch used once, with
      HPCM: a_i = | state(x_i) - y_i - correction(state output, x_i by name) |   (row by row)
      HPM : a_i = reduce(error(residual(x_i by name, parameters)))                (one number per batch)"""
    from tpv.spec import LoopSpec, RowFn, rowwise_tensor_fn, scalar_tensor_fn
    from tpv.tlib import Tensor
    from tpv.core import STensor, Dim, zreal
    from tpv.absdom import AbstractModel
    from tpv import torchlib, tlib, core

    I = S.I
    hpcm = S.cfg == "hpcm"
    M = S.int("M", 0)
    fam = BatchFamily(S, M)
    tx = I.binop(ast.Mult(), S.new(RN, "x", 2), S.new(RN, "t", 1))
    model = AbstractModel(S, "state", tx, S.new(RN, "u", 2))
    cls = HPCM if hpcm else HPMD
    if hpcm:
        corr = RowFn("corr", ["u", "x", "t"], 2, {"u": 2, "x": 2, "t": 1})
        wrap = lambda I2, bound: None
        # the correction function must return Points: wrap the row function
        from tpv.spec import UserFn

        def corr_points(I2, bound):
            t_ = corr.tpv_call(I2, [], {k: bound[k] for k in ("u", "x", "t")})
            return S.new(POINTS, t_, S.new(RN, "u", 2))

        cfn = UserFn("correction", ["u", "x", "t"], returns=corr_points)
        cond = S.new(cls, model.obj, None, fam, cfn, norm=2, use_full_dataset=True)
    else:
        res = RowFn("res", ["x", "t"], 2, {"x": 2, "t": 1})
        E, Rd = rowwise_tensor_fn("E"), scalar_tensor_fn("Rd")
        cond = S.new(cls, model.obj, fam, 2, res, error_fn=E, use_full_dataset=True, reduce_fn=Rd)
    Acc = z3.Function("Acc", z3.IntSort(), z3.RealSort())
    S.assume(Acc(0) == 0)
    probe = S.probe_returns(cls + "._compute_dist")
    Mz = zint(M)
    ACCV = S.returned_local(cls + ".forward", "loss")  # the accumulator = the local that forward() returns

    def make(I_, env, i):
        env.vars[ACCV] = Tensor(STensor([Dim([])], lambda idx: Acc(zint(i)), "real"))
        del probe[:]
        del model.calls[:]
        if hpcm:
            del corr.calls[:]
        else:
            del res.calls[:]
            del Rd.calls[:]

    def check(I_, env, i, tag):
        loss = env.vars.get(ACCV)
        ok = isinstance(loss, Tensor) and loss.val.numel_concrete() == 1
        S.ensure(f"batch-loop/{tag}:loss-is-one-number", ok, kind="inv")
        if not ok:
            return
        lv = zreal(loss.val.at([() for _ in loss.val.shape]))
        if tag == "inv-init":
            S.ensure(f"batch-loop/{tag}:starts-at-zero", lv == Acc(0), kind="inv")
            return
        S.ensure(f"batch-loop/{tag}:distance-computed-once", len(probe) == 1, kind="inv")
        if len(probe) != 1:
            return
        a = probe[0]
        prev = z3.simplify(zint(i) - 1)
        xin = lambda r: [fam.FX(prev, zint(r), z3.IntVal(1)), fam.FX(prev, zint(r), z3.IntVal(2)), fam.FX(prev, zint(r), z3.IntVal(0))]
        if hpcm:
            S.ensure(f"batch-loop/{tag}:state-model-and-correction-evaluated-once", len(model.calls) == 1 and len(corr.calls) == 1, kind="inv")
            okd = a.rank == 2 and a.shape[1].concrete() == 2
            S.ensure(f"batch-loop/{tag}:distance-has-one-entry-per-row-and-component", okd, kind="inv")
            if okd:
                def want_entry(q):
                    u = model.out_terms(xin(q[0][0]))
                    cval = corr.value_terms(u + [xin(q[0][0])[0], xin(q[0][0])[1], xin(q[0][0])[2]])
                    d = core.select_comp(q[1][0], 2, [(lambda c=c: u[c] - fam.FY(prev, zint(q[0][0]), z3.IntVal(c)) - cval[c]) for c in range(2)])
                    return z3.If(d >= 0, d, -d)

                S.forall(f"batch-loop/{tag}:distance-is-abs-state-minus-target-minus-correction-by-name", Tensor(a), lambda q: zreal(a.at(q)) == want_entry(q), kind="inv")
        else:
            S.ensure(f"batch-loop/{tag}:residual-error-reduce-once", len(res.calls) == 1 and len(Rd.calls) == 1 and len(E.calls) >= 1, kind="inv")
            if len(res.calls) == 1 and len(Rd.calls) == 1:
                kw = res.calls[0]["kwargs"]
                S.ensure(f"batch-loop/{tag}:batch-value-is-reduce-of-error-of-residual", Rd.calls[0]["result"].val is a or z3.eq(z3.simplify(zreal(Rd.calls[0]["result"].val.at([() for _ in Rd.calls[0]["result"].val.shape]))), z3.simplify(zreal(a.at([() for _ in a.shape])))), kind="inv")
                xk, tk = kw.get("x"), kw.get("t")
                if isinstance(xk, Tensor) and isinstance(tk, Tensor) and xk.val.rank == 2:
                    S.forall(f"batch-loop/{tag}:residual-gets-x-of-this-batch-by-name", xk, lambda q: zreal(xk.val.at(q)) == core.select_comp(q[1][0], 2, [(lambda c=c: xin(q[0][0])[c]) for c in range(2)]), kind="inv")
                    S.forall(f"batch-loop/{tag}:residual-gets-t-of-this-batch-by-name", tk, lambda q: zreal(tk.val.at(q)) == xin(q[0][0])[2], kind="inv")
                    S.ensure(f"batch-loop/{tag}:coordinates-are-tracked-leaves", xk.requires_grad and tk.requires_grad, kind="inv")
                else:
                    S.ensure(f"batch-loop/{tag}:residual-gets-the-coordinates", False, kind="inv")
        want = torchlib.t_mean(I_, tlib.power(I_, Tensor(a), 2)).val.at([])
        definition = Acc(zint(i)) == Acc(prev) + want / z3.ToReal(Mz)
        S.ensure(f"batch-loop/{tag}:accumulator-follows-its-recursive-definition", lv == Acc(zint(i)), [definition], kind="inv")

    S.loop(cls + ".forward", 0, LoopSpec(make, check, modifies=[ACCV], label="batch-loop"))
    loss = S.method(cond, "forward")
    lv = zreal(loss.val.at([() for _ in loss.val.shape]))
    S.ensure("loss-is-the-accumulator-after-all-M-batches", lv == Acc(Mz))


@scenario("C16", [DU + ".__init__", DD + ".__init__", DU + ".__len__", DD + ".__len__"], configs=[f"{k}/{w}" for k in ("shared-trunk", "trunk-per-function") for w in ("trunk-whole", "branch-whole", "both-whole")])
def a_negative_batch_size_means_the_whole_axis(S):
    """batch size -1 ('use the whole axis'): the data set built with -1 has, field by field, the state of the data set
    built with the explicit axis length -- number of LOCATIONS for the trunk axis (axis 1 of the per-function layout
    [functions, locations, dim]), number of FUNCTIONS for the branch axis -- so the pairing / coverage contracts proved
    for explicit batch sizes carry over"""
    unique = S.cfg.startswith("trunk-per-function")
    which = S.cfg.split("/")[1]
    Nb, Nt = S.int("Nb", 1), S.int("Nt", 1)
    bb, bt = S.int("bb", 1), S.int("bt", 1)
    S.assume(z3.And(zint(bb) <= zint(Nb), zint(bt) <= zint(Nt)))
    B = S.tensor("B", [Nb, 3, 1])
    Tr = S.tensor("T", [Nb, Nt, 2] if unique else [Nt, 2])
    O = S.tensor("O", [Nb, Nt, 1])
    sb, st, so = S.new(R1, "f"), S.new(R2, "x"), S.new(R1, "u")
    neg_b = which in ("branch-whole", "both-whole")
    neg_t = which in ("trunk-whole", "both-whole")
    cls = DU if unique else DD
    a = S.new(cls, B, Tr, O, sb, st, so, -1 if neg_b else bb, -1 if neg_t else bt, shuffle_branch=False, shuffle_trunk=False)
    b = S.new(cls, B, Tr, O, sb, st, so, Nb if neg_b else bb, Nt if neg_t else bt, shuffle_branch=False, shuffle_trunk=False)
    for fld in ("branch_batch_size", "trunk_batch_size", "branch_batch_len", "trunk_batch_len"):
        if fld in a.f or fld in b.f:
            S.ensure(f"field-{fld}-as-with-the-explicit-axis-length", fld in a.f and fld in b.f and zint(a.f[fld]) == zint(b.f[fld]))
    S.ensure("same-number-of-batches", zint(S.method(a, "__len__")) == zint(S.method(b, "__len__")))
    S.ensure("resolved-trunk-batch-size-is-positive-and-at-most-the-number-of-locations", z3.And(zint(a.f["trunk_batch_size"]) >= 1, zint(a.f["trunk_batch_size"]) <= zint(Nt)))
    S.ensure("resolved-branch-batch-size-is-positive-and-at-most-the-number-of-functions", z3.And(zint(a.f["branch_batch_size"]) >= 1, zint(a.f["branch_batch_size"]) <= zint(Nb)))
