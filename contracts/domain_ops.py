"""Domain operations under contract with ABSTRACT operands (C01, C02, C05, C10, C18).

Operands are arbitrary domains given only by their base-class contract (tpv.absdom): an uninterpreted set
predicate In_A(x, p).  The proofs therefore hold for arbitrarily nested expressions; every concrete
primitive is separately proved to refine the operand contract (contracts/primitives.py).
Oracles: union = or, intersection = and, cut = and-not, product = In_A(x_A, (p, x_B)) and In_B(x_B, p),
translate = In_D(x - tau(p), p), rotate = In_D(R(p)^-1 (x - a(p)) + a(p), p).
"""
import ast

import z3

from tpv import core, tlib
from tpv.core import zint, zreal, zbool, Sym, Dim
from tpv.spec import scenario, RowFn
from tpv.absdom import abstract_domain, coords_of
from .geom import POINTS, R1, R2, tensor_of, cols

D = "torchphysics.problem.domains.domainoperations."
UNION, CUT, INTER = D + "union.UnionDomain", D + "cut.CutDomain", D + "intersection.IntersectionDomain"
UNIONB, CUTB, INTERB = D + "union.UnionBoundaryDomain", D + "cut.CutBoundaryDomain", D + "intersection.IntersectionBoundaryDomain"
PROD = D + "product.ProductDomain"
TRANS = D + "translate.Translate"
ROT = D + "rotate.Rotate"
DOMAIN = "torchphysics.problem.domains.domain.Domain"

BOOL = {"union": (UNION, UNIONB), "cut": (CUT, CUTB), "intersection": (INTER, INTERB)}


def empty_points(S):
    return S.call(S.getattr(S.find(POINTS), "empty"))


def mk_bool(S, op, with_params=True):
    """op: 'union' | 'cut' | 'intersection', optionally 'union/disjoint' or 'cut/contained' (the volume-rule flags: a
    declaration about the operands that must not change membership, normals or boxes)"""
    op, _, flag = op.partition("/")
    sp = S.new(R2, "x")
    pd = {"t": 1} if with_params else None
    A = abstract_domain(S, "A", sp, pd)
    B = abstract_domain(S, "B", sp, pd)
    kw = {"disjoint": True} if flag == "disjoint" else ({"contained": True} if flag == "contained" else {})
    dom = S.new(BOOL[op][0], A.obj, B.obj, **kw)
    return A, B, dom


def point_rows(S, N, with_params=True):
    X = S.tensor("X", [N, 2])
    pts = S.new(POINTS, X, S.new(R2, "x"))
    if with_params:
        Tt = S.tensor("tt", [N, 1])
        params = S.new(POINTS, Tt, S.new(R1, "t"))
        pv = lambda r: [zreal(Tt.val.at([r, ()]))]
    else:
        params = empty_points(S)
        pv = lambda r: []
    return X, pts, params, pv


def combine(op, a, b):
    return {"union": z3.Or(a, b), "cut": z3.And(a, z3.Not(b)), "intersection": z3.And(a, b)}[op]


# ----------------------------------------------------------------------------- C05 membership
@scenario("C05", [UNION + "._contains", CUT + "._contains", INTER + "._contains"], configs=["union", "cut", "intersection", "union/disjoint", "cut/contained"], history=True)
def boolean_contains(S):
    """post: one truth value per row; union = or, cut = and-not, intersection = and of the operand predicates,
    each point with its own parameter row -- also for operations declared disjoint / contained"""
    op = S.cfg.split("/")[0]
    A, B, dom = S.once(lambda: mk_bool(S, S.cfg))
    N = S.int("N", 1)
    X, pts, params, pv = point_rows(S, N)
    res = S.method(dom, "_contains", pts, params).val
    S.ensure("one-truth-value-per-row", res.rank == 2 and res.shape[1].is_one and res.dtype == "bool" and res.shape[0].size_term() == zint(N))
    S.forall("boolean-structure", res, lambda q: res.at(q) == combine(op, A.in_pred(cols(X.val, q[0], 2), pv(q[0])), B.in_pred(cols(X.val, q[0], 2), pv(q[0]))))


def bd_oracle(op, inA, inB, onA, onB):
    """regularised CSG boundary (A6), Int_X = In_X and not OnBd_X"""
    intA, intB = z3.And(inA, z3.Not(onA)), z3.And(inB, z3.Not(onB))
    if op == "union":
        return z3.Or(z3.And(onA, z3.Not(intB)), z3.And(onB, z3.Not(intA)))
    if op == "cut":
        return z3.Or(z3.And(onA, z3.Not(inB)), z3.And(onB, intA))
    return z3.Or(z3.And(onA, inB), z3.And(onB, inA))


@scenario("C05", [UNIONB + "._contains", CUTB + "._contains", INTERB + "._contains"], configs=["union", "cut", "intersection", "union/disjoint", "cut/contained"], history=True)
def boolean_boundary_contains(S):
    """post: boundary membership of a Boolean combination = regularised-CSG formula over the operand predicates
    (pre: operand boundary points belong to the closed operand:  OnBd_X => In_X) -- the same formula when the operation
    was declared disjoint / contained (the removed part may touch the boundary of the outer domain from inside)"""
    op = S.cfg.split("/")[0]
    A, B, dom, bd = S.once(lambda: (lambda A, B, dom: (A, B, dom, S.getattr(dom, "boundary")))(*mk_bool(S, S.cfg)))
    N = S.int("N", 1)
    X, pts, params, pv = point_rows(S, N)
    res = S.method(bd, "_contains", pts, params).val
    S.ensure("one-truth-value-per-row", res.rank == 2 and res.shape[1].is_one and res.dtype == "bool" and res.shape[0].size_term() == zint(N))

    def goal(q):
        x, p = cols(X.val, q[0], 2), pv(q[0])
        inA, inB = A.in_pred(x, p), B.in_pred(x, p)
        onA, onB = A.boundary.in_pred(x, p), B.boundary.in_pred(x, p)
        closed = z3.And(z3.Implies(onA, inA), z3.Implies(onB, inB))
        return z3.Implies(closed, res.at([q[0], ()]) == bd_oracle(op, inA, inB, onA, onB))

    S.forall("regularised-boundary-formula", res, goal)


@scenario("C05", [PROD + "._contains", PROD + ".__init__", PROD + "._check_variable_dependencies"], configs=["independent", "a-depends-on-b"], history=True)
def product_contains(S):
    """post: conjunction of the factors; a dependent first factor is judged at the partner point's value"""
    dep = S.cfg == "a-depends-on-b"
    def build():
        A = abstract_domain(S, "A", S.new(R2, "x"), {"y": 1, "t": 1} if dep else {"t": 1})
        B = abstract_domain(S, "B", S.new(R1, "y"), {"t": 1})
        return A, B, S.new(PROD, A.obj, B.obj)

    A, B, dom = S.once(build)
    S.ensure("dependency-detected", S.getattr(dom, "_is_constant") == (not dep))
    N = S.int("N", 1)
    XY = S.tensor("XY", [N, 3])
    sp = S.I.binop(ast.Mult(), S.new(R2, "x"), S.new(R1, "y"))
    pts = S.new(POINTS, XY, sp)
    Tt = S.tensor("tt", [N, 1])
    params = S.new(POINTS, Tt, S.new(R1, "t"))
    res = S.method(dom, "_contains", pts, params).val
    S.ensure("one-truth-value-per-row", res.rank == 2 and res.shape[1].is_one and res.shape[0].size_term() == zint(N))

    def goal(q):
        x = [zreal(XY.val.at([q[0], (c,)])) for c in range(2)]
        y = [zreal(XY.val.at([q[0], (2,)]))]
        t = [zreal(Tt.val.at([q[0], ()]))]
        return res.at([q[0], ()]) == z3.And(A.in_pred(x, (y + t) if dep else t), B.in_pred(y, t))

    S.forall("conjunction-of-factors", res, goal)


@scenario("C05", [TRANS + "._contains", TRANS + ".__init__"], configs=["fn", "const"], history=True)
def translate_contains(S):
    """post: inverse image  In_D(x - tau(p), p)"""
    def build():
        A = abstract_domain(S, "A", S.new(R2, "x"), {"t": 1})
        if S.cfg == "fn":
            tau = RowFn("tau", ["t"], 2, {"t": 1})
            tv = lambda t: tau.value_terms([t])
            arg = tau
        else:
            cs = [S.real("tau0"), S.real("tau1")]
            tv = lambda t: [c.t for c in cs]
            arg = list(cs)
        return A, tv, S.new(TRANS, A.obj, arg)

    A, tv, dom = S.once(build)
    N = S.int("N", 1)
    X, pts, params, pv = point_rows(S, N)
    res = S.method(dom, "_contains", pts, params).val
    S.ensure("one-truth-value-per-row", res.rank == 2 and res.shape[1].is_one and res.shape[0].size_term() == zint(N))

    def goal(q):
        x, p = cols(X.val, q[0], 2), pv(q[0])
        tt = tv(p[0])
        return res.at([q[0], ()]) == A.in_pred([x[0] - tt[0], x[1] - tt[1]], p)

    S.forall("inverse-image-under-the-translation", res, goal)


@scenario("C05", [ROT + "._contains", ROT + ".__init__", ROT + ".from_angles", D + "rotate.RotationMatrix2D.__call__"], configs=["angle-fn"], history="light")
def rotate_contains(S):
    """post: inverse image  In_D(R(p)^-1 (x - a(p)) + a(p), p), R the rotation by the (row-wise) angle"""
    def build():
        A = abstract_domain(S, "A", S.new(R2, "x"), {"t": 1})
        ang = RowFn("angle", ["t"], 1, {"t": 1})
        around = RowFn("around", ["t"], 2, {"t": 1})
        return A, ang, around, S.call(S.getattr(S.find(ROT), "from_angles"), A.obj, ang, rotate_around=around)

    A, ang, around, dom = S.once(build)
    N = S.int("N", 1)
    X, pts, params, pv = point_rows(S, N)
    res = S.method(dom, "_contains", pts, params).val
    S.ensure("one-truth-value-per-row", res.rank == 2 and res.shape[1].is_one and res.shape[0].size_term() == zint(N))

    def goal(q):
        x, p = cols(X.val, q[0], 2), pv(q[0])
        a = around.value_terms([p[0]])
        c, s = tlib.cos_sin(ang.value_terms([p[0]])[0])
        # inverse rotation by hand (oracle): y = R^T (x - a)
        dx, dy = x[0] - a[0], x[1] - a[1]
        y = [c * dx + s * dy + a[0], -s * dx + c * dy + a[1]]
        return res.at([q[0], ()]) == A.in_pred(y, p)

    S.forall("inverse-image-under-the-rotation", res, goal)


# ----------------------------------------------------------------------------- C10 volumes
@scenario("C10", [UNION + "._get_volume", CUT + "._get_volume", UNIONB + "._get_volume", CUTB + "._get_volume", PROD + "._get_volume", TRANS + ".volume", ROT + ".volume", DOMAIN + ".set_volume", DOMAIN + ".volume"], configs=["union-disjoint", "cut-contained", "union-disjoint-boundary", "cut-contained-boundary", "product-independent", "translate", "rotate", "user-volume"], history=True)
def composite_volumes(S):
    """post: additive over disjoint unions, subtractive for contained cuts, multiplicative for independent
    products, unchanged by motions, overridden by set_volume"""
    cfg = S.cfg

    def build():
        sp = S.new(R2, "x")
        A = abstract_domain(S, "A", sp, {"t": 1})
        va = lambda t: A.Vol(t)
        if cfg in ("union-disjoint-boundary", "cut-contained-boundary"):
            # the boundary of a disjoint union / of a cut whose removed part is contained is the union of the two boundaries
            B = abstract_domain(S, "B", sp, {"t": 1})
            inner = S.new(UNION, A.obj, B.obj, disjoint=True) if cfg.startswith("union") else S.new(CUT, A.obj, B.obj, contained=True)
            return S.getattr(inner, "boundary"), (lambda t: A.boundary.Vol(t) + B.boundary.Vol(t))
        if cfg in ("union-disjoint", "cut-contained"):
            B = abstract_domain(S, "B", sp, {"t": 1})
            if cfg == "union-disjoint":
                return S.new(UNION, A.obj, B.obj, disjoint=True), (lambda t: va(t) + B.Vol(t))
            return S.new(CUT, A.obj, B.obj, contained=True), (lambda t: va(t) - B.Vol(t))
        if cfg == "product-independent":
            B = abstract_domain(S, "B", S.new(R1, "y"), {"t": 1})
            return S.new(PROD, A.obj, B.obj), (lambda t: va(t) * B.Vol(t))
        if cfg == "translate":
            return S.new(TRANS, A.obj, RowFn("tau", ["t"], 2, {"t": 1})), va
        if cfg == "rotate":
            return S.call(S.getattr(S.find(ROT), "from_angles"), A.obj, RowFn("angle", ["t"], 1, {"t": 1})), va
        B = abstract_domain(S, "B", sp, {"t": 1})
        dom = S.new(UNION, A.obj, B.obj)
        uv = RowFn("uservol", ["t"], 1, {"t": 1})
        S.method(dom, "set_volume", uv)
        return dom, (lambda t: uv.value_terms([t])[0])

    dom, want = S.once(build)
    K = S.int("K", 1)
    Tt = S.tensor("tt", [K, 1])
    params = S.new(POINTS, Tt, S.new(R1, "t"))
    v = S.method(dom, "volume", params).val
    S.ensure("one-value-per-parameter-row", v.rank >= 2 and v.shape[0].size_term() == zint(K) and all(d.is_one for d in v.shape[1:]))
    S.forall("composition-rule", v, lambda q: v.at(q) == want(zreal(Tt.val.at([q[0], ()]))))


# ----------------------------------------------------------------------------- C18 bounding boxes
@scenario("C18", [UNION + ".bounding_box", INTER + ".bounding_box", CUT + ".bounding_box", PROD + ".bounding_box"], configs=["union", "intersection", "cut", "product-independent"], history="light")
def composite_bounding_boxes(S):
    """pre: operand boxes enclose the operands (operand contract).  post: the composite box encloses the
    composite set for every supplied parameter row, axes in space order"""
    K = S.int("K", 1)
    Tt = S.tensor("tt", [K, 1])
    params = S.new(POINTS, Tt, S.new(R1, "t"))
    prod = S.cfg == "product-independent"

    def build():
        sp = S.new(R2, "x")
        A = abstract_domain(S, "A", sp, {"t": 1})
        B = abstract_domain(S, "B", S.new(R1, "y") if prod else sp, {"t": 1})
        return A, B, (S.new(PROD, A.obj, B.obj) if prod else S.new(BOOL[S.cfg][0], A.obj, B.obj))

    A, B, dom = S.once(build)
    box = S.method(dom, "bounding_box", params).val
    nd = 3 if prod else 2
    ok = box.rank == 1 and box.shape[0].concrete() == 2 * nd
    S.ensure("flat-2dim-vector", ok)
    if not ok:
        return
    b = [zreal(box.at([(j,)])) for j in range(2 * nd)]
    k = z3.Int("k")
    t = [zreal(Tt.val.at([(k,), ()]))]
    x = [z3.Real(f"px{i}") for i in range(nd)]
    hy = [k >= 0, k < zint(K)]
    if prod:
        inset = z3.And(A.in_pred(x[:2], t), B.in_pred(x[2:], t))
        facts = [A.box_fact(x[:2], t), B.box_fact(x[2:], t)]
    else:
        inset = combine(S.cfg, A.in_pred(x, t), B.in_pred(x, t))
        facts = [d.box_fact(x, t) for d in (A, B) if d.box is not None]
    S.ensure("encloses-the-composite-set", z3.Implies(inset, z3.And([z3.And(b[2 * i] <= x[i], x[i] <= b[2 * i + 1]) for i in range(nd)])), hy + facts)
    if not prod:
        # the boundary of the composite lies in the closed composite (A6): its box is the composite's box
        bb = S.method(S.getattr(dom, "boundary"), "bounding_box", params).val
        okb = bb.rank == 1 and bb.shape[0].concrete() == 2 * nd
        S.ensure("boundary-box-is-a-flat-2dim-vector", okb)
        if okb:
            # a second evaluation of the operand boxes yields fresh box symbols: compare through the enclosure property
            facts2 = [d.box_fact(x, t) for d in (A, B) if d.box is not None]
            b2 = [zreal(bb.at([(j,)])) for j in range(2 * nd)]
            S.ensure("boundary-box-encloses-the-composite-set", z3.Implies(inset, z3.And([z3.And(b2[2 * i] <= x[i], x[i] <= b2[2 * i + 1]) for i in range(nd)])), hy + facts2)


# ----------------------------------------------------------------------------- C01 / C02 sampling
def _bool_sampling(S, prop, op, mode):
    A, B, dom = mk_bool(S, op)
    K = S.int("K", 1)
    Tt = S.tensor("tt", [K, 1])
    params = S.new(POINTS, Tt, S.new(R1, "t"))
    if mode.endswith("n"):
        n = S.int("n", 1)
        pts = S.method(dom, "sample_random_uniform" if mode.startswith("random") else "sample_grid", n, None, params)
    else:
        dens = S.real("density")
        S.assume(dens.t > 0)
        one = S.new(POINTS, S.tensor("t1", [1, 1]), S.new(R1, "t"))
        params, Tt = one, None
        pts = S.method(dom, "sample_random_uniform" if mode.startswith("random") else "sample_grid", None, dens, params)
    t = tensor_of(pts)
    ok = t.rank == 2 and t.shape[1].concrete() == 2
    S.ensure("two-columns", ok)
    if not ok:
        return
    if prop == "C02":
        if mode.endswith("n"):
            S.ensure("n-rows-per-parameter-row", t.shape[0].size_term() == zint(K) * zint(n))
            S.ensure("grouped-by-parameter-row", len(t.shape[0].factors) == 2 and z3.eq(t.shape[0].factors[0], zint(K)))
        S.ensure("space-is-domain-space", S.I.truth(S.I.compare(ast.Eq(), S.getattr(pts, "space"), S.getattr(dom, "space"))))
        return
    grouped = (not mode.endswith("n")) or (len(t.shape[0].factors) == 2 and z3.eq(t.shape[0].factors[0], zint(K)))
    S.ensure("row-structure", grouped)
    if not grouped:
        return

    def goal(q):
        x = cols(t, q[0], 2)
        if mode.endswith("n"):
            p = [zreal(Tt.val.at([(q[0][0],), ()]))]
        else:
            p = [zreal(params.f["_t"].val.at([(), ()]))]
        return combine(op, A.in_pred(x, p), B.in_pred(x, p))

    S.forall("every-row-in-the-composite-set-at-its-own-parameter-row", t, goal)


for _prop in ("C01", "C02"):
    for _op, _modes in (("union", ["random-n", "random-d", "grid-d"]), ("cut", ["random-d", "grid-d"]), ("intersection", ["random-d", "grid-d"])):
        for _mode in _modes:
            def _f(S, _prop=_prop, _op=_op, _mode=_mode):
                _bool_sampling(S, _prop, _op, _mode)
            _f.__name__ = f"{_op}_sampling_{_mode.replace('-', '_')}"
            _f.__doc__ = "operands abstract (contract only); density paths: one parameter row (the library's own restriction)"
            cls = BOOL[_op][0]
            tg = {"random-n": [cls + ".sample_random_uniform", cls + "._sample_random_with_n"], "random-d": [cls + ".sample_random_uniform", cls + "._sample_random_with_d"], "grid-d": [cls + ".sample_grid", cls + "._sample_grid_with_d"]}[_mode]
            scenario(_prop, tg + [DOMAIN + "._repeat_params"], configs=["abstract-operands"])(_f)


def _product_sampling(S, prop):
    dep = S.cfg == "a-depends-on-b"
    A = abstract_domain(S, "A", S.new(R2, "x"), {"y": 1, "t": 1} if dep else {"t": 1})
    B = abstract_domain(S, "B", S.new(R1, "y"), {"t": 1})
    dom = S.new(PROD, A.obj, B.obj)
    K = S.int("K", 1)
    Tt = S.tensor("tt", [K, 1])
    params = S.new(POINTS, Tt, S.new(R1, "t"))
    n = S.int("n", 1)
    pts = S.method(dom, "sample_random_uniform", n, None, params)
    t = tensor_of(pts)
    ok = t.rank == 2 and t.shape[1].concrete() == 3
    S.ensure("three-columns", ok)
    if not ok:
        return
    keys = list(S.getattr(pts, "space").native.keys())
    S.ensure("space-is-product-space", keys == ["x", "y"])
    if prop == "C02":
        S.ensure("n-rows-per-parameter-row", t.shape[0].size_term() == zint(K) * zint(n))
        S.ensure("grouped-by-parameter-row", len(t.shape[0].factors) == 2 and z3.eq(t.shape[0].factors[0], zint(K)))
        return
    grouped = len(t.shape[0].factors) == 2 and z3.eq(t.shape[0].factors[0], zint(K))
    S.ensure("row-structure", grouped)
    if not grouped:
        return

    def goal(q):
        x = [zreal(t.at([q[0], (c,)])) for c in range(2)]
        y = [zreal(t.at([q[0], (2,)]))]
        p = [zreal(Tt.val.at([(q[0][0],), ()]))]
        return z3.And(A.in_pred(x, (y + p) if dep else p), B.in_pred(y, p))

    S.forall("row-in-the-product-set-first-factor-at-its-partner-point", t, goal)


for _prop in ("C01", "C02"):
    def _g(S, _prop=_prop):
        _product_sampling(S, _prop)
    _g.__name__ = "product_sampling_random_n"
    _g.__doc__ = "independent factors (the dependent-factor path is a rejection loop; see product_dependent_*)"
    scenario(_prop, [PROD + ".sample_random_uniform", DOMAIN + "._repeat_params"], configs=["independent"])(_g)


def _product_dependent_rows(S, prop, A, B, dom, n):
    """K >= 2 parameter rows: the loop over the rows; the inner single-row calls go through the function's own
    contract (proved by the configurations none / 1)"""
    from .samplers import acc_points_loop
    from tpv.core import STensor
    from tpv.tlib import Tensor

    K = S.int("K", 2)
    Tt = S.tensor("tt", [K, 1])
    params = S.new(POINTS, Tt, S.new(R1, "t"))

    def Pk(k, row):
        p = [zreal(Tt.val.at([(k,), ()]))]
        return z3.And(A.in_pred(row[:2], [row[2]] + p), B.in_pred([row[2]], p))

    def summary(I, fn, args, kwargs):
        env = I.bind_args(fn, args, kwargs)
        pr = env.vars["params"]
        if I.truth(I.compare(ast.Gt(), I.pylib.b_len(I, pr), 1)):
            return NotImplemented
        I.ctx.oblige(f"pre@{I.ctx.loc}:inner-call-n-at-least-one", z3.And(zint(env.vars["n"]) >= 1, env.vars["self"] is dom), (), "pre")
        I.ctx.oblige(f"pre@{I.ctx.loc}:inner-call-one-parameter-row", zint(I.pylib.b_len(I, pr)) == 1, (), "pre")
        tk = zreal(coords_of(I, pr)["t"].at([(), ()]))
        nn = zint(env.vars["n"])
        f = z3.Function(core.fresh_name("prod_pts"), z3.IntSort(), z3.IntSort(), z3.RealSort())

        def fnv(idx):
            j = zint(idx[0][0])
            row = [f(j, z3.IntVal(c)) for c in range(3)]
            I.ctx.axiom(z3.Implies(z3.And(j >= 0, j < nn), z3.And(A.in_pred(row[:2], [row[2], tk]), B.in_pred([row[2]], [tk]))))
            return core.select_comp(idx[1][0], 3, [(lambda x=x: x) for x in row])

        sp = I.binop(ast.Mult(), S.new(R2, "x"), S.new(R1, "y"))
        return I.instantiate(I.repo.find(POINTS), [Tensor(STensor([core.dim_of(env.vars["n"]), Dim([3])], fnv, "real")), sp], {})

    S.use_contract(PROD + ".sample_random_uniform", summary)
    S.loop(PROD + ".sample_random_uniform", 0, acc_points_loop(S, "points", [("x", R2), ("y", R1)], n, 3, lambda k, j, row: Pk(k, row), "parameter-loop", initial="empty"))
    pts = S.method(dom, "sample_random_uniform", n, None, params)
    t = tensor_of(pts)
    ok = t.rank == 2 and t.shape[1].concrete() == 3
    S.ensure("three-columns", ok)
    if not ok:
        return
    S.ensure("space-is-product-space", list(S.getattr(pts, "space").native.keys()) == ["x", "y"])
    grouped = len(t.shape[0].factors) == 2 and z3.eq(t.shape[0].factors[0], zint(K))
    if prop == "C02":
        S.ensure("n-rows-per-parameter-row", t.shape[0].size_term() == zint(K) * zint(n))
        S.ensure("grouped-by-parameter-row", grouped)
        return
    S.ensure("row-structure", grouped)
    if grouped:
        S.forall("row-in-the-product-set-first-factor-at-its-partner-point", t, lambda q: Pk(zint(q[0][0]), [zreal(t.at([q[0], (c,)])) for c in range(3)]))


def _product_dependent_sampling(S, prop):
    """ProductDomain.sample_random_uniform(n, params) where the first factor depends on the second (ratio of
    uniforms): _sample_uniform_b_points + the accumulate/cut loop.
    Loop contract: n_points >= 1 is the number of rows of b_points; every row of b_points lies in B at the parameter
    row; new_params is empty (no parameters) or has n_points rows all equal to the parameter row.
    post: n rows (x, y) with y in B(p) and x in A(y, p).  Termination not proved."""
    from tpv.spec import LoopSpec
    from tpv.tlib import Tensor
    from tpv.core import STensor

    withp = S.cfg
    A = abstract_domain(S, "A", S.new(R2, "x"), {"y": 1, "t": 1} if withp != "none" else {"y": 1})
    B = abstract_domain(S, "B", S.new(R1, "y"), {"t": 1} if withp != "none" else None)
    dom = S.new(PROD, A.obj, B.obj)
    S.ensure("dependency-detected", S.getattr(dom, "_is_constant") is False)
    n = S.int("n", 1)
    kinds = S.loop_kinds(PROD + ".sample_random_uniform")
    per_row = kinds[:1] == ["for"]  # several parameter rows are handled one at a time by an outer loop
    if withp == "K" and per_row:
        _product_dependent_rows(S, prop, A, B, dom, n)
        return
    weak = withp == "K"  # no outer loop: the single-row invariant is not expected to hold; only shapes are kept
    if withp == "none":
        params, pv = empty_points(S), []
    elif withp == "1":
        Tt = S.tensor("tt", [1, 1])
        params = S.new(POINTS, Tt, S.new(R1, "t"))
        pv = [zreal(Tt.val.at([(), ()]))]
    else:
        K = S.int("K", 2)
        Tt = S.tensor("tt", [K, 1])
        params = S.new(POINTS, Tt, S.new(R1, "t"))
        pv = [z3.Real("any_t")]

    def make(I_, env, _):
        m = z3.Int(core.fresh_name("npts"))
        I_.ctx.assume(m >= 1)
        nm = core.fresh_name("BP")
        f = z3.Function(nm, z3.IntSort(), z3.RealSort())

        def fn(idx):
            r = zint(idx[0][0])
            if not weak:
                I_.ctx.axiom(z3.Implies(z3.And(r >= 0, r < m), B.in_pred([f(r)], pv)))
            return f(r)

        env.vars["b_points"] = S.new(POINTS, Tensor(STensor([Dim([m]), Dim([])], fn, "real", nm)), S.new(R1, "y"))
        if withp == "none":
            env.vars["new_params"] = empty_points(S)
        else:
            env.vars["new_params"] = S.new(POINTS, Tensor(STensor([Dim([m]), Dim([])], lambda idx: pv[0], "real")) if not weak else S.tensor(core.fresh_name("NPAR"), [m, 1]), S.new(R1, "t"))
        env.vars["n_points"] = Sym(m, "int")

    def check(I_, env, _, tag):
        bp, npar, cnt = env.vars.get("b_points"), env.vars.get("new_params"), env.vars.get("n_points")
        ok = hasattr(bp, "f") and "_t" in bp.f and hasattr(npar, "f") and "_t" in npar.f
        S.ensure(f"ratio-loop/{tag}:state-shape", ok, kind="inv")
        if not ok:
            return
        t = bp.f["_t"].val
        S.ensure(f"ratio-loop/{tag}:b-points-one-column", t.rank == 2 and t.shape[1].is_one and list(bp.f["space"].native.keys()) == ["y"], kind="inv")
        S.ensure(f"ratio-loop/{tag}:count-is-number-of-rows-and-positive", z3.And(zint(cnt) == t.shape[0].size_term(), zint(cnt) >= 1), kind="inv")
        if not weak:
            S.forall(f"ratio-loop/{tag}:every-b-point-in-the-second-factor", t, lambda q: B.in_pred([zreal(t.at([q[0], ()]))], pv), kind="inv")
        tp = npar.f["_t"].val
        if withp == "none":
            S.ensure(f"ratio-loop/{tag}:no-parameters", list(npar.f["space"].native.keys()) == [], kind="inv")
        else:
            okp = tp.rank == 2 and tp.shape[1].is_one and list(npar.f["space"].native.keys()) == ["t"]
            S.ensure(f"ratio-loop/{tag}:parameter-rows-shape", okp, kind="inv")
            if okp:
                S.ensure(f"ratio-loop/{tag}:as-many-parameter-rows", tp.shape[0].size_term() == t.shape[0].size_term(), kind="inv")
                if not weak:
                    S.forall(f"ratio-loop/{tag}:parameter-rows-unchanged", tp, lambda q: zreal(tp.at([q[0], ()])) == pv[0], kind="inv")

    S.loop(PROD + ".sample_random_uniform", 1 if per_row else 0, LoopSpec(make, check, modifies=["b_points", "new_params", "n_points"], label="ratio-loop"))
    pts = S.method(dom, "sample_random_uniform", n, None, params)
    t = tensor_of(pts)
    ok = t.rank == 2 and t.shape[1].concrete() == 3
    S.ensure("three-columns", ok)
    if not ok:
        return
    S.ensure("space-is-product-space", list(S.getattr(pts, "space").native.keys()) == ["x", "y"])
    if weak:
        S.ensure("n-rows-per-parameter-row", t.shape[0].size_term() == zint(K) * zint(n))
        S.ensure("grouped-by-parameter-row", len(t.shape[0].factors) == 2 and z3.eq(t.shape[0].factors[0], zint(K)))
        return
    if prop == "C02":
        S.ensure("n-rows", t.shape[0].size_term() == zint(n))
        return

    def goal(q):
        x = [zreal(t.at([q[0], (c,)])) for c in range(2)]
        y = [zreal(t.at([q[0], (2,)]))]
        return z3.And(A.in_pred(x, y + pv), B.in_pred(y, pv))

    S.forall("row-in-the-product-set-first-factor-at-its-partner-point", t, goal)


for _prop in ("C01", "C02"):
    def _gd(S, _prop=_prop):
        _product_dependent_sampling(S, _prop)
    _gd.__name__ = "product_dependent_sampling_random_n"
    _gd.__doc__ = _product_dependent_sampling.__doc__
    scenario(_prop, [PROD + ".sample_random_uniform", PROD + "._sample_uniform_b_points", DOMAIN + "._repeat_params"], configs=["none", "1", "K"])(_gd)


def _motion_sampling(S, prop, kind, method):
    """Translate / Rotate of an abstract domain: every returned row is the image of a point of the inner
    domain at the same parameter row:  In_D(x - tau(p_k), p_k)  resp.  In_D(R^-1(x - a) + a, p_k)"""
    mixed = S.cfg.startswith("mixed")  # inner domain independent of the parameters, motion a function of them
    fn = S.cfg.startswith("fn") or mixed
    has_params = S.cfg.endswith("/K")
    A = abstract_domain(S, "A", S.new(R2, "x"), {"t": 1} if (fn and not mixed) else None)
    if kind == "translate":
        if fn:
            tau = RowFn("tau", ["t"], 2, {"t": 1})
            arg, tv = tau, (lambda t: tau.value_terms([t]))
        else:
            cs = [S.real("tau0"), S.real("tau1")]
            arg, tv = list(cs), (lambda t: [c.t for c in cs])
        dom = S.new(TRANS, A.obj, arg)
    else:
        if fn:
            ang = RowFn("angle", ["t"], 1, {"t": 1})
            around = RowFn("around", ["t"], 2, {"t": 1})
            av = lambda t: (ang.value_terms([t])[0], around.value_terms([t]))
            dom = S.call(S.getattr(S.find(ROT), "from_angles"), A.obj, ang, rotate_around=around)
        else:
            a0 = S.real("angle0")
            ar = [S.real("around0"), S.real("around1")]
            av = lambda t: (a0.t, [c.t for c in ar])
            dom = S.call(S.getattr(S.find(ROT), "from_angles"), A.obj, a0, rotate_around=list(ar))
    n = S.int("n", 1)
    if has_params:
        K = S.int("K", 1)
        Tt = S.tensor("tt", [K, 1])
        params = S.new(POINTS, Tt, S.new(R1, "t"))
    else:
        K, Tt, params = None, None, empty_points(S)
    pts = S.method(dom, method, n, None, params)
    t = tensor_of(pts)
    ok = t.rank == 2 and t.shape[1].concrete() == 2
    S.ensure("two-axes-two-columns", ok)
    if not ok:
        return
    Kp = zint(K) if K is not None else z3.IntVal(1)
    grouped = K is None or (len(t.shape[0].factors) == 2 and z3.eq(t.shape[0].factors[0], zint(K)))
    if prop == "C02":
        S.ensure("n-rows-per-parameter-row", t.shape[0].size_term() == Kp * zint(n))
        S.ensure("grouped-by-parameter-row", grouped)
        S.ensure("space-is-domain-space", S.I.truth(S.I.compare(ast.Eq(), S.getattr(pts, "space"), S.getattr(dom, "space"))))
        return
    S.ensure("row-structure", grouped)
    if not grouped:
        return

    def goal(q):
        x = cols(t, q[0], 2)
        tk = zreal(Tt.val.at([(q[0][0],), ()])) if K is not None else None
        p = [tk] if (fn and not mixed) else []
        if kind == "translate":
            tt = tv(tk)
            return A.in_pred([x[0] - tt[0], x[1] - tt[1]], p)
        ang_, a = av(tk)
        c, s = tlib.cos_sin(ang_)
        dx, dy = x[0] - a[0], x[1] - a[1]
        return A.in_pred([c * dx + s * dy + a[0], -s * dx + c * dy + a[1]], p)

    S.forall("row-is-the-image-of-an-inner-point-at-its-own-parameter-row", t, goal)


for _prop in ("C01", "C02"):
    for _kind, _cls in (("translate", TRANS), ("rotate", ROT)):
        for _m in ("sample_random_uniform", "sample_grid"):
            def _h(S, _prop=_prop, _kind=_kind, _m=_m):
                _motion_sampling(S, _prop, _kind, _m)
            _h.__name__ = f"{_kind}_{_m}"
            _h.__doc__ = "inner domain abstract; motion constant or a row-wise function of the parameter"
            extra = [_cls + "._translate_points"] if _kind == "translate" else [_cls + "._rotate_points", _cls + "._rotate_grid"]
            scenario(_prop, [_cls + "." + _m] + extra, configs=(["const/none", "const/K", "fn/K", "mixed/K"] if _m == "sample_random_uniform" else ["const/none", "fn/K", "mixed/K"]))(_h)


# ----------------------------------------------------------------------------- rejection sampling of cuts / intersections
SH = D + "sampler_helper."


def _inside_random_n(S, prop):
    """CutDomain / IntersectionDomain.sample_random_uniform(n >= 2, params): sampler_helper._random_points_inside.
    Loop contracts: outer loop over parameter rows (accumulated blocks [i, n]); inner rejection loop with the
    invariant 'every index in index_valid points at a row of new_points that lies in A and (not) in B at the
    current parameter row, number_valid = len(index_valid), scaled_n >= 1'.  Termination not proved."""
    from .samplers import acc_points_loop
    from tpv.spec import LoopSpec
    from tpv.tlib import Tensor
    from tpv.core import STensor

    parts = S.cfg.split("/")
    op, withp, direct = parts[0], (parts[1] if len(parts) > 1 else "K"), len(parts) > 2
    A, B, dom = mk_bool(S, op, with_params=(withp == "K"))
    if withp == "K":
        K = S.int("K", 1)
        Tt = S.tensor("tt", [K, 1])
        params = S.new(POINTS, Tt, S.new(R1, "t"))
    else:
        K, Tt, params = 1, None, empty_points(S)
    n = S.int("n", 1 if direct else 2)
    invert = op == "cut"

    def Pk(k, row):
        tk = [zreal(Tt.val.at([(k,), ()]))] if Tt is not None else []
        inb = B.in_pred(row, tk)
        return z3.And(A.in_pred(row, tk), z3.Not(inb) if invert else inb)

    fq = SH + "_random_points_inside"

    def make(I_, env, _):
        which = I_.choose(2, "before-first-iteration-or-later")
        sc = S.real(core.fresh_name("scaled"))
        S.assume(sc.t >= 1)
        env.vars["scaled_n"] = sc
        env.vars["_"] = None
        env.vars["repeat_params"] = None
        if which == 0:
            env.vars["number_valid"] = 0
            env.vars.pop("new_points", None)
            env.vars.pop("index_valid", None)
            return
        m = z3.Int(core.fresh_name("m"))
        v = z3.Int(core.fresh_name("nvalid"))
        I_.ctx.assume(z3.And(m >= 0, v >= 0, v <= m))
        NP = S.tensor(core.fresh_name("NP"), [m, 2])
        env.vars["new_points"] = S.new(POINTS, NP, S.new(R2, "x"))
        ii = zint(env.lookup("i")[1])
        f = z3.Function(core.fresh_name("ivalid"), z3.IntSort(), z3.IntSort())

        def fn(idx):
            j = zint(idx[0][0])
            r = f(j)
            row = [zreal(NP.val.at([(r,), (c,)])) for c in range(2)]
            I_.ctx.axiom(z3.Implies(z3.And(j >= 0, j < v), z3.And(r >= 0, r < m, Pk(ii, row))))
            return r

        env.vars["index_valid"] = Tensor(STensor([Dim([v])], fn, "int"))
        env.vars["number_valid"] = Sym(v, "int")

    def check(I_, env, _, tag):
        nv = env.vars.get("number_valid")
        sc = env.vars.get("scaled_n")
        S.ensure(f"rejection-loop/{tag}:scaled-n-at-least-one", zreal(sc) >= 1, kind="inv")
        if isinstance(nv, int) and nv == 0 and "index_valid" not in env.vars:
            return
        iv, npnts = env.vars.get("index_valid"), env.vars.get("new_points")
        ok = isinstance(iv, Tensor) and iv.val.rank == 1 and npnts is not None and hasattr(npnts, "f")
        S.ensure(f"rejection-loop/{tag}:state-shape", ok, kind="inv")
        if not ok:
            return
        S.ensure(f"rejection-loop/{tag}:number-valid-is-len-of-index", zint(nv) == iv.val.shape[0].size_term(), kind="inv")
        NP = npnts.f["_t"].val
        m = NP.shape[0].size_term()
        ii = zint(env.lookup("i")[1])

        def goal(q):
            r = zint(iv.val.at(q))
            return z3.And(r >= 0, r < m, Pk(ii, [zreal(NP.at([(r,), (c,)])) for c in range(2)]))

        S.forall(f"rejection-loop/{tag}:every-valid-index-points-at-a-row-of-the-cut", iv, goal, kind="inv")

    S.loop(fq, 0, acc_points_loop(S, "random_points", [("x", R2)], n, 2, lambda k, j, row: Pk(k, row), "parameter-loop", initial="empty"))
    S.loop(fq, 1, LoopSpec(make, check, modifies=["scaled_n", "_", "repeat_params", "number_valid", "new_points", "index_valid"], label="rejection-loop"))
    if direct:
        pts = S.call(SH + "_random_points_inside", dom, A.obj, B.obj, n, params, invert, "cpu")
    else:
        pts = S.method(dom, "sample_random_uniform", n, None, params)
    t = tensor_of(pts)
    ok = t.rank == 2 and t.shape[1].concrete() == 2
    S.ensure("two-columns", ok)
    if not ok:
        return
    if withp == "K":
        grouped = len(t.shape[0].factors) == 2 and z3.eq(t.shape[0].factors[0], zint(K))
        rowk = lambda q: zint(q[0][0])
    else:
        grouped = len(t.shape[0].factors) == 1
        rowk = lambda q: z3.IntVal(0)
    if prop == "C02":
        S.ensure("n-rows-per-parameter-row", t.shape[0].size_term() == zint(K) * zint(n))
        S.ensure("grouped-by-parameter-row", grouped)
        return
    S.ensure("row-structure", grouped)
    if grouped:
        S.forall("every-row-in-the-composite-set-at-its-own-parameter-row", t, lambda q: Pk(rowk(q), cols(t, q[0], 2)))


for _prop in ("C01", "C02"):
    def _k(S, _prop=_prop):
        _inside_random_n(S, _prop)
    _k.__name__ = "cut_intersection_random_n"
    _k.__doc__ = _inside_random_n.__doc__
    scenario(_prop, [SH + "_inside_random_with_n", SH + "_random_points_inside", SH + "_check_in_b", CUT + ".sample_random_uniform", INTER + ".sample_random_uniform"], configs=["cut", "intersection", "cut/K/direct", "cut/none/direct", "intersection/K/direct", "intersection/none/direct"])(_k)


def search_loop_spec(S, rows, Pk, with_use_b=False):
    """while-loop contract of the n = 1 helpers: final_points is [K', 2], found_valid is [K', 1] (bool) with
    K' = max(len(params), 1); every row r with found_valid[r] satisfies Pk(r, final_points[r])"""
    from tpv.spec import LoopSpec
    from tpv.tlib import Tensor

    rdim = core.dim_of(rows)
    rowterm = lambda comp: zint(comp[0]) if comp else z3.IntVal(0)

    def make(I_, env, _):
        FV = S.tensor(core.fresh_name("FV"), [rows, 1], dtype="bool", mutable=True)
        FV0 = FV.val  # the value at loop head (the cell FV is updated in place by the body)
        FPname = core.fresh_name("FP")
        f = z3.Function(FPname, z3.IntSort(), z3.IntSort(), z3.RealSort())

        def fn(idx):
            r = rowterm(idx[0])
            row = [f(r, z3.IntVal(c)) for c in range(2)]
            I_.ctx.axiom(z3.Implies(z3.And(r >= 0, r < zint(rows), zbool(FV0.at([idx[0], ()]))), Pk(r, row)))
            return core.select_comp(idx[1][0], 2, [(lambda x=x: x) for x in row])

        if with_use_b:
            env.vars["use_b"] = bool(I_.choose(2, "use_b"))
        env.vars["final_points"] = Tensor(core.STensor([rdim, Dim([2])], fn, "real", FPname))
        env.vars["found_valid"] = FV

    def check(I_, env, _, tag):
        fp, fv = env.vars.get("final_points"), env.vars.get("found_valid")
        if with_use_b:
            S.ensure(f"search-loop/{tag}:use-b-is-a-bool", isinstance(env.vars.get("use_b"), bool), kind="inv")
        ok = isinstance(fp, Tensor) and isinstance(fv, Tensor) and fp.val.rank == 2 and fv.val.rank == 2 and fv.val.dtype == "bool"
        S.ensure(f"search-loop/{tag}:state-shape", ok, kind="inv")
        if not ok:
            return
        S.ensure(f"search-loop/{tag}:one-row-per-parameter-row", z3.And(fp.val.shape[0].size_term() == zint(rows), fv.val.shape[0].size_term() == zint(rows)), kind="inv")
        S.ensure(f"search-loop/{tag}:column-counts", fp.val.shape[1].concrete() == 2 and fv.val.shape[1].concrete() == 1, kind="inv")
        if not (fp.val.shape[1].concrete() == 2 and fv.val.shape[1].concrete() == 1 and len(fp.val.shape[0].factors) == len(rdim.factors) == len(fv.val.shape[0].factors)):
            return

        def goal(q):
            r = rowterm(q[0])
            return z3.Implies(zbool(fv.val.at([q[0], ()])), Pk(r, cols(fp.val, q[0], 2)))

        S.forall(f"search-loop/{tag}:every-found-row-lies-in-the-composite-set-at-its-parameter-row", fp, goal, kind="inv")

    return LoopSpec(make, check, modifies=["final_points", "found_valid"] + (["use_b"] if with_use_b else []), label="search-loop")


def _inside_random_one(S, prop):
    """CutDomain / IntersectionDomain.sample_random_uniform(n = 1, params): sampler_helper._random_points_if_n_eq_1.
    While-loop contract: final_points is [K', dim], found_valid is [K', 1] with K' = max(len(params), 1), and every
    row r with found_valid[r] lies in A and (not) in B at parameter row r.  At exit `all(found_valid)` gives the
    postcondition for every row.  Termination not proved."""
    from tpv.spec import LoopSpec
    from tpv.tlib import Tensor

    op, withp = S.cfg.split("/")
    A, B, dom = mk_bool(S, op, with_params=(withp == "K"))
    invert = op == "cut"
    if withp == "K":
        K = S.int("K", 1)
        Tt = S.tensor("tt", [K, 1])
        params = S.new(POINTS, Tt, S.new(R1, "t"))
        pv = lambda r: [zreal(Tt.val.at([(r,), ()]))]
        rows = K
    else:
        params, pv, rows = empty_points(S), (lambda r: []), 1

    def Pk(r, row):
        inb = B.in_pred(row, pv(r))
        return z3.And(A.in_pred(row, pv(r)), z3.Not(inb) if invert else inb)

    fq = SH + "_random_points_if_n_eq_1"
    rdim = core.dim_of(rows)
    rowterm = lambda comp: zint(comp[0]) if comp else z3.IntVal(0)
    S.loop(fq, 0, search_loop_spec(S, rows, Pk))
    pts = S.method(dom, "sample_random_uniform", 1, None, params)
    t = tensor_of(pts)
    ok = t.rank == 2 and t.shape[1].concrete() == 2
    S.ensure("two-columns", ok)
    if not ok:
        return
    if prop == "C02":
        S.ensure("one-row-per-parameter-row", t.shape[0].size_term() == zint(rows))
        S.ensure("space-is-domain-space", S.I.truth(S.I.compare(ast.Eq(), S.getattr(pts, "space"), S.getattr(dom, "space"))))
        return
    if len(t.shape[0].factors) != len(rdim.factors):
        S.ensure("row-structure", False)
        return
    S.forall("every-row-in-the-composite-set-at-its-own-parameter-row", t, lambda q: Pk(rowterm(q[0]), cols(t, q[0], 2)),
             extra_hyps=lambda q: S.schema_instances([q[0]], kinds=("all",)))


for _prop in ("C01", "C02"):
    def _k1(S, _prop=_prop):
        _inside_random_one(S, _prop)
    _k1.__name__ = "cut_intersection_random_one_point"
    _k1.__doc__ = _inside_random_one.__doc__
    scenario(_prop, [SH + "_inside_random_with_n", SH + "_random_points_if_n_eq_1", SH + "_check_in_b", CUT + ".sample_random_uniform", INTER + ".sample_random_uniform"], configs=["cut/K", "cut/none", "intersection/K", "intersection/none"])(_k1)


def composite_points_summary(S, A, B, invert, dom, what):
    """contract of sampler_helper._random_points_inside / _inside_grid_with_n used at inner call sites (proved by
    the scenarios cut_intersection_random_n[*/direct] and cut_intersection_grid_n):
    requires n >= 1;  ensures a fresh Points in the composite's space with rows [K', n], row (k, j) in A and
    (not) in B at parameter row k"""
    from tpv.core import STensor, dim_of
    from tpv.tlib import Tensor
    from tpv.tshape import split_digits

    def summary(I, fn, args, kwargs):
        env = I.bind_args(fn, args, kwargs)
        n, params = env.vars["n"], env.vars["params"]
        if what == "grid" and I.truth(I.compare(ast.Gt(), I.pylib.b_len(I, params), 1)):
            return NotImplemented  # the outer call (several parameter rows) is the one being verified
        I.ctx.oblige(f"pre@{I.ctx.loc}:{fn.name}:n-at-least-one", zint(n) >= 1, (), "pre")
        I.ctx.oblige(f"pre@{I.ctx.loc}:{fn.name}:invert-flag", bool(env.vars["invert"]) == bool(invert), (), "pre")
        I.ctx.oblige(f"pre@{I.ctx.loc}:{fn.name}:operands", env.vars["domain_a"] is A.obj and env.vars["domain_b"] is B.obj and env.vars["main_domain"] is dom, (), "pre")
        has = I.truth(I.compare(ast.Gt(), I.pylib.b_len(I, params), 0))
        pc = coords_of(I, params) if has else {}
        pd = params.f["_t"].val.shape[0] if has else Dim([])
        unmerged = list(pd.factors) + list(dim_of(n).factors)
        rows = Dim(unmerged)
        f = z3.Function(core.fresh_name(f"{what}_pts"), *([z3.IntSort()] * len(rows.factors) + [z3.IntSort(), z3.RealSort()]))

        def fnv(idx):
            comps = idx[0]
            xs = [f(*([zint(c) for c in comps] + [z3.IntVal(k)])) for k in range(2)]
            kd = tuple(split_digits(unmerged, comps)[: len(pd.factors)])
            tk = [zreal(pc["t"].at([kd, ()]))] if has else []
            inb = B.in_pred(xs, tk)
            hy = core.index_hyps(rows, comps)
            I.ctx.axiom(z3.Implies(z3.And(hy) if hy else z3.BoolVal(True), z3.And(A.in_pred(xs, tk), z3.Not(inb) if invert else inb)))
            return core.select_comp(idx[1][0], 2, [(lambda x=x: x) for x in xs])

        t = Tensor(STensor([rows, Dim([2])], fnv, "real"))
        return I.instantiate(I.repo.find(POINTS), [t, dom.f["space"]], {})

    return summary


def _inside_grid_n(S, prop):
    """CutDomain / IntersectionDomain.sample_grid(n, params): sampler_helper._inside_grid_with_n.
    none / one parameter row: the straight-line body (first grid accepted only if ALL n points are valid -- needs
    the enumeration lemma j <= sel(j) of torch.where --, re-scaled grid filtered and cut to n, random fill-up through
    the separately proved contract of _random_points_inside).
    K >= 2 parameter rows: the loop over the rows, inner calls through the function's own contract."""
    from .samplers import acc_points_loop

    op, withp = S.cfg.split("/")
    A, B, dom = mk_bool(S, op, with_params=(withp != "none"))
    invert = op == "cut"
    n = S.int("n", 1)
    if withp == "none":
        K, Tt, params = 1, None, empty_points(S)
    else:
        K = 1 if withp == "1" else S.int("K", 2)
        Tt = S.tensor("tt", [K, 1])
        params = S.new(POINTS, Tt, S.new(R1, "t"))

    def Pk(k, row):
        tk = [zreal(Tt.val.at([(k,) if withp == "K" else (), ()]))] if Tt is not None else []
        inb = B.in_pred(row, tk)
        return z3.And(A.in_pred(row, tk), z3.Not(inb) if invert else inb)

    S.use_contract(SH + "_random_points_inside", composite_points_summary(S, A, B, invert, dom, "random"))
    if withp == "K":
        S.use_contract(SH + "_inside_grid_with_n", composite_points_summary(S, A, B, invert, dom, "grid"))
        S.loop(SH + "_inside_grid_with_n", 0, acc_points_loop(S, "grid", [("x", R2)], n, 2, lambda k, j, row: Pk(k, row), "parameter-loop", initial="empty"))
    pts = S.method(dom, "sample_grid", n, None, params)
    t = tensor_of(pts)
    ok = t.rank == 2 and t.shape[1].concrete() == 2
    S.ensure("two-columns", ok)
    if not ok:
        return
    if prop == "C02":
        S.ensure("n-rows-per-parameter-row", t.shape[0].size_term() == zint(K) * zint(n))
        if withp == "K":
            S.ensure("grouped-by-parameter-row", len(t.shape[0].factors) == 2 and z3.eq(t.shape[0].factors[0], zint(K)))
        S.ensure("space-is-domain-space", S.I.truth(S.I.compare(ast.Eq(), S.getattr(pts, "space"), S.getattr(dom, "space"))))
        return
    if withp == "K":
        grouped = len(t.shape[0].factors) == 2 and z3.eq(t.shape[0].factors[0], zint(K))
        S.ensure("row-structure", grouped)
        if not grouped:
            return
        S.forall("every-row-in-the-composite-set-at-its-own-parameter-row", t, lambda q: Pk(zint(q[0][0]), cols(t, q[0], 2)))
    else:
        S.forall("every-row-in-the-composite-set-at-its-own-parameter-row", t, lambda q: Pk(0, cols(t, q[0], 2)),
                 extra_hyps=lambda q: S.schema_instances([q[0]], kinds=("all",)))


for _prop in ("C01", "C02"):
    def _kg(S, _prop=_prop):
        _inside_grid_n(S, _prop)
    _kg.__name__ = "cut_intersection_grid_n"
    _kg.__doc__ = _inside_grid_n.__doc__
    scenario(_prop, [SH + "_inside_grid_with_n", SH + "_check_in_b", CUT + ".sample_grid", INTER + ".sample_grid", DOMAIN + "._repeat_params"], configs=["cut/none", "cut/1", "cut/K", "intersection/none", "intersection/1", "intersection/K"])(_kg)


def _bd_pred(op, A, B, pvals):
    """row predicate of the Boolean boundary: regularised CSG formula (pre: operand boundaries are closed subsets)"""
    def P(k, row):
        p = pvals(k)
        inA, inB = A.in_pred(row, p), B.in_pred(row, p)
        onA, onB = A.boundary.in_pred(row, p), B.boundary.in_pred(row, p)
        closed = z3.And(z3.Implies(onA, inA), z3.Implies(onB, inB))
        return z3.Implies(closed, bd_oracle(op, inA, inB, onA, onB))
    return P


def bd_accumulate_loop(S, P, cur_k, label):
    """while-loop contract of sampler_helper._random_points_boundary:  ith_points is Points.empty() or a Points in
    the domain's space whose m >= 0 rows all satisfy the boundary predicate at the current parameter row; use_b is
    a bool.  Termination is NOT proved."""
    from tpv.spec import LoopSpec
    from tpv.tlib import Tensor
    from tpv.core import STensor

    def make(I_, env, _):
        env.vars["use_b"] = bool(I_.choose(2, "use_b"))
        env.vars["_"] = None
        if I_.choose(2, "empty-or-points") == 0:
            env.vars["ith_points"] = empty_points(S)
            return
        m = z3.Int(core.fresh_name("nacc"))
        I_.ctx.assume(m >= 0)
        nm = core.fresh_name("bd_acc")
        f = z3.Function(nm, z3.IntSort(), z3.IntSort(), z3.RealSort())
        kk = cur_k(env)

        def fn(idx):
            r = zint(idx[0][0])
            row = [f(r, z3.IntVal(c)) for c in range(2)]
            I_.ctx.axiom(z3.Implies(z3.And(r >= 0, r < m), P(kk, row)))
            return core.select_comp(idx[1][0], 2, [(lambda x=x: x) for x in row])

        env.vars["ith_points"] = S.new(POINTS, Tensor(STensor([Dim([m]), Dim([2])], fn, "real", nm)), S.new(R2, "x"))

    def check(I_, env, _, tag):
        v = env.vars.get("ith_points", "<unset>")
        S.ensure(f"{label}/{tag}:use-b-is-a-bool", isinstance(env.vars.get("use_b"), bool), kind="inv")
        isp = v != "<unset>" and v is not None and hasattr(v, "f") and "_t" in v.f
        S.ensure(f"{label}/{tag}:accumulator-is-a-point-set", isp, kind="inv")
        if not isp:
            return
        t = v.f["_t"].val
        if t.numel_concrete() == 0 and not list(v.f["space"].native.keys()):
            return  # Points.empty()
        ok = t.rank == 2 and t.shape[1].concrete() == 2
        S.ensure(f"{label}/{tag}:columns", ok, kind="inv")
        if not ok:
            return
        S.ensure(f"{label}/{tag}:space", list(v.f["space"].native.keys()) == ["x"], kind="inv")
        kk = cur_k(env)
        S.forall(f"{label}/{tag}:every-kept-row-lies-on-the-composite-boundary", t, lambda q: P(kk, cols(t, q[0], 2)), kind="inv")

    return LoopSpec(make, check, modifies=["ith_points", "use_b", "_"], label=label)


def _boundary_random_n(S, prop):
    """Union/Cut/IntersectionBoundaryDomain.sample_random_uniform(n, params): sampler_helper._random_points_boundary
    (+ _compute_boundary_ratio).  Outer loop over the parameter rows (blocks [i, n]), inner accumulate-and-filter
    loop alternating between the two operand boundaries; the filter is the real <Op>BoundaryDomain._contains."""
    from .samplers import acc_points_loop

    op, withp = S.cfg.split("/")[:2]
    direct = S.cfg.endswith("/direct")
    A, B, dom = mk_bool(S, op, with_params=(withp == "K"))
    bd = S.getattr(dom, "boundary")
    if withp == "K":
        K = S.int("K", 1)
        Tt = S.tensor("tt", [K, 1])
        params = S.new(POINTS, Tt, S.new(R1, "t"))
        pv = lambda k: [zreal(Tt.val.at([(k,), ()]))]
    else:
        K, params, pv = 1, empty_points(S), (lambda k: [])
    n = S.int("n", 1 if direct else 2)
    P = _bd_pred(op, A, B, pv)
    fq = SH + "_random_points_boundary"
    S.loop(fq, 0, acc_points_loop(S, "random_points", [("x", R2)], n, 2, lambda k, j, row: P(k, row), "parameter-loop", initial="empty"))
    S.loop(fq, 1, bd_accumulate_loop(S, P, lambda env: zint(env.lookup("i")[1]), "accumulate-loop"))
    if direct:
        pts = S.call(fq, bd, A.obj, B.obj, n, params, "cpu")
    else:
        pts = S.method(bd, "sample_random_uniform", n, None, params)
    t = tensor_of(pts)
    ok = t.rank == 2 and t.shape[1].concrete() == 2
    S.ensure("two-columns", ok)
    if not ok:
        return
    if withp == "K":
        grouped = len(t.shape[0].factors) == 2 and z3.eq(t.shape[0].factors[0], zint(K))
        rowk = lambda q: zint(q[0][0])
    else:
        grouped = len(t.shape[0].factors) == 1
        rowk = lambda q: z3.IntVal(0)
    if prop == "C02":
        S.ensure("n-rows-per-parameter-row", t.shape[0].size_term() == zint(K) * zint(n))
        S.ensure("grouped-by-parameter-row", grouped)
        S.ensure("space-is-domain-space", S.I.truth(S.I.compare(ast.Eq(), S.getattr(pts, "space"), S.getattr(bd, "space"))))
        return
    S.ensure("row-structure", grouped)
    if grouped:
        S.forall("every-row-on-the-composite-boundary-at-its-own-parameter-row", t, lambda q: P(rowk(q), cols(t, q[0], 2)))


for _prop in ("C01", "C02"):
    def _kb(S, _prop=_prop):
        _boundary_random_n(S, _prop)
    _kb.__name__ = "boolean_boundary_random_n"
    _kb.__doc__ = _boundary_random_n.__doc__
    scenario(_prop, [SH + "_boundary_random_with_n", SH + "_random_points_boundary", SH + "_compute_boundary_ratio", UNIONB + ".sample_random_uniform", CUTB + ".sample_random_uniform", INTERB + ".sample_random_uniform", UNIONB + "._contains", CUTB + "._contains", INTERB + "._contains"],
             configs=[f"{o}/{w}{d}" for o in ("union", "cut", "intersection") for w in ("K", "none") for d in ("", "/direct")])(_kb)


def _boundary_random_one(S, prop):
    """Union/Cut/IntersectionBoundaryDomain.sample_random_uniform(n = 1, params):
    sampler_helper._random_boundary_points_if_n_eq_1 (search loop alternating between the operand boundaries)."""
    op, withp = S.cfg.split("/")
    A, B, dom = mk_bool(S, op, with_params=(withp == "K"))
    bd = S.getattr(dom, "boundary")
    if withp == "K":
        K = S.int("K", 1)
        Tt = S.tensor("tt", [K, 1])
        params = S.new(POINTS, Tt, S.new(R1, "t"))
        pv = lambda r: [zreal(Tt.val.at([(r,), ()]))]
        rows = K
    else:
        params, pv, rows = empty_points(S), (lambda r: []), 1
    P = _bd_pred(op, A, B, pv)
    rdim = core.dim_of(rows)
    rowterm = lambda comp: zint(comp[0]) if comp else z3.IntVal(0)
    S.loop(SH + "_random_boundary_points_if_n_eq_1", 0, search_loop_spec(S, rows, P, with_use_b=True))
    pts = S.method(bd, "sample_random_uniform", 1, None, params)
    t = tensor_of(pts)
    ok = t.rank == 2 and t.shape[1].concrete() == 2
    S.ensure("two-columns", ok)
    if not ok:
        return
    if prop == "C02":
        S.ensure("one-row-per-parameter-row", t.shape[0].size_term() == zint(rows))
        S.ensure("space-is-domain-space", S.I.truth(S.I.compare(ast.Eq(), S.getattr(pts, "space"), S.getattr(bd, "space"))))
        return
    if len(t.shape[0].factors) != len(rdim.factors):
        S.ensure("row-structure", False)
        return
    S.forall("every-row-on-the-composite-boundary-at-its-own-parameter-row", t, lambda q: P(rowterm(q[0]), cols(t, q[0], 2)),
             extra_hyps=lambda q: S.schema_instances([q[0]], kinds=("all",)))


for _prop in ("C01", "C02"):
    def _kb1(S, _prop=_prop):
        _boundary_random_one(S, _prop)
    _kb1.__name__ = "boolean_boundary_random_one_point"
    _kb1.__doc__ = _boundary_random_one.__doc__
    scenario(_prop, [SH + "_boundary_random_with_n", SH + "_random_boundary_points_if_n_eq_1", UNIONB + ".sample_random_uniform", CUTB + ".sample_random_uniform", INTERB + ".sample_random_uniform"],
             configs=[f"{o}/{w}" for o in ("union", "cut", "intersection") for w in ("K", "none")])(_kb1)


def boundary_points_summary(S, op, A, B, bd):
    """contract of sampler_helper._random_points_boundary at inner call sites (proved by boolean_boundary_random_n
    [*/direct]): requires n >= 1; ensures a fresh Points with rows [K', n], row (k, j) on the composite boundary at
    parameter row k"""
    from tpv.core import STensor, dim_of
    from tpv.tlib import Tensor
    from tpv.tshape import split_digits

    def summary(I, fn, args, kwargs):
        env = I.bind_args(fn, args, kwargs)
        n, params = env.vars["n"], env.vars["params"]
        I.ctx.oblige(f"pre@{I.ctx.loc}:{fn.name}:n-at-least-one", zint(n) >= 1, (), "pre")
        I.ctx.oblige(f"pre@{I.ctx.loc}:{fn.name}:operands", env.vars["domain_a"] is A.obj and env.vars["domain_b"] is B.obj and env.vars["main_domain"] is bd, (), "pre")
        has = I.truth(I.compare(ast.Gt(), I.pylib.b_len(I, params), 0))
        pc = coords_of(I, params) if has else {}
        pd = params.f["_t"].val.shape[0] if has else Dim([])
        unmerged = list(pd.factors) + list(dim_of(n).factors)
        rows = Dim(unmerged)
        f = z3.Function(core.fresh_name("bd_pts"), *([z3.IntSort()] * len(rows.factors) + [z3.IntSort(), z3.RealSort()]))

        def fnv(idx):
            comps = idx[0]
            xs = [f(*([zint(c) for c in comps] + [z3.IntVal(k)])) for k in range(2)]
            kd = tuple(split_digits(unmerged, comps)[: len(pd.factors)])
            P = _bd_pred(op, A, B, lambda k: ([zreal(pc["t"].at([kd, ()]))] if has else []))
            hy = core.index_hyps(rows, comps)
            I.ctx.axiom(z3.Implies(z3.And(hy) if hy else z3.BoolVal(True), P(None, xs)))
            return core.select_comp(idx[1][0], 2, [(lambda x=x: x) for x in xs])

        t = Tensor(STensor([rows, Dim([2])], fnv, "real"))
        return I.instantiate(I.repo.find(POINTS), [t, bd.f["space"]], {})

    return summary


def _boundary_grid_n(S, prop):
    """Union/Cut/IntersectionBoundaryDomain.sample_grid(n, params) for at most one parameter row (more rows are
    rejected by the library with an exception): sampler_helper._boundary_grid_with_n, _check_points_on_main_boundary;
    the random fill-up goes through the separately proved contract of _random_points_boundary."""
    op, withp = S.cfg.split("/")
    A, B, dom = mk_bool(S, op, with_params=(withp != "none"))
    bd = S.getattr(dom, "boundary")
    n = S.int("n", 1)
    if withp == "none":
        params, pv = empty_points(S), (lambda k: [])
    else:
        Tt = S.tensor("tt", [1, 1])
        params = S.new(POINTS, Tt, S.new(R1, "t"))
        pv = lambda k: [zreal(Tt.val.at([(), ()]))]
    P = _bd_pred(op, A, B, pv)
    S.use_contract(SH + "_random_points_boundary", boundary_points_summary(S, op, A, B, bd))
    pts = S.method(bd, "sample_grid", n, None, params)
    t = tensor_of(pts)
    ok = t.rank == 2 and t.shape[1].concrete() == 2
    S.ensure("two-columns", ok)
    if not ok:
        return
    if prop == "C02":
        S.ensure("n-rows", t.shape[0].size_term() == zint(n))
        S.ensure("space-is-domain-space", S.I.truth(S.I.compare(ast.Eq(), S.getattr(pts, "space"), S.getattr(bd, "space"))))
        return
    S.forall("every-row-on-the-composite-boundary", t, lambda q: P(0, cols(t, q[0], 2)))


for _prop in ("C01", "C02"):
    def _kbg(S, _prop=_prop):
        _boundary_grid_n(S, _prop)
    _kbg.__name__ = "boolean_boundary_grid_n"
    _kbg.__doc__ = _boundary_grid_n.__doc__
    scenario(_prop, [SH + "_boundary_grid_with_n", SH + "_check_points_on_main_boundary", UNIONB + ".sample_grid", CUTB + ".sample_grid", INTERB + ".sample_grid"],
             configs=[f"{o}/{w}" for o in ("union", "cut", "intersection") for w in ("1", "none")])(_kbg)


def _union_grid_n(S, prop):
    """UnionDomain.sample_grid(n, params) for at most one parameter row (more rows are rejected with a ValueError by
    int(tensor)): _sample_grid_with_n, _sample_in_b.  post: exactly n rows, each in A or in B."""
    withp = S.cfg
    A, B, dom = mk_bool(S, "union", with_params=(withp != "none"))
    n = S.int("n", 1)
    if withp == "none":
        params, pv = empty_points(S), []
    else:
        Tt = S.tensor("tt", [1, 1])
        params = S.new(POINTS, Tt, S.new(R1, "t"))
        pv = [zreal(Tt.val.at([(), ()]))]
    pts = S.method(dom, "sample_grid", n, None, params)
    t = tensor_of(pts)
    ok = t.rank == 2 and t.shape[1].concrete() == 2
    S.ensure("two-columns", ok)
    if not ok:
        return
    if prop == "C02":
        S.ensure("n-rows", t.shape[0].size_term() == zint(n))
        S.ensure("space-is-domain-space", S.I.truth(S.I.compare(ast.Eq(), S.getattr(pts, "space"), S.getattr(dom, "space"))))
        return
    S.forall("every-row-in-the-union", t, lambda q: z3.Or(A.in_pred(cols(t, q[0], 2), pv), B.in_pred(cols(t, q[0], 2), pv)))


for _prop in ("C01", "C02"):
    def _kug(S, _prop=_prop):
        _union_grid_n(S, _prop)
    _kug.__name__ = "union_grid_n"
    _kug.__doc__ = _union_grid_n.__doc__
    scenario(_prop, [UNION + ".sample_grid", UNION + "._sample_grid_with_n", UNION + "._sample_in_b", UNION + "._points_lay_in_other_domain", UNION + "._get_volume"], configs=["none", "1"])(_kug)


@scenario("C06", [UNIONB + ".normal", CUTB + ".normal", INTERB + ".normal", "torchphysics.problem.domains.domain.BoundaryDomain._transform_input_for_normals"], configs=["union", "cut", "intersection"], history=True)
def boolean_boundary_normal(S):
    """normal() of the boundary of a Boolean operation over ABSTRACT operands (operand contract: the operand's normal
    field n_X(x, p) is a unit vector at every row): one row per point; at a point on the boundary of A the result is
    n_A, at a point that is only on the boundary of B it is n_B (union, intersection) resp. -n_B (cut: the normals of
    the removed part are flipped); the result is a unit vector.  That n_A / +-n_B is the outward direction of the
    composite set at such a point is the locality argument A7 (not mechanised; ill-defined where both boundaries meet)."""
    op = S.cfg
    A, B, dom, bd = S.once(lambda: (lambda A, B, dom: (A, B, dom, S.getattr(dom, "boundary")))(*mk_bool(S, op)))
    N = S.int("N", 1)
    X, pts, params, pv = point_rows(S, N)
    res = S.method(bd, "normal", pts, params).val
    ok = res.rank == 2 and res.shape[1].concrete() == 2
    S.ensure("one-row-per-point-two-components", ok and res.shape[0].size_term() == zint(N))
    if not ok:
        return

    def parts(q):
        x, p = cols(X.val, q[0], 2), pv(q[0])
        nA = [f(*(x + p)) for f in A.boundary.Nrm]
        nB = [f(*(x + p)) for f in B.boundary.Nrm]
        return A.boundary.in_pred(x, p), B.boundary.in_pred(x, p), nA, nB, cols(res, q[0], 2)

    sgn = -1 if op == "cut" else 1

    def goal(q):
        onA, onB, nA, nB, r = parts(q)
        return z3.And(z3.Implies(onA, z3.And([r[c] == nA[c] for c in range(2)])), z3.Implies(z3.And(onB, z3.Not(onA)), z3.And([r[c] == sgn * nB[c] for c in range(2)])))

    S.forall("operand-selection-and-sign", res, goal)
    S.forall("unit-length", res, lambda q: z3.Implies(z3.Or(parts(q)[0], parts(q)[1]), parts(q)[4][0] * parts(q)[4][0] + parts(q)[4][1] * parts(q)[4][1] == 1))


# ----------------------------------------------------------------------------- C18 boxes of moved domains
@scenario("C18", [TRANS + ".bounding_box"], configs=["fn/K", "const/none"])
def translate_bounding_box(S):
    """pre: the inner box encloses the inner domain (operand contract).
    post: a flat [min_0, max_0, ...] vector that encloses the translated domain for every supplied parameter row"""
    fn = S.cfg.startswith("fn")
    A = abstract_domain(S, "A", S.new(R2, "x"), {"t": 1} if fn else None)
    if fn:
        tau = RowFn("tau", ["t"], 2, {"t": 1})
        dom = S.new(TRANS, A.obj, tau)
        K = S.int("K", 1)
        Tt = S.tensor("tt", [K, 1])
        params = S.new(POINTS, Tt, S.new(R1, "t"))
    else:
        cs = [S.real("tau0"), S.real("tau1")]
        dom = S.new(TRANS, A.obj, list(cs))
        params = empty_points(S)
    box = S.method(dom, "bounding_box", params).val
    ok = box.rank == 1 and box.shape[0].concrete() == 4
    S.ensure("flat-2dim-vector", ok)
    if not ok:
        return
    b = [zreal(box.at([(j,)])) for j in range(4)]
    x = [z3.Real("px0"), z3.Real("px1")]
    if fn:
        k = z3.Int("k")
        tk = zreal(Tt.val.at([(k,), ()]))
        tv = tau.value_terms([tk])
        hy = [k >= 0, k < zint(K)] + S.schema_instances([(k,)])
        p = [tk]
    else:
        tv = [c.t for c in cs]
        hy, p = [], []
    y = [x[0] - tv[0], x[1] - tv[1]]
    S.ensure("encloses-the-translated-domain", z3.Implies(A.in_pred(y, p), z3.And([z3.And(b[2 * i] <= x[i], x[i] <= b[2 * i + 1]) for i in range(2)])), hy + [A.box_fact(y, p)])


@scenario("C18", [ROT + ".bounding_box"], configs=["angle-const/none", "pivot-const/none"], history=True)
def rotate_bounding_box(S):
    """post: encloses the rotated domain (the image of the inner box under the rotation)"""
    def build():
        A = abstract_domain(S, "A", S.new(R2, "x"))
        a0 = S.real("angle0")
        if S.cfg.startswith("pivot"):
            piv = [S.real("pivot0"), S.real("pivot1")]
            return A, a0, S.call(S.getattr(S.find(ROT), "from_angles"), A.obj, a0, rotate_around=list(piv)), [p_.t for p_ in piv]
        return A, a0, S.call(S.getattr(S.find(ROT), "from_angles"), A.obj, a0), [z3.RealVal(0), z3.RealVal(0)]

    A, a0, dom, pv = S.once(build)
    box = S.method(dom, "bounding_box").val
    ok = box.rank == 1 and box.shape[0].concrete() == 4
    S.ensure("flat-2dim-vector", ok)
    if not ok:
        return
    b = [zreal(box.at([(j,)])) for j in range(4)]
    y = [z3.Real("py0"), z3.Real("py1")]
    c, s = tlib.cos_sin(a0.t)
    dy = [y[0] - pv[0], y[1] - pv[1]]
    x = [c * dy[0] - s * dy[1] + pv[0], s * dy[0] + c * dy[1] + pv[1]]
    S.ensure("encloses-the-rotated-domain", z3.Implies(A.in_pred(y, []), z3.And([z3.And(b[2 * i] <= x[i], x[i] <= b[2 * i + 1]) for i in range(2)])), [A.box_fact(y, [])])


# ----------------------------------------------------------------------------- operator overloads, moved boundaries, user volumes of motions
@scenario("C05", [DOMAIN + ".__add__", DOMAIN + ".__sub__", DOMAIN + ".__and__", DOMAIN + ".__mul__"], configs=["+", "-", "&", "*"])
def operators_build_the_documented_composites(S):
    """A + B, A - B, A & B, A * C are the union, cut, intersection and Cartesian product OF THESE OPERANDS IN THIS ORDER
    (then the membership contracts of those classes apply); Boolean operators reject operands of different spaces"""
    sp = S.new(R2, "x")
    A = abstract_domain(S, "A", sp, {"t": 1})
    if S.cfg == "*":
        Bd = abstract_domain(S, "B", S.new(R1, "y"), {"t": 1})
        dom = S.I.binop(ast.Mult(), A.obj, Bd.obj)
        S.ensure("product-of-these-operands-in-this-order", dom.cls is S.find(PROD) and S.getattr(dom, "domain_a") is A.obj and S.getattr(dom, "domain_b") is Bd.obj)
        N = S.int("N", 1)
        XY, Tt = S.tensor("XY", [N, 3]), S.tensor("tt", [N, 1])
        pts = S.new(POINTS, XY, S.I.binop(ast.Mult(), S.new(R2, "x"), S.new(R1, "y")))
        res = S.method(dom, "_contains", pts, S.new(POINTS, Tt, S.new(R1, "t"))).val
        S.forall("membership-is-the-conjunction-of-the-factors", res, lambda q: res.at([q[0], ()]) == z3.And(A.in_pred([zreal(XY.val.at([q[0], (c,)])) for c in range(2)], [zreal(Tt.val.at([q[0], ()]))]), Bd.in_pred([zreal(XY.val.at([q[0], (2,)]))], [zreal(Tt.val.at([q[0], ()]))])))
        return
    B = abstract_domain(S, "B", sp, {"t": 1})
    op = {"+": "union", "-": "cut", "&": "intersection"}[S.cfg]
    dom = S.I.binop({"+": ast.Add(), "-": ast.Sub(), "&": ast.BitAnd()}[S.cfg], A.obj, B.obj)
    S.ensure("composite-of-these-operands-in-this-order", dom.cls is S.find(BOOL[op][0]) and S.getattr(dom, "domain_a") is A.obj and S.getattr(dom, "domain_b") is B.obj)
    N = S.int("N", 1)
    X, pts, params, pv = point_rows(S, N)
    res = S.method(dom, "_contains", pts, params).val
    S.forall("boolean-structure", res, lambda q: res.at(q) == combine(op, A.in_pred(cols(X.val, q[0], 2), pv(q[0])), B.in_pred(cols(X.val, q[0], 2), pv(q[0]))))
    other = abstract_domain(S, "C", S.new(R1, "y"))
    S.ensure_raises("operands-of-different-spaces-are-rejected", lambda: S.I.binop({"+": ast.Add(), "-": ast.Sub(), "&": ast.BitAnd()}[S.cfg], A.obj, other.obj), ["ValueError", "AssertionError"])


@scenario("C05", [TRANS + ".boundary", ROT + ".boundary"], configs=["translate", "rotate"])
def boundary_of_a_moved_domain_is_the_moved_boundary(S):
    """Translate(D, tau).boundary / Rotate(D, R).boundary: membership = the inverse image of the boundary of D under the
    SAME motion (same translation / rotation function, same pivot)"""
    A = abstract_domain(S, "A", S.new(R2, "x"), {"t": 1})
    N = S.int("N", 1)
    X, pts, params, pv = point_rows(S, N)
    if S.cfg == "translate":
        tau = RowFn("tau", ["t"], 2, {"t": 1})
        bd = S.getattr(S.new(TRANS, A.obj, tau), "boundary")
        res = S.method(bd, "_contains", pts, params).val
        S.forall("inverse-image-of-the-boundary-under-the-translation", res, lambda q: res.at([q[0], ()]) == A.boundary.in_pred([cols(X.val, q[0], 2)[c] - tau.value_terms([pv(q[0])[0]])[c] for c in range(2)], pv(q[0])))
        return
    ang = RowFn("angle", ["t"], 1, {"t": 1})
    around = RowFn("around", ["t"], 2, {"t": 1})
    bd = S.getattr(S.call(S.getattr(S.find(ROT), "from_angles"), A.obj, ang, rotate_around=around), "boundary")
    res = S.method(bd, "_contains", pts, params).val

    def goal(q):
        x, p = cols(X.val, q[0], 2), pv(q[0])
        a = around.value_terms([p[0]])
        c, s = tlib.cos_sin(ang.value_terms([p[0]])[0])
        dx, dy = x[0] - a[0], x[1] - a[1]
        return res.at([q[0], ()]) == A.boundary.in_pred([c * dx + s * dy + a[0], -s * dx + c * dy + a[1]], p)

    S.forall("inverse-image-of-the-boundary-under-the-rotation", res, goal)


@scenario("C10", [TRANS + ".set_volume", ROT + ".set_volume", TRANS + ".volume", ROT + ".volume"], configs=["translate", "rotate"])
def user_volume_of_a_moved_domain(S):
    """set_volume on a Translate / Rotate overrides the measure reported by volume(), for every parameter row"""
    # a real inner domain: the motions delegate set_volume / volume to it
    inner = S.new("torchphysics.problem.domains.domain2D.circle.Circle", S.new(R2, "x"), RowFn("center", ["t"], 2, {"t": 1}), RowFn("radius", ["t"], 1, {"t": 1}))
    dom = S.new(TRANS, inner, RowFn("tau", ["t"], 2, {"t": 1})) if S.cfg == "translate" else S.call(S.getattr(S.find(ROT), "from_angles"), inner, RowFn("angle", ["t"], 1, {"t": 1}))
    uv = RowFn("uservol", ["t"], 1, {"t": 1})
    S.method(dom, "set_volume", uv)
    K = S.int("K", 1)
    Tt = S.tensor("tt", [K, 1])
    v = S.method(dom, "volume", S.new(POINTS, Tt, S.new(R1, "t"))).val
    S.ensure("one-value-per-parameter-row", v.rank >= 2 and v.shape[0].size_term() == zint(K) and all(d.is_one for d in v.shape[1:]))
    S.forall("user-volume-overrides", v, lambda q: v.at(q) == uv.value_terms([zreal(Tt.val.at([q[0], ()]))])[0])


def _bool_boundary_density(S, op, mode):
    """boundary of a Boolean operation sampled with a DENSITY (one parameter row, the library's own restriction):
    every returned row lies on the boundary of the composite set (regularised-CSG formula over the operand predicates;
    pre: operand boundary samples lie on the operand's boundary, operand boundary points belong to the closed operand)"""
    A, B, dom = mk_bool(S, op)
    bd = S.getattr(dom, "boundary")
    dens = S.real("density")
    S.assume(dens.t > 0)
    T1 = S.tensor("t1", [1, 1])
    one = S.new(POINTS, T1, S.new(R1, "t"))
    pts = S.method(bd, "sample_random_uniform" if mode == "random" else "sample_grid", None, dens, one)
    t = tensor_of(pts)
    ok = t.rank == 2 and t.shape[1].concrete() == 2
    S.ensure("two-columns", ok)
    if not ok:
        return
    p = [zreal(T1.val.at([(), ()]))]

    def goal(q):
        x = [zreal(t.at([q[0], (c,)])) for c in range(2)]
        inA, inB = A.in_pred(x, p), B.in_pred(x, p)
        onA, onB = A.boundary.in_pred(x, p), B.boundary.in_pred(x, p)
        closed = z3.And(z3.Implies(onA, inA), z3.Implies(onB, inB))
        return z3.Implies(closed, bd_oracle(op, inA, inB, onA, onB))

    S.forall("every-row-on-the-boundary-of-the-composite-set", t, goal, extra_hyps=lambda q: S.schema_instances([q[0]]))


for _op in ("union", "cut", "intersection"):
    for _mode in ("random", "grid"):
        def _fb(S, _op=_op, _mode=_mode):
            _bool_boundary_density(S, _op, _mode)
        _fb.__name__ = f"{_op}_boundary_density_sampling_{_mode}"
        _fb.__doc__ = _bool_boundary_density.__doc__
        _cls = BOOL[_op][1]
        scenario("C01", [_cls + (".sample_random_uniform" if _mode == "random" else ".sample_grid"), _cls + ("._sample_random_with_d" if _mode == "random" else "._sample_grid_with_d")], configs=["abstract-operands"])(_fb)


@scenario("C18", [PROD + ".bounding_box", PROD + ".set_bounding_box"], configs=["dependent-first-factor"])
def dependent_product_box_is_assembled_from_the_operand_boxes_of_this_call(S):
    """ProductDomain whose first factor depends on the second, no partner values given: the box is
    [box of A for partner points drawn in B at THESE parameters, box of B at THESE parameters] (an approximation the
    library warns about -- what is under contract is that it is assembled from operand boxes asked in THIS call with
    THIS call's parameters).  history: a second call with other parameters asks the operands again; after
    set_bounding_box the user's box is returned"""
    A = abstract_domain(S, "A", S.new(R2, "x"), {"y": 1, "t": 1})
    B = abstract_domain(S, "B", S.new(R1, "y"), {"t": 1})
    dom = S.new(PROD, A.obj, B.obj)
    for call in ("first", "second"):
        T = S.tensor(f"tt_{call}", [1, 1])
        params = S.new(POINTS, T, S.new(R1, "t"))
        tv = zreal(T.val.at([(), ()]))
        A.box, B.box = None, None
        box = S.method(dom, "bounding_box", params).val
        ok = box.rank == 1 and box.shape[0].concrete() == 6
        S.ensure(f"{call}:flat-vector-of-2-times-3", ok)
        S.ensure(f"{call}:both-operand-boxes-asked-in-this-call", A.box is not None and B.box is not None)
        if not ok or A.box is None or B.box is None:
            return
        (bxa, pa), (bxb, pb) = A.box, B.box
        S.ensure(f"{call}:entries-are-the-operand-boxes-of-this-call", z3.And([zreal(box.at([(j,)])) == bxa[j] for j in range(4)] + [zreal(box.at([(4 + j,)])) == bxb[j] for j in range(2)]))
        pbt = pb.f["_t"].val
        S.ensure(f"{call}:second-factor-asked-with-the-parameters-of-this-call", pbt.rank == 2 and pbt.shape[1].is_one and pbt.shape[0].is_one)
        if pbt.rank == 2 and pbt.shape[0].is_one:
            S.ensure(f"{call}:second-factor-parameter-value", zreal(pbt.at([(), ()])) == tv)
        pat = pa.f["_t"].val
        keys_a = list(pa.f["space"].native.keys())
        S.ensure(f"{call}:first-factor-asked-with-partner-points-and-the-parameters-of-this-call", keys_a == ["y", "t"] and pat.rank == 2)
        if keys_a == ["y", "t"] and pat.rank == 2:
            S.forall(f"{call}:first-factor-rows-carry-the-parameter-of-this-call", pa.f["_t"], lambda q, pat=pat, tv=tv: z3.Implies(zint(q[1][0]) == 1, zreal(pat.at(q)) == tv))
    ub = [S.real(f"user_box{j}") for j in range(6)]
    S.method(dom, "set_bounding_box", ub)
    got = S.method(dom, "bounding_box", S.new(POINTS, S.tensor("tt_third", [1, 1]), S.new(R1, "t")))
    S.ensure("user-box-is-returned-after-set_bounding_box", got is ub)
