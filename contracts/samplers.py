"""Point samplers under contract (C01, C02): RandomUniformSampler, GridSampler, sampler algebra
(ProductSampler, ConcatSampler, AppendSampler), filter paths, DataSampler.

Domains / operand samplers are abstract (their base-class contract only).  Row-provenance oracle:
  result rows = [K', n] (structured axis: row (k, j) = row k*n + j), result.space = domain.space * params.space,
  result[(k,j)][params columns] == params[k]   and   In_D(result[(k,j)][domain columns], params[k]).
"""
import ast

import z3

from tpv import core, tlib
from tpv.core import zint, zreal, Sym, Dim, STensor, uninterp_tensor
from tpv.spec import scenario, RowFn, LoopSpec, UserFn
from tpv.tlib import Tensor
from tpv.absdom import abstract_domain, AbstractSampler, coords_of
from .geom import POINTS, R1, R2, tensor_of

SB = "torchphysics.problem.samplers.sampler_base."
PS = SB + "PointSampler"
RUS = "torchphysics.problem.samplers.random_samplers.RandomUniformSampler"
GS = "torchphysics.problem.samplers.grid_samplers.GridSampler"
DS = "torchphysics.problem.samplers.data_samplers.DataSampler"


def empty_points(S):
    return S.call(S.getattr(S.find(POINTS), "empty"))


class Setup:
    """abstract domain over R2('x') (depending on 't' or not) and parameter points in R1('t')"""

    def __init__(self, S, dep, with_params):
        self.S, self.dep = S, dep
        # the domain, the sampler's n and the sampler itself (Session.once) are the SAME in the second round of a
        # history scenario; parameters are drawn anew
        self.dom = S.once(lambda: abstract_domain(S, "D", S.new(R2, "x"), {"t": 1} if dep else None))
        if with_params:
            self.K = S.int("K", 1)
            self.T = S.tensor("tt", [self.K, 1])
            self.params = S.new(POINTS, self.T, S.new(R1, "t"))
        else:
            self.K, self.T, self.params = None, None, empty_points(S)
        self.n = S.once(lambda: S.int("n", 1))

    @property
    def Kz(self):
        return zint(self.K) if self.K is not None else z3.IntVal(1)

    def check(self, S, prop, pts, nrows=None, tag=""):
        """C02 / C01 postconditions of a sampler-level result"""
        n = self.n if nrows is None else nrows
        t = tensor_of(pts)
        ncols = 3 if self.K is not None else 2
        ok = t.rank == 2 and t.shape[1].concrete() == ncols
        S.ensure(tag + "columns-of-domain-and-parameter-space", ok)
        if not ok:
            return
        keys = list(S.getattr(pts, "space").native.keys())
        S.ensure(tag + "space-is-domain-times-parameter-space", keys == (["x", "t"] if self.K is not None else ["x"]))
        grouped = self.K is None or (len(t.shape[0].factors) == 2 and z3.eq(t.shape[0].factors[0], zint(self.K)))
        if prop == "C02":
            S.ensure(tag + "exactly-n-rows-per-parameter-row", t.shape[0].size_term() == self.Kz * zint(n))
            S.ensure(tag + "rows-grouped-by-parameter-row", grouped)
            if grouped and self.K is not None:
                S.forall(tag + "row-carries-its-parameter-row-unchanged", t, lambda q: zreal(t.at([q[0], (2,)])) == zreal(self.T.val.at([(q[0][0],), ()])))
            return
        S.ensure(tag + "row-structure", grouped)
        if not grouped:
            return

        def goal(q):
            x = [zreal(t.at([q[0], (c,)])) for c in range(2)]
            p = [zreal(self.T.val.at([(q[0][0],), ()]))] if (self.dep and self.K is not None) else []
            return self.dom.in_pred(x, p)

        S.forall(tag + "row-in-the-domain-at-its-own-parameter-row", t, goal)


CFG = ["indep/none", "indep/K", "dep/K"]


def _setup(S):
    dep, wp = S.cfg.split("/")
    return Setup(S, dep == "dep", wp == "K")


for _prop in ("C01", "C02"):
    def _rus(S, _prop=_prop):
        """RandomUniformSampler with n_points: no loop, one draw of K'*n points"""
        su = _setup(S)
        smp = S.once(lambda: S.new(RUS, su.dom.obj, n_points=su.n))
        pts = S.method(smp, "sample_points", su.params)
        su.check(S, _prop, pts)
        if _prop == "C02":
            S.ensure("len-equals-rows-of-a-parameter-free-call", zint(S.I.pylib.b_len(S.I, smp)) == zint(su.n))
    _rus.__name__ = "random_uniform_sampler_n_points"
    scenario(_prop, [RUS + "._sample_points", PS + ".sample_points", PS + "._repeat_params", PS + ".__len__"], configs=CFG, history=True)(_rus)

    def _gsi(S, _prop=_prop):
        """GridSampler, domain independent of the parameters: one grid, repeated for every parameter row"""
        su = _setup(S)
        smp = S.once(lambda: S.new(GS, su.dom.obj, n_points=su.n))
        pts = S.method(smp, "sample_points", su.params)
        su.check(S, _prop, pts)
        if _prop == "C02":
            t = tensor_of(pts)
            if su.K is not None and len(t.shape[0].factors) == 2:
                # the COMPLETE grid for every parameter row: the domain columns of row (k, j) do not depend on k
                S.forall("same-complete-grid-for-every-parameter-row", t, lambda q: zreal(t.at([q[0], q[1]])) == zreal(t.at([(0, q[0][1]), q[1]])), extra_hyps=lambda q: [zint(q[1][0]) < 2])
            S.ensure("len-equals-rows-of-a-parameter-free-call", zint(S.I.pylib.b_len(S.I, smp)) == zint(su.n))
    _gsi.__name__ = "grid_sampler_independent"
    scenario(_prop, [GS + "._sample_points", PS + "._sample_params_independent", PS + ".set_length"], configs=["indep/none", "indep/K"], history=True)(_gsi)


def acc_points_loop(S, var, space_keys, n, ncols, P, label, initial="none"):
    """loop contract for   acc = None; for i in range(K): acc = acc | block_i   (all blocks with n rows):
    invariant: i == 0 and acc is None,  or  acc is a Points with rows [i, n] all satisfying P(k, j, row)"""
    I = S.I

    def make(I_, env, i):
        iz = zint(i)
        if I_.decide(iz == 0):
            env.vars[var] = None if initial == "none" else S.call(S.getattr(S.find(POINTS), "empty"))
            return
        rows = Dim([iz, zint(n)])

        def on(idx, v):
            pass

        nm = core.fresh_name(f"{var}_acc")
        f = z3.Function(nm, z3.IntSort(), z3.IntSort(), z3.IntSort(), z3.RealSort())

        def fn(idx):
            k, j = idx[0]
            row = [f(zint(k), zint(j), z3.IntVal(c)) for c in range(ncols)]
            I_.ctx.axiom(z3.Implies(z3.And(zint(k) >= 0, zint(k) < iz, zint(j) >= 0, zint(j) < zint(n)), P(zint(k), zint(j), row)))
            c = idx[1][0] if ncols != 1 else 0
            return core.select_comp(c, ncols, [(lambda x=x: x) for x in row])

        t = Tensor(STensor([rows, Dim([ncols])], fn, "real", nm))
        sp = None
        for key, qn in space_keys:
            s1 = S.new(qn, key)
            sp = s1 if sp is None else I_.binop(ast.Mult(), sp, s1)
        env.vars[var] = I_.instantiate(I_.repo.find(POINTS), [t, sp], {})

    def check(I_, env, i, tag):
        iz = zint(i)
        v = env.vars.get(var, "<unset>")
        if isinstance(i, int) and i == 0:
            S.ensure(f"{label}/{tag}:accumulator-starts-empty", (v is None) if initial == "none" else (hasattr(v, "f") and "_t" in v.f and v.f["_t"].val.numel_concrete() == 0), kind="inv")
            return
        isp = v is not None and v != "<unset>" and hasattr(v, "f") and "_t" in v.f
        S.ensure(f"{label}/{tag}:accumulator-is-a-point-set", isp, kind="inv")
        if not isp:
            return
        t = v.f["_t"].val
        single = I_.ctx.entails(iz == 1)
        want = Dim([zint(n)]) if single else Dim([iz, zint(n)])
        fs = t.shape[0].factors
        ok = t.rank == 2 and t.shape[1].concrete() == ncols and len(fs) == len(want.factors) and all(I_.ctx.entails(zint(a) == zint(b)) for a, b in zip(fs, want.factors))
        S.ensure(f"{label}/{tag}:rows-are-i-blocks-of-n", ok, kind="inv")
        if not ok:
            return
        keys = list(v.f["space"].native.keys())
        S.ensure(f"{label}/{tag}:space", keys == [k for k, _ in space_keys], kind="inv")
        kj = (lambda q: (z3.IntVal(0), zint(q[0][0]))) if single else (lambda q: (zint(q[0][0]), zint(q[0][1])))
        S.forall(f"{label}/{tag}:every-row-satisfies-the-block-predicate", t, lambda q: P(kj(q)[0], kj(q)[1], [zreal(t.at([q[0], (c,) if ncols != 1 else ()])) for c in range(ncols)]), kind="inv")

    return LoopSpec(make, check, modifies=[var], label=label)


for _prop in ("C01", "C02"):
    def _gsd(S, _prop=_prop):
        """GridSampler, domain depending on the parameters: loop over the parameter rows (loop contract:
        after i iterations the accumulator holds rows [i, n], row (k, j) in the domain at params[k] and
        carrying params[k]) -- the dependent factor is evaluated at its partner point"""
        su = Setup(S, True, True)

        def P(k, j, row):
            tk = zreal(su.T.val.at([(k,), ()]))
            return z3.And(su.dom.in_pred(row[:2], [tk]), row[2] == tk)

        S.loop(PS + "._sample_params_dependent", 0, acc_points_loop(S, S.returned_local(PS + "._sample_params_dependent", "sample_points"), [("x", R2), ("t", R1)], su.n, 3, P, "dependent-loop"))
        smp = S.once(lambda: S.new(GS, su.dom.obj, n_points=su.n))
        pts = S.method(smp, "sample_points", su.params)
        su.check(S, _prop, pts)
    _gsd.__name__ = "grid_sampler_dependent"
    scenario(_prop, [GS + "._sample_points", PS + "._sample_params_dependent", PS + "._sample_for_ith_param", PS + "._set_sampled_points"], configs=["dep/K"], history=True)(_gsd)


# ----------------------------------------------------------------------------- sampler algebra
@scenario("C02", [SB + "ProductSampler.sample_points", SB + "ProductSampler.__init__", SB + "ProductSampler.__len__", PS + ".__mul__"], configs=["none", "K"], history=True)
def product_sampler(S):
    """post: rows [[K', n_b], n_a]; every point of the second factor is paired with a full sample of the first,
    drawn AT that partner point; the partner's columns (and the parameter row) are carried unchanged"""
    def build():
        na, nb = S.int("na", 1), S.int("nb", 1)
        A = AbstractSampler(S, "A", S.new(R2, "x"), na)
        B = AbstractSampler(S, "B", S.new(R1, "y"), nb)
        return na, nb, A, B, S.I.binop(ast.Mult(), A.obj, B.obj)

    na, nb, A, B, prod = S.once(build)
    ca, cb = len(A.calls), len(B.calls)
    if S.cfg == "K":
        K = S.int("K", 1)
        T = S.tensor("tt", [K, 1])
        params = S.new(POINTS, T, S.new(R1, "t"))
    else:
        K, T, params = None, None, empty_points(S)
    pts = S.method(prod, "sample_points", params)
    t = tensor_of(pts)
    ncols = 3 + (1 if K is not None else 0)
    ok = t.rank == 2 and t.shape[1].concrete() == ncols
    S.ensure("columns", ok)
    if not ok:
        return
    S.ensure("space-order-first-second-params", list(S.getattr(pts, "space").native.keys()) == ["x", "y"] + (["t"] if K is not None else []))
    Kz = zint(K) if K is not None else z3.IntVal(1)
    S.ensure("row-count", t.shape[0].size_term() == Kz * zint(nb) * zint(na))
    want = ([zint(K)] if K is not None else []) + [zint(nb), zint(na)]
    fs = list(t.shape[0].factors)
    struct = len(fs) == len(want) and all(z3.eq(zint(a), b) for a, b in zip(fs, want))
    S.ensure("rows-structured-params-second-first", struct)
    if not struct:
        return
    S.ensure("second-factor-sampled-once-with-the-parameters", len(B.calls) == cb + 1 and B.calls[-1]["params"] is params)
    S.ensure("first-factor-sampled-once-at-the-partner-points", len(A.calls) == ca + 1 and A.calls[-1]["params"] is B.calls[-1]["result"])
    bt = B.calls[-1]["tensor"].val

    def partner(q):
        comps = q[0]
        brow = tuple(comps[:-1])
        return z3.And([zreal(t.at([comps, (2 + c,)])) == zreal(bt.at([brow, (c,) if bt.shape[1].concrete() != 1 else ()])) for c in range(ncols - 2)])

    S.forall("partner-point-and-parameter-row-carried-unchanged", t, partner)

    def first_ok(q):
        comps = q[0]
        x = [zreal(t.at([comps, (c,)])) for c in range(2)]
        ps = [zreal(t.at([comps, (2 + c,)])) for c in range(ncols - 2)]
        return A.pred(x, ps)

    S.forall("first-factor-point-drawn-at-its-partner", t, first_ok)
    S.ensure("len-is-rows-returned", zint(S.I.pylib.b_len(S.I, prod)) == t.shape[0].size_term())


@scenario("C02", [SB + "ConcatSampler.sample_points", SB + "ConcatSampler.__len__", PS + ".__add__", SB + "AppendSampler.sample_points", SB + "AppendSampler.__len__", PS + ".append"], configs=["concat", "append"], history=True)
def concat_and_append_sampler(S):
    """concat: rows of the first operand followed by the rows of the second (same space); append: column-stack of
    equally long samples; len(sampler) = rows of a parameter-free call"""
    na = S.once(lambda: S.int("na", 1))
    if S.cfg == "concat":
        def build():
            nb = S.int("nb", 1)
            A = AbstractSampler(S, "A", S.new(R2, "x"), na)
            B = AbstractSampler(S, "B", S.new(R2, "x"), nb)
            return nb, A, B, S.I.binop(ast.Add(), A.obj, B.obj)

        nb, A, B, smp = S.once(build)
        pts = S.method(smp, "sample_points")
        t = tensor_of(pts)
        S.ensure("row-count-is-the-sum", t.shape[0].size_term() == zint(na) + zint(nb))
        ta, tb = A.calls[-1]["tensor"].val, B.calls[-1]["tensor"].val
        r = z3.Int("r")
        S.ensure("first-rows-are-the-first-sample", z3.And([zreal(t.at([(r,), (c,)])) == zreal(ta.at([(r,), (c,)])) for c in range(2)]), [r >= 0, r < zint(na)])
        S.ensure("remaining-rows-are-the-second-sample", z3.And([zreal(t.at([(r,), (c,)])) == zreal(tb.at([(r - zint(na),), (c,)])) for c in range(2)]), [r >= zint(na), r < zint(na) + zint(nb)])
        S.ensure("len", zint(S.I.pylib.b_len(S.I, smp)) == zint(na) + zint(nb))
    else:
        def build():
            A = AbstractSampler(S, "A", S.new(R2, "x"), na)
            B = AbstractSampler(S, "B", S.new(R1, "y"), na)
            return A, B, S.method(A.obj, "append", B.obj)

        A, B, smp = S.once(build)
        pts = S.method(smp, "sample_points")
        t = tensor_of(pts)
        S.ensure("row-count", t.shape[0].size_term() == zint(na))
        S.ensure("space", list(S.getattr(pts, "space").native.keys()) == ["x", "y"])
        ta, tb = A.calls[-1]["tensor"].val, B.calls[-1]["tensor"].val
        S.forall("columns-are-stacked-row-by-row", t, lambda q: z3.And(zreal(t.at([q[0], (0,)])) == zreal(ta.at([q[0], (0,)])), zreal(t.at([q[0], (1,)])) == zreal(ta.at([q[0], (1,)])), zreal(t.at([q[0], (2,)])) == zreal(tb.at([q[0], ()]))))
        S.ensure("len", zint(S.I.pylib.b_len(S.I, smp)) == zint(na))


@scenario("C02", [DS + ".__init__", DS + ".sample_points"], configs=["none", "K"])
def data_sampler(S):
    """post: without parameters the stored points; with K parameter rows every row paired with every parameter row"""
    n = S.int("n", 1)
    X = S.tensor("X", [n, 2])
    pts0 = S.new(POINTS, X, S.new(R2, "x"))
    smp = S.new(DS, pts0)
    if S.cfg == "none":
        r = S.method(smp, "sample_points")
        S.ensure("returns-the-data", r is pts0 or tensor_of(r) is tensor_of(pts0))
        S.ensure("len", zint(S.I.pylib.b_len(S.I, smp)) == zint(n))
        return
    K = S.int("K", 1)
    T = S.tensor("tt", [K, 1])
    params = S.new(POINTS, T, S.new(R1, "t"))
    r = S.method(smp, "sample_points", params)
    t = tensor_of(r)
    S.ensure("row-count", t.shape[0].size_term() == zint(K) * zint(n))
    S.ensure("space", list(S.getattr(r, "space").native.keys()) == ["x", "t"])
    grouped = len(t.shape[0].factors) == 2 and z3.eq(t.shape[0].factors[0], zint(K))
    S.ensure("rows-grouped-by-parameter-row", grouped)
    if grouped:
        S.forall("data-point-and-parameter-row", t, lambda q: z3.And(zreal(t.at([q[0], (2,)])) == zreal(T.val.at([(q[0][0],), ()])), zreal(t.at([q[0], (0,)])) == zreal(X.val.at([(q[0][1],), (0,)]))))


# ----------------------------------------------------------------------------- filter paths
def filtered_points_loop(S, var, count_var, extra_vars, space_keys, ncols, P, label, cur_i):
    """while-loop contract for rejection with a filter:
       invariant: `var` is None (and the count is 0) or a Points whose M >= 0 rows all satisfy P(i, row),
       and count == M.  Termination is NOT proved (it holds only with probability 1)."""

    def make(I_, env, _):
        which = I_.choose(2, "acc-none-or-points")
        for nm, mk in extra_vars.items():
            env.vars[nm] = mk()
        if which == 0:
            env.vars[var] = None
            env.vars[count_var] = 0
            return
        M = z3.Int(core.fresh_name("nacc"))
        I_.ctx.assume(M >= 0)
        nm = core.fresh_name(f"{var}_acc")
        f = z3.Function(nm, z3.IntSort(), z3.IntSort(), z3.RealSort())
        ii = cur_i(env)

        def fn(idx):
            r = zint(idx[0][0])
            row = [f(r, z3.IntVal(c)) for c in range(ncols)]
            I_.ctx.axiom(z3.Implies(z3.And(r >= 0, r < M), P(ii, row)))
            c = idx[1][0] if ncols != 1 else 0
            return core.select_comp(c, ncols, [(lambda x=x: x) for x in row])

        t = Tensor(STensor([Dim([M]), Dim([ncols])], fn, "real", nm))
        sp = None
        for key, qn in space_keys:
            s1 = S.new(qn, key)
            sp = s1 if sp is None else I_.binop(ast.Mult(), sp, s1)
        env.vars[var] = I_.instantiate(I_.repo.find(POINTS), [t, sp], {})
        env.vars[count_var] = Sym(M, "int")

    def check(I_, env, _, tag):
        v = env.vars.get(var, "<unset>")
        cnt = env.vars.get(count_var, "<unset>")
        if v is None:
            S.ensure(f"{label}/{tag}:count-zero-when-empty", zint(cnt) == 0, kind="inv")
            return
        isp = v != "<unset>" and hasattr(v, "f") and "_t" in v.f
        S.ensure(f"{label}/{tag}:accumulator-is-a-point-set", isp, kind="inv")
        if not isp:
            return
        t = v.f["_t"].val
        ok = t.rank == 2 and t.shape[1].concrete() == ncols
        S.ensure(f"{label}/{tag}:columns", ok, kind="inv")
        if not ok:
            return
        S.ensure(f"{label}/{tag}:count-equals-rows", zint(cnt) == t.shape[0].size_term(), kind="inv")
        S.ensure(f"{label}/{tag}:space", list(v.f["space"].native.keys()) == [k for k, _ in space_keys], kind="inv")
        ii = cur_i(env)
        S.forall(f"{label}/{tag}:every-kept-row-passes-filter-and-lies-in-the-domain", t, lambda q: P(ii, [zreal(t.at([q[0], (c,) if ncols != 1 else ()])) for c in range(ncols)]), kind="inv")

    return LoopSpec(make, check, modifies=[var, count_var] + list(extra_vars), label=label)


for _prop in ("C01", "C02"):
    def _rf(S, _prop=_prop):
        """RandomUniformSampler with n_points AND a filter: nested loops under contract.
        post (partial correctness): exactly n rows per parameter row, all passing the filter, inside the domain at
        their own parameter row and carrying it; or RuntimeError when 20 rounds found nothing (documented)"""
        su = Setup(S, True, True)
        flt = RowFn("keep", ["x"], 1, {"x": 2}, dtype="bool")

        def Pk(k, row):
            tk = zreal(su.T.val.at([(k,), ()]))
            return z3.And(su.dom.in_pred(row[:2], [tk]), row[2] == tk, flt.value_terms(row[:2])[0])

        fq = RUS + "._sample_n_points_with_filter"
        S.loop(fq, 0, acc_points_loop(S, S.returned_local(fq, "sample_points"), [("x", R2), ("t", R1)], su.n, 3, lambda k, j, row: Pk(k, row), "parameter-loop"))
        S.loop(fq, 1, filtered_points_loop(S, "new_sample_points", "num_of_new_points", {"iterations": lambda: S.int(core.fresh_name("iters"), 0), "new_points": lambda: None}, [("x", R2), ("t", R1)], 3, Pk, "rejection-loop", lambda env: zint(env.lookup("i")[1])))
        smp = S.new(RUS, su.dom.obj, n_points=su.n, filter_fn=flt)
        out = S.outcome(lambda: S.method(smp, "sample_points", su.params))
        if out[0] == "raise":
            S.ensure("only-the-documented-give-up-error", out[1] == "RuntimeError")
            return
        pts = out[1]
        su.check(S, _prop, pts)
        t = tensor_of(pts)
        if _prop == "C01" and t.rank == 2 and len(t.shape[0].factors) == 2:
            S.forall("every-returned-row-passes-the-filter", t, lambda q: flt.value_terms([zreal(t.at([q[0], (c,)])) for c in range(2)])[0])
    _rf.__name__ = "random_uniform_sampler_with_filter"
    scenario(_prop, [RUS + "._sample_n_points_with_filter", RUS + "._sample_points_with_filter", PS + "._apply_filter", PS + "._cut_tensor_to_length_n", PS + "._check_iteration_number", PS + "._sample_for_ith_param"], configs=["dep/K"])(_rf)


for _prop in ("C01", "C02"):
    def _gsf(S, _prop=_prop):
        """GridSampler with n_points AND a filter: per parameter row a grid, the filter, a rescaled grid, a fill-up with
        filtered random points (RandomUniformSampler with the same filter, used through its contract -- proved by
        random_uniform_sampler_with_filter), cut to n.  post: exactly n rows per parameter row, all passing the filter,
        inside the domain at their own parameter row and carrying it"""
        su = Setup(S, True, True)
        flt = RowFn("keep", ["x"], 1, {"x": 2}, dtype="bool")

        def Pt(tk, row):
            return z3.And(su.dom.in_pred(row[:2], [tk]), row[2] == tk, flt.value_terms(row[:2])[0])

        Pk = lambda k, row: Pt(zreal(su.T.val.at([(k,), ()])), row)
        S.loop(GS + "._sample_n_points_with_filter", 0, acc_points_loop(S, S.returned_local(GS + "._sample_n_points_with_filter", "sample_points"), [("x", R2), ("t", R1)], su.n, 3, lambda k, j, row: Pk(k, row), "parameter-loop"))

        def rus_contract(I_, fn, args, kwargs):
            env = I_.bind_args(fn, args, kwargs)
            me, params = env.vars["self"], env.vars["params"]
            I_.ctx.oblige(f"pre@{I_.ctx.loc}:fill-up-sampler-uses-the-same-domain-filter-and-n", me.f["domain"] is su.dom.obj and me.f.get("filter_fn") is not None and z3.BoolVal(True) and zint(me.f["n_points"]) == zint(su.n), (), "pre")
            pt = params.f["_t"].val
            I_.ctx.oblige(f"pre@{I_.ctx.loc}:fill-up-sampler-gets-one-parameter-row", pt.rank == 2 and pt.shape[0].is_one, (), "pre")
            tk = zreal(pt.at([(), ()]))
            nm = core.fresh_name("fill")
            f = z3.Function(nm, z3.IntSort(), z3.IntSort(), z3.RealSort())

            def fnv(idx):
                r = zint(idx[0][0])
                row = [f(r, z3.IntVal(c)) for c in range(3)]
                I_.ctx.axiom(z3.Implies(z3.And(r >= 0, r < zint(su.n)), Pt(tk, row)))
                return core.select_comp(idx[1][0], 3, [(lambda x=x: x) for x in row])

            sp = I_.binop(ast.Mult(), S.new(R2, "x"), S.new(R1, "t"))
            return I_.instantiate(I_.repo.find(POINTS), [Tensor(STensor([core.dim_of(su.n), Dim([3])], fnv, "real", nm)), sp], {})

        S.use_contract(PS + ".sample_points", rus_contract)
        smp = S.new(GS, su.dom.obj, n_points=su.n, filter_fn=flt)
        pts = S.method(smp, "_sample_points_with_filter", su.params)
        su.check(S, _prop, pts)
        t = tensor_of(pts)
        if _prop == "C01" and t.rank == 2 and len(t.shape[0].factors) == 2:
            S.forall("every-returned-row-passes-the-filter", t, lambda q: flt.value_terms([zreal(t.at([q[0], (c,)])) for c in range(2)])[0])
    _gsf.__name__ = "grid_sampler_with_filter"
    scenario(_prop, [GS + "._sample_points_with_filter", GS + "._sample_n_points_with_filter", GS + "._sample_grid", GS + "._resample_grid", GS + "._append_random_points", PS + "._apply_filter", PS + "._cut_tensor_to_length_n"], configs=["dep/K"])(_gsf)


# ----------------------------------------------------------------------------- Gaussian sampler (C01/C02)
GAUSS = "torchphysics.problem.samplers.random_samplers.GaussianSampler"

for _prop in ("C01", "C02", "C11"):
    def _gauss(S, _prop=_prop):
        """GaussianSampler: proposals from a normal law (arbitrary reals), filtered by the domain's own _contains,
        accumulated per parameter row until n points, cut to n.  Nested loops under contract (partial correctness):
        exactly n rows per parameter row, every row inside the domain at its own parameter row and carrying it."""
        su = _setup(S)
        haveK = su.K is not None
        ncols = 3 if haveK else 2
        keys = [("x", R2), ("t", R1)] if haveK else [("x", R2)]

        def Pk(k, row):
            if not haveK:
                return su.dom.in_pred(row[:2], [])
            tk = zreal(su.T.val.at([(k,), ()]))
            return z3.And(su.dom.in_pred(row[:2], [tk] if su.dep else []), row[2] == tk)

        fq = GAUSS + "._sample_points"
        S.loop(fq, 0, acc_points_loop(S, S.returned_local(fq, "sample_points"), keys, su.n, ncols, lambda k, j, row: Pk(k, row), "parameter-loop"))
        S.loop(fq, 1, filtered_points_loop(S, "new_sample_points", "current_num_of_points", {"new_points": lambda: None}, keys, ncols, Pk, "proposal-loop", lambda env: zint(env.lookup("i")[1])))
        mean = S.once(lambda: [S.real("m0"), S.real("m1")])
        smp = S.once(lambda: S.new(GAUSS, su.dom.obj, su.n, list(mean), S.real("std")))
        if _prop == "C11":
            # per-call clause of 'the Gaussian sampler follows N(mean, std^2 I)': every proposal is an [n, dim] table of
            # variates, one OWN variate per coordinate -- it must NOT be derivable that the deviations of two
            # coordinates of a proposal from their means coincide (one draw broadcast to all coordinates)
            def on_filter(rec):
                t = rec["new_points"].f["_t"].val
                ok = t.rank == 2 and t.shape[0].size_term() is not None and (t.shape[1].concrete() or 0) >= 2
                S.ensure("proposals-are-a-table-rows-by-coordinates", ok and I_entails_eq(S, t.shape[0].size_term(), zint(su.n)))
                if ok:
                    r = z3.Int("proposal_row")
                    S.canary("all-coordinates-of-a-proposal-share-one-variate", zreal(t.at([(r,), (0,)])) - mean[0].t == zreal(t.at([(r,), (1,)])) - mean[1].t, [r >= 0, r < zint(su.n)])

            S.on_call(GAUSS + "._check_inside_domain", on_filter)
            S.ctx.ghost["assumed_lemmas"].pop()
        pts = S.method(smp, "sample_points", su.params)
        if _prop != "C11":
            su.check(S, _prop, pts)
    _gauss.__name__ = "gaussian_sampler" if _prop != "C11" else "gaussian_sampler_draws_an_own_variate_for_every_coordinate"
    scenario(_prop, [GAUSS + "._sample_points", GAUSS + "._check_inside_domain", GAUSS + ".__init__", GAUSS + "._check_mean_correct_dim", PS + "._set_sampled_points", PS + "._cut_tensor_to_length_n"], configs=CFG if _prop != "C11" else ["indep/none"], history=["indep/K", "dep/K"] if _prop != "C11" else None)(_gauss)


# ----------------------------------------------------------------------------- Latin hypercube sampler (C01/C02)
LHS = "torchphysics.problem.samplers.random_samplers.LHSSampler"

for _prop in ("C01", "C02"):
    def _lhs(S, _prop=_prop):
        """LHSSampler: stratified proposals in the bounding box, filtered by the domain's own _contains, filled up
        with uniform points of the domain (RandomUniformSampler, inlined).  post: exactly n rows per parameter row,
        every row inside the domain at its own parameter row and carrying it."""
        su = _setup(S)
        haveK = su.K is not None
        ncols = 3 if haveK else 2
        keys = [("x", R2), ("t", R1)] if haveK else [("x", R2)]

        def Pk(k, row):
            if not haveK:
                return su.dom.in_pred(row[:2], [])
            tk = zreal(su.T.val.at([(k,), ()]))
            return z3.And(su.dom.in_pred(row[:2], [tk] if su.dep else []), row[2] == tk)

        S.loop(LHS + "._sample_points", 0, acc_points_loop(S, S.returned_local(LHS + "._sample_points", "sample_points"), keys, su.n, ncols, lambda k, j, row: Pk(k, row), "parameter-loop"))
        smp = S.once(lambda: S.new(LHS, su.dom.obj, su.n))
        pts = S.method(smp, "sample_points", su.params)
        su.check(S, _prop, pts)
    _lhs.__name__ = "lhs_sampler"
    scenario(_prop, [LHS + "._sample_points", LHS + "._create_lhs_in_bounding_box", LHS + "._check_lhs_inside", LHS + "._append_random_points", RUS + "._sample_points"], configs=CFG, history=["indep/K", "dep/K"])(_lhs)


def I_entails_eq(S, a, b):
    return S.ctx.entails(a == b)


def _lhs_strata_box(S):
    """per-call clause of 'Latin hypercube: one point per slab' at the sampler level: for EVERY parameter row the strata
    are laid out on the bounding box of the domain AT THAT ROW (the box handed to _create_lhs_in_bounding_box is the one
    bounding_box returned for exactly the one-row parameters the proposals are then tested against) -- a box of all
    rows together would put the slabs on the hull, and after the membership filter most slabs of the row's own box
    would be empty or doubly occupied.  (That _create_lhs_in_bounding_box puts one point into each slab of the box it
    is given is latin_hypercube_one_point_per_slab.)"""
    su = Setup(S, True, True)
    keys = [("x", R2), ("t", R1)]

    def Pk(k, row):
        tk = zreal(su.T.val.at([(k,), ()]))
        return z3.And(su.dom.in_pred(row[:2], [tk]), row[2] == tk)

    S.loop(LHS + "._sample_points", 0, acc_points_loop(S, S.returned_local(LHS + "._sample_points", "sample_points"), keys, su.n, 3, lambda k, j, row: Pk(k, row), "parameter-loop"))
    seen = {"box": None, "n": 0}

    def on_create(rec):
        seen["box"] = (rec["bounding_box"], su.dom.box)
        seen["n"] += 1

    def on_check(rec):
        ip = rec["ith_params"]
        got = seen["box"]
        S.ensure("strata-laid-out-before-the-membership-test", got is not None)
        if got is None:
            return
        box_tensor, (bx, bparams) = got
        bt, it = bparams.f["_t"].val, ip.f["_t"].val
        one = lambda v: v.rank == 2 and v.shape[0].is_one and v.shape[1].is_one
        S.ensure("box-asked-for-exactly-one-parameter-row", one(bt) and one(it))
        if one(bt) and one(it):
            S.ensure("box-is-the-box-of-the-row-the-proposals-are-tested-against", zreal(bt.at([(), ()])) == zreal(it.at([(), ()])))
        S.ensure("strata-use-that-box", z3.And([zreal(box_tensor.val.at([(j,)])) == bx[j] for j in range(4)]))

    S.on_call(LHS + "._create_lhs_in_bounding_box", on_create)
    S.ctx.ghost["assumed_lemmas"].pop()
    S.on_call(LHS + "._check_lhs_inside", on_check)
    S.ctx.ghost["assumed_lemmas"].pop()
    smp = S.new(LHS, su.dom.obj, su.n)
    S.method(smp, "sample_points", su.params)


_lhs_strata_box.__name__ = "lhs_sampler_lays_the_strata_on_the_box_of_the_rows_own_parameters"
scenario("C11", [LHS + "._sample_points", LHS + "._check_lhs_inside"], configs=["dep/K"])(_lhs_strata_box)


# ----------------------------------------------------------------------------- ExponentialIntervalSampler (C01/C02)
EXPS = "torchphysics.problem.samplers.grid_samplers.ExponentialIntervalSampler"

for _prop in ("C01", "C02"):
    def _exp(S, _prop=_prop):
        """ExponentialIntervalSampler on a real Interval (constant or parameter-dependent bounds), exponents 2 and 1/2
        (the two branches; the powers are then polynomial): exactly n points per parameter row, each strictly inside
        [lb(p_k), ub(p_k)] of its own parameter row and carrying it; independent intervals: the same grid for every row."""
        from .primitives import Harness, IntervalP

        shape_kind, pk, ex = S.cfg.split("/")
        prim = IntervalP()
        h = Harness(S, prim, f"{shape_kind}/{pk}")
        n = S.once(lambda: S.int("n", 1))
        if shape_kind == "fn":
            def P(k, j, row):
                return z3.And(prim.inset([row[0]], h.vals((k,))), row[1] == zreal(h.ptensor.val.at([(k,), ()])))

            S.loop(PS + "._sample_params_dependent", 0, acc_points_loop(S, S.returned_local(PS + "._sample_params_dependent", "sample_points"), [("x", R1), ("t", R1)], n, 2, P, "dependent-loop"))
        smp = S.once(lambda: S.new(EXPS, h.dom, n, 2 if ex == "2" else 0.5))
        pts = S.method(smp, "sample_points", h.params)
        t = tensor_of(pts)
        haveK = h.ptensor is not None
        ncols = 2 if haveK else 1
        ok = t.rank == 2 and t.shape[1].concrete() == ncols
        S.ensure("columns-of-domain-and-parameter-space", ok)
        if not ok:
            return
        keys = list(S.getattr(pts, "space").native.keys())
        S.ensure("space-is-domain-times-parameter-space", keys == (["x", "t"] if haveK else ["x"]))
        Kz = zint(h.K) if h.K is not None else z3.IntVal(1)
        grouped = h.K is None or h.grouped(t.shape[0])
        if _prop == "C02":
            S.ensure("exactly-n-rows-per-parameter-row", t.shape[0].size_term() == Kz * zint(n))
            S.ensure("rows-grouped-by-parameter-row", grouped)
            if grouped and haveK:
                S.forall("row-carries-its-parameter-row-unchanged", t, lambda q: zreal(t.at([q[0], (1,)])) == zreal(h.ptensor.val.at([h.split(q[0])[0], ()])))
            S.ensure("len-equals-rows-of-a-parameter-free-call", zint(S.I.pylib.b_len(S.I, smp)) == zint(n))
            return
        S.ensure("row-structure", grouped)
        if not grouped:
            return
        S.forall("row-inside-the-interval-of-its-own-parameter-row", t, lambda q: prim.inset([zreal(t.at([q[0], (0,) if ncols != 1 else ()]))], h.vals(h.split(q[0])[0])))
    _exp.__name__ = "exponential_interval_sampler"
    scenario(_prop, [EXPS + ".sample_points", EXPS + "._sample_spaced_grid", EXPS + ".__init__", PS + "._sample_params_independent", PS + "._sample_params_dependent"], configs=[f"{a}/{e}" for a in ("const/none", "const/K", "fn/K") for e in ("2", "half")], history=[f"{a}/2" for a in ("const/K", "fn/K")])(_exp)
