"""C17 — partially evaluating a domain is the same as supplying the parameters.

Primitives: shape parameters are arbitrary row-wise functions of ('t') or ('t','s'); D' = D(t=T0) with T0 a (1,1)
tensor (what PlotSampler passes).  Proved against the ORACLES of contracts/primitives.py:
   D'._contains(x [, s]) <=> InSet(x, F(t0 [, s]));  D'.volume = Meas(F(t0, .));  D'.bounding_box encloses;
   D' no longer needs t;  necessary_variables(D') = FV(D) - {t};  D itself is unchanged (frame).
Operations (abstract operands, whose own __call__ is the contract 'denotes the operand at the given values'):
   union / cut / intersection / product / translate / rotate / boundary commute with partial evaluation, keep
   their declared flags and user-set volume, and declare exactly the free variables of the expression.
"""
import ast

import z3

from tpv import core, frame, tlib
from tpv.core import zint, zreal, Sym, Dim
from tpv.spec import scenario, RowFn
from tpv.tlib import Tensor
from tpv.absdom import abstract_domain
from .geom import POINTS, R1, R2, tensor_of, cols
from .primitives import PRIMS, Prim, D as DPKG
from . import domain_ops as ops

RN = "torchphysics.problem.spaces.space.Rn"
BOUND = "parameter variables schematic ('t' alone, or 't' and 's'); values, rows and shape functions arbitrary"


class PEHarness:
    def __init__(self, S, prim, args_of):
        self.S, self.prim = S, prim
        self.fns = {nm: RowFn(nm, list(args_of), ncols, {a: 1 for a in args_of}) for nm, ncols, _ in prim.params}
        for f in self.fns.values():
            f.on_value = self._on_value
        self.args_of = list(args_of)
        self.dom = prim.construct(S, self.fns)

    def _on_value(self, I, ins, outs):
        vals = {nm: f.value_terms(list(ins)) for nm, f in self.fns.items()}
        for p in self.prim.pre(vals):
            I.ctx.axiom(p)

    def vals(self, *ins):
        v = {nm: f.value_terms(list(ins)) for nm, f in self.fns.items()}
        for p in self.prim.pre(v):
            self.S.ctx.axiom(p)
        return v


def _prim_scenario(prim, two):
    def f(S):
        args_of = ["t", "s"] if two else ["t"]
        h = PEHarness(S, prim, args_of)
        I = S.I
        before = frame.snap(h.dom)
        t0 = S.real("t0")
        T0 = S.tensor("T0", [1, 1])
        S.assume(zreal(T0.val.at([(), ()])) == t0.t)
        nv0 = set(S.getattr(h.dom, "necessary_variables"))
        S.ensure("declares-its-free-variables", nv0 == set(args_of))
        d2 = S.call(h.dom, t=T0)
        S.ensure("original-domain-unchanged", frame.diff(before, frame.snap(h.dom)) is None)
        S.ensure("new-object-of-the-same-class", d2 is not h.dom and d2.cls is h.dom.cls)
        S.ensure("fixed-variable-no-longer-needed", set(S.getattr(d2, "necessary_variables")) == set(args_of) - {"t"})
        # history: a SECOND partial evaluation of the same domain at another value -- the first evaluated domain (all
        # obligations below are stated about it AFTER this step) and the original stay what they were
        snap_d2 = frame.snap(d2)
        T1 = S.tensor("T1", [1, 1])
        d3 = S.call(h.dom, t=T1)
        S.ensure("a-second-partial-evaluation-leaves-the-first-one-unchanged", d3 is not d2 and frame.diff(snap_d2, frame.snap(d2)) is None)
        S.ensure("original-domain-unchanged-by-the-second-evaluation", frame.diff(before, frame.snap(h.dom)) is None)
        N = S.int("N", 1)
        X = S.tensor("X", [N, prim.dim])
        pts = S.new(POINTS, X, S.new(prim.space, "x"))
        if two:
            Sv = S.tensor("Sv", [N, 1])
            params = S.new(POINTS, Sv, S.new(R1, "s"))
            shape = lambda q: h.vals(t0.t, zreal(Sv.val.at([q[0], ()])))
        else:
            params = ops.empty_points(S)
            shape = lambda q: h.vals(t0.t)
        res = S.method(d2, "_contains", pts, params).val
        ok = res.rank == 2 and res.shape[1].is_one
        S.ensure("one-truth-value-per-row", ok)
        if ok:
            at = lambda q: res.at([q[0], ()])
            xq = lambda q: cols(X.val, q[0], prim.dim)
            if prim.name == "point":
                S.forall("membership-agrees-accepts", res, lambda q: z3.Implies(prim.inset(xq(q), shape(q)), at(q)))
                S.forall("membership-agrees-rejects", res, lambda q: z3.Implies(at(q), prim.band(xq(q), shape(q))))
            else:
                cs = (lambda q: [prim.det(shape(q)) > 0, prim.det(shape(q)) < 0]) if hasattr(prim, "det") else None
                S.forall("membership-of-the-evaluated-domain-is-the-original-at-the-value", res, lambda q: at(q) == prim.inset(xq(q), shape(q)), cases=cs)
        vol = S.method(d2, "volume", params).val
        if prim.name != "point":
            S.forall("volume-of-the-evaluated-domain", vol, lambda q: vol.at(q) == prim.meas(shape(q)))
        if not two and prim.name not in ("parallelogram", "triangle"):
            box = S.method(d2, "bounding_box").val
            okb = box.rank == 1 and box.shape[0].concrete() == 2 * prim.dim
            S.ensure("bounding-box-shape", okb)
            if okb and prim.name != "point":
                b = [zreal(box.at([(j,)])) for j in range(2 * prim.dim)]
                v = h.vals(t0.t)
                hv, hc, hx = prim.hull(v)
                S.ensure("bounding-box-of-the-evaluated-domain-encloses-it", z3.Implies(z3.And(hc) if hc else z3.BoolVal(True), z3.And([z3.And(b[2 * i] <= hx[i], hx[i] <= b[2 * i + 1]) for i in range(prim.dim)])))
            n = S.int("n", 1)
            smp = tensor_of(S.method(d2, "sample_random_uniform", n))
            if smp.rank == 2 and smp.shape[1].concrete() == prim.dim:
                S.forall("samples-of-the-evaluated-domain-lie-in-the-original-at-the-value", Tensor(smp), lambda q: prim.inset(cols(smp, q[0], prim.dim), h.vals(t0.t)))
            if prim.has_boundary:
                bd = S.getattr(d2, "boundary")
                bres = S.method(bd, "_contains", pts, params).val
                S.forall("boundary-of-the-evaluated-domain-accepts-the-boundary-at-the-value", bres, lambda q: z3.Implies(prim.onbd(cols(X.val, q[0], prim.dim), shape(q)), bres.at([q[0], ()]) if bres.rank == 2 else bres.at(q)))

    f.__name__ = f"{prim.name}_partial_evaluation"
    f.__doc__ = "post: D(t=T0) denotes D at t0 (membership, volume, bounding box, sampling, boundary); D unchanged; free variables"
    return f


for _prim in PRIMS:
    for _two in (False, True):
        g = _prim_scenario(_prim, _two)
        g.__name__ += "_two_vars" if _two else ""
        extra = []
        if _prim.name in ("parallelogram", "triangle"):
            extra = [_prim.cls + "._check_shape_of_evaluated_user_function"]
        scenario("C17", [_prim.cls + ".__call__", "torchphysics.problem.domains.domain.Domain.set_necessary_variables", "torchphysics.utils.user_fun.UserFunction.partially_evaluate"] + extra, configs=["row-wise-shapes"], bounded=BOUND)(g)


# ----------------------------------------------------------------------------- operations
@scenario("C10", [ops.UNION + ".__call__", ops.CUT + ".__call__", ops.UNION + "._get_volume", ops.CUT + "._get_volume"], configs=["union", "cut"], bounded=BOUND, name="declared_disjoint_unions_and_contained_cuts_keep_their_volume_rule_when_partially_evaluated")
@scenario("C05", [ops.UNION + ".__call__", ops.CUT + ".__call__", ops.INTER + ".__call__"], configs=["union", "cut", "intersection"], bounded=BOUND, name="partially_evaluated_boolean_operations_keep_their_membership_rule")
@scenario("C17", [ops.UNION + ".__call__", ops.CUT + ".__call__", ops.INTER + ".__call__", ops.UNION + ".__init__", ops.CUT + ".__init__", ops.INTER + ".__init__"], configs=["union", "cut", "intersection"], bounded=BOUND)
def boolean_partial_evaluation(S):
    op = S.cfg
    sp = S.new(R2, "x")
    A = abstract_domain(S, "A", sp, {"t": 1, "s": 1})
    B = abstract_domain(S, "B", sp, {"t": 1})
    kw = {"disjoint": True} if op == "union" else ({"contained": True} if op == "cut" else {})
    dom = S.new(ops.BOOL[op][0], A.obj, B.obj, **kw)
    S.ensure("free-variables-are-the-union", set(S.getattr(dom, "necessary_variables")) == {"t", "s"})
    before = frame.snap(dom)
    T0 = S.tensor("T0", [1, 1])
    t0 = zreal(T0.val.at([(), ()]))
    d2 = S.call(dom, t=T0)
    S.ensure("original-unchanged", frame.diff(before, frame.snap(dom)) is None)
    S.ensure("same-kind-of-domain", d2.cls is dom.cls and d2 is not dom)
    S.ensure("remaining-free-variables", set(S.getattr(d2, "necessary_variables")) == {"s"})
    # history: a second evaluation at another value before the first evaluated domain is used
    d3 = S.call(dom, t=S.tensor("T1", [1, 1]))
    S.ensure("second-evaluation-is-another-object-original-still-unchanged", d3 is not d2 and d3 is not dom and frame.diff(before, frame.snap(dom)) is None)
    S.ensure("first-evaluated-domain-keeps-its-operands", S.getattr(d2, "domain_a") is not S.getattr(d3, "domain_a") and S.getattr(d2, "domain_b") is not S.getattr(d3, "domain_b"))
    if op == "union":
        S.ensure("declared-disjointness-kept", S.getattr(d2, "disjoint") is True)
    if op == "cut":
        S.ensure("declared-containment-kept", S.getattr(d2, "contained") is True)
    N = S.int("N", 1)
    X = S.tensor("X", [N, 2])
    Sv = S.tensor("Sv", [N, 1])
    pts, params = S.new(POINTS, X, S.new(R2, "x")), S.new(POINTS, Sv, S.new(R1, "s"))
    res = S.method(d2, "_contains", pts, params).val
    S.forall("membership-is-the-original-at-the-value", res, lambda q: res.at(q) == ops.combine(op, A.in_pred(cols(X.val, q[0], 2), [t0, zreal(Sv.val.at([q[0], ()]))]), B.in_pred(cols(X.val, q[0], 2), [t0])))
    v2 = S.method(d2, "volume", params).val
    va = lambda q: A.Vol(t0, zreal(Sv.val.at([q[0], ()])))
    vb = B.Vol(t0)
    want = {"union": lambda q: va(q) + vb, "cut": lambda q: va(q) - vb, "intersection": va}[op]
    S.forall("volume-is-the-original-at-the-value", v2, lambda q: v2.at(q) == want(q))


@scenario("C17", ["torchphysics.problem.domains.domain.Domain.set_volume", ops.UNION + ".__call__"], configs=["user-volume"], bounded=BOUND)
def user_volume_survives_partial_evaluation(S):
    sp = S.new(R2, "x")
    A = abstract_domain(S, "A", sp, {"t": 1})
    B = abstract_domain(S, "B", sp, {"t": 1})
    dom = S.new(ops.UNION, A.obj, B.obj)
    uv = RowFn("uservol", ["t"], 1, {"t": 1})
    S.method(dom, "set_volume", uv)
    T0 = S.tensor("T0", [1, 1])
    d2 = S.call(dom, t=T0)
    v = S.method(d2, "volume").val
    S.ensure("one-value", v.numel_concrete() == 1)
    if v.numel_concrete() == 1:
        S.ensure("user-set-volume-still-overrides", zreal(v.at([tuple(0 for _ in d.factors) for d in v.shape])) == uv.value_terms([zreal(T0.val.at([(), ()]))])[0])


@scenario("C17", [ops.TRANS + ".__call__", ops.ROT + ".__call__", ops.ROT + ".__init__", ops.TRANS + ".__init__", "torchphysics.problem.domains.domain.BoundaryDomain.__call__"], configs=["translate", "rotate", "boundary"], bounded=BOUND)
def motions_and_boundary_partial_evaluation(S):
    sp = S.new(R2, "x")
    A = abstract_domain(S, "A", sp, {"t": 1})
    T0 = S.tensor("T0", [1, 1])
    t0 = zreal(T0.val.at([(), ()]))
    N = S.int("N", 1)
    X = S.tensor("X", [N, 2])
    pts = S.new(POINTS, X, S.new(R2, "x"))
    if S.cfg == "translate":
        tau = RowFn("tau", ["s"], 2, {"s": 1})
        dom = S.new(ops.TRANS, A.obj, tau)
        S.ensure("free-variables", set(S.getattr(dom, "necessary_variables")) == {"t", "s"})
        d2 = S.call(dom, t=T0)
        S.ensure("remaining", set(S.getattr(d2, "necessary_variables")) == {"s"})
        Sv = S.tensor("Sv", [N, 1])
        res = S.method(d2, "_contains", pts, S.new(POINTS, Sv, S.new(R1, "s"))).val
        S.forall("membership", res, lambda q: res.at(q) == A.in_pred([zreal(X.val.at([q[0], (c,)])) - tau.value_terms([zreal(Sv.val.at([q[0], ()]))])[c] for c in range(2)], [t0]))
    elif S.cfg == "rotate":
        ang = RowFn("angle", ["s"], 1, {"s": 1})
        around = RowFn("around", ["r"], 2, {"r": 1})
        dom = S.call(S.getattr(S.find(ops.ROT), "from_angles"), A.obj, ang, rotate_around=around)
        S.ensure("free-variables-include-the-pivot-function", set(S.getattr(dom, "necessary_variables")) == {"t", "s", "r"})
        d2 = S.call(dom, t=T0)
        S.ensure("remaining", set(S.getattr(d2, "necessary_variables")) == {"s", "r"})
    else:
        bd = A.boundary
        d2 = S.call(bd.obj, t=T0) if False else S.call(S.getattr(S.new(ops.UNION, A.obj, abstract_domain(S, "B", sp, {"t": 1}).obj), "boundary"), t=T0)
        S.ensure("boundary-of-the-evaluated-domain", S.I.isinstance_(d2, S.find("torchphysics.problem.domains.domain.BoundaryDomain")))
        S.ensure("remaining", set(S.getattr(d2, "necessary_variables")) == set())


@scenario("C17", [ops.PROD + ".__call__", ops.PROD + "._create_point_data"], configs=["fix-outer-parameter", "fix-second-factor"], bounded=BOUND)
def product_partial_evaluation(S):
    A = abstract_domain(S, "A", S.new(R2, "x"), {"y": 1, "t": 1})
    B = abstract_domain(S, "B", S.new(R1, "y"), {"t": 1})
    dom = S.new(ops.PROD, A.obj, B.obj)
    S.ensure("free-variables-exclude-the-partner-variable", set(S.getattr(dom, "necessary_variables")) == {"t"})
    N = S.int("N", 1)
    if S.cfg == "fix-outer-parameter":
        T0 = S.tensor("T0", [1, 1])
        t0 = zreal(T0.val.at([(), ()]))
        d2 = S.call(dom, t=T0)
        S.ensure("no-free-variables-left", set(S.getattr(d2, "necessary_variables")) == set())
        XY = S.tensor("XY", [N, 3])
        pts = S.new(POINTS, XY, S.I.binop(ast.Mult(), S.new(R2, "x"), S.new(R1, "y")))
        res = S.method(d2, "_contains", pts).val
        S.forall("membership", res, lambda q: res.at(q) == z3.And(A.in_pred([zreal(XY.val.at([q[0], (c,)])) for c in range(2)], [zreal(XY.val.at([q[0], (2,)])), t0]), B.in_pred([zreal(XY.val.at([q[0], (2,)]))], [t0])))
    else:
        Y0 = S.tensor("Y0", [1, 1])
        y0 = zreal(Y0.val.at([(), ()]))
        d2 = S.call(dom, y=Y0)
        S.ensure("product-domain-again", d2.cls is dom.cls)
        S.ensure("still-needs-t", set(S.getattr(d2, "necessary_variables")) == {"t"})
        XY = S.tensor("XY", [N, 3])
        Tt = S.tensor("Tt", [N, 1])
        pts = S.new(POINTS, XY, S.I.binop(ast.Mult(), S.new(R2, "x"), S.new(R1, "y")))
        res = S.method(d2, "_contains", pts, S.new(POINTS, Tt, S.new(R1, "t"))).val
        # fixing y: the second factor becomes the point {y0}; the first is evaluated at y0
        S.forall("membership-accepts-points-of-the-slice", res, lambda q: z3.Implies(z3.And(zreal(XY.val.at([q[0], (2,)])) == y0, A.in_pred([zreal(XY.val.at([q[0], (c,)])) for c in range(2)], [y0, zreal(Tt.val.at([q[0], ()]))]), B.in_pred([y0], [zreal(Tt.val.at([q[0], ()]))])), res.at(q)))


@scenario("C17", [ops.UNION + ".__init__", ops.CUT + ".__init__", ops.INTER + ".__init__", ops.PROD + ".__init__", ops.TRANS + ".__init__", ops.ROT + ".__init__"], configs=["union", "cut", "intersection", "product", "translate", "rotate"], bounded=BOUND)
def building_a_composite_leaves_the_free_variables_of_its_operands_unchanged(S):
    """dependency bookkeeping: the composite's necessary_variables is the union of the free variables of its parts, and
    constructing it does NOT change the operands' own sets (an operand that is constant in t stays constant in t, also
    after the composite was partially evaluated) -- later products, motions and samplers branch on these sets"""
    sp = S.new(R2, "x")
    A = abstract_domain(S, "A", sp)  # constant
    kind = S.cfg
    before_a = set(S.getattr(A.obj, "necessary_variables"))
    before_abd = set(S.getattr(A.boundary.obj, "necessary_variables"))
    S.ensure("operand-a-is-constant", before_a == set())
    if kind in ("union", "cut", "intersection"):
        B = abstract_domain(S, "B", sp, {"t": 1})
        dom = S.new({"union": ops.UNION, "cut": ops.CUT, "intersection": ops.INTER}[kind], A.obj, B.obj)
        want = {"t"}
        others = [(B, {"t"})]
    elif kind == "product":
        B = abstract_domain(S, "B", S.new(R1, "y"), {"t": 1})
        dom = S.new(ops.PROD, A.obj, B.obj)
        want = {"t"}
        others = [(B, {"t"})]
    elif kind == "translate":
        dom = S.new(ops.TRANS, A.obj, RowFn("tau", ["t"], 2, {"t": 1}))
        want, others = {"t"}, []
    else:
        dom = S.call(S.getattr(S.find(ops.ROT), "from_angles"), A.obj, RowFn("angle", ["t"], 1, {"t": 1}))
        want, others = {"t"}, []
    S.ensure("composite-needs-the-union-of-the-free-variables", set(S.getattr(dom, "necessary_variables")) == want)
    S.ensure("operand-a-still-constant", set(S.getattr(A.obj, "necessary_variables")) == before_a)
    S.ensure("boundary-of-operand-a-still-constant", set(S.getattr(A.boundary.obj, "necessary_variables")) == before_abd)
    for (O, w) in others:
        S.ensure("other-operand-unchanged", set(S.getattr(O.obj, "necessary_variables")) == w)
    T0 = S.tensor("T0", [1, 1])
    d2 = S.call(dom, t=T0)
    S.ensure("evaluated-composite-has-no-free-variables", set(S.getattr(d2, "necessary_variables")) == set())
    S.ensure("operand-a-still-constant-after-the-evaluation", set(S.getattr(A.obj, "necessary_variables")) == before_a and set(S.getattr(dom, "necessary_variables")) == want)


@scenario("C17", [ops.PROD + ".__call__", "torchphysics.problem.domains.domain.Domain.set_volume", "torchphysics.problem.domains.domain.Domain.volume"], configs=["user-volume-then-slice"], bounded=BOUND)
def slicing_a_product_at_its_own_variable_does_not_inherit_the_volume_of_the_whole(S):
    """history: a volume was set (or cached) on the product A(t) x B(t); evaluating the product at a value of its OWN
    variable y gives the slice A x {y0}, whose volume is that of the evaluated factors (vol_A(t) * 1), not the volume
    stored on the whole product; the original keeps its stored volume"""
    A = abstract_domain(S, "A", S.new(R2, "x"), {"t": 1})
    B = abstract_domain(S, "B", S.new(R1, "y"), {"t": 1})
    dom = S.new(ops.PROD, A.obj, B.obj)
    uv = RowFn("uservol", ["t"], 1, {"t": 1})
    S.method(dom, "set_volume", uv)
    K = S.int("K", 1)
    Tt = S.tensor("tt", [K, 1])
    params = S.new(POINTS, Tt, S.new(R1, "t"))
    v0 = S.method(dom, "volume", params).val
    S.forall("the-whole-product-reports-the-user-volume", v0, lambda q: v0.at(q) == uv.value_terms([zreal(Tt.val.at([q[0], ()]))])[0])
    d2 = S.call(dom, y=S.tensor("Y0", [1, 1]))
    v2 = S.method(d2, "volume", params).val
    ok = v2.rank >= 1 and v2.shape[0].size_term() is not None
    S.ensure("slice-volume-has-one-value-per-parameter-row", ok)
    S.forall("slice-volume-is-the-volume-of-the-evaluated-factors", v2, lambda q: v2.at(q) == A.Vol(zreal(Tt.val.at([q[0], ()]))))
    v1 = S.method(dom, "volume", params).val
    S.forall("the-original-still-reports-the-user-volume", v1, lambda q: v1.at(q) == uv.value_terms([zreal(Tt.val.at([q[0], ()]))])[0])


@scenario("C01", [ops.PROD + ".__call__", ops.PROD + "._create_point_data", ops.PROD + ".sample_random_uniform"], configs=["keywords-in-reverse-space-order"], bounded=BOUND, name="samples_of_a_product_sliced_at_a_two_variable_factor_carry_the_values_of_the_same_name")
@scenario("C05", [ops.PROD + ".__call__", ops.PROD + "._create_point_data", ops.PROD + "._contains"], configs=["keywords-in-reverse-space-order"], bounded=BOUND, name="membership_in_a_product_sliced_at_a_two_variable_factor_binds_the_values_by_name")
@scenario("C17", [ops.PROD + ".__call__", ops.PROD + "._create_point_data"], configs=["keywords-in-reverse-space-order"], bounded=BOUND)
def product_fixing_a_factor_with_two_variables_binds_the_values_by_name(S):
    """(A over p, q) x (B over y), evaluated at q = Q0, p = P0 with the keywords NOT in the order of the factor's space
    (one value a tensor, one a number): the first factor becomes the point (p, q) = (P0, Q0) -- the values are bound
    by NAME, so the slice accepts (P0, Q0, y) for y in B and rejects points whose p or q is far from its own value."""
    sp = S.I.binop(ast.Mult(), S.new(R1, "p"), S.new(R1, "q"))
    A = abstract_domain(S, "A", sp)
    B = abstract_domain(S, "B", S.new(R1, "y"))
    dom = S.new(ops.PROD, A.obj, B.obj)
    P0 = S.tensor("P0", [1, 1])
    p0 = zreal(P0.val.at([(), ()]))
    q0 = S.real("Q0")
    d2 = S.call(dom, q=q0, p=P0)
    S.ensure("product-domain-again", d2.cls is dom.cls)
    S.ensure("no-free-variables-left", set(S.getattr(d2, "necessary_variables")) == set())
    N = S.int("N", 1)
    V = S.tensor("V", [N, 3])
    pts = S.new(POINTS, V, S.I.binop(ast.Mult(), sp, S.new(R1, "y")))
    res = S.method(d2, "_contains", pts).val
    col = lambda q, c: zreal(V.val.at([q[0], (c,)]))
    absz = lambda e: z3.If(e >= 0, e, -e)
    S.forall("accepts-the-fixed-values-by-name", res, lambda q: z3.Implies(z3.And(col(q, 0) == p0, col(q, 1) == q0.t, B.in_pred([col(q, 2)], [])), res.at(q)))
    S.forall("rejects-points-far-from-the-value-of-the-same-name", res, lambda q: z3.Implies(res.at(q), z3.And(absz(col(q, 0) - p0) <= (absz(p0) + 1) / 100, absz(col(q, 1) - q0.t) <= (absz(q0.t) + 1) / 100)))
    # sampling the slice: every sampled row carries p = P0, q = Q0 (by name) and a point of B
    n = S.int("n", 1)
    smp = tensor_of(S.method(d2, "sample_random_uniform", n))
    ok = smp.rank == 2 and smp.shape[1].concrete() == 3
    S.ensure("samples-have-the-columns-p-q-y", ok and smp.shape[0].size_term() == zint(n))
    if ok:
        S.forall("sampled-rows-carry-the-fixed-values-of-the-same-name-and-a-point-of-B", Tensor(smp), lambda q: z3.And(zreal(smp.at([q[0], (0,)])) == p0, zreal(smp.at([q[0], (1,)])) == q0.t, B.in_pred([zreal(smp.at([q[0], (2,)]))], [])), extra_hyps=lambda q: S.schema_instances([q[0]]))


@scenario("C17", [DPKG + "domain1D.interval.IntervalSingleBoundaryPoint.__call__"], configs=["left", "right"], bounded=BOUND)
def interval_single_boundary_point_partial_evaluation(S):
    lo = RowFn("lower_bound", ["t"], 1, {"t": 1})
    up = RowFn("upper_bound", ["t"], 1, {"t": 1})
    dom = S.new(DPKG + "domain1D.interval.Interval", S.new(R1, "x"), lo, up)
    bd = S.getattr(dom, "boundary_left" if S.cfg == "left" else "boundary_right")
    T0 = S.tensor("T0", [1, 1])
    t0 = zreal(T0.val.at([(), ()]))
    d2 = S.call(bd, t=T0)
    S.ensure("no-free-variables-left", set(S.getattr(d2, "necessary_variables")) == set())
    n = S.int("n", 1)
    out = S.outcome(lambda: S.method(d2, "sample_random_uniform", n))
    S.ensure("sampling-the-evaluated-boundary-point-needs-no-parameters", out[0] == "ok")
    if out[0] == "ok":
        t = tensor_of(out[1])
        want = (lo if S.cfg == "left" else up).value_terms([t0])[0]
        S.forall("samples-are-the-end-point-at-the-value", Tensor(t), lambda q: zreal(t.at(q)) == want)


SBP = DPKG + "domain1D.interval.IntervalSingleBoundaryPoint"

for _prop in ("C05", "C06", "C17"):
    def _single_end(S, _prop=_prop):
        """Interval.boundary_left / boundary_right (one end point as a boundary object), used directly and after
        partial evaluation with a value the bounds do not depend on (`bd(a=...)`, the form that works on the current
        tree -- see F21 for bounds that do depend on it):
          membership (C05): accepts x = lb(t) (left) resp. ub(t) (right) of the row's own parameters, rejects points
                            farther than the isclose tolerance from it -- in particular the OTHER end;
          normal (C06):     -1 at the left end, +1 at the right end, one row per point;
          (C17)             the evaluated object answers like the original."""
        side, how = S.cfg.split("/")
        lo = RowFn("lower_bound", ["t"], 1, {"t": 1})
        up = RowFn("upper_bound", ["t"], 1, {"t": 1})
        dom = S.new(DPKG + "domain1D.interval.Interval", S.new(R1, "x"), lo, up)
        bd = S.getattr(dom, "boundary_left" if side == "left" else "boundary_right")
        if how == "evaluated":
            bd = S.call(bd, a=S.tensor("A0", [1, 1]))
        N = S.int("N", 1)
        X, Tt = S.tensor("X", [N, 1]), S.tensor("tt", [N, 1])
        pts, params = S.new(POINTS, X, S.new(R1, "x")), S.new(POINTS, Tt, S.new(R1, "t"))
        tq = lambda q: zreal(Tt.val.at([q[0], ()]))
        xq = lambda q: zreal(X.val.at([q[0], ()]))
        own = (lambda q: lo.value_terms([tq(q)])[0]) if side == "left" else (lambda q: up.value_terms([tq(q)])[0])
        other = (lambda q: up.value_terms([tq(q)])[0]) if side == "left" else (lambda q: lo.value_terms([tq(q)])[0])
        absz = lambda e: z3.If(e >= 0, e, -e)
        if _prop in ("C05", "C17"):
            res = S.method(bd, "_contains", pts, params).val
            ok = res.rank == 2 and res.shape[1].is_one and res.shape[0].size_term() == zint(N)
            S.ensure("one-truth-value-per-row", ok)
            if ok:
                S.forall("accepts-its-own-end-point", Tensor(res), lambda q: z3.Implies(xq(q) == own(q), res.at([q[0], ()])))
                S.forall("rejects-beyond-tolerance-in-particular-the-other-end", Tensor(res), lambda q: z3.Implies(res.at([q[0], ()]), absz(xq(q) - own(q)) <= core.realval(1e-8) + core.realval(1e-5) * absz(own(q))))
        if _prop in ("C06", "C17"):
            nrm = S.method(bd, "normal", pts, params).val
            ok = nrm.rank == 2 and nrm.shape[1].is_one and nrm.shape[0].size_term() == zint(N)
            S.ensure("one-normal-per-point", ok)
            if ok:
                S.forall("outward-unit-normal-of-this-end", Tensor(nrm), lambda q: zreal(nrm.at([q[0], ()])) == (-1 if side == "left" else 1))
    _single_end.__name__ = "interval_end_point_objects_membership_and_normal"
    scenario(_prop, ([SBP + "._contains"] if _prop != "C06" else []) + ([SBP + ".normal"] if _prop != "C05" else []) + [SBP + ".__call__", SBP + ".__init__"], configs=[f"{s}/{h}" for s in ("left", "right") for h in ("plain", "evaluated")], bounded=BOUND)(_single_end)


@scenario("C10", [SBP + "._get_volume"], configs=["left", "right"], bounded=BOUND)
def interval_end_point_has_counting_measure_one(S):
    """the measure of one end point of an interval (a 0-dimensional boundary piece) is 1 for every parameter row -- the
    value density sampling on it multiplies with"""
    lo = RowFn("lower_bound", ["t"], 1, {"t": 1})
    up = RowFn("upper_bound", ["t"], 1, {"t": 1})
    dom = S.new(DPKG + "domain1D.interval.Interval", S.new(R1, "x"), lo, up)
    bd = S.getattr(dom, "boundary_left" if S.cfg == "left" else "boundary_right")
    K = S.int("K", 1)
    v = S.method(bd, "volume", S.new(POINTS, S.tensor("tt", [K, 1]), S.new(R1, "t"))).val
    S.ensure("one-value-per-parameter-row", v.rank == 2 and v.shape[0].size_term() == zint(K) and v.shape[1].is_one)
    S.forall("measure-one", Tensor(v), lambda q: zreal(v.at(q)) == 1)
