"""C13 — user functions receive their arguments by name.

Contracts on torchphysics.utils.user_fun.{UserFunction, DomainUserFunction}.
Oracle (from the property statement): Bind(f, mapping) = f(**{a: mapping[a] if a in mapping else default[a]
for a in declared parameters}); exactly one invocation, never positional; frame: nothing but a new wrapper changes.
Signatures are schematic: a <= 4 declared parameters, the last m with defaults (bounded in a; values arbitrary).
"""
import itertools

from tpv.spec import scenario, UserFn, App
from tpv import frame

UF = "torchphysics.utils.user_fun.UserFunction"
DUF = "torchphysics.utils.user_fun.DomainUserFunction"
BOUND = "declared parameters a <= 4 (all (a, m) enumerated); argument VALUES are arbitrary (opaque / symbolic)"

SIGS = [f"{a}:{m}" for a in range(0, 5) for m in range(0, a + 1)]


def mk_fn(S, cfg):
    a, m = (int(x) for x in cfg.split(":"))
    names = [f"p{i}" for i in range(a)]
    defaults = {names[a - m + i]: S.opaque(f"d{i}") for i in range(m)}
    return UserFn("f", names, defaults), names, defaults


def same(x, y):
    if isinstance(x, App) and isinstance(y, App):
        return x.key() == y.key()
    return x is y


@scenario("C13", [UF + ".__init__", UF + "._transform_to_user_function", UF + "._set_input_args_for_function", UF + ".necessary_args", UF + ".optional_args"], configs=SIGS, bounded=BOUND)
def wrap_signature(S):
    """post: args = declared parameters in order; defaults = {args[a-m+i]: d_i}; necessary/optional split"""
    f, names, defaults = mk_fn(S, S.cfg)
    w = S.new(UF, f)
    S.ensure("fun-is-user-function", S.getattr(w, "fun") is f)
    S.ensure("args-are-declared-parameters", list(S.getattr(w, "args")) == names)
    d = S.getattr(w, "defaults")
    S.ensure("defaults-aligned-to-tail", list(d.keys()) == list(defaults.keys()) and all(d[k] is defaults[k] for k in defaults))
    S.ensure("necessary-args", list(S.getattr(w, "necessary_args")) == [n for n in names if n not in defaults])
    S.ensure("optional-args", list(S.getattr(w, "optional_args")) == [n for n in names if n in defaults])
    S.ensure("user-function-not-called", len(f.calls) == 0)


@scenario("C13", [UF + "._set_input_args_for_function"], configs=["varargs", "varkw"])
def wrap_rejects_variadic(S):
    f = UserFn("f", ["a"], varargs="args" if S.cfg == "varargs" else None, varkw="kw" if S.cfg == "varkw" else None)
    S.ensure_raises("variadic-rejected", lambda: S.new(UF, f), "ValueError")


def _mappings(names, defaults):
    """all ways to supply: every required name present; each optional present or absent; an extra key or not"""
    req = [n for n in names if n not in defaults]
    opt = [n for n in names if n in defaults]
    for mask in itertools.product([False, True], repeat=len(opt)):
        for extra in (False, True):
            for rev in (False, True):
                keys = req + [o for o, b in zip(opt, mask) if b] + (["zz_extra"] if extra else [])
                if rev:
                    keys = list(reversed(keys))
                yield keys


@scenario("C13", [UF + ".__call__", UF + ".evaluate_function"], configs=SIGS, bounded=BOUND)
def call_binds_by_name(S):
    """post: exactly one invocation, keywords only, keyword set = declared parameters, each bound to the
    value stored under its name (else its default); result is that invocation's value; frame: mapping,
    wrapper and defaults unchanged"""
    f, names, defaults = mk_fn(S, S.cfg)
    w = S.new(UF, f)
    n = 0
    for keys in _mappings(names, defaults):
        mapping = {k: S.opaque(f"v_{k}") for k in keys}
        before_m, before_w = frame.snap(mapping), frame.snap(w)
        ncalls = len(f.calls)
        r = S.method(w, "__call__", mapping)
        tag = f"{n}"
        n += 1
        S.ensure(f"called-exactly-once#{tag}", len(f.calls) == ncalls + 1)
        c = f.calls[-1]
        S.ensure(f"never-positional#{tag}", c["positional"] == 0)
        S.ensure(f"keywords-are-declared-parameters#{tag}", sorted(c["kwargs"]) == sorted(names))
        S.ensure(
            f"bound-by-name#{tag}",
            all(c["kwargs"].get(a) is (mapping[a] if a in mapping else defaults.get(a)) for a in names),
        )
        S.ensure(f"result-is-function-value#{tag}", isinstance(r, App) and r is not None and r.key() == App("f", c["bound"]).key())
        S.ensure(f"frame-mapping-unchanged#{tag}", frame.diff(before_m, frame.snap(mapping)) is None)
        S.ensure(f"frame-wrapper-unchanged#{tag}", frame.diff(before_w, frame.snap(w)) is None)


@scenario("C13", [UF + ".__call__"], configs=[s for s in SIGS if int(s.split(":")[0]) > int(s.split(":")[1])], bounded=BOUND)
def call_missing_required_rejected(S):
    """post: a mapping lacking any one required name is rejected (AssertionError), the user function is not called"""
    f, names, defaults = mk_fn(S, S.cfg)
    w = S.new(UF, f)
    req = [n for n in names if n not in defaults]
    for miss in req:
        mapping = {k: S.opaque(f"v_{k}") for k in names if k != miss}
        S.ensure_raises(f"missing-{miss}-rejected", lambda: S.method(w, "__call__", mapping), "AssertionError")
    S.ensure("user-function-not-called", len(f.calls) == 0)


@scenario("C13", [UF + ".__call__"], configs=["xt", "tx"])
def call_with_points(S):
    """post: a Points argument is bound through its coordinates by NAME, for either variable order"""
    order = list(S.cfg)
    f = UserFn("f", ["x", "t"])
    w = S.new(UF, f)
    N = S.int("N", 1)
    sp = None
    for v in order:
        s = S.new("torchphysics.problem.spaces.space.R1", v)
        sp = s if sp is None else S.I.binop(__import__("ast").Mult(), sp, s)
    data = S.tensor("data", [N, 2])
    pts = S.new("torchphysics.problem.spaces.points.Points", data, sp)
    S.method(w, "__call__", pts)
    S.ensure("called-once", len(f.calls) == 1)
    c = f.calls[-1]["kwargs"]
    for v in order:
        col = order.index(v)
        S.forall(f"{v}-bound-to-its-own-column", c[v], lambda idx, col=col, v=v: c[v].val.at(idx) == data.val.at([idx[0], (col,)]))


@scenario("C13", [UF + ".partially_evaluate", UF + ".set_default", UF + ".__deepcopy__"], configs=SIGS, bounded=BOUND)
def partial_evaluation(S):
    """post: value as soon as all required names are bound (absent optional -> defaults), otherwise a NEW
    wrapper w' with w'(rest) = w(rest U given); frame: w, its defaults/args, the given dict unchanged"""
    f, names, defaults = mk_fn(S, S.cfg)
    w = S.new(UF, f)
    req = [n for n in names if n not in defaults]
    n = 0
    for k in range(0, len(names) + 1):
        for given_names in itertools.combinations(names, k):
            given = {g: S.opaque(f"g_{g}") for g in given_names}
            given["zz_extra"] = S.opaque("extra")
            before_w, before_g = frame.snap(w), frame.snap(given)
            ncalls = len(f.calls)
            r = S.I.call(S.getattr(w, "partially_evaluate"), [], dict(given))
            tag = f"{n}"
            n += 1
            complete = all(q in given for q in req)
            if complete:
                S.ensure(f"evaluates-when-required-bound#{tag}", len(f.calls) == ncalls + 1 and isinstance(r, App))
                if len(f.calls) == ncalls + 1:
                    c = f.calls[-1]
                    S.ensure(f"evaluation-binds-by-name#{tag}", c["positional"] == 0 and sorted(c["kwargs"]) == sorted(names) and all(c["kwargs"][a] is (given[a] if a in given else defaults.get(a)) for a in names))
            else:
                S.ensure(f"not-evaluated-early#{tag}", len(f.calls) == ncalls)
                S.ensure(f"returns-new-wrapper#{tag}", r is not w and S.I.isinstance_(r, S.find(UF)))
                if r is not w and S.I.isinstance_(r, S.find(UF)):
                    rest = {q: S.opaque(f"r_{q}") for q in names if q not in given}
                    v1 = S.method(r, "__call__", dict(rest))
                    full = dict(rest)
                    full.update({g: given[g] for g in given_names})
                    v2 = S.method(w, "__call__", full)
                    S.ensure(f"remaining-names-give-same-value#{tag}", isinstance(v1, App) and isinstance(v2, App) and v1.key() == v2.key())
            S.ensure(f"frame-original-wrapper-unchanged#{tag}", frame.diff(before_w, frame.snap(w)) is None)
            S.ensure(f"frame-given-unchanged#{tag}", frame.diff(before_g, frame.snap(given)) is None)


@scenario("C14", [UF + ".__init__", UF + "._set_input_args_for_function"], configs=["same-lambda-different-defaults"], name="closures_from_one_expression_keep_their_own_defaults")
@scenario("C13", [UF + ".__init__", UF + "._set_input_args_for_function"], configs=["same-lambda-different-defaults"])
def closures_from_one_expression_keep_their_own_defaults(S):
    """history: two functions created by evaluating the SAME lambda expression (they share one __code__ object) with
    DIFFERENT default values -- `lambda x, c=c: ...` in a loop -- are wrapped one after the other: each wrapper has the
    defaults of its own function, and calling it binds that function's default (no memory of earlier wrappers)."""
    d1, d2 = S.opaque("c_of_the_first"), S.opaque("c_of_the_second")
    f1 = UserFn("f", ["x", "c"], {"c": d1})
    f2 = UserFn("f", ["x", "c"], {"c": d2})
    f2.code = f1.code
    w1 = S.new(UF, f1)
    w2 = S.new(UF, f2)
    S.ensure("first-wrapper-has-the-defaults-of-the-first-function", S.getattr(w1, "defaults").get("c") is d1)
    S.ensure("second-wrapper-has-the-defaults-of-the-second-function", S.getattr(w2, "defaults").get("c") is d2)
    xv = S.opaque("x_value")
    S.method(w2, "__call__", {"x": xv})
    S.ensure("second-wrapper-calls-its-own-function-with-its-own-default", len(f2.calls) == 1 and len(f1.calls) == 0 and f2.calls[0]["bound"].get("c") is d2 and f2.calls[0]["bound"].get("x") is xv)
    S.method(w1, "__call__", {"x": xv})
    S.ensure("first-wrapper-still-binds-its-own-default", len(f1.calls) == 1 and f1.calls[0]["bound"].get("c") is d1)


@scenario("C13", [UF + ".__init__", UF + ".set_default"], configs=["1:0", "2:1", "3:1"], bounded=BOUND)
def wrapping_a_wrapper_is_isolated(S):
    """post: UserFunction(w1) denotes the same function, and changing the new wrapper's defaults never changes w1"""
    f, names, defaults = mk_fn(S, S.cfg)
    w1 = S.new(UF, f)
    before = frame.snap(w1)
    w2 = S.new(UF, w1)
    S.ensure("wrapping-leaves-original-unchanged", frame.diff(before, frame.snap(w1)) is None)
    S.ensure("same-function", S.getattr(w2, "fun") is f and list(S.getattr(w2, "args")) == names)
    S.I.call(S.getattr(w2, "set_default"), [], {names[0]: S.opaque("new_default")})
    S.ensure("set-default-on-wrapper-does-not-change-original", frame.diff(before, frame.snap(w1)) is None)


@scenario("C13", [UF + ".__call__", UF + ".apply_to_batch"], configs=["batch=3", "batch=3/optional-parameter-declared-before-a-supplied-one"], bounded="batch size 3 (the loop is unrolled); values symbolic")
def vectorised_call_binds_row_i_of_every_batched_argument_by_name(S):
    """__call__(args, vectorize=True): the function is called once per row i with, BY NAME, row i of every argument that
    has the batch length and the whole value of every shorter (constant) argument; the results are returned in order.
    Second configuration: f(x, a=A, b=B) called with x and b only -- the omitted optional parameter a (declared BEFORE
    the supplied b) gets its declared default, b gets row i of what is stored under 'b'."""
    from tpv.tlib import Tensor

    if "optional" in S.cfg:
        A, Bd = S.tensor("default_a", [1]), S.tensor("default_b", [1])
        f = UserFn("f", ["x", "a", "b"], {"a": A, "b": Bd})
        w = S.new(UF, f)
        X, Bv = S.tensor("X", [3, 2]), S.tensor("Bv", [3, 1])
        for given in ({"b": Bv, "x": X}, {"x": X, "extra": S.tensor("E", [3, 1]), "b": Bv}):
            n0 = len(f.calls)
            out = S.method(w, "__call__", dict(given), True)
            tag = "-".join(given)
            S.ensure(f"[{tag}]:one-call-per-row", len(f.calls) == n0 + 3)
            for i, c in enumerate(f.calls[n0 : n0 + 3]):
                b = c["bound"]
                S.ensure(f"[{tag}]:row-{i}-binds-exactly-the-declared-names", sorted(b) == ["a", "b", "x"])
                S.ensure(f"[{tag}]:row-{i}-omitted-optional-parameter-gets-its-declared-default", b.get("a") is A)
                okb = isinstance(b.get("b"), Tensor) and b["b"].val.rank == 1
                S.ensure(f"[{tag}]:row-{i}-b-is-a-row", okb)
                if okb:
                    S.forall(f"[{tag}]:row-{i}-b-is-row-{i}-of-what-is-stored-under-b", b["b"], lambda q, i=i, b=b: b["b"].val.at(q) == Bv.val.at([(i,), q[0]]))
                okx = isinstance(b.get("x"), Tensor) and b["x"].val.rank == 1
                S.ensure(f"[{tag}]:row-{i}-x-is-a-row", okx)
                if okx:
                    S.forall(f"[{tag}]:row-{i}-x-is-row-{i}-of-x", b["x"], lambda q, i=i, b=b: b["x"].val.at(q) == X.val.at([(i,), q[0]]))
        return

    # pre: every argument and default has a length (a plain number as default makes len() raise -- rejected, not mis-bound)
    f = UserFn("f", ["x", "c", "k"], {"k": S.tensor("default_k", [1])})
    w = S.new(UF, f)
    X = S.tensor("X", [3, 2])
    Cc = S.tensor("Cc", [1, 2])
    out = S.method(w, "__call__", {"c": Cc, "x": X, "unused": S.tensor("U", [3, 1])}, True)
    S.ensure("one-call-per-row", len(f.calls) == 3)
    S.ensure("results-in-row-order", isinstance(out, list) and len(out) == 3)
    for i, c in enumerate(f.calls[:3]):
        b = c["bound"]
        okx = isinstance(b.get("x"), Tensor) and b["x"].val.rank == 1
        S.ensure(f"row-{i}-x-is-a-row", okx)
        if okx:
            S.forall(f"row-{i}-x-is-row-{i}-of-x", b["x"], lambda q, i=i, b=b: b["x"].val.at(q) == X.val.at([(i,), q[0]]))
        S.ensure(f"row-{i}-constant-passed-whole", b.get("c") is Cc)
        S.ensure(f"row-{i}-default-bound", b.get("k") is f.defaults["k"] and sorted(b) == ["c", "k", "x"])


@scenario("C13", [UF + ".__call__", DUF + ".__call__"], configs=["user-function", "domain-user-function"], bounded=BOUND)
def calling_a_wrapper_changes_neither_the_wrapper_nor_the_callers_dictionary(S):
    """frame of __call__ over a history of three calls (with and without the optional name, with extra keys): the
    wrapper's args / defaults and the dictionary handed in are unchanged, the third call still binds the declared
    default -- no value of an earlier call is remembered"""
    from tpv.spec import RowFn

    duf = S.cfg == "domain-user-function"
    dflt = S.tensor("default_of_k", [1, 1])
    if duf:
        f = RowFn("g", ["x", "k"], 1, {"x": 1, "k": 1}, defaults={"k": dflt})
        w = S.new(DUF, f)
    else:
        f = UserFn("f", ["x", "k"], {"k": dflt})
        w = S.new(UF, f)
    N = S.int("N", 1)
    xv, kv = S.tensor("xv", [N, 1]), S.tensor("kv", [N, 1])
    before = frame.snap(w)
    for given in ({"x": xv, "k": kv, "extra": S.tensor("e", [N, 1])}, {"x": xv}, {"k": kv, "x": xv}):
        g0 = frame.snap(given)
        S.method(w, "__call__", given)
        S.ensure(f"call-{len(f.calls)}-leaves-the-callers-dictionary-unchanged", frame.diff(g0, frame.snap(given)) is None)
        S.ensure(f"call-{len(f.calls)}-leaves-the-wrapper-unchanged", frame.diff(before, frame.snap(w)) is None)
    S.ensure("three-calls", len(f.calls) == 3)
    if len(f.calls) == 3:
        S.ensure("second-call-binds-the-declared-default-not-the-value-of-the-first-call", f.calls[1]["kwargs"].get("k", f.calls[1].get("bound", {}).get("k")) is dflt)
        S.ensure("third-call-binds-the-supplied-value", f.calls[2]["kwargs"].get("k") is kv)


@scenario("C13", [UF + ".set_default", UF + ".remove_default", UF + ".necessary_args", UF + ".optional_args", UF + ".__call__"], configs=["3:1"], bounded=BOUND)
def defaults_can_be_set_and_removed_by_name(S):
    """set_default(name=v) makes `name` optional with value v (only for declared names, other keys are ignored);
    remove_default(name) makes it necessary again; a later call binds exactly the current defaults by name"""
    f, names, defaults = mk_fn(S, S.cfg)  # f(p0, p1, p2=d0)
    w = S.new(UF, f)
    v1 = S.opaque("new_default_of_p1")
    S.I.call(S.getattr(w, "set_default"), [], {"p1": v1, "not_a_parameter": S.opaque("junk")})
    S.ensure("p1-became-optional", list(S.getattr(w, "necessary_args")) == ["p0"] and sorted(S.getattr(w, "optional_args")) == ["p1", "p2"])
    S.ensure("foreign-key-ignored", "not_a_parameter" not in S.getattr(w, "defaults"))
    a0 = S.opaque("a0")
    S.method(w, "__call__", {"p0": a0})
    ok = len(f.calls) == 1
    S.ensure("call-with-the-remaining-necessary-name-succeeds", ok)
    if ok:
        b = f.calls[0]["bound"]
        S.ensure("current-defaults-bound-by-name", b.get("p0") is a0 and b.get("p1") is v1 and b.get("p2") is defaults["p2"])
    S.I.call(S.getattr(w, "remove_default"), ["p2"], {})
    S.ensure("p2-became-necessary-again", sorted(S.getattr(w, "necessary_args")) == ["p0", "p2"] and list(S.getattr(w, "optional_args")) == ["p1"])
    S.ensure_raises("call-without-p2-now-rejected", lambda: S.method(w, "__call__", {"p0": a0}), "AssertionError")
    S.ensure("the-wrapped-function-keeps-its-own-defaults", f.defaults == defaults)


@scenario("C13", [UF + "._set_input_args_for_function", UF + ".__call__"], configs=["keyword-only"])
def keyword_only_parameters_are_arguments_bound_by_name(S):
    """a function f(x, *, k) declares k as keyword-only: it is one of the wrapper's arguments (after the positional
    ones) and is bound by name"""
    f = UserFn("f", ["x"], kwonly=["k"])
    w = S.new(UF, f)
    S.ensure("keyword-only-name-is-an-argument", list(S.getattr(w, "args")) == ["x", "k"])
    xv, kv = S.opaque("xv"), S.opaque("kv")
    S.method(w, "__call__", {"k": kv, "x": xv, "other": S.opaque("o")})
    S.ensure("bound-by-name", len(f.calls) == 1 and f.calls[0]["kwargs"].get("k") is kv and f.calls[0]["kwargs"].get("x") is xv and sorted(f.calls[0]["kwargs"]) == ["k", "x"])


@scenario("C13", [DUF + ".__call__", DUF + ".evaluate_function"], configs=["callable", "callable-with-default", "tensor-const", "number-const"])
def domain_user_function(S):
    """post: callable -> fun(**bound)[:, None] (one extra axis, rows kept); constants -> the constant as tensor"""
    from tpv.spec import RowFn
    from tpv.tlib import Tensor

    if S.cfg == "callable":
        N = S.int("N", 1)
        g = RowFn("g", ["t"], 2, {"t": 1})
        w = S.new(DUF, g)
        t = S.tensor("tdata", [N, 1])
        r = S.method(w, "__call__", {"t": t, "other": S.tensor("o", [N, 1])})
        S.ensure("called-once-by-name", len(g.calls) == 1 and list(g.calls[0]["kwargs"]) == ["t"] and g.calls[0]["kwargs"]["t"] is t)
        S.ensure("shape-N-1-2", isinstance(r, Tensor) and r.val.rank == 3 and r.val.shape[1].is_one and r.val.shape[2].concrete() == 2)
        raw = g.value_terms
        S.forall("value-is-function-value", r, lambda idx: r.val.at(idx) == __import__("tpv.core", fromlist=["x"]).select_comp(idx[2][0], 2, [(lambda c=c: g.value_terms([t.val.at([idx[0], ()])])[c]) for c in range(2)]))
    elif S.cfg == "callable-with-default":
        # optional arguments: a value supplied under the name wins over the stored default; absent -> the default
        N = S.int("N", 1)
        dflt = S.tensor("default_of_scale", [1, 1])
        g = RowFn("g", ["t", "scale"], 1, {"t": 1, "scale": 1}, defaults={"scale": dflt})
        w = S.new(DUF, g)
        S.ensure("argument-discovery", list(S.getattr(w, "necessary_args")) == ["t"] and list(S.getattr(w, "optional_args")) == ["scale"])
        t, sc = S.tensor("tdata", [N, 1]), S.tensor("scale_data", [N, 1])
        out = S.outcome(lambda: S.method(w, "__call__", {"scale": sc, "t": t}))
        S.ensure("call-with-the-optional-name-supplied-succeeds", out[0] == "ok" and len(g.calls) == 1)
        if len(g.calls) == 1:
            kw = g.calls[0]["kwargs"]
            S.ensure("supplied-value-wins-over-the-default", sorted(kw) == ["scale", "t"] and kw["scale"] is sc and kw["t"] is t)
        n0 = len(g.calls)
        out2 = S.outcome(lambda: S.method(w, "__call__", {"t": t}))
        if out2[0] == "ok" and len(g.calls) == n0 + 1:
            kw = g.calls[-1]["kwargs"]
            S.ensure("absent-optional-name-gets-the-default", sorted(kw) == ["scale", "t"] and kw["scale"] is dflt and kw["t"] is t)
        else:
            # the row-wise stand-in cannot evaluate an opaque default; binding is still observable from the call log
            kw = g.calls[-1]["kwargs"] if len(g.calls) == n0 + 1 else {}
            S.ensure("absent-optional-name-gets-the-default", kw.get("scale") is dflt and kw.get("t") is t)
    elif S.cfg == "tensor-const":
        c = S.tensor("c", [2])
        w = S.new(DUF, c)
        r = S.method(w, "__call__", {})
        S.forall("constant-returned", r, lambda idx: r.val.at(idx) == c.val.at(idx))
    else:
        w = S.new(DUF, 3.5)
        r = S.method(w, "__call__", {})
        S.ensure("constant-number", isinstance(r, Tensor) and r.val.rank == 0)
        S.ensure("constant-value", r.val.at([]) == 3.5)


@scenario("C13", [UF + ".necessary_args", UF + ".optional_args", UF + ".__call__", UF + ".partially_evaluate", UF + ".set_default"], configs=["default-is-None"], bounded=BOUND)
def a_default_value_of_None_is_a_default_like_any_other(S):
    """f(x, y, t=None, k=K): the parameter t HAS a default (the value None), so it is optional -- calls that supply x
    and y are accepted and bind t=None, partial evaluation with x and y evaluates the function; likewise a name bound
    to None through set_default / partially_evaluate counts as bound"""
    K = S.opaque("K")
    f = UserFn("f", ["x", "y", "t", "k"], {"t": None, "k": K})
    w = S.new(UF, f)
    S.ensure("necessary-args-are-the-parameters-without-default", list(S.getattr(w, "necessary_args")) == ["x", "y"])
    S.ensure("optional-args-include-the-None-default", list(S.getattr(w, "optional_args")) == ["t", "k"])
    xv, yv = S.opaque("xv"), S.opaque("yv")
    out = S.outcome(lambda: S.method(w, "__call__", {"y": yv, "x": xv}))
    S.ensure("call-with-the-required-names-is-accepted", out[0] == "ok" and len(f.calls) == 1)
    if len(f.calls) == 1:
        b = f.calls[0]["bound"]
        S.ensure("None-default-bound-by-name", sorted(b) == ["k", "t", "x", "y"] and b["t"] is None and b["k"] is K and b["x"] is xv and b["y"] is yv)
    n0 = len(f.calls)
    pe = S.outcome(lambda: S.method(w, "partially_evaluate", x=xv, y=yv))
    S.ensure("partial-evaluation-with-all-required-names-evaluates-the-function", pe[0] == "ok" and len(f.calls) == n0 + 1)
    g = UserFn("g", ["a", "b"], {})
    w2 = S.new(UF, g)
    w3 = S.method(w2, "partially_evaluate", b=None)
    av = S.opaque("av")
    out2 = S.outcome(lambda: S.method(w3, "__call__", {"a": av}))
    S.ensure("a-name-bound-to-None-by-partial-evaluation-is-bound", out2[0] == "ok" and len(g.calls) == 1 and g.calls[0]["bound"].get("b", "missing") is None and g.calls[0]["bound"].get("a") is av)


def _pe_override(S):
    """partial evaluation that supplies a value for a name which ALREADY has a default (a Python default, or a value
    fixed by an earlier partial evaluation): the supplied value wins -- both when the call completes the arguments
    (the function is evaluated) and when it does not (a new wrapper is returned)"""
    d0 = S.opaque("declared_default")
    f = UserFn("f", ["t", "scale"], {"scale": d0})
    w = S.new(UF, f)
    tv, sv = S.opaque("tv"), S.opaque("sv")
    S.method(w, "partially_evaluate", t=tv, scale=sv)
    S.ensure("completing-call-evaluates-once", len(f.calls) == 1)
    if len(f.calls) == 1:
        b = f.calls[0]["bound"]
        S.ensure("supplied-value-overrides-the-declared-default", b.get("scale") is sv and b.get("t") is tv)
    g = UserFn("g", ["a", "b"], {})
    w2 = S.new(UF, g)
    a1, a3, b2 = S.opaque("a1"), S.opaque("a3"), S.opaque("b2")
    w3 = S.method(w2, "partially_evaluate", a=a1)
    S.method(w3, "partially_evaluate", a=a3, b=b2)
    S.ensure("second-evaluation-completes", len(g.calls) == 1)
    if len(g.calls) == 1:
        b = g.calls[0]["bound"]
        S.ensure("re-fixing-an-already-fixed-name-uses-the-new-value", b.get("a") is a3 and b.get("b") is b2)
    w4 = S.method(w3, "partially_evaluate", a=a3)
    S.ensure("re-fixing-without-completing-stores-the-new-value", S.getattr(w4, "defaults").get("a") is a3 and S.getattr(w3, "defaults").get("a") is a1)


_pe_override.__name__ = "values_given_to_partial_evaluation_override_stored_defaults"
scenario("C13", [UF + ".partially_evaluate"], configs=["declared-default-and-re-fixed-name"], bounded=BOUND)(_pe_override)
scenario("C17", [UF + ".partially_evaluate"], configs=["declared-default-and-re-fixed-name"], bounded=BOUND)(_pe_override)
