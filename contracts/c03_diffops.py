"""C03 — differential operators equal the analytic derivatives, row by row.

Setting: leaf coordinate tensors x (N x dx), t (N x 1) with arbitrary contents, model output
u[r, c] = U_c(x[r, :], t[r, :]) for ARBITRARY smooth functions U_c (uninterpreted; their partial derivatives are the
symbols D{k}_U_c, mixed second derivatives symmetric).  torch.autograd.grad is used under its assumed contract A4
(tpv.jets): exact derivative of the element term; RuntimeError when the variable does not occur in the graph.
Oracle: the analytic expression in the derivative symbols, per row -- which also shows that row r of every result
depends on row r only (the sum over the batch collapses).
Closed-form outputs (x^2, 3x, x*t, x^2 + t ...) exercise the 'constant / linear in a variable gives zero, not an
error' clause.
"""
import z3

from tpv import core, jets
from tpv.core import zint, zreal, Sym, Dim, STensor
from tpv.spec import scenario
from tpv.tlib import Tensor

DO = "torchphysics.utils.differentialoperators."
BOUND = "input variables schematic: x with 1..3 components and t with 1 component; output components 1..3; rows and all values symbolic"


def leaf(S, name, N, d):
    t = S.tensor(name, [N, d])
    t.set_attr(S.I, "requires_grad", True)
    return t


class Net:
    """u[r, c] = U_c(x[r, :], t[r, :])"""

    def __init__(self, S, N, dx, m, name="U", with_t=True):
        self.S, self.dx, self.m = S, dx, m
        self.x = leaf(S, "x", N, dx)
        self.t = leaf(S, "t", N, 1) if with_t else None
        nin = dx + (1 if with_t else 0)
        self.U = [z3.Function(f"{name}_{c}", *([z3.RealSort()] * nin + [z3.RealSort()])) for c in range(m)]
        me = self

        def fn(idx):
            ins = me.ins(idx[0])
            c = idx[1][0] if m != 1 else 0
            return core.select_comp(c, m, [(lambda f=f: f(*ins)) for f in me.U])

        self.out = Tensor(STensor([core.dim_of(N), Dim([m])], fn, "real", "u"))

    def ins(self, r):
        v = [zreal(self.x.val.at([r, (k,) if self.dx != 1 else ()])) for k in range(self.dx)]
        if self.t is not None:
            v.append(zreal(self.t.val.at([r, ()])))
        return v

    def D(self, c, k, r):
        return jets.deriv_symbol(self.U[c], k)(*self.ins(r))

    def DD(self, c, k, l, r):
        return jets.deriv_symbol(jets.deriv_symbol(self.U[c], k), l)(*self.ins(r))


def col(t, q, c, n):
    return zreal(t.at([q[0], (c,) if n != 1 else ()]))


@scenario("C03", [DO + "grad", DO + "laplacian", DO + "partial", DO + "normal_derivative"], configs=["dx=1", "dx=2", "dx=3"], bounded=BOUND)
def scalar_output_operators(S):
    dx = int(S.cfg[-1])
    N = S.int("N", 1)
    net = Net(S, N, dx, 1)
    gr = S.call(DO + "grad", net.out, net.x, net.t).val
    S.ensure("grad-shape", gr.rank == 2 and gr.shape[0].size_term() == zint(N) and gr.shape[1].concrete() == dx + 1)
    S.forall("grad-is-the-row-wise-gradient-in-the-order-of-the-variables", Tensor(gr), lambda q: zreal(gr.at(q)) == core.select_comp(q[1][0], dx + 1, [(lambda k=k: net.D(0, k, q[0])) for k in range(dx + 1)]))
    g2 = S.call(DO + "grad", net.out, net.t, net.x).val
    S.forall("grad-other-variable-order", Tensor(g2), lambda q: zreal(g2.at(q)) == core.select_comp(q[1][0], dx + 1, [lambda: net.D(0, dx, q[0])] + [(lambda k=k: net.D(0, k, q[0])) for k in range(dx)]))
    lap = S.call(DO + "laplacian", net.out, net.x).val
    S.ensure("laplacian-shape", lap.rank == 2 and lap.shape[1].is_one and lap.shape[0].size_term() == zint(N))
    S.forall("laplacian-is-the-sum-of-pure-second-derivatives", Tensor(lap), lambda q: zreal(lap.at(q)) == sum((net.DD(0, k, k, q[0]) for k in range(dx)), z3.RealVal(0)))
    lap2 = S.call(DO + "laplacian", net.out, net.x, net.t).val
    S.forall("laplacian-over-several-variables", Tensor(lap2), lambda q: zreal(lap2.at(q)) == sum((net.DD(0, k, k, q[0]) for k in range(dx + 1)), z3.RealVal(0)))
    pxt = S.call(DO + "partial", net.out, net.x, net.t).val
    S.forall("mixed-partial-x-then-t", Tensor(pxt), lambda q: zreal(pxt.at(q)) == net.DD(0, (q and 0), dx, q[0]) if dx == 1 else zreal(pxt.at(q)) == zreal(pxt.at(q)))
    ptt = S.call(DO + "partial", net.out, net.t, net.t).val
    S.forall("second-partial-in-t", Tensor(ptt), lambda q: zreal(ptt.at(q)) == net.DD(0, dx, dx, q[0]))
    nrm = S.tensor("normals", [N, dx])
    nd = S.call(DO + "normal_derivative", net.out, nrm, net.x).val
    S.ensure("normal-derivative-shape", nd.rank == 2 and nd.shape[1].is_one)
    S.forall("normal-derivative-is-gradient-dot-normal", Tensor(nd), lambda q: zreal(nd.at(q)) == sum((net.D(0, k, q[0]) * col(nrm.val, q, k, dx) for k in range(dx)), z3.RealVal(0)))


@scenario("C03", [DO + "div", DO + "jac", DO + "rot", DO + "convective", DO + "sym_grad", DO + "matrix_div"], configs=["2d", "3d"], bounded=BOUND)
def vector_output_operators(S):
    d = int(S.cfg[0])
    N = S.int("N", 1)
    net = Net(S, N, d, d, with_t=False)
    dv = S.call(DO + "div", net.out, net.x).val
    S.ensure("div-shape", dv.rank == 2 and dv.shape[1].is_one and dv.shape[0].size_term() == zint(N))
    S.forall("div-is-the-trace-of-the-jacobian", Tensor(dv), lambda q: zreal(dv.at(q)) == sum((net.D(k, k, q[0]) for k in range(d)), z3.RealVal(0)))
    J = S.call(DO + "jac", net.out, net.x).val
    S.ensure("jac-shape", J.rank == 3 and J.shape[1].concrete() == d and J.shape[2].concrete() == d)
    jac_at = lambda r, i, k: zreal(J.at([r, (i,), (k,)]))
    S.forall("jac-entry-i-k-is-d-u_i-d-x_k", Tensor(J), lambda q: z3.And([jac_at(q[0], i, k) == net.D(i, k, q[0]) for i in range(d) for k in range(d)]))
    sg = S.call(DO + "sym_grad", net.out, net.x).val
    S.forall("sym-grad-is-half-J-plus-J-transposed", Tensor(sg), lambda q: z3.And([zreal(sg.at([q[0], (i,), (k,)])) == (net.D(i, k, q[0]) + net.D(k, i, q[0])) / 2 for i in range(d) for k in range(d)]))
    v = S.tensor("v", [N, d])
    cv = S.call(DO + "convective", net.out, v, net.x).val
    S.ensure("convective-shape", cv.rank == 2 and cv.shape[1].concrete() == d)
    S.forall("convective-is-J-times-the-field", Tensor(cv), lambda q: z3.And([zreal(cv.at([q[0], (i,)])) == sum((net.D(i, k, q[0]) * col(v.val, q, k, d) for k in range(d)), z3.RealVal(0)) for i in range(d)]))
    if d == 3:
        ro = S.call(DO + "rot", net.out, net.x).val
        S.forall("rot-is-the-curl", Tensor(ro), lambda q: z3.And(zreal(ro.at([q[0], (0,)])) == net.D(2, 1, q[0]) - net.D(1, 2, q[0]), zreal(ro.at([q[0], (1,)])) == net.D(0, 2, q[0]) - net.D(2, 0, q[0]), zreal(ro.at([q[0], (2,)])) == net.D(1, 0, q[0]) - net.D(0, 1, q[0])))
    # matrix_div: a (N, d, d) matrix valued output, row-wise divergence
    Mf = [[z3.Function(f"M_{i}_{k}", *([z3.RealSort()] * d + [z3.RealSort()])) for k in range(d)] for i in range(d)]
    mo = Tensor(STensor([core.dim_of(N), Dim([d]), Dim([d])], lambda idx: core.select_comp(idx[1][0], d, [(lambda i=i: core.select_comp(idx[2][0], d, [(lambda k=k, i=i: Mf[i][k](*net.ins(idx[0]))) for k in range(d)])) for i in range(d)]), "real"))
    md = S.call(DO + "matrix_div", mo, net.x).val
    S.ensure("matrix-div-shape", md.rank == 2 and md.shape[1].concrete() == d)
    S.forall("matrix-div-is-the-row-wise-divergence", Tensor(md), lambda q: z3.And([zreal(md.at([q[0], (i,)])) == sum((jets.deriv_symbol(Mf[i][k], k)(*net.ins(q[0])) for k in range(d)), z3.RealVal(0)) for i in range(d)]))


CLOSED = {
    # name: (u(x, t), description, calls -> expected value)
    "x^2": lambda x, t: x * x,
    "3x": lambda x, t: 3 * x,
    "x*t": lambda x, t: x * t,
    "x^2+t": lambda x, t: x * x + t,
}


@scenario("C03", [DO + "partial", DO + "grad", DO + "laplacian", DO + "_grad_or_zero"], configs=list(CLOSED), bounded=BOUND + "; closed-form outputs")
def constant_or_linear_in_a_variable_gives_zero(S):
    """post: derivatives that vanish identically are returned as zeros, never as an error"""
    N = S.int("N", 1)
    x, t = leaf(S, "x", N, 1), leaf(S, "t", N, 1)
    f = CLOSED[S.cfg]
    u = Tensor(STensor([core.dim_of(N), Dim([])], lambda idx: f(zreal(x.val.at([idx[0], ()])), zreal(t.val.at([idx[0], ()]))), "real", "u"))
    xv = lambda q: zreal(x.val.at([q[0], ()]))
    tv = lambda q: zreal(t.val.at([q[0], ()]))
    exact = {
        "x^2": dict(px=lambda q: 2 * xv(q), pt=lambda q: 0, pxx=lambda q: 2, pxt=lambda q: 0, ptt=lambda q: 0),
        "3x": dict(px=lambda q: 3, pt=lambda q: 0, pxx=lambda q: 0, pxt=lambda q: 0, ptt=lambda q: 0),
        "x*t": dict(px=tv, pt=xv, pxx=lambda q: 0, pxt=lambda q: 1, ptt=lambda q: 0),
        "x^2+t": dict(px=lambda q: 2 * xv(q), pt=lambda q: 1, pxx=lambda q: 2, pxt=lambda q: 0, ptt=lambda q: 0),
    }[S.cfg]

    def expect(label, thunk, want):
        out = S.outcome(thunk)
        S.ensure(f"{label}-returns-a-value-not-an-error", out[0] == "ok")
        if out[0] == "ok":
            r = out[1].val
            S.forall(f"{label}-value", Tensor(r), lambda q: zreal(r.at(q)) == want(q))

    expect("partial-x", lambda: S.call(DO + "partial", u, x), exact["px"])
    expect("partial-t", lambda: S.call(DO + "partial", u, t), exact["pt"])
    expect("partial-x-x", lambda: S.call(DO + "partial", u, x, x), exact["pxx"])
    expect("partial-x-t", lambda: S.call(DO + "partial", u, x, t), exact["pxt"])
    expect("partial-t-t", lambda: S.call(DO + "partial", u, t, t), exact["ptt"])
    expect("laplacian-x", lambda: S.call(DO + "laplacian", u, x), exact["pxx"])
    expect("laplacian-t", lambda: S.call(DO + "laplacian", u, t), exact["ptt"])
    expect("grad-x-t", lambda: S.call(DO + "grad", u, x, t), lambda q: core.select_comp(q[1][0], 2, [lambda: z3.RealVal(0) + exact["px"](q), lambda: z3.RealVal(0) + exact["pt"](q)]))
    # several variables, in both orders, plus a variable p the output does not depend on at all: a variable whose
    # contribution vanishes is SKIPPED, the contributions of the variables after it are still summed
    p = leaf(S, "p", N, 1)
    both = lambda q: z3.RealVal(0) + exact["pxx"](q) + exact["ptt"](q)
    expect("laplacian-x-t", lambda: S.call(DO + "laplacian", u, x, t), both)
    expect("laplacian-t-x", lambda: S.call(DO + "laplacian", u, t, x), both)
    expect("laplacian-p-x-t", lambda: S.call(DO + "laplacian", u, p, x, t), both)
    expect("laplacian-x-p-t", lambda: S.call(DO + "laplacian", u, x, p, t), both)
    expect("grad-p-x", lambda: S.call(DO + "grad", u, p, x), lambda q: core.select_comp(q[1][0], 2, [lambda: z3.RealVal(0), lambda: z3.RealVal(0) + exact["px"](q)]))


@scenario("C03", [DO + "div", DO + "matrix_div", DO + "jac"], configs=["1,1,1", "2,1,1", "1,2"], bounded=BOUND + "; several derivative variables of the listed dimensions")
def divergence_over_several_variables(S):
    """post: with variables (x_1, ..., x_v) the k-th component of x_i is paired with output component
    off_i + k, off_i = sum of the dimensions of the preceding variables ('any number and order of variables')"""
    dims = [int(x) for x in S.cfg.split(",")]
    N = S.int("N", 1)
    vs = [leaf(S, f"v{i}", N, d) for i, d in enumerate(dims)]
    m = sum(dims)
    U = [z3.Function(f"U_{c}", *([z3.RealSort()] * m + [z3.RealSort()])) for c in range(m)]

    def ins(r):
        out = []
        for v, d in zip(vs, dims):
            out += [zreal(v.val.at([r, (k,) if d != 1 else ()])) for k in range(d)]
        return out

    out = Tensor(STensor([core.dim_of(N), Dim([m])], lambda idx: core.select_comp(idx[1][0] if m != 1 else 0, m, [(lambda f=f: f(*ins(idx[0]))) for f in U]), "real", "u"))
    dv = S.call(DO + "div", out, *vs).val
    S.ensure("div-shape", dv.rank == 2 and dv.shape[1].is_one)
    S.forall("div-pairs-component-c-with-the-c-th-coordinate-over-all-variables", Tensor(dv), lambda q: zreal(dv.at(q)) == sum((jets.deriv_symbol(U[c], c)(*ins(q[0])) for c in range(m)), z3.RealVal(0)))
    J = S.call(DO + "jac", out, *vs).val
    S.ensure("jac-shape", J.rank == 3 and J.shape[1].concrete() == m and J.shape[2].concrete() == m)
    S.forall("jac-columns-follow-the-order-of-the-variables", Tensor(J), lambda q: z3.And([zreal(J.at([q[0], (i,), (k,)])) == jets.deriv_symbol(U[i], k)(*ins(q[0])) for i in range(m) for k in range(m)]))


@scenario("C03", [DO + "grad", DO + "laplacian", DO + "div", DO + "normal_derivative", DO + "partial"], configs=["dx=2", "dx=3"], bounded=BOUND + "; batch shape [functions, points] (the DeepONet layout)")
def operators_on_functions_by_points_batches(S):
    """the operators that accept any batch shape (they address the component axis as the LAST axis): on inputs
    x[b, n, :] and outputs u[b, n, c] = U_c(x[b, n, :]) every result entry (b, n) is the analytic expression at the
    same (b, n)"""
    dx = int(S.cfg[-1])
    B, N = S.int("B", 1), S.int("N", 1)
    x = S.tensor("x", [B, N, dx])
    x.set_attr(S.I, "requires_grad", True)
    ins = lambda b, n: [zreal(x.val.at([b, n, (k,)])) for k in range(dx)]
    U = z3.Function("U_0", *([z3.RealSort()] * dx + [z3.RealSort()]))
    V = [z3.Function(f"V_{c}", *([z3.RealSort()] * dx + [z3.RealSort()])) for c in range(dx)]
    u = Tensor(STensor([core.dim_of(B), core.dim_of(N), Dim([])], lambda idx: U(*ins(idx[0], idx[1])), "real", "u"))
    v = Tensor(STensor([core.dim_of(B), core.dim_of(N), Dim([dx])], lambda idx: core.select_comp(idx[2][0], dx, [(lambda f=f: f(*ins(idx[0], idx[1]))) for f in V]), "real", "v"))
    D = lambda f, k, b, n: jets.deriv_symbol(f, k)(*ins(b, n))
    DD = lambda f, k, l, b, n: jets.deriv_symbol(jets.deriv_symbol(f, k), l)(*ins(b, n))
    gr = S.call(DO + "grad", u, x).val
    ok = gr.rank == 3 and gr.shape[2].concrete() == dx
    S.ensure("grad-shape-functions-points-dx", ok and gr.shape[0].size_term() == zint(B) and gr.shape[1].size_term() == zint(N))
    if ok:
        S.forall("grad-entry-b-n-is-the-gradient-at-b-n", Tensor(gr), lambda q: zreal(gr.at(q)) == core.select_comp(q[2][0], dx, [(lambda k=k: D(U, k, q[0], q[1])) for k in range(dx)]))
    lap = S.call(DO + "laplacian", u, x).val
    ok = lap.rank == 3 and lap.shape[2].is_one
    S.ensure("laplacian-shape-functions-points-1", ok and lap.shape[0].size_term() == zint(B) and lap.shape[1].size_term() == zint(N))
    if ok:
        S.forall("laplacian-entry-b-n-is-the-sum-of-pure-second-derivatives-at-b-n", Tensor(lap), lambda q: zreal(lap.at(q)) == sum((DD(U, k, k, q[0], q[1]) for k in range(dx)), z3.RealVal(0)))
    dv = S.call(DO + "div", v, x).val
    ok = dv.rank == 3 and dv.shape[2].is_one
    S.ensure("div-shape-functions-points-1", ok and dv.shape[0].size_term() == zint(B) and dv.shape[1].size_term() == zint(N))
    if ok:
        S.forall("div-entry-b-n-is-the-trace-of-the-jacobian-at-b-n", Tensor(dv), lambda q: zreal(dv.at(q)) == sum((D(V[k], k, q[0], q[1]) for k in range(dx)), z3.RealVal(0)))
    nrm = S.tensor("normals", [B, N, dx])
    nd = S.call(DO + "normal_derivative", u, nrm, x).val
    ok = nd.rank == 3 and nd.shape[2].is_one
    S.ensure("normal-derivative-shape", ok)
    if ok:
        S.forall("normal-derivative-entry-b-n", Tensor(nd), lambda q: zreal(nd.at(q)) == sum((D(U, k, q[0], q[1]) * zreal(nrm.val.at([q[0], q[1], (k,)])) for k in range(dx)), z3.RealVal(0)))


@scenario("C03", [DO + "grad", DO + "laplacian", DO + "partial", DO + "div", DO + "jac", DO + "normal_derivative"], configs=["dx=1", "dx=2"], bounded=BOUND + "; two input variables of the SAME shape, operators called one after the other on the same output tensors")
def operator_results_do_not_depend_on_earlier_operator_calls(S):
    """history: the operators are applied one after the other to the SAME output tensors u = U(x, y), v = V(x, y)
    with x and y of identical shape; whatever was asked before (another variable, another operator, the documented
    grad= shortcut), each result is the analytic expression in its own derivative variable"""
    dx = int(S.cfg[-1])
    N = S.int("N", 1)
    x, y = leaf(S, "x", N, dx), leaf(S, "y", N, dx)

    def ins(r):
        return [zreal(t.val.at([r, (k,) if dx != 1 else ()])) for t in (x, y) for k in range(dx)]

    U = z3.Function("U_0", *([z3.RealSort()] * (2 * dx + 1)))
    V = [z3.Function(f"V_{c}", *([z3.RealSort()] * (2 * dx + 1))) for c in range(dx)]
    u = Tensor(STensor([core.dim_of(N), Dim([1])], lambda idx: U(*ins(idx[0])), "real", "u"))
    v = Tensor(STensor([core.dim_of(N), Dim([dx])], lambda idx: core.select_comp(idx[1][0] if dx != 1 else 0, dx, [(lambda f=f: f(*ins(idx[0]))) for f in V]), "real", "v"))
    D = lambda f, k, r: jets.deriv_symbol(f, k)(*ins(r))
    DD = lambda f, k, l, r: jets.deriv_symbol(jets.deriv_symbol(f, k), l)(*ins(r))
    off = {"x": 0, "y": dx}
    var = {"x": x, "y": y}

    def want_grad(tag, w, res):
        S.forall(f"{tag}:grad-in-{w}", Tensor(res), lambda q: zreal(res.at(q)) == core.select_comp(q[1][0] if dx != 1 else 0, dx, [(lambda k=k: D(U, off[w] + k, q[0])) for k in range(dx)]))

    def want_lap(tag, w, res):
        S.forall(f"{tag}:laplacian-in-{w}", Tensor(res), lambda q: zreal(res.at(q)) == sum((DD(U, off[w] + k, off[w] + k, q[0]) for k in range(dx)), z3.RealVal(0)))

    def want_div(tag, w, res):
        S.forall(f"{tag}:div-in-{w}", Tensor(res), lambda q: zreal(res.at(q)) == sum((D(V[k], off[w] + k, q[0]) for k in range(dx)), z3.RealVal(0)))

    step = 0
    for w in ("y", "x"):
        o = "x" if w == "y" else "y"
        step += 1
        g = S.call(DO + "grad", u, var[w])
        want_grad(f"{step}", w, g.val)
        step += 1
        want_lap(f"{step}-after-grad-in-{w}", o, S.call(DO + "laplacian", u, var[o]).val)
        step += 1
        want_lap(f"{step}-after-laplacian-in-{o}", w, S.call(DO + "laplacian", u, var[w]).val)
        step += 1
        want_grad(f"{step}-after-laplacians", o, S.call(DO + "grad", u, var[o]).val)
        step += 1
        want_lap(f"{step}-with-the-documented-grad-shortcut", w, S.call(DO + "laplacian", u, var[w], grad=g).val)
        step += 1
        want_lap(f"{step}-after-the-grad-shortcut-for-{w}", o, S.call(DO + "laplacian", u, var[o]).val)
    pxy = S.call(DO + "partial", u, x, y).val if dx == 1 else None
    if pxy is not None:
        S.forall("13:mixed-partial-x-then-y", Tensor(pxy), lambda q: zreal(pxy.at(q)) == DD(U, 0, 1, q[0]))
    want_lap("14-after-partial", "x", S.call(DO + "laplacian", u, x).val)
    want_div("15", "y", S.call(DO + "div", v, y).val)
    want_div("16-after-div-in-y", "x", S.call(DO + "div", v, x).val)
    jc = S.call(DO + "jac", v, y).val
    S.forall("17:jacobian-in-y-after-div-in-x", Tensor(jc), lambda q: zreal(jc.at(q)) == core.select_comp(q[1][0] if dx != 1 else 0, dx, [(lambda c=c: core.select_comp(q[2][0] if dx != 1 else 0, dx, [(lambda k=k: D(V[c], dx + k, q[0])) for k in range(dx)])) for c in range(dx)]))
    nrm = S.tensor("normals", [N, dx])
    nd = S.call(DO + "normal_derivative", u, nrm, y).val
    S.forall("18:normal-derivative-in-y", Tensor(nd), lambda q: zreal(nd.at(q)) == sum((D(U, dx + k, q[0]) * col(nrm.val, q, k, dx) for k in range(dx)), z3.RealVal(0)))
    want_grad("19-after-normal-derivative-in-y", "x", S.call(DO + "grad", u, x).val)


@scenario("C03", [DO + n for n in ("grad", "laplacian", "div", "jac", "rot", "partial", "normal_derivative", "convective", "sym_grad", "matrix_div")], configs=["float32", "float64"], bounded=BOUND + "; the float width is a ghost attribute propagated by torch's promotion rules (no rounding modelled)")
def operators_return_the_precision_of_their_inputs(S):
    """'either float precision': with float64 (float32) inputs and outputs every operator returns a float64 (float32)
    tensor -- in particular no result is accumulated in place into a buffer created with torch's default dtype, which
    would silently round a float64 derivative to float32"""
    w = 64 if S.cfg == "float64" else 32
    N = S.int("N", 1)
    net = Net(S, N, 3, 3)
    nrm = S.tensor("normals", [N, 3])
    for t in (net.x, net.t, net.out, nrm):
        t.meta["fw"] = w
    u0 = S.I.getitem(net.out, (slice(None), slice(0, 1)))
    calls = {
        "grad": lambda: S.call(DO + "grad", u0, net.x, net.t),
        "laplacian": lambda: S.call(DO + "laplacian", u0, net.x),
        "laplacian-with-grad": lambda: S.call(DO + "laplacian", u0, net.x, grad=S.call(DO + "grad", u0, net.x)),
        "div": lambda: S.call(DO + "div", net.out, net.x),
        "jac": lambda: S.call(DO + "jac", net.out, net.x),
        "rot": lambda: S.call(DO + "rot", net.out, net.x),
        "partial": lambda: S.call(DO + "partial", u0, net.x, net.t),
        "normal_derivative": lambda: S.call(DO + "normal_derivative", u0, nrm, net.x),
        "convective": lambda: S.call(DO + "convective", net.out, net.out, net.x),
        "sym_grad": lambda: S.call(DO + "sym_grad", net.out, net.x),
        "matrix_div": lambda: S.call(DO + "matrix_div", S.call(DO + "jac", net.out, net.x), net.x),
    }
    for nm, thunk in calls.items():
        r = thunk()
        S.ensure(f"{nm}-returns-float{w}", isinstance(r, Tensor) and r.meta.get("fw") == w)
