/-
Engine lemma L-pigeonhole (used by tpv/tshape.py:where_rows).

torch.where(mask) is modelled as an enumeration `sel : [0, M) -> positions` of the positions at which the
mask holds, with a left inverse `pos` (pos (sel j) = j).  If the enumeration has as many entries as the mask
has positions (M = N), then every position is enumerated, hence the mask holds everywhere.
-/
import Mathlib

theorem where_full_selection {N : ℕ} (sel pos : Fin N → Fin N) (mask : Fin N → Prop)
    (hinv : ∀ j, pos (sel j) = j) (hmask : ∀ j, mask (sel j)) : ∀ r, mask r := by
  have hinj : Function.Injective sel := Function.LeftInverse.injective hinv
  have hsurj : Function.Surjective sel := Finite.injective_iff_surjective.mp hinj
  intro r
  obtain ⟨j, rfl⟩ := hsurj r
  exact hmask j
