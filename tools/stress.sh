#!/bin/bash
# run every claimed check CONCURRENTLY (all cores oversubscribed) and print one line each: verdicts must not flip under load
cd /verif
for p in $(python3 -c "import json;print(' '.join(c['property_id'] for c in json.load(open('MANIFEST.json'))['checks']))"); do
  ( ./check $p > /tmp/stress_$p.txt 2>&1; echo "$p exit=$? $(tail -1 /tmp/stress_$p.txt | cut -c1-200)" ) &
done
wait
rm -f /tmp/stress_C*.txt
