import sys, json; sys.path.insert(0,'/verif')
from tpv import runner
only = sys.argv[2:] or None
res = runner.run_property(sys.argv[1], "quick", only=only, jobs=int(__import__('os').environ.get('JOBS','16')))
tot=0
for r in res:
    if r["error"]:
        print("ERR", r["scenario"], r["cfg"], r["error"]); print(r.get("traceback","")[-1500:])
        if not r["obligations"]:
            continue
    bad=[o for o in r["obligations"] if o["status"]!="proved"]
    tot+=len(r["obligations"])
    print(r["scenario"], r["cfg"], "paths",r["paths"],"obl",len(r["obligations"]),"bad",len(bad), "wall", r["wall"])
    for o in bad[:6]:
        print("   ",o["status"],o["name"],o.get("loc"),o.get("model"), o.get("meta"), o.get("trace"))
print("total obligations", tot)
