#!/usr/bin/env python3
"""regenerate MANIFEST.json from the table below (keeps it schema-valid)"""
import json, os
V = os.path.dirname(os.path.dirname(os.path.abspath(__file__)))
CLAIMED = {
 "C13": dict(cat="proof", sec="DESIGN 4/C13",
    text="Contracts on UserFunction/DomainUserFunction executed symbolically on the real source by tpv; every postcondition/frame/exception obligation discharged by z3 for arbitrary argument VALUES. Signature shapes are enumerated (<= 4 declared parameters) and those obligations are reported as bounded, not proved; the unbounded ones (Points binding for any row count, DomainUserFunction for any row count) are proved.",
    note="A2 python semantics of the tpv interpreter, A3 inspect.getfullargspec/copy.deepcopy models, A8 user functions are functions, A9 solvers",
    tech="contract-based deductive verification: VCs generated from the AST of the real source by a symbolic interpreter, discharged by z3/cvc5"),
 "C16": dict(cat="proof", sec="DESIGN 4/C16",
    text="Contracts on PointsDataset / DeepONetDataset / DeepONetDataset_Unique with symbolic data-set sizes, batch sizes and batch index: row-provenance postconditions on __getitem__ (pairing, also through shuffles), batch-size bound, __len__ characterisation and coverage lemmas with ghost witnesses, all discharged by z3 (nonlinear integer arithmetic with explicit lemmas). DataCondition.forward(use_full_dataset=True) under an inductive loop contract over an arbitrary loader (every batch aggregated exactly once: mean of the per-batch means / maximum, as recursive spec functions); DeepONetDataCondition._compute_dist pairs target (i, j) with branch function i at trunk location j. The coverage defect of DeepONetDataset is exhibited on concrete instances (bounded, known finding F17).",
    note="A2, A3 (torch indexing/cat/randperm, np.lcm/ceil models), A5 DataLoader(batch_size=None) yields ds[0..len-1] once each, A9.",
    tech="contract-based deductive verification: VCs generated from the AST of the real source by a symbolic interpreter, discharged by z3/cvc5"),
 "C15": dict(cat="proof", sec="DESIGN 4/C15",
    text="Inductive contract of StaticSampler.sample_points (ghost use-counter, arbitrary invariant state, symbolic interval or infinity, wrapped sampler abstract) and retain-set postconditions of both adaptive samplers (symbolic point count, symbolic ratio, the code's own rand_like draw), discharged by z3 for all point counts, intervals and histories (induction over calls).",
    note="A1 reals, A2, A3 (torch.min/max/boolean-mask assignment models), abstract Domain/PointSampler operand contracts (refinement by concrete classes is C01/C02), A9. 'with the stated probability' is reduced to the code's own uniform draw; the law of that draw is not decided.",
    tech="contract-based deductive verification: 2-state inductive invariant + postconditions, VCs from the real AST, z3"),
}

GEO_NOTE = "A1 real arithmetic (floats = reals, float constants = the simple rational they round from), A2, A3 torch model, A8 row-wise shape functions, A9. Under contract: Point, Interval(+boundaries), Circle, Sphere, Parallelogram, Triangle and their boundaries (constant and parameter-dependent shapes, with and without parameter rows), Boolean operations / products / motions over ABSTRACT operands (uninterpreted set predicates, so any nesting); engine lemma L-pigeonhole machine-checked in Lean (lemmas/). ShapelyPolygon / TrimeshPolyhedron (C code of shapely/trimesh) are not under contract. Termination of rejection loops is not provable in this family."
for _p, _t in [
 ("C01", "Postcondition 'every returned row lies in the set denoted at its own parameter row' (oracles from the mathematical set definitions) on sample_random_uniform / sample_grid of every primitive and its boundary, of unions, cuts, intersections and their boundaries (rejection, search and accumulate loops of sampler_helper under inductive loop contracts; operands abstract = any nesting), of independent and dependent products (ratio-of-uniforms loop), of translated/rotated domains and of the RandomUniform/Grid samplers, for all n, K, positions, sizes, orientations and every outcome of the random generator; helper contracts (perimeter walk, _random_points_inside, _random_points_boundary, recursive per-row calls) proved separately and used modularly. Termination of the probabilistic loops is not proved."),
 ("C02", "Shape/provenance postconditions on the domain-level sampling methods (primitives, Boolean operations and their boundaries incl. the n = 1 and grid helpers, products incl. dependent ones, motions) and on the point samplers and their algebra (product, sum, append, data, static length): exactly K'*n rows, grouped by parameter row (row-major structured axis), dim columns, the domain's space, parameter rows carried unchanged."),
 ("C05", "_contains of every primitive: one truth value per row; interior membership <=> the closed set (each point against its own parameter row); boundary membership accepts exact boundary points and rejects beyond the isclose tolerance band."),
 ("C10", "volume() = analytic measure (pi symbolic) per parameter row, positive for both orientations, boundary measures; density sampling returns exactly ceil(density*measure) rows (at most 2*ceil for the rejection-based triangle)."),
 ("C18", "bounding_box(): flat [min,max] per axis, encloses every point of every supplied parameter row (min/max over rows by their defining axioms), tight for one row; composition rules for union / intersection / cut / product / rotation over abstract operands; consumer clause: the Latin-hypercube proposals leave no slab of the box without a point on any axis (every box coordinate shares its slab with a proposal)."),
 ("C06", "normal(): row count, unit length, finiteness (non-zero divisors) and first-order outwardness at every exact boundary point for Interval, Circle, Sphere boundaries and (constant and parameter-dependent corners, both vertex orientations, edges and corners; modular: _get_normal_direction under its own contract incl. its closed form, ghost un-normalised sum, strict Cauchy-Schwarz, dot-product identity, sign and normalisation lemmas as pure obligations) Parallelogram- and TriangleBoundary; for the boundaries of unions / cuts / intersections over abstract operands: operand selection by boundary membership, sign flip of the cut-out part, unit length. that the selected operand normal is outward for the composite is a locality argument (A7), not mechanised."),
]:
    CLAIMED[_p] = dict(cat="proof", sec="DESIGN 4/" + _p, text=_t, note=GEO_NOTE, tech="contract-based deductive verification: VCs generated from the AST of the real source by a symbolic interpreter (tpv), discharged by z3 (nlsat on a sound QF_NRA weakening, cvc5 as second back end)")

CLAIMED["C12"] = dict(cat="proof", sec="DESIGN 4/C12",
    text="Points/Space against the abstract 'table with named column groups' view: products (symbolic dims), sub-space tests, name slicing, order-sensitive equality; coordinates/from_coordinates round trip, selection by rows x names for every accepted index kind (int, symbolic int, slice, Ellipsis, boolean mask, index tensor) x (name, list, tuple, name-slice), join / row concatenation / repeat / unsqueeze / assignment / arithmetic. Rows, contents and space dimensions are symbolic; the NUMBER of variables is enumerated (<= 3), so the obligations are reported as bounded in that respect.",
    note="A2, A3 (Counter/OrderedDict/torch indexing models), A9. Bounded in the number of variables of a space.",
    tech="contract-based deductive verification (schematic in the number of variables): VCs from the real AST, z3")

CLAIMED["C08"] = dict(cat="proof", sec="DESIGN 4/C08",
    text="forward of FCN, Harmonic_FCN, Polynomial_FCN, QRES, DeepRitzNet, NormalizationLayer, Sequential, Parallel executed on symbolic batches with symbolic weights: permutation invariance in the variable order, rejection of inputs with a different variable set, row-locality (a second arbitrary batch agreeing on one row gives the same output row), independence of the arrangement into batch axes, Sequential = composition and Parallel = join over abstract part models, box -> [-1,1]^d for the normalization layer.",
    note="A1, A2, A3: nn.Linear acts on the last axis (out_j = sum_k W_jk x_k + b_j), activations are element-wise functions, nn.Sequential composes (assumed contracts). Bounded: schematic input spaces and small concrete layer widths; rows, data, weights symbolic.",
    tech="contract-based deductive verification (schematic in layer widths / number of variables): VCs from the real AST, z3")

COND_NOTE = "Abstract operands under their contracts: sampler (fresh n-row Points per call), model (C08 contract), residual/data functions row-wise by name (A8), error_fn row-wise, reduce_fn arbitrary; torch.mean/torch.sum models (A3); A2, A9. Bounded: the spaces are schematic (x:2, t:1 in both orders, u, one parameter, one data function). Not yet under contract: IntegroPINN, HPM*, HPCM, DeepONet conditions, full-dataset aggregation loops."
CLAIMED["C04"] = dict(cat="proof", sec="DESIGN 4/C04",
    text="forward of SingleModuleCondition (generic error/reduce), the constructors of PINN/Mean/DeepRitz conditions (documented error and reduce functions), SquaredError, DataCondition (one batch per call) and PeriodicCondition: every callable invoked exactly once per evaluation, the loss is reduce(error(residual(bind))) and bind[name] is proved, row by row and for either variable order, to be the sampled coordinate / model output at the same row / parameter / data function at the same row; model input built from the tracked coordinate leaves.",
    note=COND_NOTE, tech="contract-based deductive verification with abstract operands (EUF + reals): VCs from the real AST, z3")
CLAIMED["C14"] = dict(cat="proof", sec="DESIGN 4/C14",
    text="Frame conditions of condition constructors (user data-function dictionary unchanged, not aliased), non-interference of two conditions sharing a dictionary (plain and static samplers), repeatability of the unreduced loss with a static sampler, left/right data of a periodic condition evaluated on their own side (plain and static non-periodic sampler).",
    note=COND_NOTE, tech="contract-based deductive verification: frame conditions by heap snapshots + postconditions over abstract operands, z3")

CLAIMED["C07"] = dict(cat="proof", sec="DESIGN 4/C07",
    text="Repository side of the training protocol: Solver.training_step with a SYMBOLIC number of abstract conditions (loop invariant: loss = partial weighted sum defined by its recurrence; every condition once with the current step index; counter + 1), on_train_start, validation_step (no learnable state / counter change), configure_optimizers (optimizer class called once on parameters() with lr/args; scheduler dict) with parameters() proved to contain model weights, inverse-problem parameters and adaptive point weights of the real condition classes, and gradient reversal (backward = -grad). The equality of whole training histories follows from the ASSUMED Lightning protocol (A5) by induction outside the tool.",
    note="A5 Lightning call protocol (external, not verified), A3 nn.Module parameter registration model (attribute assignment / register_parameter / ModuleList), A2, A9. Nothing inside Lightning / torch.optim is decided.",
    tech="contract-based deductive verification: inductive loop invariant over a symbolic family of conditions + postconditions, z3")

CLAIMED["C17"] = dict(cat="other", sec="DESIGN 4/C17",
    text="D(t=T0) against the oracles of the primitive table: membership (every primitive, one and two parameter variables), volume, bounding box, sampling and boundary (interval, circle, sphere), frame (original unchanged), free variables before and after; Boolean operations / product / translate / rotate / boundary over abstract operands whose own __call__ is the contract 'denotes the operand at the values': commutation with partial evaluation, flags, volume rules, necessary_variables = free variables.",
    note="A1, A2, A3, A8, A9; operand contract for abstract domains. Bounded: parameter variables schematic ('t' or 't','s'). Known findings F21, F04b (open).",
    tech="contract-based deductive verification (schematic in the parameter variables): VCs from the real AST, z3")

CLAIMED["C03"] = dict(cat="other", sec="DESIGN 4/C03",
    text="grad, laplacian, div, jac, rot, partial, normal_derivative, convective, sym_grad, matrix_div executed on symbolic batches with outputs u_c = U_c(x_row, t_row) for ARBITRARY smooth U_c: each result row equals the analytic expression in the derivative symbols (hence depends on its own row only); closed-form outputs (x^2, 3x, x*t, x^2+t) prove that identically vanishing derivatives come back as zeros, not errors.",
    note="A4: torch.autograd.grad = exact structural derivative of the element term (tpv.jets), RuntimeError iff the variable does not occur in the graph (calibrated against real torch on the closed forms); A1 (no float32/float64 distinction), A2, A3, A9. Bounded: schematic numbers of variable / output components; derivative order <= 2.",
    tech="contract-based deductive verification over a symbolic jet domain (structural differentiation of the executed terms), z3")

CLAIMED["C09"] = dict(cat="other", sec="DESIGN 4/C09",
    text="DeepONet.forward = per-component inner product over a SYMBOLIC neuron count for shared and per-function trunk inputs (abstract trunk/branch features), identical feature layout c*q+k <-> (c,k) of the trunk and branch reshapes, the four ways of supplying the branch input hand the branch network D[b,i,:] = f_b(p_i), layers.linear forward (first copy; equals the plain layer when all copies are identical) and backward formulas (g W, g^T x per copy, sum g).",
    note="A3 torch model (matmul, expand, reshape), A4 autograd: sum_to_size reduction of the returned gradients and double-backward through differentiable ops (second derivatives of the fast path are inherited from it, NOT proved), A2, A8, A9. Bounded: output dimension and feature counts schematic.",
    tech="contract-based deductive verification with abstract trunk/branch operands and symbolic sums, z3")

CLAIMED["C11"] = dict(cat="proof", sec="DESIGN 4/C11, 10.2",
    text="PARTIAL: only the per-call clauses. Latin hypercube (_create_lhs_in_bounding_box): for every outcome of the random generator, on every axis row r lies in the half-open slab given by the drawn permutation and every slab is hit by exactly one row (bijection from the randperm contract), points stay in the box. Interval.sample_random_uniform is the affine image lo + (hi-lo)*u of the uniform variate (inverse-CDF condition); the closed-form circle and parallelogram samplers have a constant Jacobian (= the measure); a union mixes row (k, j) with the volume ratio vol_A(p_k)/(vol_A(p_k)+vol_B(p_k)) of its own parameter row (abstract operands). Uniformity after rejection, dependent products, the Gaussian law and grid evenness are statements about push-forward measures and are NOT decided.",
    note="A1, A3 (torch.rand in [0,1), randperm is a permutation), A9. The distribution laws themselves are not applicable to this technique; only necessary per-call conditions are proved.",
    tech="contract-based deductive verification of per-call postconditions (all outcomes of the random generator), z3")

NA = {
 "C11_unused": "distribution laws (uniformity, Gaussian law, grid evenness) are statements about the push-forward of a probability measure over all outcomes of the random generator; a contract over one call's return value cannot express them, and the per-call necessary conditions (constant Jacobian of the closed-form samplers, one point per LHS slab) were not brought under contract in this session (DESIGN 4/C11, 10.2)",
 "C19": "restore fidelity is a property of Lightning's checkpoint / torch.save machinery, the file system and process restarts; no contract on a repo function expresses it (DESIGN 4/C19)",
 "C20": "shift-equivariance / resolution consistency are DFT theorems about torch.fft in complex floating point; a contract on _FourierLayer.forward could only restate them as axioms of an external library (DESIGN 4/C20)",
}
NOT_YET = "not reached yet by the tpv engine in this session (see DESIGN 9: a property whose obligations are not generated is not claimed)"
for _p in ("C04", "C08", "C12", "C14"):
    CLAIMED[_p]["cat"] = "other"  # every obligation is schematic in a structure size -> not counted as proof
FALLBACK_NOTE = " Loop contracts name loop state by local names that are re-aligned with the current source on every run (use signatures + loop-carried role, contracts/baseline_locals.json); a loop whose contract no longer fits gives UNDECIDED (exit 2), never a VIOLATION by itself."
FALLBACK_TECH = "; behind an UNDECIDED loop contract (and always in the thorough tier) a BOUNDED native run-time contract check on enumerated instances (replays/loop_fallback.py) -- it can only add a violation with a replayed concrete input, is labelled bounded and is never counted as proved"
props = [json.loads(l)["id"] for l in open(os.path.join(V, "properties.jsonl"))]
checks = []
for p in props:
    if p in CLAIMED:
        c = CLAIMED[p]
        checks.append({
            "property_id": p,
            "quick_cmd": f"./check {p} --tier quick",
            "thorough_cmd": f"./check {p} --tier thorough",
            "evidence_file": f"/verif/evidence/{p}.json",
            "replay_cmd_template": "/venv/bin/python {path}",
            "engine": "tpv",
            "level_claimed": {"category": c["cat"], "text": c["text"], "design_ref": c["sec"]},
            "level_note": c["note"] + (FALLBACK_NOTE if p in ("C01", "C02", "C04", "C16") else ""),
            "technique": c["tech"] + (FALLBACK_TECH if p in ("C01", "C02", "C04", "C16") else ""),
        })
na = [{"property_id": p, "reason": NA.get(p, NOT_YET)} for p in props if p not in CLAIMED]
m = {
 "version": 1,
 "setup_cmd": "bash /verif/tools/setup.sh",
 "hooks": {"guard": "TORCHPHYSICS_VERIF", "enable": "none needed: contracts are sidecar files under /verif/contracts, tpv reads /repo/src on every run", "baseline_off_cmd": "cd /repo && /venv/bin/python -m pytest -ra -q -p no:cacheprovider --timeout=900 --continue-on-collection-errors", "source_commits": [], "add_only": True},
 "engines": [{"name": "tpv", "path": "/verif/tpv", "serves_properties": sorted(CLAIMED), "kind_free_text": "AST-walking symbolic interpreter for the repo's Python subset + lazy tensor model of torch; sidecar contracts; obligations discharged by z3 (cvc5 second opinion)"}],
 "checks": checks,
 "not_applicable": na,
 "notes": "exit codes of ./check: 0 held, 1 violation (VIOLATION line), 2 undecided, 3 checker error. Known findings in /verif/known_findings.json.",
}
json.dump(m, open(os.path.join(V, "MANIFEST.json"), "w"), indent=1)
print("claimed", sorted(CLAIMED), "na", len(na))
