#!/bin/bash
# offline setup: only validates that the tools the checks need are present
set -e
command -v python3-vt >/dev/null
python3-vt -c "import z3, sys; assert z3.get_version() >= (4, 8, 0)"
test -x /venv/bin/python
test -d /repo/src/torchphysics
echo "tpv setup ok"
